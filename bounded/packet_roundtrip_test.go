package spec_2022_test

// Bounded stand-in for the whole-operation clauses of
//
//	C03 "Interest and Data packets survive encode->decode unchanged for all field values",
//	C12 "Signed packets verify iff untampered; signer and parser cover the same bytes",
//	C13 (the packet models only) "an unrecognised non-critical element inserted at any position is skipped ... an unrecognised
//	    critical element causes rejection unless the caller asked to ignore it".
//
// The REAL Spec.MakeInterest / Spec.MakeData / ReadPacket / ReadInterest / ReadData, the shipped signers and validators and the
// standalone name encoders are driven; the oracle is written from the property statements and the NDN packet format only:
//   * a minimal TLV walker of this file re-parses every produced packet (exact lengths) and extracts the fields, so the
//     produced bytes are compared with the INPUTS of MakeInterest/MakeData, not with what the decoder under test says;
//   * the signed portion is computed from the packet format (Data: Name .. SignatureInfo; Interest: name components except
//     the parameters digest, then ApplicationParameters .. SignatureInfo) and the parameters digest as SHA-256 over
//     ApplicationParameters .. end of the Interest;
//   * decoding is expected to return exactly the inputs, for every presentation of the same bytes.
//
// Clauses (sentence of the property -> check name):
//   C03 "is a well-formed NDN TLV whose every length field is exact"                      -> wellformed, wire-length
//   C03 (the bytes say what was asked for)                                                -> encode-fields
//   C03 "decoding those bytes, whether presented contiguously or split into segments at arbitrary offsets, yields exactly
//        the same name, fields, content and signature value"                             -> decode-contiguous, decode-segmented
//   C03 "The standalone name and component encoders produce the same bytes as the packet encoder ... and decoding them
//        returns the name they were given"                                               -> name-bytes, component-bytes, name-decode
//   C12 "decodes to a signed portion equal to the bytes that signer was asked to sign"     -> sigcovered-signer, sigcovered-encoded,
//                                                                                           sigcovered-parsed
//   C12 "so the matching validator accepts it"                                            -> validate-accept
//   C12 "flipping any single bit ... inside the signed portion, the signature value or an Interest's parameters makes
//        decoding fail or the validator reject it"                                       -> tamper-signed, tamper-params
//   C12 "An Interest with parameters always carries the correct parameters digest as its last name component, and one
//        whose digest does not match is rejected on decode"                              -> digest-present, digest-reject
//   C13 unknown non-critical element skipped / critical rejected unless ignored           -> unknown-noncritical, unknown-critical,
//                                                                                           unknown-critical-ignored

import (
	"bytes"
	"crypto/ecdsa"
	"crypto/elliptic"
	"crypto/rand"
	"crypto/rsa"
	"crypto/sha256"
	"fmt"
	"os"
	"runtime/debug"
	"strconv"
	"strings"
	"testing"
	"time"

	enc "github.com/named-data/ndnd/std/encoding"
	"github.com/named-data/ndnd/std/ndn"
	spec "github.com/named-data/ndnd/std/ndn/spec_2022"
	sec "github.com/named-data/ndnd/std/security"
)

// ---- independent TLV walker ------------------------------------------------------------------------------------------

type prtNode struct {
	typ             uint64
	start, val, end int
	kids            []*prtNode
	container       bool
}

func prtVarNum(b []byte, off, end int) (v uint64, n int, ok bool) {
	if off >= end {
		return 0, 0, false
	}
	switch {
	case b[off] < 253:
		return uint64(b[off]), 1, true
	case b[off] == 253:
		n = 3
	case b[off] == 254:
		n = 5
	default:
		n = 9
	}
	if off+n > end {
		return 0, 0, false
	}
	for _, x := range b[off+1 : off+n] {
		v = v<<8 | uint64(x)
	}
	return v, n, true
}

// which element types are structured, by the type of the enclosing element (0 = top level)
var prtContainers = map[uint64][]uint64{
	0: {5, 6}, 5: {7, 0x1e, 0x2c}, 6: {7, 0x14, 0x16}, 0x1e: {7}, 0x14: {0x1a}, 0x16: {0x1c, 0xfd}, 0x2c: {0x1c, 0xfd}, 0x1c: {7},
}

func prtWalk(b []byte, off, end int, parent uint64) ([]*prtNode, string) {
	var out []*prtNode
	for off < end {
		typ, n, ok := prtVarNum(b, off, end)
		if !ok {
			return nil, fmt.Sprintf("type number at offset %d runs past the end of the enclosing element (%d)", off, end)
		}
		l, m, ok := prtVarNum(b, off+n, end)
		if !ok {
			return nil, fmt.Sprintf("length of element %#x at offset %d runs past the end of the enclosing element (%d)", typ, off, end)
		}
		if l > uint64(end-off-n-m) {
			return nil, fmt.Sprintf("element %#x at offset %d announces %d value bytes, the enclosing element has %d left", typ, off, l, end-off-n-m)
		}
		nd := &prtNode{typ: typ, start: off, val: off + n + m, end: off + n + m + int(l)}
		for _, c := range prtContainers[parent] {
			if c == typ {
				nd.container = true
				kids, p := prtWalk(b, nd.val, nd.end, typ)
				if p != "" {
					return nil, p
				}
				nd.kids = kids
			}
		}
		out = append(out, nd)
		off = nd.end
	}
	return out, ""
}

func (n *prtNode) kid(typ uint64) *prtNode {
	for _, k := range n.kids {
		if k.typ == typ {
			return k
		}
	}
	return nil
}

func prtNat(b []byte) (uint64, bool) {
	if len(b) != 1 && len(b) != 2 && len(b) != 4 && len(b) != 8 {
		return 0, false
	}
	v := uint64(0)
	for _, x := range b {
		v = v<<8 | uint64(x)
	}
	return v, true
}

// ---- the field view: what a packet says, independent of representation ----------------------------------------------

type prtComp struct {
	typ uint64
	val string
}

type prtView struct {
	data             bool
	name             []prtComp
	cbp, mbf         bool
	fh               [][]prtComp
	hasFH            bool
	nonce, life, hop *uint64
	ctype, fresh     *uint64
	fbi              *prtComp
	payload          string
	hasPayload       bool
	sigType          int64
	keyName          []prtComp
	hasKey           bool
	sigNonce         string
	sigTime, sigSeq  *uint64
	notBefore        string
	notAfter         string
	sigValue         string
	hasSigValue      bool
}

func prtP(p *uint64) string {
	if p == nil {
		return "-"
	}
	return fmt.Sprint(*p)
}

func prtNameKey(sb *strings.Builder, n []prtComp) {
	var tmp [24]byte
	sb.Write(strconv.AppendInt(tmp[:0], int64(len(n)), 10))
	sb.WriteByte('[')
	for _, c := range n {
		sb.Write(strconv.AppendUint(tmp[:0], c.typ, 10))
		sb.WriteByte(':')
		sb.Write(strconv.AppendInt(tmp[:0], int64(len(c.val)), 10))
		sb.WriteByte(':')
		sb.WriteString(c.val)
		sb.WriteByte('/')
	}
	sb.WriteByte(']')
}

func (v *prtView) key() string {
	var sb strings.Builder
	var tmp [24]byte
	w := func(label string) { sb.WriteString(label) }
	wb := func(label string, b bool) {
		sb.WriteString(label)
		if b {
			sb.WriteString("true")
		} else {
			sb.WriteString("false")
		}
	}
	wp := func(label string, p *uint64) {
		sb.WriteString(label)
		if p == nil {
			sb.WriteByte('-')
		} else {
			sb.Write(strconv.AppendUint(tmp[:0], *p, 10))
		}
	}
	wi := func(label string, i int64) { sb.WriteString(label); sb.Write(strconv.AppendInt(tmp[:0], i, 10)) }
	wb("data=", v.data)
	w(" name=")
	prtNameKey(&sb, v.name)
	wb(" cbp=", v.cbp)
	wb(" mbf=", v.mbf)
	wb(" fh=", v.hasFH)
	for _, n := range v.fh {
		prtNameKey(&sb, n)
	}
	wp(" nonce=", v.nonce)
	wp(" life=", v.life)
	wp(" hop=", v.hop)
	wp(" ctype=", v.ctype)
	wp(" fresh=", v.fresh)
	w(" fbi=")
	if v.fbi != nil {
		prtNameKey(&sb, []prtComp{*v.fbi})
	}
	wb(" payload=", v.hasPayload)
	wi(":", int64(len(v.payload)))
	w(":")
	w(v.payload)
	wi(" sigType=", v.sigType)
	wb(" key=", v.hasKey)
	prtNameKey(&sb, v.keyName)
	wi(" sigNonce=", int64(len(v.sigNonce)))
	w(":")
	w(v.sigNonce)
	wp(" sigTime=", v.sigTime)
	wp(" sigSeq=", v.sigSeq)
	w(" validity=")
	w(v.notBefore)
	w("..")
	w(v.notAfter)
	wb(" sig=", v.hasSigValue)
	wi(":", int64(len(v.sigValue)))
	w(":")
	w(v.sigValue)
	return sb.String()
}

// prtDiff shows where two keys differ, for the failing-case text.
func prtDiff(want, got string) string {
	i := 0
	for i < len(want) && i < len(got) && want[i] == got[i] {
		i++
	}
	cut := func(s string) string {
		lo, hi := max(0, i-60), min(len(s), i+40)
		return fmt.Sprintf("%q", s[lo:hi])
	}
	return fmt.Sprintf("first difference at view offset %d: expected ...%s... got ...%s...", i, cut(want), cut(got))
}

func prtCompsOf(b []byte, name *prtNode) []prtComp {
	out := make([]prtComp, 0, len(name.kids))
	for _, k := range name.kids {
		out = append(out, prtComp{k.typ, string(b[k.val:k.end])})
	}
	return out
}

func prtNum(b []byte, n *prtNode, nat bool, fixed int) (*uint64, string) {
	v := b[n.val:n.end]
	if !nat && len(v) != fixed {
		return nil, fmt.Sprintf("element %#x has %d value bytes, expected %d", n.typ, len(v), fixed)
	}
	x, ok := prtNat(v)
	if !ok {
		return nil, fmt.Sprintf("element %#x: %d bytes is not a non-negative integer", n.typ, len(v))
	}
	return &x, ""
}

// prtViewOfBytes extracts the view from a walked packet (top = the Interest/Data node).
func prtViewOfBytes(b []byte, top *prtNode) (*prtView, string) {
	v := &prtView{data: top.typ == 6, sigType: -1}
	sigInfoT, sigValT, payloadT := uint64(0x2c), uint64(0x2e), uint64(0x24)
	if v.data {
		sigInfoT, sigValT, payloadT = 0x16, 0x17, 0x15
	}
	var p string
	for _, k := range top.kids {
		switch {
		case k.typ == 7:
			v.name = prtCompsOf(b, k)
		case !v.data && k.typ == 0x21:
			v.cbp = true
		case !v.data && k.typ == 0x12:
			v.mbf = true
		case !v.data && k.typ == 0x1e:
			v.hasFH = true
			for _, n := range k.kids {
				v.fh = append(v.fh, prtCompsOf(b, n))
			}
		case !v.data && k.typ == 0x0a:
			v.nonce, p = prtNum(b, k, false, 4)
		case !v.data && k.typ == 0x0c:
			v.life, p = prtNum(b, k, true, 0)
		case !v.data && k.typ == 0x22:
			v.hop, p = prtNum(b, k, false, 1)
		case v.data && k.typ == 0x14:
			for _, m := range k.kids {
				switch m.typ {
				case 0x18:
					v.ctype, p = prtNum(b, m, true, 0)
				case 0x19:
					v.fresh, p = prtNum(b, m, true, 0)
				case 0x1a:
					if len(m.kids) != 1 {
						return nil, "FinalBlockId does not hold exactly one component"
					}
					v.fbi = &prtComp{m.kids[0].typ, string(b[m.kids[0].val:m.kids[0].end])}
				}
			}
		case k.typ == payloadT:
			v.hasPayload, v.payload = true, string(b[k.val:k.end])
		case k.typ == sigInfoT:
			for _, m := range k.kids {
				switch m.typ {
				case 0x1b:
					var t *uint64
					if t, p = prtNum(b, m, true, 0); t != nil {
						v.sigType = int64(*t)
					}
				case 0x1c:
					if n := m.kid(7); n != nil {
						v.hasKey, v.keyName = true, prtCompsOf(b, n)
					}
				case 0x26:
					v.sigNonce = string(b[m.val:m.end])
				case 0x28:
					v.sigTime, p = prtNum(b, m, true, 0)
				case 0x2a:
					v.sigSeq, p = prtNum(b, m, true, 0)
				case 0xfd:
					for _, q := range m.kids {
						if q.typ == 0xfe {
							v.notBefore = string(b[q.val:q.end])
						} else if q.typ == 0xff {
							v.notAfter = string(b[q.val:q.end])
						}
					}
				}
			}
		case k.typ == sigValT:
			v.hasSigValue, v.sigValue = true, string(b[k.val:k.end])
		}
		if p != "" {
			return nil, p
		}
	}
	return v, ""
}

func prtCompsOfName(n enc.Name) []prtComp {
	out := make([]prtComp, 0, len(n))
	for _, c := range n {
		out = append(out, prtComp{uint64(c.Typ), string(c.Val)})
	}
	return out
}

func prtU(v uint64) *uint64 { return &v }

const prtTimeFmt = "20060102T150405" // ISO 8601 basic format, as the certificate format prescribes

func prtSigView(v *prtView, s ndn.Signature) {
	v.sigType = int64(s.SigType())
	if v.sigType < 0 {
		return
	}
	if k := s.KeyName(); k != nil {
		v.hasKey, v.keyName = true, prtCompsOfName(k)
	}
	v.sigNonce = string(s.SigNonce())
	if t := s.SigTime(); t != nil {
		v.sigTime = prtU(uint64(t.UnixMilli()))
	}
	v.sigSeq = s.SigSeqNum()
	if nb, na := s.Validity(); nb != nil && na != nil {
		v.notBefore, v.notAfter = nb.UTC().Format(prtTimeFmt), na.UTC().Format(prtTimeFmt)
	}
	if sv := s.SigValue(); sv != nil {
		v.hasSigValue, v.sigValue = true, string(sv)
	}
}

func prtViewOfInterest(i ndn.Interest) *prtView {
	v := &prtView{sigType: -1, name: prtCompsOfName(i.Name()), cbp: i.CanBePrefix(), mbf: i.MustBeFresh()}
	if fh := i.ForwardingHint(); fh != nil {
		v.hasFH = true
		for _, n := range fh {
			v.fh = append(v.fh, prtCompsOfName(n))
		}
	}
	v.nonce = i.Nonce()
	if l := i.Lifetime(); l != nil {
		v.life = prtU(uint64(l.Milliseconds()))
	}
	if h := i.HopLimit(); h != nil {
		v.hop = prtU(uint64(*h))
	}
	if p := i.AppParam(); p != nil {
		v.hasPayload, v.payload = true, string(p.Join())
	}
	prtSigView(v, i.Signature())
	return v
}

func prtViewOfData(d ndn.Data) *prtView {
	v := &prtView{data: true, sigType: -1, name: prtCompsOfName(d.Name())}
	if c := d.ContentType(); c != nil {
		v.ctype = prtU(uint64(*c))
	}
	if f := d.Freshness(); f != nil {
		v.fresh = prtU(uint64(f.Milliseconds()))
	}
	if f := d.FinalBlockID(); f != nil {
		v.fbi = &prtComp{uint64(f.Typ), string(f.Val)}
	}
	if c := d.Content(); c != nil {
		v.hasPayload, v.payload = true, string(c.Join())
	}
	prtSigView(v, d.Signature())
	return v
}

// ---- signers ---------------------------------------------------------------------------------------------------------

type prtTimer struct{}

func (prtTimer) Now() time.Time                              { return time.UnixMilli(1700000000123) }
func (prtTimer) Sleep(time.Duration)                         {}
func (prtTimer) Schedule(time.Duration, func()) func() error { return func() error { return nil } }
func (prtTimer) Nonce() []byte                               { return []byte{1, 2, 3, 4, 5, 6, 7, 8} }

// prtTestSigner: a signer whose signature (n bytes derived from the SHA-256 of the bytes to sign) is shorter than or as
// long as its estimate.
type prtTestSigner struct {
	est, n   int
	cfg      ndn.SigConfig
	interest bool
}

func (s *prtTestSigner) SigInfo() (*ndn.SigConfig, error) { c := s.cfg; return &c, nil }
func (s *prtTestSigner) EstimateSize() uint               { return uint(s.est) }
func prtTestSig(covered []byte, n int) []byte {
	h := sha256.Sum256(covered)
	out := make([]byte, n)
	for i := range out {
		out[i] = h[i%32] ^ byte(i/32)
	}
	return out
}
func (s *prtTestSigner) ComputeSigValue(w enc.Wire) ([]byte, error) {
	return prtTestSig(w.Join(), s.n), nil
}

// prtRec records what the packet encoder asks of the signer.
type prtRec struct {
	inner ndn.Signer
	cfg   *ndn.SigConfig
	asked []byte
	value []byte
	calls int
}

func (r *prtRec) SigInfo() (*ndn.SigConfig, error) {
	c, err := r.inner.SigInfo()
	r.cfg = c
	return c, err
}
func (r *prtRec) EstimateSize() uint { return r.inner.EstimateSize() }
func (r *prtRec) ComputeSigValue(w enc.Wire) ([]byte, error) {
	r.asked = w.Join()
	r.calls++
	v, err := r.inner.ComputeSigValue(w)
	r.value = append([]byte{}, v...)
	return v, err
}

type prtSignerKind struct {
	label    string
	signer   ndn.Signer // long-lived, as in applications; nil = unsigned
	validate func(covered enc.Wire, sig ndn.Signature) bool
	costly   bool
}

func prtName(s string) enc.Name {
	n, err := enc.NameFromStr(s)
	if err != nil {
		panic(err)
	}
	return n
}

// ---- harness state ---------------------------------------------------------------------------------------------------

type prtState struct {
	failed  map[string]bool
	cases   int
	ctx     string
	unknown bool   // the run of the unknown-element clauses (C13) instead of the round-trip clauses (C03, C12)
	harness string // name used in the BOUNDED-FAIL lines
}

func (s *prtState) fail(clause, format string, a ...interface{}) {
	if s.failed[clause] {
		return
	}
	s.failed[clause] = true
	msg := strings.ReplaceAll(fmt.Sprintf(format, a...), "\n", " ")
	if len(msg) > 900 {
		msg = msg[:900] + "..."
	}
	fmt.Printf("BOUNDED-FAIL bounded:%s#%s %s: %s\n", s.harness, clause, s.ctx, msg)
}

func (s *prtState) flush() {
	fmt.Printf("BOUNDED-CASES %d\n", s.cases)
	s.cases = 0
}

// prtCut splits b into segments at the given ascending offsets.
func prtCut(b []byte, cuts ...int) enc.Wire {
	w := make(enc.Wire, 0, len(cuts)+1)
	prev := 0
	for _, c := range cuts {
		if c <= prev || c >= len(b) {
			continue
		}
		w = append(w, b[prev:c])
		prev = c
	}
	return append(w, b[prev:])
}

func prtChunks(b []byte, size int) enc.Wire {
	var w enc.Wire
	for i := 0; i < len(b); i += size {
		w = append(w, b[i:min(len(b), i+size)])
	}
	return w
}

type prtDecoded struct {
	view     *prtView
	covered  []byte
	sig      ndn.Signature
	coveredW enc.Wire
}

// prtDecode runs one of the real decoders: how = 0 ReadPacket, 1 ReadInterest/ReadData, 2 Parse(ignoreCritical=true).
func prtDecode(r enc.ParseReader, data bool, how int) (d *prtDecoded, err error) {
	defer func() {
		if x := recover(); x != nil {
			d, err = nil, fmt.Errorf("PANIC: %v", x)
		}
	}()
	switch how {
	case 0, 2:
		var pkt *spec.Packet
		var ctx *spec.PacketParsingContext
		if how == 0 {
			pkt, ctx, err = spec.ReadPacket(r)
		} else {
			ctx = &spec.PacketParsingContext{}
			ctx.Init()
			pkt, err = ctx.Parse(r, true)
		}
		if err != nil {
			return nil, err
		}
		if data {
			if pkt.Data == nil {
				return nil, fmt.Errorf("decoded, but not as a Data")
			}
			cov := ctx.Data_context.SigCovered()
			return &prtDecoded{prtViewOfData(pkt.Data), cov.Join(), pkt.Data.Signature(), cov}, nil
		}
		if pkt.Interest == nil {
			return nil, fmt.Errorf("decoded, but not as an Interest")
		}
		cov := ctx.Interest_context.SigCovered()
		return &prtDecoded{prtViewOfInterest(pkt.Interest), cov.Join(), pkt.Interest.Signature(), cov}, nil
	default:
		if data {
			d, cov, err := spec.Spec{}.ReadData(r)
			if err != nil {
				return nil, err
			}
			return &prtDecoded{prtViewOfData(d), cov.Join(), d.Signature(), cov}, nil
		}
		i, cov, err := spec.Spec{}.ReadInterest(r)
		if err != nil {
			return nil, err
		}
		return &prtDecoded{prtViewOfInterest(i), cov.Join(), i.Signature(), cov}, nil
	}
}

// ---- one case --------------------------------------------------------------------------------------------------------

type prtCase struct {
	data    bool
	name    enc.Name
	icfg    ndn.InterestConfig
	dcfg    ndn.DataConfig
	payload enc.Wire // application parameters / content; nil = absent
	signer  *prtSignerKind
	deep    bool // every split point / every bit, where the size allows
}

func prtCloneName(n enc.Name) enc.Name {
	out := make(enc.Name, len(n), len(n)+1)
	for i, c := range n {
		out[i] = enc.Component{Typ: c.Typ, Val: append([]byte{}, c.Val...)}
	}
	return out
}

func (s *prtState) expected(c *prtCase, rec *prtRec) *prtView {
	v := &prtView{data: c.data, sigType: -1, name: prtCompsOfName(c.name)}
	if c.payload != nil {
		v.hasPayload, v.payload = true, string(c.payload.Join())
	}
	if c.data {
		if c.dcfg.ContentType != nil {
			v.ctype = prtU(uint64(*c.dcfg.ContentType))
		}
		if c.dcfg.Freshness != nil {
			v.fresh = prtU(uint64(c.dcfg.Freshness.Milliseconds()))
		}
		if c.dcfg.FinalBlockID != nil {
			v.fbi = &prtComp{uint64(c.dcfg.FinalBlockID.Typ), string(c.dcfg.FinalBlockID.Val)}
		}
	} else {
		v.cbp, v.mbf = c.icfg.CanBePrefix, c.icfg.MustBeFresh
		if c.icfg.ForwardingHint != nil {
			v.hasFH = true
			for _, n := range c.icfg.ForwardingHint {
				v.fh = append(v.fh, prtCompsOfName(n))
			}
		}
		v.nonce = c.icfg.Nonce
		if c.icfg.Lifetime != nil {
			v.life = prtU(uint64(c.icfg.Lifetime.Milliseconds()))
		}
		if c.icfg.HopLimit != nil {
			v.hop = prtU(uint64(*c.icfg.HopLimit))
		}
	}
	if rec != nil && rec.cfg != nil && rec.cfg.Type != ndn.SignatureNone {
		g := rec.cfg
		v.sigType = int64(g.Type)
		if g.KeyName != nil && (c.data || g.Type != ndn.SignatureDigestSha256) {
			v.hasKey, v.keyName = true, prtCompsOfName(g.KeyName)
		}
		if !c.data {
			v.sigNonce = string(g.Nonce)
			v.sigSeq = g.SeqNum
			if g.SigTime != nil {
				v.sigTime = prtU(uint64(g.SigTime.UnixMilli()))
			}
		}
		if g.NotBefore != nil && g.NotAfter != nil {
			v.notBefore, v.notAfter = g.NotBefore.UTC().Format(prtTimeFmt), g.NotAfter.UTC().Format(prtTimeFmt)
		}
		v.hasSigValue, v.sigValue = true, string(rec.value)
	}
	return v
}

// prtSplitPlans: the segmentations a packet of n bytes is presented in. boundaries = offsets where an element starts/ends.
func prtSplitPlans(n int, boundaries []int, deep bool) [][]int {
	var plans [][]int
	single := map[int]bool{}
	add1 := func(c int) {
		if c > 0 && c < n && !single[c] {
			single[c] = true
			plans = append(plans, []int{c})
		}
	}
	if n <= 160 && deep {
		for c := 1; c < n; c++ {
			add1(c)
		}
	} else {
		for c := 1; c <= 12; c++ {
			add1(c)
			add1(n - c)
		}
		for _, b := range boundaries {
			for d := -1; d <= 1; d++ {
				add1(b + d)
			}
		}
	}
	// 3-way
	if n <= 40 && deep {
		for a := 1; a < n; a++ {
			for b := a + 1; b < n; b++ {
				plans = append(plans, []int{a, b})
			}
		}
	} else {
		for i := 0; i+1 < len(boundaries); i++ {
			a, b := boundaries[i], boundaries[i+1]
			plans = append(plans, []int{a + 1, b + 1}, []int{a - 1, b})
			if i+2 < len(boundaries) { // 4-way
				plans = append(plans, []int{a + 1, b - 1, boundaries[i+2] + 1})
			}
		}
	}
	return plans
}

func prtBoundaries(nodes []*prtNode, out *[]int, depth int) {
	for _, k := range nodes {
		*out = append(*out, k.start, k.val)
		if depth < 3 {
			prtBoundaries(k.kids, out, depth+1)
		}
	}
}

func (s *prtState) runCase(c *prtCase) {
	s.cases++
	defer func() {
		if x := recover(); x != nil {
			s.fail("panic", "%v", x)
		}
	}()
	var rec *prtRec
	var signer ndn.Signer
	if c.signer != nil && c.signer.signer != nil {
		rec = &prtRec{inner: c.signer.signer}
		signer = rec
	}
	name := prtCloneName(c.name)
	var wire, encCovered enc.Wire
	var finalName enc.Name
	if c.data {
		cfg := c.dcfg
		d, err := spec.Spec{}.MakeData(name, &cfg, c.payload, signer)
		if err != nil {
			s.fail("make", "MakeData refuses: %v", err)
			return
		}
		wire, encCovered = d.Wire, d.SigCovered
	} else {
		cfg := c.icfg
		i, err := spec.Spec{}.MakeInterest(name, &cfg, c.payload, signer)
		if err != nil {
			s.fail("make", "MakeInterest refuses: %v", err)
			return
		}
		wire, encCovered, finalName = i.Wire, i.SigCovered, i.FinalName
	}
	b := wire.Join()
	total := 0
	for _, seg := range wire {
		total += len(seg)
	}
	if total != len(b) || uint64(total) != wire.Length() {
		s.fail("wire-length", "segments sum to %d, Join gives %d, Length says %d", total, len(b), wire.Length())
	}

	// --- C03: well-formed, exact lengths; the bytes say what was asked for
	tops, p := prtWalk(b, 0, len(b), 0)
	if p != "" {
		s.fail("wellformed", "%d bytes: %s", len(b), p)
		return
	}
	wantTop := uint64(5)
	if c.data {
		wantTop = 6
	}
	if len(tops) != 1 || tops[0].typ != wantTop {
		s.fail("wellformed", "%d bytes are not exactly one element of type %d (%d top-level elements, first type %#x ends at %d)", len(b), wantTop, len(tops), tops[0].typ, tops[0].end)
		return
	}
	top := tops[0]
	got, p := prtViewOfBytes(b, top)
	if p != "" {
		s.fail("wellformed", "%s", p)
		return
	}
	want := s.expected(c, rec)
	nameNode := top.kid(7)
	if nameNode == nil {
		s.fail("encode-fields", "no Name element")
		return
	}
	// parameters digest (C12): last name component, SHA-256 over ApplicationParameters .. end of the Interest
	paramsNode := top.kid(0x24)
	digestAt := -1
	if !c.data && c.payload != nil {
		if paramsNode == nil {
			s.fail("encode-fields", "parameters were given but the Interest has no ApplicationParameters element")
			return
		}
		last := (*prtNode)(nil)
		if len(nameNode.kids) > 0 {
			last = nameNode.kids[len(nameNode.kids)-1]
		}
		sum := sha256.Sum256(b[paramsNode.start:top.end])
		if last == nil || last.typ != 2 || last.end-last.val != 32 {
			s.fail("digest-present", "Interest with parameters: the last name component is not a 32-byte ParametersSha256DigestComponent")
			return
		} else if !bytes.Equal(b[last.val:last.end], sum[:]) {
			s.fail("digest-present", "the digest component %x is not the SHA-256 of ApplicationParameters..end (%x)", b[last.val:last.end], sum)
		}
		digestAt = last.val
		got.name = got.name[:len(got.name)-1]
		if len(finalName) != len(c.name)+1 || !bytes.Equal(finalName.Bytes(), b[nameNode.start:nameNode.end]) {
			s.fail("name-bytes", "FinalName %d components / its Bytes() differ from the Name element of the packet", len(finalName))
		}
	}
	wantKey := want.key()
	if k := got.key(); k != wantKey {
		s.fail("encode-fields", "the produced bytes do not say what was asked for: %s", prtDiff(wantKey, k))
	}

	if s.unknown {
		// --- C13 (packet models): an unknown element at every element boundary
		if k := got.key(); k == wantKey && len(b) <= 1500 {
			s.unknownElements(c, b, top, wantKey)
		}
		return
	}

	// --- C12: the signed portion by the packet format
	var signedPortion []byte
	sigValT, sigInfoT := uint64(0x2e), uint64(0x2c)
	if c.data {
		sigValT, sigInfoT = 0x17, 0x16
	}
	sigValNode, sigInfoNode := top.kid(sigValT), top.kid(sigInfoT)
	type rng struct{ lo, hi int }
	var signedRanges []rng
	if want.sigType >= 0 && sigInfoNode != nil {
		if c.data {
			signedRanges = []rng{{nameNode.start, sigInfoNode.end}}
		} else {
			hi := nameNode.end
			if digestAt >= 0 {
				hi = nameNode.kids[len(nameNode.kids)-1].start
			}
			signedRanges = []rng{{nameNode.val, hi}, {paramsNode.start, sigInfoNode.end}}
		}
		for _, r := range signedRanges {
			signedPortion = append(signedPortion, b[r.lo:r.hi]...)
		}
	}
	if rec != nil && rec.calls > 0 {
		if !bytes.Equal(rec.asked, signedPortion) {
			s.fail("sigcovered-signer", "the signer was asked to sign %d bytes that are not the signed portion of the packet (%d bytes) %s", len(rec.asked), len(signedPortion), prtDiff(string(signedPortion), string(rec.asked)))
		}
		if !bytes.Equal(encCovered.Join(), signedPortion) {
			s.fail("sigcovered-encoded", "Encoded.SigCovered (%d bytes) is not the signed portion of the packet (%d bytes)", len(encCovered.Join()), len(signedPortion))
		}
	}

	// --- C03: standalone encoders
	if c.payload == nil || c.data {
		if nb := c.name.Bytes(); !bytes.Equal(nb, b[nameNode.start:nameNode.end]) {
			s.fail("name-bytes", "Name.Bytes() (%d bytes, starts %x) differs from the Name element of the packet (%d bytes, starts %x)", len(nb), nb[:min(8, len(nb))], nameNode.end-nameNode.start, b[nameNode.start:min(nameNode.start+8, nameNode.end)])
		}
	}
	for i, comp := range c.name {
		k := nameNode.kids[i]
		if cb := comp.Bytes(); !bytes.Equal(cb, b[k.start:k.end]) {
			s.fail("component-bytes", "component %d: Component.Bytes() (%d bytes, starts %x) differs from the component in the packet (%d bytes, starts %x)", i, len(cb), cb[:min(8, len(cb))], k.end-k.start, b[k.start:min(k.start+8, k.end)])
		} else if back, err := enc.ComponentFromBytes(cb); err != nil || back.Typ != comp.Typ || !bytes.Equal(back.Val, comp.Val) {
			s.fail("name-decode", "ComponentFromBytes(Component.Bytes()) of component %d (type %d, %d bytes): err=%v", i, comp.Typ, len(comp.Val), err)
		}
	}
	nameKey := func(n enc.Name) string {
		var sb strings.Builder
		prtNameKey(&sb, prtCompsOfName(n))
		return sb.String()
	}
	if nb := c.name.Bytes(); true {
		back, err := enc.NameFromBytes(nb)
		if err != nil || nameKey(back) != nameKey(c.name) {
			s.fail("name-decode", "NameFromBytes(Name.Bytes()): err=%v, %d components back for %d", err, len(back), len(c.name))
		}
		tl, _, _ := prtVarNum(nb, 1, len(nb)) // nb = 07 L value
		_ = tl
		nt, p := prtWalk(nb, 0, len(nb), 5)
		if p == "" && len(nt) == 1 {
			val := nb[nt[0].val:nt[0].end]
			for _, size := range []int{1, 3, 100} {
				if size == 1 && len(val) > 2000 {
					continue
				}
				back, err := enc.ReadName(enc.NewWireReader(prtChunks(val, size)))
				if len(val) == 0 {
					continue
				}
				if err != nil || nameKey(back) != nameKey(c.name) {
					s.fail("name-decode", "ReadName over the name value in %d-byte segments: err=%v, %d components back for %d", size, err, len(back), len(c.name))
				}
			}
		}
	}

	// --- C03 / C12: decoding, every presentation
	check := func(clause string, r enc.ParseReader, how int, whatf string, whata ...interface{}) *prtDecoded {
		what := whatf
		s.cases++
		d, err := prtDecode(r, c.data, how)
		if len(whata) > 0 && (err != nil || !s.failed[clause]) {
			what = fmt.Sprintf(whatf, whata...)
		}
		if err != nil {
			s.fail(clause, "%s of the %d-byte packet fails: %v", what, len(b), err)
			return nil
		}
		if !c.data && c.payload != nil && len(d.view.name) > 0 {
			d.view.name = d.view.name[:len(d.view.name)-1]
		}
		if k := d.view.key(); k != wantKey {
			s.fail(clause, "%s of the %d-byte packet: %s", what, len(b), prtDiff(wantKey, k))
		}
		if want.sigType >= 0 && !bytes.Equal(d.covered, signedPortion) {
			s.fail("sigcovered-parsed", "%s: the parser's signed portion (%d bytes) is not the signed portion of the packet (%d bytes) %s", what, len(d.covered), len(signedPortion), prtDiff(string(signedPortion), string(d.covered)))
		}
		return d
	}
	dc := check("decode-contiguous", enc.NewBufferReader(b), 0, "ReadPacket(contiguous)")
	check("decode-contiguous", enc.NewBufferReader(b), 1, "ReadInterest/ReadData(contiguous)")
	check("decode-segmented", enc.NewWireReader(wire), 0, "ReadPacket(the encoder's own segments)")
	check("decode-segmented", enc.NewWireReader(wire), 1, "ReadInterest/ReadData(the encoder's own segments)")
	var boundaries []int
	prtBoundaries(tops, &boundaries, 0)
	big := len(b) > 4000 // (a name of 64 KiB costs the decoder a megabyte per decode: few presentations)
	for _, size := range []int{1, 7, 100, 4096} {
		if size < 100 && big || size >= len(b) {
			continue
		}
		check("decode-segmented", enc.NewWireReader(prtChunks(b, size)), 0, "ReadPacket(%d-byte segments)", size)
		if size == 7 || size == 100 {
			check("decode-segmented", enc.NewWireReader(prtChunks(b, size)), 1, "ReadInterest/ReadData(%d-byte segments)", size)
		}
	}
	plans := prtSplitPlans(len(b), boundaries, c.deep)
	// all of them for the small deep cases; otherwise a rotating sample (the offset moves with the case number)
	if limit := map[bool]int{true: 12, false: 32}[big]; len(plans) > limit && !(c.deep && len(b) <= 160) {
		for i := 0; i < limit; i++ {
			plans[i] = plans[(i*len(plans)/limit+s.cases)%len(plans)]
		}
		plans = plans[:limit]
	}
	for _, cuts := range plans {
		check("decode-segmented", enc.NewWireReader(prtCut(b, cuts...)), 0, "ReadPacket(segments cut at %v)", cuts)
	}

	// --- C12: validators accept the untampered packet, in both presentations
	if c.signer != nil && c.signer.validate != nil && dc != nil {
		if !c.signer.validate(dc.coveredW, dc.sig) {
			s.fail("validate-accept", "the %s validator rejects the untampered packet (contiguous decode)", c.signer.label)
		}
		if d2, err := prtDecode(enc.NewWireReader(prtChunks(b, 5)), c.data, 0); err == nil && !c.signer.validate(d2.coveredW, d2.sig) {
			s.fail("validate-accept", "the %s validator rejects the untampered packet (decoded from 5-byte segments)", c.signer.label)
		}
	}

	// --- C12: single bit flips
	type region struct {
		lo, hi int
		clause string
	}
	var regions []region
	if want.sigType >= 0 && c.signer != nil && c.signer.validate != nil && sigValNode != nil {
		for _, r := range signedRanges {
			regions = append(regions, region{r.lo, r.hi, "tamper-signed"})
		}
		regions = append(regions, region{sigValNode.val, sigValNode.end, "tamper-signed"})
	}
	if digestAt >= 0 {
		// "inside an Interest's parameters": everything the digest covers except the type number of the ApplicationParameters
		// element itself (flipping that turns the element into another one; reported as a note, see noteParamsType)
		regions = append(regions, region{digestAt, digestAt + 32, "digest-reject"}, region{paramsNode.start + 1, top.end, "tamper-params"},
			region{paramsNode.start, paramsNode.start + 1, "note-params-type"})
	}
	// every bit for small packets of the deep cases, otherwise a spread of bits per region (the offset rotates with the case)
	budget := 16
	if c.deep && len(b) <= 90 {
		budget = 1 << 20
	}
	if c.signer != nil && c.signer.costly {
		budget = 10
	}
	if big {
		budget = 3
	}
	mut := make([]byte, len(b))
	for _, rg := range regions {
		nbits := (rg.hi - rg.lo) * 8
		if nbits == 0 {
			continue
		}
		step := max(1, nbits/budget)
		for bit := (s.cases * 7) % step; bit < nbits; bit += step {
			pos := rg.lo + bit/8
			copy(mut, b)
			mut[pos] ^= 1 << (uint(bit+bit/8/3) % 8)
			s.cases++
			for pres := 0; pres < 2; pres++ {
				var r enc.ParseReader = enc.NewBufferReader(mut)
				presName := "contiguous"
				if pres == 1 {
					// cut inside the packet so that the outer element spans two segments (and once more near the flip)
					r = enc.NewWireReader(prtCut(mut, min(len(mut)-1, max(3, len(mut)/2)), max(1, pos)))
					presName = "segmented"
				}
				d, err := prtDecode(r, c.data, pres%2)
				if err != nil {
					if strings.HasPrefix(err.Error(), "PANIC") {
						s.fail("panic", "decoding (%s) with bit %d of byte %d flipped: %v", presName, bit%8, pos, err)
					}
					continue // rejected on decode
				}
				if rg.clause == "note-params-type" {
					// C12: "flipping any single bit ... inside ... an Interest's parameters makes decoding fail or the validator ... reject it"
					s.fail("tamper-params-type", "type number of ApplicationParameters (byte %d) flipped to %#x: decodes (%s) as an Interest without parameters whose name still ends in a ParametersSha256DigestComponent", pos, mut[pos], presName)
					continue
				}
				if rg.clause != "tamper-signed" {
					s.fail(rg.clause, "byte %d (of %d) flipped, inside %s [%d,%d): still decodes (%s), digest check passed", pos, len(b), map[string]string{"digest-reject": "the parameters digest component", "tamper-params": "ApplicationParameters..end"}[rg.clause], rg.lo, rg.hi, presName)
					continue
				}
				if c.signer.validate(d.coveredW, d.sig) {
					s.fail(rg.clause, "byte %d (of %d) flipped, inside the signed portion / signature value [%d,%d): decodes (%s) and the %s validator accepts", pos, len(b), rg.lo, rg.hi, presName, c.signer.label)
				}
			}
		}
	}

}

// prtRebuild re-serialises node n with extra inserted before child index at of container target (exact, minimal lengths).
func prtRebuild(b []byte, n *prtNode, target *prtNode, at int, extra []byte) []byte {
	if !n.container || !prtContains(n, target) {
		return b[n.start:n.end]
	}
	var val []byte
	for i, k := range n.kids {
		if n == target && i == at {
			val = append(val, extra...)
		}
		val = append(val, prtRebuild(b, k, target, at, extra)...)
	}
	if n == target && at == len(n.kids) {
		val = append(val, extra...)
	}
	out := append(prtVarEnc(n.typ), prtVarEnc(uint64(len(val)))...)
	return append(out, val...)
}

func prtContains(n, target *prtNode) bool {
	if n == target {
		return true
	}
	for _, k := range n.kids {
		if prtContains(k, target) {
			return true
		}
	}
	return false
}

func prtVarEnc(v uint64) []byte {
	switch {
	case v < 253:
		return []byte{byte(v)}
	case v <= 0xffff:
		return []byte{253, byte(v >> 8), byte(v)}
	case v <= 0xffffffff:
		return []byte{254, byte(v >> 24), byte(v >> 16), byte(v >> 8), byte(v)}
	}
	panic("too long")
}

func prtInsertionPoints(n *prtNode, out *[][2]interface{}) {
	// Name (components are data, not fields) and FinalBlockId (opaque bytes) are not field sequences
	if !n.container || n.typ == 7 || n.typ == 0x1a {
		return
	}
	for i := 0; i <= len(n.kids); i++ {
		*out = append(*out, [2]interface{}{n, i})
	}
	for _, k := range n.kids {
		prtInsertionPoints(k, out)
	}
}

func (s *prtState) unknownElements(c *prtCase, b []byte, top *prtNode, wantKey string) {
	var pts [][2]interface{}
	prtInsertionPoints(top, &pts)
	extras := []struct {
		bytes    []byte
		critical bool
		what     string
	}{
		{[]byte{0xfd, 0xfe, 0x00, 0x03, 0xfd, 0x01, 0x02}, false, "non-critical element 0xFE00 (3 bytes)"},
		{[]byte{0xfd, 0xfe, 0x00, 0x00}, false, "non-critical element 0xFE00 (empty)"},
		{[]byte{0xfd, 0xfe, 0x01, 0x00}, true, "critical element 0xFE01 (odd, empty)"},
		{[]byte{0x04, 0x01, 0xcc}, true, "critical element 0x04 (<= 31)"},
	}
	for _, pt := range pts {
		target, at := pt[0].(*prtNode), pt[1].(int)
		for ei, ex := range extras {
			if (ei+s.cases/2)%2 == 0 && len(b) > 300 {
				continue // beyond 300 bytes: one non-critical and one critical variant per position, alternating
			}
			nb := append([]byte{}, prtRebuild(b, top, target, at, ex.bytes)...)
			// an Interest with parameters: the digest covers ApplicationParameters..end, bring it up to date
			if !c.data && c.payload != nil {
				tops, p := prtWalk(nb, 0, len(nb), 0)
				if p != "" || len(tops) != 1 {
					panic("harness: rebuilt packet does not walk: " + p)
				}
				nm, pr := tops[0].kid(7), tops[0].kid(0x24)
				last := nm.kids[len(nm.kids)-1]
				sum := sha256.Sum256(nb[pr.start:tops[0].end])
				copy(nb[last.val:last.end], sum[:])
			}
			where := fmt.Sprintf("%s before field %d of the %d fields of element %#x (offset %d)", ex.what, at, len(target.kids), target.typ, target.start)
			// position class: part of the clause name (the ordered packet models treat the positions differently)
			pc := "-nested"
			if target != top {
				pc += fmt.Sprintf("-%#x", target.typ)
			}
			if target == top {

				switch {
				case at == 0:
					pc = "-leading"
				case at == len(target.kids):
					pc = "-trailing"
				default:
					pc = "-between"
				}
				pc += map[bool]string{true: "-Data", false: "-Interest"}[c.data]
			}
			for pres := 0; pres < 2; pres++ {
				mk := func() enc.ParseReader {
					if pres == 0 {
						return enc.NewBufferReader(nb)
					}
					return enc.NewWireReader(prtChunks(nb, 9))
				}
				s.cases++
				d, err := prtDecode(mk(), c.data, 0)
				if !ex.critical {
					if err != nil {
						s.fail("unknown-noncritical"+pc, "%s: decoding fails: %v", where, err)
					} else if k := s.stripDigest(c, d).key(); k != wantKey {
						s.fail("unknown-noncritical"+pc, "%s: other fields change: %s", where, prtDiff(wantKey, k))
					}
					continue
				}
				if err == nil {
					s.fail("unknown-critical"+pc, "%s: accepted", where)
				}
				d, err = prtDecode(mk(), c.data, 2)
				if err != nil {
					s.fail("unknown-critical-ignored"+pc, "%s, ignoreCritical: decoding fails: %v", where, err)
				} else if k := s.stripDigest(c, d).key(); k != wantKey {
					s.fail("unknown-critical-ignored"+pc, "%s, ignoreCritical: other fields change: %s", where, prtDiff(wantKey, k))
				}
			}
		}
	}
}

func (s *prtState) stripDigest(c *prtCase, d *prtDecoded) *prtView {
	if !c.data && c.payload != nil && len(d.view.name) > 0 {
		d.view.name = d.view.name[:len(d.view.name)-1]
	}
	return d.view
}

// ---- enumeration -----------------------------------------------------------------------------------------------------

func prtBytes(n int, salt byte) []byte {
	b := make([]byte, n)
	for i := range b {
		b[i] = byte(i*7+i>>8) ^ salt
	}
	return b
}

func TestBoundedPacketRoundTrip(t *testing.T) {
	prtEnumerate(&prtState{failed: map[string]bool{}, harness: "packet-roundtrip"})
}

// TestBoundedPacketUnknownElements: the C13 clauses on the two packet models (Interest, Data) and the models nested in them:
// the same enumeration of packets (sections B and C: every combination of optional fields, every payload shape and signer),
// each with an unrecognised element inserted at every element boundary.
func TestBoundedPacketUnknownElements(t *testing.T) {
	prtEnumerate(&prtState{failed: map[string]bool{}, harness: "packet-unknown-elements", unknown: true})
}

func prtEnumerate(s *prtState) {
	t0 := time.Now()
	defer debug.SetGCPercent(debug.SetGCPercent(400))
	defer func() {
		if r := recover(); r != nil {
			s.fail("panic", "%v", r)
		}
		s.flush()
	}()

	// names: 0..3 components, lengths over the 1/3/5-byte length boundaries, types over the 1/3-byte type boundaries
	lens := []int{0, 1, 252, 253, 254, 300, 65536}
	typs := []enc.TLNum{8, 1, 32, 253, 65535}
	comp := func(t enc.TLNum, l int, salt int) enc.Component {
		return enc.Component{Typ: t, Val: prtBytes(l, byte(salt))}
	}
	var names []enc.Name
	names = append(names, enc.Name{})
	for _, l := range append([]int{249, 250, 251}, lens...) { // 249..251: the whole name crosses 253
		for _, ty := range typs {
			names = append(names, enc.Name{comp(ty, l, 1)})
		}
	}
	k := 0
	for _, l1 := range lens {
		for _, l2 := range lens {
			k++
			if (l1 == 65536 || l2 == 65536) && k%2 == 0 {
				continue // 65536-byte components in two-component names: every other combination
			}
			names = append(names, enc.Name{comp(typs[k%5], l1, 2), comp(typs[(k/5+1)%5], l2, 3)})
		}
	}
	for _, l1 := range lens {
		for _, l2 := range lens {
			for _, l3 := range lens {
				k++
				big := 0
				for _, l := range []int{l1, l2, l3} {
					if l == 65536 {
						big++
					}
				}
				if big > 1 || big == 1 && k%18 != 0 {
					continue // 65536-byte components in three-component names: every 18th of the combinations with one of them
				}
				names = append(names, enc.Name{comp(typs[k%5], l1, 4), comp(typs[(k/5)%5], l2, 5), comp(typs[(k/25+2)%5], l3, 6)})
			}
		}
	}
	if os.Getenv("PRT_TIMING") != "" {
		fmt.Println("names", len(names))
	}
	fewNames := []enc.Name{{}, prtName("/a"), {comp(8, 250, 7)}, {comp(8, 252, 8), comp(253, 254, 9)}, {comp(65535, 300, 7), comp(1, 32, 3), comp(8, 0, 0)}}

	// signers (long-lived objects, as in applications)
	hmacKey := []byte("bounded-hmac-key")
	ecKey, err := ecdsa.GenerateKey(elliptic.P256(), rand.Reader)
	if err != nil {
		panic(err)
	}
	rsaKey, err := rsa.GenerateKey(rand.Reader, 1024)
	if err != nil {
		panic(err)
	}
	keyName := prtName("/bounded/KEY/1")
	longKeyName := enc.Name{comp(8, 260, 1), comp(8, 3, 2)}
	nb, na := time.Unix(1700000000, 0), time.Unix(1800000000, 0)
	testValidate := func(n int) func(enc.Wire, ndn.Signature) bool {
		return func(cov enc.Wire, sig ndn.Signature) bool {
			return bytes.Equal(sig.SigValue(), prtTestSig(cov.Join(), n))
		}
	}
	sha := func(cov enc.Wire, sig ndn.Signature) bool { return sec.Sha256Validate(cov, sig) }
	hm := func(cov enc.Wire, sig ndn.Signature) bool { return sec.HmacValidate(cov, sig, hmacKey) }
	ec := func(cov enc.Wire, sig ndn.Signature) bool { return sec.EcdsaValidate(cov, sig, &ecKey.PublicKey) }
	rs := func(cov enc.Wire, sig ndn.Signature) bool { return sec.RsaValidate(cov, sig, &rsaKey.PublicKey) }
	tst := func(est, n int, cfg ndn.SigConfig) *prtSignerKind {
		k := &prtSignerKind{label: fmt.Sprintf("test(est=%d,sig=%d)", est, n), signer: &prtTestSigner{est: est, n: n, cfg: cfg}}
		if n >= 5 { // a shorter "signature" collides by chance
			k.validate = testValidate(n)
		}
		return k
	}
	none := &prtSignerKind{label: "none"}
	dataSigners := []*prtSignerKind{
		none,
		{label: "sha256", signer: sec.NewSha256Signer(), validate: sha},
		{label: "hmac", signer: sec.NewHmacSigner(keyName, hmacKey, false, 0), validate: hm},
		{label: "hmac-cert", signer: sec.NewHmacSigner(keyName, hmacKey, true, time.Hour), validate: hm},
		tst(10, 5, ndn.SigConfig{Type: 200, KeyName: keyName}),
		tst(256, 255, ndn.SigConfig{Type: 200, KeyName: keyName}),
		tst(300, 252, ndn.SigConfig{Type: 200}),
		tst(253, 252, ndn.SigConfig{Type: 200, KeyName: longKeyName}),
		tst(72, 70, ndn.SigConfig{Type: 200, KeyName: keyName, NotBefore: &nb, NotAfter: &na}),
		tst(252, 252, ndn.SigConfig{Type: 200, KeyName: keyName}), // the largest estimate whose Length fits one byte (boundary of MakeData's length rewrite)
		tst(252, 1, ndn.SigConfig{Type: 200, KeyName: keyName}),
		{label: "ecdsa", signer: sec.NewEccSigner(false, false, 0, ecKey, keyName), validate: ec, costly: true},
		{label: "ecdsa-cert", signer: sec.NewEccSigner(true, false, time.Hour, ecKey, keyName), validate: ec, costly: true},
		{label: "rsa", signer: sec.NewRsaSigner(false, false, 0, rsaKey, keyName), validate: rs, costly: true},
	}
	seq := uint64(1 << 40)
	sigTime := time.UnixMilli(1700000000999)
	intSigners := []*prtSignerKind{
		none,
		{label: "sha256-int", signer: sec.NewSha256IntSigner(prtTimer{}), validate: sha},
		{label: "hmac-int", signer: sec.NewHmacIntSigner(hmacKey, prtTimer{}), validate: hm},
		tst(10, 5, ndn.SigConfig{Type: 200, KeyName: keyName}),
		tst(252, 252, ndn.SigConfig{Type: 200, KeyName: longKeyName, Nonce: []byte{9, 8, 7}, SeqNum: &seq, SigTime: &sigTime}),
		tst(252, 1, ndn.SigConfig{Type: 200, KeyName: keyName, SeqNum: prtU(0)}),
		{label: "ecdsa-int", signer: sec.NewEccSigner(false, true, 0, ecKey, keyName), validate: ec, costly: true},
		{label: "rsa-int", signer: sec.NewRsaSigner(false, true, 0, rsaKey, keyName), validate: rs, costly: true},
	}

	// payloads: nil, and 0..3 buffers including empty ones, totals across 253
	payloads := []enc.Wire{
		nil, {}, {{}}, {{0x42}}, {prtBytes(252, 1)}, {prtBytes(253, 2)}, {prtBytes(300, 3)},
		{{}, {}}, {{}, prtBytes(5, 4)}, {prtBytes(5, 5), {}}, {prtBytes(100, 6), prtBytes(200, 7)}, {prtBytes(252, 8), {1}},
		{{}, {}, {}}, {{1}, {2}, prtBytes(400, 9)}, {prtBytes(3, 1), {}, prtBytes(250, 2)},
	}

	// optional-field values rotate over boundary values
	nonces := []uint64{0, 0xffffffff, 0x01020304}
	lifes := []time.Duration{0, 4 * time.Second, 255 * time.Millisecond, 65536 * time.Millisecond, (1 << 32) * time.Millisecond}
	hops := []uint{0, 255, 1}
	fhs := [][]enc.Name{{prtName("/hint")}, {prtName("/h1/x"), {comp(8, 260, 3)}}, {{}}} // at least one name: an empty ForwardingHint is not a legal element
	interestCfg := func(mask, rot int) ndn.InterestConfig {
		var c ndn.InterestConfig
		c.CanBePrefix, c.MustBeFresh = mask&1 != 0, mask&2 != 0
		if mask&4 != 0 {
			c.ForwardingHint = fhs[rot%len(fhs)]
		}
		if mask&8 != 0 {
			c.Nonce = prtU(nonces[rot%len(nonces)])
		}
		if mask&16 != 0 {
			l := lifes[rot%len(lifes)]
			c.Lifetime = &l
		}
		if mask&32 != 0 {
			h := hops[rot%len(hops)]
			c.HopLimit = &h
		}
		return c
	}
	ctypes := []ndn.ContentType{0, 1, 255, 256, 1 << 32}
	freshs := []time.Duration{0, time.Hour, 252 * time.Millisecond, 65535 * time.Millisecond}
	fbis := []enc.Component{enc.NewSegmentComponent(7), comp(8, 253, 1), comp(8, 0, 0), comp(65535, 1, 1)}
	dataCfg := func(mask, rot int) ndn.DataConfig {
		var c ndn.DataConfig
		if mask&1 != 0 {
			x := ctypes[rot%len(ctypes)]
			c.ContentType = &x
		}
		if mask&2 != 0 {
			x := freshs[rot%len(freshs)]
			c.Freshness = &x
		}
		if mask&4 != 0 {
			x := fbis[rot%len(fbis)]
			c.FinalBlockID = &x
		}
		return c
	}
	label := func(c *prtCase, what string) {
		kind := "Interest"
		if c.data {
			kind = "Data"
		}
		var nl []string
		for _, x := range c.name {
			nl = append(nl, fmt.Sprintf("%d:%dB", x.Typ, len(x.Val)))
		}
		pl := "absent"
		if c.payload != nil {
			var ls []string
			for _, x := range c.payload {
				ls = append(ls, fmt.Sprint(len(x)))
			}
			pl = "buffers[" + strings.Join(ls, ",") + "]"
		}
		cfg := fmt.Sprintf("%+v", c.icfg)
		if c.data {
			cfg = fmt.Sprintf("ContentType=%v Freshness=%v FinalBlockID=%v", c.dcfg.ContentType != nil, c.dcfg.Freshness != nil, c.dcfg.FinalBlockID != nil)
		} else {
			cfg = fmt.Sprintf("CanBePrefix=%v MustBeFresh=%v ForwardingHint=%d Nonce=%v Lifetime=%v HopLimit=%v", c.icfg.CanBePrefix, c.icfg.MustBeFresh, len(c.icfg.ForwardingHint), c.icfg.Nonce != nil, c.icfg.Lifetime != nil, c.icfg.HopLimit != nil)
		}
		s.ctx = fmt.Sprintf("[%s] %s name(type:len)=/%s %s payload=%s signer=%s", what, kind, strings.Join(nl, "/"), cfg, pl, c.signer.label)
	}
	run := func(c *prtCase, what string) {
		if !c.data && c.signer.signer != nil && c.payload == nil {
			return // a signed Interest needs parameters (MakeInterest refuses otherwise, by design)
		}
		label(c, what)
		s.runCase(c)
	}
	timing := func(what string) {
		s.flush()
		if os.Getenv("PRT_TIMING") != "" {
			fmt.Println(what, time.Since(t0))
		}
	}

	if !s.unknown {
		// (A) every name x {no optional field, every optional field} x {no payload, one buffer} x {unsigned, SHA-256}
		for ni, n := range names {
			big := n.EncodingLength() > 2000
			pl := enc.Wire{{1, 2, 3}}
			deep := !big && ni%2 == 0
			if len(n) == 3 && !big { // three components: every length triple, two of the seven variants each (rotating)
				switch ni % 3 {
				case 0:
					run(&prtCase{name: n, icfg: interestCfg(0, ni), signer: intSigners[0], deep: deep}, "A")
					run(&prtCase{data: true, name: n, dcfg: dataCfg(7, ni), payload: pl, signer: dataSigners[1], deep: !deep}, "A")
				case 1:
					run(&prtCase{name: n, icfg: interestCfg(63, ni), payload: pl, signer: intSigners[1], deep: deep}, "A")
					run(&prtCase{data: true, name: n, dcfg: dataCfg(0, ni), signer: dataSigners[0], deep: !deep}, "A")
				default:
					run(&prtCase{name: n, icfg: interestCfg(63, ni+1), signer: intSigners[0], deep: deep}, "A")
					run(&prtCase{data: true, name: n, dcfg: dataCfg(ni%8, ni), payload: pl, signer: dataSigners[ni%2], deep: !deep}, "A")
				}
				continue
			}
			run(&prtCase{name: n, icfg: interestCfg(0, ni), signer: intSigners[0], deep: deep}, "A")
			run(&prtCase{name: n, icfg: interestCfg(63, ni), payload: pl, signer: intSigners[1], deep: deep}, "A")
			run(&prtCase{data: true, name: n, dcfg: dataCfg(0, ni), signer: dataSigners[0], deep: deep}, "A")
			run(&prtCase{data: true, name: n, dcfg: dataCfg(7, ni), payload: pl, signer: dataSigners[1], deep: deep}, "A")
			if !big {
				run(&prtCase{name: n, icfg: interestCfg(63, ni+1), signer: intSigners[0], deep: !deep}, "A")
				run(&prtCase{name: n, icfg: interestCfg(0, ni), payload: pl, signer: intSigners[ni%2], deep: !deep}, "A")
				run(&prtCase{data: true, name: n, dcfg: dataCfg(0, ni), payload: pl, signer: dataSigners[1-ni%2], deep: !deep}, "A")
			}
		}
		timing("A")
	}
	// (B) every combination of optional fields x a few names x payload shapes x {unsigned, short test signature}
	for mask := 0; mask < 64; mask++ {
		for ni, n := range fewNames {
			if mask >= 8 && mask != 63 && ni != mask%5 && ni != (mask/5+2)%5 {
				continue // all five names for the masks without ForwardingHint/Nonce/Lifetime/HopLimit and for the full mask, two otherwise
			}
			for pi, pl := range []enc.Wire{nil, {{7, 7}}, {prtBytes(100, 1), prtBytes(200, 2)}} {
				if mask >= 8 && mask != 63 && pi != (mask+ni)%3 {
					continue // ... and one of the three payload shapes
				}
				run(&prtCase{name: n, icfg: interestCfg(mask, mask+ni+pi), payload: pl, signer: intSigners[0], deep: true}, "B")
				run(&prtCase{name: n, icfg: interestCfg(mask, mask+ni+pi+1), payload: pl, signer: intSigners[3], deep: ni < 2}, "B")
				if mask < 8 {
					for _, sg := range []int{0, 1, 4} {
						run(&prtCase{data: true, name: n, dcfg: dataCfg(mask, mask+ni+pi+sg), payload: pl, signer: dataSigners[sg], deep: true}, "B")
					}
				}
			}
		}
	}
	timing("B")
	// (C) every payload shape x every signer x a few field sets x two names
	for pi, pl := range payloads {
		for ni, n := range []enc.Name{prtName("/a/b"), {comp(8, 252, 8), comp(253, 254, 9)}} {
			if ni == 1 && pi%2 == 1 {
				continue // the long name: every other payload shape
			}
			for si, sg := range intSigners {
				for mi, mask := range []int{0, 63, 32, 8} {
					if s.unknown && (mi != (pi+si)%4 || sg.costly && pi > 3) {
						continue
					}
					if sg.costly && (mi > 1 || ni+mi == 2) || ni == 1 && mi == 3 {
						continue
					}
					run(&prtCase{name: n, icfg: interestCfg(mask, pi+si), payload: pl, signer: sg, deep: ni == 0}, "C")
				}
			}
			for si, sg := range dataSigners {
				for mi, mask := range []int{0, 7, 4} {
					if s.unknown && (mi != (pi+si)%3 || sg.costly && pi > 3) {
						continue
					}
					if sg.costly && (mi > 1 || ni+mi == 2) || ni == 1 && mi == 2 {
						continue
					}
					run(&prtCase{data: true, name: n, dcfg: dataCfg(mask, pi+si), payload: pl, signer: sg, deep: ni == 0}, "C")
				}
			}
		}
	}
	timing("C")
	if s.unknown {
		return
	}
	// (D) payload length sweep with signatures shorter than estimated: the outer length shrinks across 253 / 65536
	var sweep []int
	for l := 0; l <= 320; l++ {
		sweep = append(sweep, l)
	}
	for _, l := range sweep {
		pl := enc.Wire{prtBytes(l, byte(l))}
		if l%3 == 1 {
			pl = enc.Wire{prtBytes(l/2, 1), prtBytes(l-l/2, 2)}
		}
		n := fewNames[l%2]
		run(&prtCase{name: n, icfg: interestCfg([]int{0, 32, 63}[l%3], l), payload: pl, signer: intSigners[3+l%3], deep: false}, "D")
		run(&prtCase{data: true, name: n, dcfg: dataCfg(l%8, l), payload: pl, signer: dataSigners[4+l%5], deep: false}, "D")
	}
	// around 65536: for each short-signature signer the payload lengths that put the packet's value length, as estimated
	// and as finally emitted, next to the 3/5-byte boundary (lengths found by building the packet once)
	inner := func(c *prtCase) int {
		var w enc.Wire
		if c.data {
			d, err := spec.Spec{}.MakeData(prtCloneName(c.name), &c.dcfg, c.payload, c.signer.signer)
			if err != nil {
				return -1
			}
			w = d.Wire
		} else {
			i, err := spec.Spec{}.MakeInterest(prtCloneName(c.name), &c.icfg, c.payload, c.signer.signer)
			if err != nil {
				return -1
			}
			w = i.Wire
		}
		b := w.Join()
		_, n1, _ := prtVarNum(b, 0, len(b))
		v, _, _ := prtVarNum(b, n1, len(b))
		return int(v)
	}
	type sk struct {
		data   bool
		signer *prtSignerKind
		shrink int
	}
	for ki, k := range []sk{{true, dataSigners[4], 5}, {true, dataSigners[5], 1}, {true, dataSigners[6], 48}, {true, dataSigners[8], 2}, {false, intSigners[3], 5}, {false, intSigners[5], 251}, {false, intSigners[4], 0}} {
		c := &prtCase{data: k.data, name: fewNames[1], icfg: interestCfg(32, ki), dcfg: dataCfg(ki, ki), signer: k.signer, payload: enc.Wire{prtBytes(65000, 1)}}
		over := inner(c) - 65000
		if over < 0 {
			continue
		}
		for _, target := range []int{65535 - k.shrink, 65536 - k.shrink, 65537 - k.shrink, 65534, 65535, 65536, 65537, 65536 + k.shrink/2, 65535 + k.shrink} {
			l := target - over
			c2 := *c
			c2.payload = enc.Wire{prtBytes(l/3, 2), prtBytes(l-l/3, 3)}
			if got := inner(&c2); got != target { // the payload's own length field changes width at 65536
				l -= got - target
				c2.payload = enc.Wire{prtBytes(l, 4)}
			}
			run(&c2, "D")
		}
	}
	timing("D")
}
