package face

// Bounded stand-in for property C10 ("Link-layer fragmentation and reassembly reproduce every packet exactly").
//
// It stands in for the clauses the deductive check leaves undecided: the closed form of the fragment count and the
// sequence advance (nonlinear arithmetic) and the whole-history statement that any arrival order / interleaving of the
// frames of several packets delivers each packet exactly once.
//
// The REAL sendPacket / handleIncomingFrame are driven through a recording transport (frames the sender hands to
// transport.sendFrame) and a recording forwarding thread (packets the receiver dispatches). The oracle is written from the
// property statement and the NDNLPv2 frame layout only: frames are decoded by a minimal TLV walker of this file (never by
// the generated decoder), "fits" is decided from a header budget table written from the NDNLPv2 layout, and the expected
// delivery is simply "the packet that was sent".
//
// Clauses (sentence of the property -> check name):
//   [fit]        "every frame the link service emits fits within the MTU"
//   [wellformed] (implied by "a peer link service that receives those frames"): every frame is one LpPacket (or one bare
//                packet) whose TLV lengths are exact
//   [one]        "A packet that fits is sent as one frame" (fits = packet + worst-case header of the face's CURRENT options,
//                token and mark <= MTU), and that frame carries the whole packet
//   [drop]       "with fragmentation disabled an oversize packet is dropped, never truncated": nothing is sent
//   [fragfields] FragIndex = position, FragCount = number of frames, Sequence = first+position; first = one past the last
//                sequence number this face used (distinct packets never share a base sequence: needed for "interleaved with
//                the fragments of other packets")
//   [count]      number of frames = ceil(len/payload budget) (closed form left undecided by the prover)
//   [payload]    the payloads, in FragIndex order, concatenate to exactly the packet; none is empty
//   [deliver-*]  "a peer link service that receives those frames - in any order and interleaved with the fragments of other
//                packets - delivers exactly the original packet bytes, once, together with its PIT token and congestion mark":
//                in order, reverse order, every permutation (<= 4 frames), two interleavings with a second packet's frames.

import (
	"bytes"
	"fmt"
	"io"
	stdlog "log"
	"os"
	"runtime/debug"
	"testing"
	"time"

	defn "github.com/named-data/ndnd/fw/defn"
	"github.com/named-data/ndnd/fw/dispatch"
	"github.com/named-data/ndnd/fw/fw"
	spec "github.com/named-data/ndnd/std/ndn/spec_2022"
)

// ---- recording transport / forwarding thread -------------------------------------------------------------------------

type lprtTransport struct {
	*NullTransport
	frames [][]byte
	queue  uint64
}

func (t *lprtTransport) sendFrame(f []byte)       { t.frames = append(t.frames, append([]byte(nil), f...)) }
func (t *lprtTransport) GetSendQueueSize() uint64 { return t.queue }
func (t *lprtTransport) runReceive()              {}
func (t *lprtTransport) Close()                   {}
func (t *lprtTransport) String() string           { return "lprt-transport" }

type lprtSink struct{ got []*defn.Pkt }

func (s *lprtSink) String() string            { return "lprt-sink" }
func (s *lprtSink) QueueData(p *defn.Pkt)     { s.got = append(s.got, p) }
func (s *lprtSink) QueueInterest(p *defn.Pkt) { s.got = append(s.got, p) }
func (s *lprtSink) GetNumPitEntries() int     { return 0 }
func (s *lprtSink) GetNumCsEntries() int      { return 0 }

func lprtTransportNew(mtu int) *lprtTransport {
	tr := &lprtTransport{NullTransport: MakeNullTransport()}
	tr.SetMTU(mtu)
	return tr
}

// ---- independent TLV walker (NDN packet format: 1/3/5/9-byte variable-size numbers) ----------------------------------

func lprtVarNum(b []byte) (v uint64, n int, ok bool) {
	if len(b) == 0 {
		return 0, 0, false
	}
	switch {
	case b[0] < 253:
		return uint64(b[0]), 1, true
	case b[0] == 253:
		n = 3
	case b[0] == 254:
		n = 5
	default:
		n = 9
	}
	if len(b) < n {
		return 0, 0, false
	}
	for _, x := range b[1:n] {
		v = v<<8 | uint64(x)
	}
	return v, n, true
}

func lprtTLV(b []byte) (typ uint64, val, rest []byte, ok bool) {
	typ, n, ok := lprtVarNum(b)
	if !ok {
		return
	}
	l, m, ok := lprtVarNum(b[n:])
	if !ok || uint64(len(b)-n-m) < l {
		return 0, nil, nil, false
	}
	return typ, b[n+m : n+m+int(l)], b[n+m+int(l):], true
}

func lprtNat(b []byte) (uint64, bool) {
	if len(b) != 1 && len(b) != 2 && len(b) != 4 && len(b) != 8 {
		return 0, false
	}
	v := uint64(0)
	for _, x := range b {
		v = v<<8 | uint64(x)
	}
	return v, true
}

type lprtFrame struct {
	bare                     bool
	seq, idx, cnt            *uint64
	token                    []byte
	hasToken                 bool
	mark, inFace             *uint64
	payload                  []byte
	hasPayload               bool
	nSeq, nIdx, nCnt, nFragT int
}

// lprtDecode decodes one frame as NDNLPv2 (LpPacket 0x64: Sequence 0x51, FragIndex 0x52, FragCount 0x53, PitToken 0x62,
// IncomingFaceId 0x032C, CongestionMark 0x0340, Fragment 0x50); "" = fine.
func lprtDecode(f []byte) (fr lprtFrame, problem string) {
	typ, val, rest, ok := lprtTLV(f)
	if !ok {
		return fr, "outer TLV does not parse / length exceeds the frame"
	}
	if len(rest) != 0 {
		return fr, fmt.Sprintf("%d bytes after the outer TLV", len(rest))
	}
	if typ == 0x05 || typ == 0x06 {
		fr.bare, fr.payload, fr.hasPayload = true, f, true
		return fr, ""
	}
	if typ != 0x64 {
		return fr, fmt.Sprintf("outer type %#x is neither LpPacket nor Interest/Data", typ)
	}
	for len(val) > 0 {
		t, v, r, ok := lprtTLV(val)
		if !ok {
			return fr, "LpPacket field does not parse / length exceeds the LpPacket"
		}
		val = r
		num := func(dst **uint64, cnt *int) string {
			x, ok := lprtNat(v)
			if !ok {
				return fmt.Sprintf("field %#x has a %d-byte number", t, len(v))
			}
			*dst = &x
			if cnt != nil {
				*cnt++
			}
			return ""
		}
		p := ""
		switch t {
		case 0x51:
			p = num(&fr.seq, &fr.nSeq)
		case 0x52:
			p = num(&fr.idx, &fr.nIdx)
		case 0x53:
			p = num(&fr.cnt, &fr.nCnt)
		case 0x62:
			fr.token, fr.hasToken = v, true
		case 0x032C:
			p = num(&fr.inFace, nil)
		case 0x0340:
			p = num(&fr.mark, nil)
		case 0x50:
			fr.payload, fr.hasPayload = v, true
			fr.nFragT++
		}
		if p != "" {
			return fr, p
		}
	}
	if fr.nSeq > 1 || fr.nIdx > 1 || fr.nCnt > 1 || fr.nFragT > 1 {
		return fr, "repeated Sequence/FragIndex/FragCount/Fragment field"
	}
	return fr, ""
}

// ---- packets of an exact size ----------------------------------------------------------------------------------------

func lprtTL(typ byte, l int) []byte {
	if l < 253 {
		return []byte{typ, byte(l)}
	}
	return []byte{typ, 0xFD, byte(l >> 8), byte(l)}
}

func lprtFill(n int, salt byte) []byte {
	b := make([]byte, n)
	for i := range b {
		b[i] = byte(i*131+(i>>8)*17) + salt
	}
	return b
}

// lprtPacket builds a well-formed Data (interest=false: name, Content) or Interest (name with one long component, Nonce)
// whose wire is exactly n bytes; nil when no TLV of that size exists (255, 256) or n is too small.
func lprtPacket(n int, interest bool, salt byte) []byte {
	for k := 1; k <= 6; k++ {
		first := append([]byte{0x08, byte(k)}, bytes.Repeat([]byte{'a' + salt%20}, k)...)
		for filler := 0; filler <= n; filler++ {
			var inner []byte
			if interest {
				comp := append(lprtTL(0x08, filler), lprtFill(filler, salt)...)
				name := append(lprtTL(0x07, len(first)+len(comp)), first...)
				name = append(name, comp...)
				inner = append(name, 0x0A, 4, 1, 2, 3, salt)
			} else {
				name := append(lprtTL(0x07, len(first)), first...)
				inner = append(name, lprtTL(0x15, filler)...)
				inner = append(inner, lprtFill(filler, salt)...)
			}
			typ := byte(0x06)
			if interest {
				typ = 0x05
			}
			total := len(lprtTL(typ, len(inner))) + len(inner)
			if total == n {
				return append(lprtTL(typ, len(inner)), inner...)
			}
			if total > n {
				break
			}
			if n-total > 8 { // jump close to the target
				filler += n - total - 8
			}
		}
	}
	return nil
}

// ---- the header budget, written from the NDNLPv2 layout --------------------------------------------------------------

type lprtCfg struct {
	frag, inFace, marking, viaSet, congested bool
}

// lprtBudget: worst-case bytes a frame spends on anything but packet bytes, for a face with these options sending a packet
// with this token / mark: LpPacket type+3-byte length, Fragment type+3-byte length; with fragmentation: Sequence (1+1+8),
// FragIndex and FragCount (1+1+2 each: up to 8800 fragments); IncomingFaceId (3+1+8); PitToken (1+1+len); CongestionMark
// (3+1+8) when the packet is marked or the face may mark it itself.
func lprtBudget(c lprtCfg, tokenLen int, marked bool) int {
	b := 1 + 3 + 1 + 3
	if c.frag {
		b += 1 + 1 + 8 + 2*(1+1+2)
	}
	if c.inFace {
		b += 3 + 1 + 8
	}
	if tokenLen > 0 {
		b += 1 + 1 + tokenLen
	}
	if marked || c.marking {
		b += 3 + 1 + 8
	}
	return b
}

// ---- harness ---------------------------------------------------------------------------------------------------------

type lprtState struct {
	failed map[string]bool
	cases  int
}

func (s *lprtState) fail(clause, format string, a ...interface{}) {
	if s.failed[clause] {
		return
	}
	s.failed[clause] = true
	fmt.Printf("BOUNDED-FAIL bounded:lp-roundtrip#%s %s\n", clause, fmt.Sprintf(format, a...))
}

func lprtOptions(c lprtCfg) NDNLPLinkServiceOptions {
	o := MakeNDNLPLinkServiceOptions()
	o.IsFragmentationEnabled = c.frag
	o.IsIncomingFaceIndicationEnabled = c.inFace
	o.IsCongestionMarkingEnabled = c.marking
	if c.congested {
		o.DefaultCongestionThresholdBytes = 0
		o.BaseCongestionMarkingInterval = 0
	}
	return o
}

func lprtSender(mtu int, c lprtCfg) (*NDNLPLinkService, *lprtTransport) {
	tr := lprtTransportNew(mtu)
	if c.congested {
		tr.queue = 1 << 40
	}
	if !c.viaSet {
		return MakeNDNLPLinkService(tr, lprtOptions(c)), tr
	}
	// face update: the face is made with the opposite fragmentation / incoming-face settings, then SetOptions
	other := c
	other.frag, other.inFace = !c.frag, !c.inFace
	l := MakeNDNLPLinkService(tr, lprtOptions(other))
	l.SetOptions(lprtOptions(c))
	return l, tr
}

type lprtMsg struct {
	raw    []byte
	token  []byte
	mark   *uint64
	valid  bool
	frames [][]byte
}

func lprtU64(v uint64) *uint64 { return &v }

func lprtSend(l *NDNLPLinkService, tr *lprtTransport, m *lprtMsg, interest bool) {
	l3 := &spec.Packet{}
	if interest {
		l3.Interest = &spec.Interest{}
	} else {
		l3.Data = &spec.Data{}
	}
	// the packet arrived with another token than the one it leaves with
	in := &defn.Pkt{Raw: m.raw, L3: l3, CongestionMark: m.mark, PitToken: []byte{7, 7}}
	tr.frames = nil
	sendPacket(l, dispatch.OutPkt{Pkt: in, PitToken: m.token, InFace: lprtU64(1 << 40)})
	m.frames = tr.frames
	tr.frames = nil
}

func lprtPerms(n int) [][]int {
	if n == 1 {
		return [][]int{{0}}
	}
	var out [][]int
	for _, p := range lprtPerms(n - 1) {
		for pos := 0; pos <= len(p); pos++ {
			q := append(append(append([]int{}, p[:pos]...), n-1), p[pos:]...)
			out = append(out, q)
		}
	}
	return out
}

// deliver feeds frames to the receiver (whose partial-message store is empty again after every complete delivery) and checks that exactly the messages in want arrive, once each.
func (s *lprtState) deliver(clause string, rx *NDNLPLinkService, sink *lprtSink, frames [][]byte, want []*lprtMsg, congested bool, ctx lprtCtx) {
	sink.got = nil
	for _, f := range frames {
		rx.handleIncomingFrame(f)
	}
	s.cases++
	if len(sink.got) != len(want) {
		s.fail(clause, "%v: %d packets delivered for %d packets sent in %d frames", ctx, len(sink.got), len(want), len(frames))
		return
	}
	used := make([]bool, len(sink.got))
	for wi, w := range want {
		found := -1
		for i, g := range sink.got {
			if !used[i] && bytes.Equal(g.Raw, w.raw) {
				found = i
				break
			}
		}
		if found < 0 {
			d, g := 0, sink.got[min(wi, len(sink.got)-1)].Raw
			for d < len(g) && d < len(w.raw) && g[d] == w.raw[d] {
				d++
			}
			s.fail(clause, "%v: packet %d (%d bytes) not delivered byte-identically (a delivered packet has %d bytes, first difference at offset %d)", ctx, wi, len(w.raw), len(g), d)
			return
		}
		used[found] = true
		g := sink.got[found]
		if !bytes.Equal(g.PitToken, w.token) {
			s.fail(clause+"-token", "%v: packet %d sent with PIT token %x delivered with %x", ctx, wi, w.token, g.PitToken)
		}
		switch {
		case congested: // the face may replace the mark by its own; a marked packet must stay marked
			if w.mark != nil && g.CongestionMark == nil {
				s.fail(clause+"-mark", "%v: marked packet %d delivered without congestion mark", ctx, wi)
			}
		case (g.CongestionMark == nil) != (w.mark == nil) || (w.mark != nil && *g.CongestionMark != *w.mark):
			s.fail(clause+"-mark", "%v: packet %d sent with congestion mark %v delivered with %v", ctx, wi, lprtShow(w.mark), lprtShow(g.CongestionMark))
		}
	}
}

type lprtCtx struct {
	mtu, tokenLen, n int
	c                lprtCfg
	mark             *uint64
	order            string
}

func (x lprtCtx) String() string {
	return fmt.Sprintf("mtu=%d frag=%v inFace=%v marking=%v congested=%v viaSetOptions=%v token=%dB mark=%s size=%d%s",
		x.mtu, x.c.frag, x.c.inFace, x.c.marking, x.c.congested, x.c.viaSet, x.tokenLen, lprtShow(x.mark), x.n, x.order)
}

func (x lprtCtx) with(order string) lprtCtx { x.order = " " + order; return x }

func lprtShow(p *uint64) string {
	if p == nil {
		return "none"
	}
	return fmt.Sprint(*p)
}

func TestBoundedLpRoundTrip(t *testing.T) {
	stdlog.SetOutput(io.Discard) // the link service logs every drop
	defer stdlog.SetOutput(os.Stderr)
	defer debug.SetGCPercent(debug.SetGCPercent(1000)) // the receiver allocates a maximum-size buffer per reassembly
	oldThreads, oldDispatch, oldMarking := fw.Threads, dispatch.FWDispatch, congestionMarking
	defer func() { fw.Threads, dispatch.FWDispatch, congestionMarking = oldThreads, oldDispatch, oldMarking }()
	sink := &lprtSink{}
	fw.Threads = make([]*fw.Thread, 1)
	dispatch.InitializeFWThreads([]dispatch.FWThread{sink})

	s := &lprtState{failed: map[string]bool{}}
	t0 := time.Now()
	defer func() {
		if r := recover(); r != nil {
			s.fail("panic", "%v", r)
		}
		fmt.Printf("BOUNDED-CASES %d\n", s.cases)
	}()

	pktCache := map[[2]int][]byte{}
	packet := func(n int, interest bool) []byte {
		k := [2]int{n, 0}
		if interest {
			k[1] = 1
		}
		if p, ok := pktCache[k]; ok {
			return p
		}
		p := lprtPacket(n, interest, byte(3+k[1]*40))
		pktCache[k] = p
		return p
	}
	perms := map[int][][]int{}
	for k := 1; k <= 4; k++ {
		perms[k] = lprtPerms(k)
	}

	var cfgs []lprtCfg
	for _, viaSet := range []bool{false, true} {
		for _, frag := range []bool{true, false} {
			for _, inFace := range []bool{false, true} {
				for _, marking := range []bool{false, true} {
					cfgs = append(cfgs, lprtCfg{frag: frag, inFace: inFace, marking: marking, viaSet: viaSet})
				}
			}
		}
	}
	// a face that marks congestion itself (queue over the threshold, every packet after the first is marked)
	cfgs = append(cfgs, lprtCfg{frag: true, marking: true, congested: true}, lprtCfg{frag: true, inFace: true, marking: true, congested: true, viaSet: true})

	tokens := [][]byte{nil, {0, 0, 0xde, 0xad, 0xbe, 0xef}}
	for _, mtu := range []int{128, 129, 130, 200, 400, 1500, 8800, 9000} {
		for ci, c := range cfgs {
			if ci != 0 && (mtu == 129 && ci%2 == 1 || mtu == 130 && ci%2 == 0 || mtu == 9000 && ci%2 == 1) {
				continue // the MTUs next to 128 and the one above the maximum packet size: default face + every other option set
			}
			congestionMarking = c.marking
			tx, tr := lprtSender(mtu, c)
			rx := MakeNDNLPLinkService(lprtTransportNew(mtu), MakeNDNLPLinkServiceOptions())
			nextSeq := uint64(0) // oracle's copy of the face's sequence counter
			seqKnown := true
			for ti, token := range tokens {
				if ti == 1 && ci%5 == 4 {
					token = bytes.Repeat([]byte{0, 0x5a}, 16) // a 32-byte token now and then
				}
				for _, mark := range []*uint64{nil, lprtU64(5)} {
					eff := mtu - lprtBudget(c, len(token), mark != nil)
					// sizes: 1..700, every multiple of the payload budget and its neighbours, the maximum
					var sizes []int
					for n := 1; n <= 700; n++ {
						sizes = append(sizes, n)
					}
					for m, k := eff, 1; m-1 <= defn.MaxNDNPacketSize; m, k = m+eff, k+1 {
						if ci != 0 && k > 8 && (k+ci)%4 != 0 {
							continue // beyond 8 fragments only the default face sees every multiple, the others every fourth
						}
						for _, n := range []int{m - 1, m, m + 1} {
							if n > 700 && n <= defn.MaxNDNPacketSize {
								sizes = append(sizes, n)
							}
						}
					}
					sizes = append(sizes, defn.MaxNDNPacketSize-1, defn.MaxNDNPacketSize)
					for si, n := range sizes {
						interest := n%5 == 2
						m := &lprtMsg{raw: packet(n, interest), token: token, mark: mark, valid: true}
						if m.raw == nil { // no well-formed packet of this size: sender side only
							m.raw, m.valid = lprtFill(n, 9), false
						}
						ctx := lprtCtx{mtu: mtu, c: c, tokenLen: len(token), mark: mark, n: n}
						lprtSend(tx, tr, m, interest)
						s.cases++

						// ---- sender-side clauses
						frs := make([]lprtFrame, len(m.frames))
						okFrames := true
						for i, f := range m.frames {
							if len(f) > mtu {
								s.fail("fit", "%v: frame %d of %d has %d bytes", ctx, i, len(m.frames), len(f))
							}
							var p string
							if frs[i], p = lprtDecode(f); p != "" {
								s.fail("wellformed", "%v: frame %d of %d: %s", ctx, i, len(m.frames), p)
								okFrames = false
							}
						}
						switch {
						case n <= eff:
							if len(m.frames) != 1 {
								s.fail("one", "%v: packet fits (payload budget %d) but %d frames were sent", ctx, eff, len(m.frames))
								okFrames = false
							} else if okFrames && !bytes.Equal(frs[0].payload, m.raw) {
								s.fail("one", "%v: the single frame does not carry the packet (%d payload bytes)", ctx, len(frs[0].payload))
							}
							if okFrames && (frs[0].idx != nil && *frs[0].idx != 0 || frs[0].cnt != nil && *frs[0].cnt != 1) {
								s.fail("fragfields", "%v: single frame with FragIndex %s FragCount %s", ctx, lprtShow(frs[0].idx), lprtShow(frs[0].cnt))
							}
							if okFrames && frs[0].seq != nil {
								nextSeq = *frs[0].seq + 1
							}
						case !c.frag:
							if len(m.frames) != 0 {
								s.fail("drop", "%v: fragmentation disabled, packet over the payload budget %d, yet %d frames (first %d bytes) were sent",
									ctx, eff, len(m.frames), len(m.frames[0]))
							}
						default:
							want := (n + eff - 1) / eff
							if len(m.frames) != want {
								s.fail("count", "%v: %d frames sent, expected ceil(%d/%d)=%d", ctx, len(m.frames), n, eff, want)
							}
							if len(m.frames) < 2 {
								s.fail("payload", "%v: oversize packet (payload budget %d) sent in %d frames", ctx, eff, len(m.frames))
								okFrames = false
							}
							if okFrames {
								var cat []byte
								for i, fr := range frs {
									if fr.seq == nil || fr.idx == nil || fr.cnt == nil {
										s.fail("fragfields", "%v: frame %d of %d lacks Sequence/FragIndex/FragCount", ctx, i, len(frs))
										okFrames = false
										break
									}
									if *fr.idx != uint64(i) || *fr.cnt != uint64(len(frs)) || *fr.seq != *frs[0].seq+uint64(i) {
										s.fail("fragfields", "%v: frame %d of %d has Sequence %d (first %d) FragIndex %d FragCount %d",
											ctx, i, len(frs), *fr.seq, *frs[0].seq, *fr.idx, *fr.cnt)
									}
									if len(fr.payload) == 0 {
										s.fail("payload", "%v: frame %d of %d carries no packet bytes", ctx, i, len(frs))
									}
									cat = append(cat, fr.payload...)
								}
								if okFrames && !bytes.Equal(cat, m.raw) {
									s.fail("payload", "%v: the %d payloads concatenate to %d bytes that are not the packet", ctx, len(frs), len(cat))
								}
								if okFrames && seqKnown && *frs[0].seq != nextSeq {
									s.fail("fragfields", "%v: first Sequence %d, but the face's previous fragments ended at %d (sequence advance)", ctx, *frs[0].seq, nextSeq)
								}
								if okFrames {
									nextSeq = *frs[len(frs)-1].seq + 1
								}
							}
						}
						if !m.valid || len(m.frames) == 0 {
							continue
						}
						// The receiver sees only the frames: the default face delivers every size; the other option sets (which
						// differ on the sender side only) deliver every size next to a multiple of the payload budget and every
						// fourth size otherwise.
						if r := n % eff; ci != 0 && r > 1 && r < eff-1 && (n+ci)%4 != 0 {
							continue
						}
						if ci != 0 && n > 700 && ((n+1)/eff+ci)%8 != 0 {
							continue // more than 8 fragments, not the default face: every fourth of the multiples that are sent
						}

						// ---- receiver-side clauses. Large packets: orders rotate over the size index to bound the run time.
						// The default face (first configuration) gets every order for every size <= 700; elsewhere the orders
						// rotate over the size index (each order still sees every residue of the size modulo the payload budget).
						k := len(m.frames)
						all := n <= 700 && ci == 0
						rot := (si + ti + ci) % 3
						if mark != nil {
							rot = (rot + 1) % 3
						}
						one := []*lprtMsg{m}
						if all || rot == 0 || k == 1 {
							s.deliver("deliver-inorder", rx, sink, m.frames, one, c.congested, ctx.with("frames in order"))
						}
						rev := make([][]byte, k)
						for i := range rev {
							rev[i] = m.frames[k-1-i]
						}
						if k > 1 && (all || rot == 1) {
							s.deliver("deliver-reverse", rx, sink, rev, one, c.congested, ctx.with("frames in reverse order"))
						}
						if k > 2 && k <= 4 && (ci == 0 || (si+ci)%8 == 0) {
							for _, p := range perms[k] {
								fs := make([][]byte, k)
								for i, j := range p {
									fs[i] = m.frames[j]
								}
								s.deliver("deliver-anyorder", rx, sink, fs, one, c.congested, ctx.with(fmt.Sprint("frames in order ", p)))
							}
						}
						if k > 1 && (all || rot == 2) {
							// a second packet of the same face (other kind, token, mark), always oversize
							n2 := eff + 1 + (n*7+13)%(2*eff)
							if n2 == 255 || n2 == 256 {
								n2 = 257
							}
							m2 := &lprtMsg{raw: packet(n2, !interest), token: []byte{0, 0, 1, 2, 3, byte(n)}, mark: lprtU64(uint64(n%3 + 1)), valid: true}
							if mark != nil {
								m2.mark = nil
							}
							if m2.raw == nil {
								continue
							}
							lprtSend(tx, tr, m2, !interest)
							if len(m2.frames) >= 2 {
								if fr, p := lprtDecode(m2.frames[len(m2.frames)-1]); p == "" && fr.seq != nil {
									nextSeq = *fr.seq + 1
								} else {
									seqKnown = false
								}
								k2 := len(m2.frames)
								var mixA, mixB [][]byte
								for i := 0; i < max(k, k2); i++ {
									if i < k {
										mixA = append(mixA, m.frames[i]) // p1 forwards, p2 backwards, alternating
										mixB = append(mixB, m.frames[k-1-i])
									}
									if i < k2 {
										mixA = append(mixA, m2.frames[k2-1-i])
										mixB = append(mixB, m2.frames[i]) // p1 backwards, p2 forwards
									}
								}
								two := []*lprtMsg{m, m2}
								s.deliver("deliver-interleaved", rx, sink, mixA, two, c.congested, ctx.with(fmt.Sprintf("interleaved (forwards) with the %d frames of a %d-byte packet (backwards)", k2, n2)))
								s.deliver("deliver-interleaved", rx, sink, mixB, two, c.congested, ctx.with(fmt.Sprintf("interleaved (backwards) with the %d frames of a %d-byte packet (forwards)", k2, n2)))
							}
						}
					}
				}
			}
		}
		fmt.Printf("BOUNDED-CASES %d\n", s.cases)
		if os.Getenv("LPRT_TIMING") != "" {
			fmt.Println("mtu", mtu, time.Since(t0))
		}
		s.cases = 0
	}
}
