package dv

// Bounded stand-in for C19, second sentence (whole-history clause across routers and goroutines).
//
// Property text (C19): "The set of prefixes any peer reconstructs for a router from its published operation log
// (adds, removes, resets, periodic snapshots, in order) equals that router's actual announced set."
//
// What is run: a producer (real Router with a real PrefixTable: Announce / Withdraw publish operations and snapshots
// into its repository, served by the real PrefixTable.OnDataInterest) and peers (real Routers) that learn the
// producer's sequence number through the real onPfxSyncUpdate and fetch with the real prefixDataFetch ->
// processPrefixData -> PrefixTable.Apply chain (the Known/Latest rule: next operation if at most 100 behind, else
// the latest snapshot). The peers' engine hands every expressed Interest to the producer's OnDataInterest and
// answers with the Data it returns (exact name, or a longer name if CanBePrefix); an Interest without Data stays
// unanswered. Peers: a follower (told after every operation), a laggard (synchronised at the start, told again only
// at the end: operation by operation), a late joiner (fresh router at the end: snapshot), a mid-joiner (fresh router
// in the middle: snapshot, then operation by operation), and, in the long histories, peers that fall more than 100
// operations behind; also a restart of the producer (new incarnation, sequence numbers far ahead, empty table).
//
// Oracle: the harness's own set of names it made the producer announce and not withdraw since (nothing is read from
// the producer's table).
//
// Output protocol: BOUNDED-CASES <n>, BOUNDED-FAIL <clause> <case>.

import (
	"fmt"
	"reflect"
	"runtime"
	"runtime/debug"
	"sort"
	"strings"
	"sync"
	"testing"
	"time"
	"unsafe"

	"github.com/named-data/ndnd/dv/config"
	"github.com/named-data/ndnd/dv/nfdc"
	"github.com/named-data/ndnd/dv/table"
	enc "github.com/named-data/ndnd/std/encoding"
	basic_engine "github.com/named-data/ndnd/std/engine/basic"
	"github.com/named-data/ndnd/std/log"
	"github.com/named-data/ndnd/std/ndn"
	"github.com/named-data/ndnd/std/ndn/spec_2022"
	ndn_sync "github.com/named-data/ndnd/std/sync"
)

// ---------------------------------------------------------------- engine

// Interests expressed by a peer are answered from the repository of the current producer incarnation
type bpl19Engine struct {
	net *bpl19Net // nil: inert (the producer's own engine)
}

func (e *bpl19Engine) EngineTrait() ndn.Engine                         { return e }
func (*bpl19Engine) Spec() ndn.Spec                                    { return spec_2022.Spec{} }
func (*bpl19Engine) Timer() ndn.Timer                                  { return basic_engine.NewTimer() }
func (*bpl19Engine) Start() error                                      { return nil }
func (*bpl19Engine) Stop() error                                       { return nil }
func (*bpl19Engine) IsRunning() bool                                   { return true }
func (*bpl19Engine) AttachHandler(enc.Name, ndn.InterestHandler) error { return nil }
func (*bpl19Engine) DetachHandler(enc.Name) error                      { return nil }
func (*bpl19Engine) RegisterRoute(enc.Name) error                      { return nil }
func (*bpl19Engine) UnregisterRoute(enc.Name) error                    { return nil }
func (*bpl19Engine) ExecMgmtCmd(string, string, any) error             { return nil }
func (e *bpl19Engine) Express(interest *ndn.EncodedInterest, cb ndn.ExpressCallbackFunc) error {
	if e.net == nil || cb == nil {
		return nil
	}
	pkt, _, err := spec_2022.ReadPacket(enc.NewBufferReader(interest.Wire.Join()))
	if err != nil || pkt.Interest == nil {
		return err
	}
	var reply enc.Wire
	e.net.producer().pfx.OnDataInterest(ndn.InterestHandlerArgs{
		Interest: pkt.Interest,
		Reply: func(w enc.Wire) error {
			reply = w
			return nil
		},
	})
	if reply == nil {
		return nil // no such Data: the Interest stays pending (a real one would time out and be retried)
	}
	dpkt, _, err := spec_2022.ReadPacket(enc.NewBufferReader(reply.Join()))
	if err != nil || dpkt.Data == nil {
		return nil
	}
	in, dn := pkt.Interest.Name(), dpkt.Data.Name()
	if !in.IsPrefix(dn) || (len(dn) != len(in) && !pkt.Interest.CanBePrefix()) {
		return nil // does not satisfy the Interest
	}
	// the engine contract: the callback is invoked from the engine, the daemon continues in a goroutine of its own
	cb(ndn.ExpressCallbackArgs{Result: ndn.InterestResultData, Data: dpkt.Data})
	return nil
}

// ---------------------------------------------------------------- routers

var bpl19Pool []*nfdc.NfdMgmtThread
var bpl19PoolMu sync.Mutex

func bpl19Drain(m *nfdc.NfdMgmtThread) bool {
	rv := reflect.ValueOf(m).Elem().FieldByName("channel")
	if !rv.IsValid() || rv.Type() != reflect.TypeOf((chan nfdc.NfdMgmtCmd)(nil)) || !rv.CanAddr() {
		return false
	}
	ch := *(*chan nfdc.NfdMgmtCmd)(unsafe.Pointer(rv.UnsafeAddr()))
	for {
		select {
		case <-ch:
		default:
			return true
		}
	}
}

func bpl19Name(s string) enc.Name {
	n, err := enc.NameFromStr(s)
	if err != nil {
		panic(err)
	}
	return n
}

// a real Router (never started: no timers, no network); startSeq is what NewRouter takes from the wall clock
func bpl19NewRouter(name string, eng ndn.Engine, startSeq uint64) *Router {
	cfg := config.DefaultConfig()
	cfg.Network = "/net"
	cfg.Router = name
	if err := cfg.Parse(); err != nil {
		panic(err)
	}
	var m *nfdc.NfdMgmtThread
	bpl19PoolMu.Lock()
	if k := len(bpl19Pool); k > 0 {
		m, bpl19Pool = bpl19Pool[k-1], bpl19Pool[:k-1]
	}
	bpl19PoolMu.Unlock()
	if m == nil {
		m = nfdc.NewNfdMgmtThread(eng) // never started; the queue (4096 commands) is enough for one history
	}
	r := &Router{engine: eng, config: cfg, nfdc: m, mutex: sync.Mutex{}}
	r.pfxSvs = ndn_sync.NewSvSync(eng, cfg.PrefixTableSyncPrefix(), r.onPfxSyncUpdate)
	r.pfxSvs.SetSeqNo(cfg.RouterName(), startSeq)
	r.neighbors = table.NewNeighborTable(cfg, r.nfdc)
	r.rib = table.NewRib(cfg)
	r.pfx = table.NewPrefixTable(cfg, eng, r.pfxSvs)
	r.fib = table.NewFib(cfg, r.nfdc)
	r.rib.Set(cfg.RouterName(), cfg.RouterName(), 0)
	return r
}

func bpl19Release(r *Router) {
	r.mutex.Lock()
	ok := bpl19Drain(r.nfdc)
	r.mutex.Unlock()
	bpl19PoolMu.Lock()
	if ok && len(bpl19Pool) < 16 {
		bpl19Pool = append(bpl19Pool, r.nfdc)
	}
	bpl19PoolMu.Unlock()
}

const bpl19Producer = "/net/p"

type bpl19Net struct {
	h     *bpl19H
	mu    sync.Mutex
	prod  *Router
	pname enc.Name
	// oracle: the names the harness made the producer announce and not withdraw since
	actual map[string]bool
	hist   []string
	peers  []*bpl19Peer
	nPeers int
}

func (n *bpl19Net) producer() *Router {
	n.mu.Lock()
	defer n.mu.Unlock()
	return n.prod
}

type bpl19Peer struct {
	kind string
	r    *Router
	dead bool // its clause already failed: not used any more
}

type bpl19H struct {
	failed  map[string]bool
	cases   int
	settles int
	// observation (not a clause): on how many publishing operations the producer also cut a snapshot
	pubOps, snapOps int
}

func (h *bpl19H) fail(clause, format string, a ...any) {
	if h.failed[clause] {
		return
	}
	h.failed[clause] = true
	fmt.Printf("BOUNDED-FAIL bounded:prefix-log#%s %s\n", clause, strings.ReplaceAll(fmt.Sprintf(format, a...), "\n", " "))
}

func bpl19NewNet(h *bpl19H, startSeq uint64) *bpl19Net {
	n := &bpl19Net{h: h, pname: bpl19Name(bpl19Producer), actual: map[string]bool{}}
	n.prod = bpl19NewRouter(bpl19Producer, &bpl19Engine{}, startSeq)
	return n
}

func (n *bpl19Net) release() {
	bpl19Release(n.prod)
	for _, p := range n.peers {
		bpl19Release(p.r)
	}
}

// the producer is restarted: a new incarnation with an empty table, sequence numbers far ahead (wall-clock based)
func (n *bpl19Net) restart() {
	seq := n.seq()
	old := n.prod
	nr := bpl19NewRouter(bpl19Producer, &bpl19Engine{}, seq+100000)
	n.mu.Lock()
	n.prod = nr
	n.mu.Unlock()
	bpl19Release(old)
	n.actual = map[string]bool{}
	n.hist = append(n.hist, "restart")
}

// the sequence number prefix sync would tell the peers now
func (n *bpl19Net) seq() uint64 {
	return n.prod.pfxSvs.GetSeqNo(n.pname)
}

func (n *bpl19Net) announce(name string) {
	n.hist = append(n.hist, "announce("+name+")")
	n.prod.mutex.Lock()
	n.prod.pfx.Announce(bpl19Name(name))
	n.prod.mutex.Unlock()
	n.actual[name] = true
}

func (n *bpl19Net) withdraw(name string) {
	n.hist = append(n.hist, "withdraw("+name+")")
	n.prod.mutex.Lock()
	n.prod.pfx.Withdraw(bpl19Name(name))
	n.prod.mutex.Unlock()
	delete(n.actual, name)
}

// a new peer (fresh router that reaches the producer)
func (n *bpl19Net) peer(kind string) *bpl19Peer {
	n.nPeers++
	r := bpl19NewRouter(fmt.Sprintf("/net/q%d", n.nPeers), &bpl19Engine{net: n}, 7)
	r.rib.Set(n.pname, n.pname, 1) // the producer is a reachable router (a neighbour)
	p := &bpl19Peer{kind: kind, r: r, dead: n.h.failed[kind+"-equals-announced"]}
	n.peers = append(n.peers, p)
	return p
}

func bpl19Set(m map[string]bool) string {
	var s []string
	for k := range m {
		s = append(s, k)
	}
	sort.Strings(s)
	return "{" + strings.Join(s, " ") + "}"
}

// Prefix sync tells the peer the producer's current sequence number (real onPfxSyncUpdate); then the fetch chain runs
// in the daemon's goroutines. Wait (yielding; up to 1 s, used up only in a failing case) until the peer has caught up,
// and compare what it reconstructed with the producer's actual set.
func (n *bpl19Net) sync(p *bpl19Peer) {
	if p.dead {
		return
	}
	high := n.seq()
	p.r.onPfxSyncUpdate(ndn_sync.SvSyncUpdate{NodeId: n.pname, High: high})
	n.h.settles++
	deadline := time.Now().Add(1 * time.Second)
	var known, latest uint64
	var fetching bool
	var got map[string]bool
	for spins := 0; ; spins++ {
		p.r.mutex.Lock()
		rt := p.r.pfx.GetRouter(n.pname)
		known, latest, fetching = rt.Known, rt.Latest, rt.Fetching
		got = map[string]bool{}
		for _, e := range rt.Prefixes {
			got[e.Name.String()] = true
		}
		p.r.mutex.Unlock()
		if !fetching && known >= high && reflect.DeepEqual(got, n.actual) {
			return
		}
		if spins&63 == 63 && !time.Now().Before(deadline) {
			break
		}
		runtime.Gosched()
	}
	p.dead = true
	// "The set of prefixes any peer reconstructs for a router from its published operation log ... equals that
	// router's actual announced set."
	n.h.fail(p.kind+"-equals-announced", "%s told sequence number %d: reconstructed %s (applied up to %d, heard of %d, fetch pending %v), the producer actually announces %s; producer history: %s",
		p.kind, high, bpl19Set(got), known, latest, fetching, bpl19Set(n.actual), strings.Join(n.hist, " "))
}

// sequence number of the snapshot the producer currently serves under .../32=PFX/32=SNAP (0: none)
func (n *bpl19Net) snapSeq() uint64 {
	name := append(n.prod.config.PrefixTableDataPrefix(), enc.NewStringComponent(enc.TypeKeywordNameComponent, "SNAP"))
	interest, err := n.prod.engine.Spec().MakeInterest(name, &ndn.InterestConfig{CanBePrefix: true}, nil, nil)
	if err != nil {
		return 0
	}
	pkt, _, err := spec_2022.ReadPacket(enc.NewBufferReader(interest.Wire.Join()))
	if err != nil || pkt.Interest == nil {
		return 0
	}
	var seq uint64
	n.prod.pfx.OnDataInterest(ndn.InterestHandlerArgs{Interest: pkt.Interest, Reply: func(w enc.Wire) error {
		if d, _, err := spec_2022.ReadPacket(enc.NewBufferReader(w.Join())); err == nil && d.Data != nil {
			dn := d.Data.Name()
			seq = dn[len(dn)-1].NumberVal()
		}
		return nil
	}})
	return seq
}

// ---------------------------------------------------------------- histories

type bpl19Op struct {
	announce bool
	name     string
}

func (n *bpl19Net) do(op bpl19Op) {
	if op.announce {
		n.announce(op.name)
	} else {
		n.withdraw(op.name)
	}
}

func bpl19Ops() []bpl19Op {
	var ops []bpl19Op
	for _, nm := range []string{"/app/a", "/app/b", "/app/c"} {
		ops = append(ops, bpl19Op{true, nm}, bpl19Op{false, nm})
	}
	return ops
}

// one short history with its four peers
func bpl19Short(h *bpl19H, seq []bpl19Op) {
	n := bpl19NewNet(h, 1000)
	defer n.release()
	follower := n.peer("follower")
	laggard := n.peer("laggard")
	n.sync(follower) // both know the (empty) start state
	n.sync(laggard)
	var mid *bpl19Peer
	for i, op := range seq {
		n.do(op)
		n.sync(follower)
		if i == (len(seq)-1)/2 && len(seq) >= 2 {
			mid = n.peer("mid-joiner")
		}
		if mid != nil {
			n.sync(mid)
		}
	}
	n.sync(laggard)
	n.sync(n.peer("late-joiner"))
}

// before-operations, restart, after-operations
func bpl19Restart(h *bpl19H, before, after []bpl19Op) {
	n := bpl19NewNet(h, 1000)
	defer n.release()
	follower := n.peer("follower-across-restart")
	n.sync(follower)
	for _, op := range before {
		n.do(op)
		n.sync(follower)
	}
	laggard := n.peer("laggard-across-restart")
	n.sync(laggard)
	n.restart()
	n.sync(follower)
	for _, op := range after {
		n.do(op)
		n.sync(follower)
	}
	n.sync(laggard)
	n.sync(n.peer("late-joiner"))
}

// long history: peers fall more than 100 operations behind
func bpl19Long(h *bpl19H, variant int) {
	n := bpl19NewNet(h, 5000)
	defer n.release()
	names := []string{"/app/a", "/app/b", "/app/c", "/app/d", "/app/e"}
	follower := n.peer("follower")
	cutoff := n.peer("cut-off")   // follows 5 operations, hears again only at the end (> 100 behind)
	periodic := n.peer("laggard") // hears every 37 operations (op by op), then every 130 (> 100 behind)
	n.sync(follower)
	n.sync(cutoff)
	n.sync(periodic)
	const total = 300
	for i := 0; i < total; i++ {
		before := n.seq()
		if i > 0 {
			// observation for the report: was a snapshot cut on the previous publishing operation?
			if s := n.snapSeq(); s == before {
				h.snapOps++
			}
			h.pubOps++
		}
		nm := names[(i*(variant+2)+i/7)%len(names)]
		if n.actual[nm] && (i+variant)%3 != 0 {
			n.withdraw(nm)
		} else if n.actual[nm] {
			n.announce(nm) // no-op: already announced, nothing is published
		} else if (i+2*variant)%11 == 0 {
			n.withdraw(nm) // no-op: not announced
		} else {
			n.announce(nm)
		}
		if i%3 == 0 || i > total-10 {
			n.sync(follower)
		}
		if i < 5 {
			n.sync(cutoff)
		}
		if (i < 150 && i%37 == 36) || i == 290 {
			n.sync(periodic)
		}
	}
	n.sync(follower)
	n.sync(cutoff)
	n.sync(periodic)
	n.sync(n.peer("late-joiner"))
}

func TestBoundedPrefixLog(t *testing.T) {
	log.SetLevel(log.FatalLevel)
	defer debug.SetGCPercent(debug.SetGCPercent(400))
	t0 := time.Now()
	h := &bpl19H{failed: map[string]bool{}}
	ops := bpl19Ops()

	// exhaustive: all histories of 0..4 announce/withdraw operations over three names and of 5 operations over two
	// names (shortest first)
	var rec func(seq []bpl19Op, length int, ops []bpl19Op)
	rec = func(seq []bpl19Op, length int, ops []bpl19Op) {
		if len(seq) == length {
			bpl19Short(h, seq)
			h.cases++
			return
		}
		for _, op := range ops {
			rec(append(seq[:len(seq):len(seq)], op), length, ops)
		}
	}
	for length := 0; length <= 4; length++ {
		rec(nil, length, ops)
	}
	rec(nil, 5, ops[:4])
	short := h.cases

	// all histories of 0..2 operations, restart, 0..1 operations
	var befores, afters [][]bpl19Op
	befores = append(befores, nil)
	afters = append(afters, nil)
	for _, a := range ops {
		befores = append(befores, []bpl19Op{a})
		afters = append(afters, []bpl19Op{a})
		for _, b := range ops {
			befores = append(befores, []bpl19Op{a, b})
		}
	}
	for _, b := range befores {
		for _, a := range afters {
			bpl19Restart(h, b, a)
			h.cases++
		}
	}
	restarts := h.cases - short

	// deterministic long histories (300 operations each)
	for v := 0; v < 4; v++ {
		bpl19Long(h, v)
		h.cases++
	}

	fmt.Printf("BOUNDED-NOTE prefix-log: %d short histories, %d restart histories, 4 long histories, %d peer synchronisations, %.1fs\n",
		short, restarts, h.settles, time.Since(t0).Seconds())
	fmt.Printf("BOUNDED-NOTE prefix-log observation (not a clause of C19): in the long histories the snapshot served by the producer carried the sequence number of the latest operation at %d of %d sampling points (a snapshot every 100 operations would give about %d)\n",
		h.snapOps, h.pubOps, h.pubOps/100)
	fmt.Printf("BOUNDED-CASES %d\n", h.cases)
}
