// Bounded stand-in for property C05 ("FIB lookup is longest-prefix match under every update
// history, in both FIBs"). In-package test of fw/table, injected with `go test -overlay`.
// Not a proof: an exhaustive check of the REAL name-tree and hash-table FIBs against a naive
// map-based oracle (and against each other) over the finite bound stated in bflUniverses.
//
// Oracle (written from the statement of C05):
//
//	T[P]            = (hops: face -> cost, strategy or none) for every prefix P; initially empty except
//	                  T["/"].strategy = /localhost/nfd/strategy/best-route/v=1
//	insert(P,f,c)   : T[P].hops[f] = c           (insertion or cost update)
//	remove(P,f)     : delete T[P].hops[f]
//	clear(P)        : T[P].hops = {}
//	set(P,S)        : T[P].strategy = S
//	unset(P)        : T[P].strategy = none, except for P = "/" where it does nothing
//	                  ("the root always has one: it can be replaced but not unset")
//	nexthops(N)     = T[P].hops for the longest prefix P of N (N itself and "/" included) with T[P].hops != {},
//	                  nothing if there is none
//	strategy(N)     = T[P].strategy for the longest prefix P of N that has one
//
// Checked after EVERY operation of every enumerated history, on every implementation:
//
//	#nexthop-lookup    FindNextHopsEnc(N) == nexthops(N) as a (face,cost) set, for every N of the lookup set
//	                   ("a next-hop lookup for any name returns exactly the (face, cost) set of the longest
//	                   registered prefix of that name which has next hops")
//	#strategy-lookup   FindStrategyEnc(N) == strategy(N)   ("a strategy lookup returns the strategy set on the
//	                   longest prefix that has one")
//	#root-strategy     FindStrategyEnc(N) returned nothing at all ("the root always has one")
//	#fib-listing       GetAllFIBEntries() == { P -> T[P].hops | T[P].hops != {} }
//	#strategy-listing  GetAllForwardingStrategies() == { P -> T[P].strategy | T[P] has one }
//	                   ("the FIB and strategy listings contain exactly the prefixes that currently hold next
//	                   hops or a strategy, with exactly those values")
//	#impl-differ       name tree and hash table disagree on a lookup ("observationally identical")
//	#panic             the code under test panicked
//
// Known open finding, excluded from the enumeration: on the hash-table FIB UnSetStrategyEnc("/") removes the
// root strategy (the repository's own test demands it). Histories that contain unset("/") are therefore
// run on the name tree only.
package table

import (
	"fmt"
	"runtime/debug"
	"strings"
	"testing"

	"github.com/named-data/ndnd/fw/core"
	enc "github.com/named-data/ndnd/std/encoding"
)

// ---- names: closed under "parent"; created on demand ----

type bflNameT struct {
	str    string
	name   enc.Name
	parent int
}

var bflNames []bflNameT
var bflNameIdx = map[string]int{}

func bflName(s string) int {
	if i, ok := bflNameIdx[s]; ok {
		return i
	}
	parent := -1
	if s != "/" {
		ps := s[:strings.LastIndex(s, "/")]
		if ps == "" {
			ps = "/"
		}
		parent = bflName(ps)
	}
	n, err := enc.NameFromStr(s)
	if err != nil {
		panic(err)
	}
	bflNames = append(bflNames, bflNameT{str: s, name: n, parent: parent})
	bflNameIdx[s] = len(bflNames) - 1
	return len(bflNames) - 1
}

func bflFindName(n enc.Name) int {
	for i := range bflNames {
		if len(bflNames[i].name) == len(n) && bflNames[i].name.Equal(n) {
			return i
		}
	}
	return -1
}

// all names over {a,b} with depth 0..maxDepth
func bflAllNames(maxDepth int) []string {
	out := []string{"/"}
	level := []string{""}
	for d := 1; d <= maxDepth; d++ {
		var next []string
		for _, p := range level {
			next = append(next, p+"/a", p+"/b")
		}
		out = append(out, next...)
		level = next
	}
	return out
}

// ---- strategies: 0 = none, 1 = the default of the root, 2.. = others ----

var bflStrategyStr = []string{
	"",
	"/localhost/nfd/strategy/best-route/v=1",
	"/localhost/nfd/strategy/multicast/v=1",
	"/localhost/nfd/strategy/other/v=7",
}
var bflStrategies []enc.Name

func bflStrategyOf(n enc.Name) int {
	if n == nil {
		return 0
	}
	for i := 1; i < len(bflStrategies); i++ {
		if n.Equal(bflStrategies[i]) {
			return i
		}
	}
	return -1
}

// ---- operations ----

const (
	bflInsert = iota
	bflRemove
	bflClear
	bflSet
	bflUnset
)

type bflOp struct {
	kind  int
	name  int
	face  uint64
	cost  uint64
	strat int
}

func (o bflOp) String() string {
	n := bflNames[o.name].str
	switch o.kind {
	case bflInsert:
		return fmt.Sprintf("insert(%s,face=%d,cost=%d)", n, o.face, o.cost)
	case bflRemove:
		return fmt.Sprintf("remove(%s,face=%d)", n, o.face)
	case bflClear:
		return fmt.Sprintf("clear(%s)", n)
	case bflSet:
		return fmt.Sprintf("set(%s,S%d)", n, o.strat)
	}
	return fmt.Sprintf("unset(%s)", n)
}

func bflSeqString(seq []bflOp) string {
	parts := make([]string, len(seq))
	for i, o := range seq {
		parts[i] = o.String()
	}
	return strings.Join(parts, ";")
}

type bflUniverse struct {
	label  string
	names  []string
	faces  []uint64
	costs  []uint64
	strats []int
	clear  bool // include clear(P) (with a single face its effect coincides with remove)
	extend bool // lookup set also holds every prefix extended by one component
	length int
	ms     []uint16 // hash-table virtual depths m to run (the name tree always runs)
}

// The bound. Every universe is enumerated EXHAUSTIVELY: all sequences of length 1..length over
// insert(P,f,c) x remove(P,f) x clear(P) x set(P,S) x unset(P) for the listed prefixes, faces, costs and
// strategies (with the one exclusion described in the header), run in lock-step on the name tree and
// on one hash table per listed m. The lookup set of a universe is its prefixes, their parents, and
// (except in "wide") every prefix extended by one component a or b.
var bflUniverses = []bflUniverse{
	// a chain from the root to depth 3: nested prefixes, gaps, cost updates, two faces, two strategies
	{"chain", []string{"/", "/a", "/a/b", "/a/b/a"}, []uint64{1, 2}, []uint64{1, 2}, []int{2, 3}, true, true, 3, []uint16{1, 2}},
	// siblings of equal length below a shared virtual prefix
	{"siblings", []string{"/a/a", "/a/b", "/a/a/a", "/a/a/b"}, []uint64{1}, []uint64{1}, []int{2}, false, true, 3, []uint16{1, 2}},
	// the same shape, longer histories
	{"siblings-long", []string{"/a/a", "/a/b", "/a/a/a"}, []uint64{1}, []uint64{1}, []int{2}, false, true, 4, []uint16{1}},
	// every name of depth 0..4 over {a,b} (31 prefixes), short histories, every m from 1 to 4
	// (names shorter than, as long as, and longer than m); lookups of the 31 names only
	{"wide", bflAllNames(4), []uint64{1}, []uint64{1}, []int{2}, false, false, 2, []uint16{1, 2, 3, 4}},
}

func (u *bflUniverse) build() (ops []bflOp, lookups []int) {
	var names []int
	for _, s := range u.names {
		names = append(names, bflName(s))
	}
	for _, n := range names {
		for _, f := range u.faces {
			for _, c := range u.costs {
				ops = append(ops, bflOp{kind: bflInsert, name: n, face: f, cost: c})
			}
		}
	}
	for _, n := range names {
		for _, f := range u.faces {
			ops = append(ops, bflOp{kind: bflRemove, name: n, face: f})
		}
	}
	for _, n := range names {
		if u.clear {
			ops = append(ops, bflOp{kind: bflClear, name: n})
		}
		for _, s := range u.strats {
			ops = append(ops, bflOp{kind: bflSet, name: n, strat: s})
		}
		ops = append(ops, bflOp{kind: bflUnset, name: n})
	}
	seen := map[int]bool{}
	addL := func(i int) {
		if !seen[i] {
			seen[i] = true
			lookups = append(lookups, i)
		}
	}
	for _, s := range u.names {
		for p := bflName(s); p >= 0; p = bflNames[p].parent {
			addL(p)
		}
		base := s
		if base == "/" {
			base = ""
		}
		if u.extend {
			addL(bflName(base + "/a"))
			addL(bflName(base + "/b"))
		}
	}
	return ops, lookups
}

// ---- the oracle ----

type bflHops [4]uint64 // face -> cost+1, 0 = absent (faces are 1..3)

func (h bflHops) String() string {
	var parts []string
	for f, c := range h {
		if c != 0 {
			parts = append(parts, fmt.Sprintf("%d:%d", f, c-1))
		}
	}
	return "{" + strings.Join(parts, ",") + "}"
}

type bflEntry struct {
	hops  bflHops
	strat int
}

type bflOracle struct {
	t []bflEntry // indexed like bflNames
}

func bflNewOracle() *bflOracle {
	o := &bflOracle{t: make([]bflEntry, len(bflNames))}
	o.t[bflNameIdx["/"]].strat = 1
	return o
}

func (o *bflOracle) apply(op bflOp) {
	e := &o.t[op.name]
	switch op.kind {
	case bflInsert:
		e.hops[op.face] = op.cost + 1
	case bflRemove:
		e.hops[op.face] = 0
	case bflClear:
		e.hops = bflHops{}
	case bflSet:
		e.strat = op.strat
	case bflUnset:
		if bflNames[op.name].parent >= 0 {
			e.strat = 0
		}
	}
}

func (o *bflOracle) nexthops(n int) bflHops {
	for p := n; p >= 0; p = bflNames[p].parent {
		if o.t[p].hops != (bflHops{}) {
			return o.t[p].hops
		}
	}
	return bflHops{}
}

func (o *bflOracle) strategy(n int) int {
	for p := n; p >= 0; p = bflNames[p].parent {
		if o.t[p].strat != 0 {
			return o.t[p].strat
		}
	}
	return 0
}

// ---- the run ----

var bflFailed = map[string]bool{}

func bflFail(clause string, format string, args ...any) {
	if bflFailed[clause] {
		return
	}
	bflFailed[clause] = true
	fmt.Printf("BOUNDED-FAIL bounded:fib-lpm#%s %s\n", clause, fmt.Sprintf(format, args...))
}

func bflActualHops(nhs []*FibNextHopEntry) (h bflHops, bad string) {
	for _, nh := range nhs {
		if nh.Nexthop >= uint64(len(h)) {
			return h, fmt.Sprintf("face %d outside the universe", nh.Nexthop)
		}
		if h[nh.Nexthop] != 0 {
			bad = fmt.Sprintf("face %d listed twice", nh.Nexthop)
		}
		h[nh.Nexthop] = nh.Cost + 1
	}
	return h, bad
}

type bflImpl struct {
	label string
	fib   FibStrategy
}

func bflMakeImpls(ms []uint16, treeOnly bool) []bflImpl {
	saved := FibStrategyTable
	defer func() { FibStrategyTable = saved }()
	CreateFIBTable("nametree")
	impls := []bflImpl{{"nametree", FibStrategyTable}}
	if treeOnly {
		return impls
	}
	cfg := core.GetConfig()
	if cfg == nil {
		cfg = core.DefaultConfig()
		core.LoadConfig(cfg, "")
	}
	old := cfg.Tables.Fib.Hashtable.M
	for _, m := range ms {
		cfg.Tables.Fib.Hashtable.M = m
		CreateFIBTable("hashtable")
		impls = append(impls, bflImpl{fmt.Sprintf("hashtable(m=%d)", m), FibStrategyTable})
	}
	cfg.Tables.Fib.Hashtable.M = old
	return impls
}

// bflHistory replays seq on fresh tables and checks the state after the LAST operation (every
// prefix of an enumerated sequence is itself enumerated, so every intermediate state is checked).
func bflHistory(u *bflUniverse, lookups []int, seq []bflOp) {
	label := "?"
	defer func() {
		if r := recover(); r != nil {
			bflFail("panic", "impl=%s ops=%s panic: %v", label, bflSeqString(seq), r)
		}
	}()
	treeOnly := false
	for _, op := range seq {
		if op.kind == bflUnset && bflNames[op.name].parent < 0 {
			treeOnly = true // the excluded operation: unset("/") on the hash table
		}
	}
	impls := bflMakeImpls(u.ms, treeOnly)
	o := bflNewOracle()
	for _, op := range seq {
		o.apply(op)
		n := bflNames[op.name].name
		for _, im := range impls {
			label = im.label
			switch op.kind {
			case bflInsert:
				im.fib.InsertNextHopEnc(n, op.face, op.cost)
			case bflRemove:
				im.fib.RemoveNextHopEnc(n, op.face)
			case bflClear:
				im.fib.ClearNextHopsEnc(n)
			case bflSet:
				im.fib.SetStrategyEnc(n, bflStrategies[op.strat])
			case bflUnset:
				im.fib.UnSetStrategyEnc(n)
			}
		}
	}

	treeHops := make([]bflHops, len(lookups))
	treeStrat := make([]int, len(lookups))
	for k, im := range impls {
		label = im.label
		for li, n := range lookups {
			expH := o.nexthops(n)
			gotH, bad := bflActualHops(im.fib.FindNextHopsEnc(bflNames[n].name))
			if bad != "" || expH != gotH {
				bflFail("nexthop-lookup", "impl=%s ops=%s nexthops(%s): expected %v got %v %s", im.label, bflSeqString(seq), bflNames[n].str, expH, gotH, bad)
			}
			expS := o.strategy(n)
			gotS := bflStrategyOf(im.fib.FindStrategyEnc(bflNames[n].name))
			if gotS == 0 {
				bflFail("root-strategy", "impl=%s ops=%s strategy(%s): nothing returned, expected S%d", im.label, bflSeqString(seq), bflNames[n].str, expS)
			} else if expS != gotS {
				bflFail("strategy-lookup", "impl=%s ops=%s strategy(%s): expected S%d got S%d", im.label, bflSeqString(seq), bflNames[n].str, expS, gotS)
			}
			if k == 0 {
				treeHops[li], treeStrat[li] = gotH, gotS
			} else if gotH != treeHops[li] || gotS != treeStrat[li] {
				bflFail("impl-differ", "ops=%s lookup %s: nametree -> %v/S%d, %s -> %v/S%d", bflSeqString(seq), bflNames[n].str, treeHops[li], treeStrat[li], im.label, gotH, gotS)
			}
		}

		// listings
		seen := make([]bool, len(bflNames))
		for _, e := range im.fib.GetAllFIBEntries() {
			idx := bflFindName(e.Name())
			if idx < 0 {
				bflFail("fib-listing", "impl=%s ops=%s FIB lists unknown prefix %v", im.label, bflSeqString(seq), e.Name())
				continue
			}
			got, bad := bflActualHops(e.GetNextHops())
			if seen[idx] || bad != "" || got != o.t[idx].hops || got == (bflHops{}) {
				bflFail("fib-listing", "impl=%s ops=%s FIB lists %s -> %v %s, expected %v (dup=%v)", im.label, bflSeqString(seq), bflNames[idx].str, got, bad, o.t[idx].hops, seen[idx])
			}
			seen[idx] = true
		}
		for n := range o.t {
			if o.t[n].hops != (bflHops{}) && !seen[n] {
				bflFail("fib-listing", "impl=%s ops=%s FIB listing lacks %s -> %v", im.label, bflSeqString(seq), bflNames[n].str, o.t[n].hops)
			}
		}
		seen = make([]bool, len(bflNames))
		for _, e := range im.fib.GetAllForwardingStrategies() {
			idx := bflFindName(e.Name())
			if idx < 0 {
				bflFail("strategy-listing", "impl=%s ops=%s strategy listing has unknown prefix %v", im.label, bflSeqString(seq), e.Name())
				continue
			}
			got := bflStrategyOf(e.GetStrategy())
			if seen[idx] || got != o.t[idx].strat || got == 0 {
				bflFail("strategy-listing", "impl=%s ops=%s strategy listing has %s -> S%d, expected S%d (dup=%v)", im.label, bflSeqString(seq), bflNames[idx].str, got, o.t[idx].strat, seen[idx])
			}
			seen[idx] = true
		}
		for n := range o.t {
			if o.t[n].strat != 0 && !seen[n] {
				bflFail("strategy-listing", "impl=%s ops=%s strategy listing lacks %s -> S%d", im.label, bflSeqString(seq), bflNames[n].str, o.t[n].strat)
			}
		}
		if bflStructure {
			bflCheckStructure(im, o, seq)
		}
	}
}

// ---- optional white-box check of the hidden structures (NOT part of the registered stand-in) ----
// C08: "the FIB and RIB structures hold nothing beyond what their live entries require". Enabled only by
// TestBoundedFibStructure, which is not registered for C05 because it FAILS on the unchanged tree
// (finding: the hash-table FIB leaves stale virtual-table entries behind, see REPORT.md).
var bflStructure bool

func bflCheckStructure(im bflImpl, o *bflOracle, seq []bflOp) {
	live := 0               // prefixes that hold next hops or a strategy
	withHops := 0           // prefixes that hold next hops
	nodes := map[int]bool{} // non-root prefixes of live prefixes
	for n := range o.t {
		if o.t[n].hops != (bflHops{}) {
			withHops++
		}
		if o.t[n].hops != (bflHops{}) || o.t[n].strat != 0 {
			live++
			for p := n; bflNames[p].parent >= 0; p = bflNames[p].parent {
				nodes[p] = true
			}
		}
	}
	switch f := im.fib.(type) {
	case *FibStrategyTree:
		count := 0
		var walk func(e *fibStrategyTreeEntry)
		walk = func(e *fibStrategyTreeEntry) {
			for _, c := range e.children {
				count++
				walk(c)
			}
		}
		walk(f.root)
		if count != len(nodes) {
			bflFail("structure-tree-nodes", "impl=%s ops=%s name tree has %d nodes below the root, the live entries need %d", im.label, bflSeqString(seq), count, len(nodes))
		}
		if len(f.fibPrefixes) != withHops {
			bflFail("structure-tree-fibprefixes", "impl=%s ops=%s fibPrefixes has %d keys, %d prefixes hold next hops", im.label, bflSeqString(seq), len(f.fibPrefixes), withHops)
		}
	case *FibStrategyHashTable:
		virt := map[int]bool{} // the length-m prefixes of live prefixes of length >= m
		for n := range o.t {
			if o.t[n].hops != (bflHops{}) || o.t[n].strat != 0 {
				if len(bflNames[n].name) >= f.m {
					p := n
					for len(bflNames[p].name) > f.m {
						p = bflNames[p].parent
					}
					virt[p] = true
				}
			}
		}
		if len(f.realTable) != live {
			bflFail("structure-hashtable-real", "impl=%s ops=%s realTable has %d entries, %d prefixes are live", im.label, bflSeqString(seq), len(f.realTable), live)
		}
		if len(f.virtTable) != len(virt) || len(f.virtTableNames) != len(virt) {
			bflFail("structure-hashtable-virtual", "impl=%s ops=%s virtTable has %d entries, virtTableNames %d, the live prefixes need %d virtual nodes", im.label, bflSeqString(seq), len(f.virtTable), len(f.virtTableNames), len(virt))
		}
	}
}

func bflEnumerate(u *bflUniverse, ops []bflOp, lookups []int, seq []bflOp, length int, cases *int) {
	for _, op := range ops {
		seq = append(seq, op)
		if len(seq) < length {
			bflEnumerate(u, ops, lookups, seq, length, cases)
		} else {
			bflHistory(u, lookups, seq)
			*cases++
		}
		seq = seq[:len(seq)-1]
	}
}

// TestBoundedFibStructure: the same enumeration (universes chain, siblings, siblings-long) with the
// white-box structure check switched on. Not registered: fails on the unchanged tree (see REPORT.md).
func TestBoundedFibStructure(t *testing.T) {
	bflStructure = true
	defer func() { bflStructure = false }()
	saved := bflUniverses
	bflUniverses = bflUniverses[:3]
	defer func() { bflUniverses = saved }()
	TestBoundedFibLpm(t)
}

func TestBoundedFibLpm(t *testing.T) {
	defer debug.SetGCPercent(debug.SetGCPercent(2000))
	bflStrategies = make([]enc.Name, len(bflStrategyStr))
	for i := 1; i < len(bflStrategyStr); i++ {
		bflStrategies[i], _ = enc.NameFromStr(bflStrategyStr[i])
	}
	// build all universes first so that the name table is complete before any oracle is allocated
	type built struct {
		ops     []bflOp
		lookups []int
	}
	bs := make([]built, len(bflUniverses))
	for i := range bflUniverses {
		bs[i].ops, bs[i].lookups = bflUniverses[i].build()
	}
	total := 0
	for i := range bflUniverses {
		u := &bflUniverses[i]
		cases := 0
		for l := 1; l <= u.length; l++ {
			bflEnumerate(u, bs[i].ops, bs[i].lookups, nil, l, &cases)
		}
		t.Logf("fib-lpm %s: %d ops, %d lookup names, length<=%d, %d histories x (nametree + m=%v)", u.label, len(bs[i].ops), len(bs[i].lookups), u.length, cases, u.ms)
		total += cases
	}
	fmt.Printf("BOUNDED-CASES %d\n", total)
}
