package face

// Bounded stand-in for C11 (application side): (*StreamFace).Run, the reader of the application's Unix/TCP stream face.
//
// Property C11: "For any sequence of well-formed TLV blocks, each no larger than the maximum packet size, sent over a stream
// face and read back in chunks of arbitrary sizes - one byte at a time, or many blocks per read - the receiver hands the link
// layer exactly those blocks, byte-identical and in order, none lost, duplicated, split or merged. This holds for streams of
// unbounded total length ..."
//
// ORACLE (from the statement): the test builds the blocks by hand (TLV-TYPE / TLV-LENGTH per the NDN packet format), the stream
// is their concatenation, and the expected sequence of packets handed to the engine callback IS that list of blocks:
//   #none-lost-duplicated-split-merged  number of packets and the length of each equal those of the blocks sent
//   #byte-identical-in-order            packet i is byte-identical to block i
//   #long-stream-count / -bytes         the same for a stream of ~1 MB (many refills of the 4096-byte read-ahead buffer)
//   #ends-at-eof                        at the end of the stream the error callback is invoked (once, with EOF) and Run returns
//
// The connection is a fake net.Conn whose Read hands out the stream in a prescribed chunking (a chunk larger than the caller's
// buffer is continued by the next Read); EOF comes alone or together with the last bytes. Run is called synchronously: no
// goroutine, no network. The error callback returns its argument, as std/engine/basic.(*Engine).onError does.

import (
	"bytes"
	"fmt"
	"io"
	"net"
	"testing"
	"time"

	enc "github.com/named-data/ndnd/std/encoding"
)

type sfConn struct {
	data        []byte
	pos         int
	chunks      []int
	ci          int
	left        int
	eofWithLast bool
	nreads      int
}

func (r *sfConn) Read(p []byte) (int, error) {
	r.nreads++
	if r.nreads > 50_000_000 {
		return 0, fmt.Errorf("sf: too many reads")
	}
	if len(p) == 0 {
		return 0, nil
	}
	if r.pos >= len(r.data) {
		return 0, io.EOF
	}
	if r.left <= 0 {
		r.left = r.chunks[r.ci%len(r.chunks)]
		r.ci++
		if r.left <= 0 {
			r.left = 1
		}
	}
	n := min(r.left, len(p), len(r.data)-r.pos)
	copy(p, r.data[r.pos:r.pos+n])
	r.pos += n
	r.left -= n
	if r.pos == len(r.data) && r.eofWithLast {
		return n, io.EOF
	}
	return n, nil
}
func (r *sfConn) Write(p []byte) (int, error)      { return len(p), nil }
func (r *sfConn) Close() error                     { return nil }
func (r *sfConn) LocalAddr() net.Addr              { return nil }
func (r *sfConn) RemoteAddr() net.Addr             { return nil }
func (r *sfConn) SetDeadline(time.Time) error      { return nil }
func (r *sfConn) SetReadDeadline(time.Time) error  { return nil }
func (r *sfConn) SetWriteDeadline(time.Time) error { return nil }

func sfNum(v int) []byte {
	if v < 253 {
		return []byte{byte(v)}
	}
	if v <= 0xffff {
		return []byte{0xfd, byte(v >> 8), byte(v)}
	}
	panic("sf: number too large")
}

func sfBlock(total, tform int, seed uint32) []byte {
	var typ []byte
	if tform == 1 {
		typ = []byte{[]byte{0x05, 0x06, 0x64, 0x50}[seed%4]}
	} else {
		typ = sfNum(800 + int(seed%7))
	}
	for vlen := 0; vlen <= total; vlen++ {
		l := sfNum(vlen)
		if len(typ)+len(l)+vlen == total {
			b := append(append([]byte{}, typ...), l...)
			x := seed*2654435761 + 99991
			for i := 0; i < vlen; i++ {
				x = x*1664525 + 1013904223
				// value bytes 0x00..0xFD only: if a faulty receiver parses value bytes as a header, the length it allocates
				// stays below 64 KiB (0xFE/0xFF would announce up to 2^64 bytes and take the test process down)
				b = append(b, byte(x>>24)%0xfe)
			}
			return b
		}
	}
	return nil
}

type sfResult struct {
	npkts    int
	mismatch string // first deviation from the expected sequence, "" if none
	shape    bool   // the deviation is one of count/length (lost, duplicated, split, merged) rather than of content
	errCalls int
	lastErr  error
	returned bool
}

var errSfStop = fmt.Errorf("sf: stop after the first wrong packet")

// sfRun runs (*StreamFace).Run synchronously over the fake connection. The packet callback compares each packet with the block
// expected at that position and stops the face (returns an error, which ends Run) at the first deviation.
func sfRun(blocks [][]byte, stream []byte, chunks []int, eofWithLast bool) (res sfResult) {
	conn := &sfConn{data: stream, chunks: chunks, eofWithLast: eofWithLast}
	f := NewStreamFace("fake", "fake", true)
	f.SetCallback(func(r enc.ParseReader) error {
		i := res.npkts
		res.npkts++
		got := r.Range(0, r.Length()).Join()
		switch {
		case i >= len(blocks):
			res.mismatch, res.shape = fmt.Sprintf("packet %d (%d bytes) handed to the engine, only %d blocks were sent", i, len(got), len(blocks)), true
		case len(got) != len(blocks[i]):
			res.mismatch, res.shape = fmt.Sprintf("packet %d has %d bytes, block %d was %d bytes", i, len(got), i, len(blocks[i])), true
		case !bytes.Equal(got, blocks[i]):
			j := 0
			for got[j] == blocks[i][j] {
				j++
			}
			res.mismatch = fmt.Sprintf("packet %d differs from block %d at byte %d (want %#x got %#x)", i, i, j, blocks[i][j], got[j])
		default:
			return nil
		}
		return errSfStop
	}, func(err error) error {
		res.errCalls++
		res.lastErr = err
		return err
	})
	f.conn = conn
	f.running.Store(true)
	defer func() {
		if p := recover(); p != nil {
			res.lastErr = fmt.Errorf("panic: %v", p)
		}
	}()
	f.Run()
	res.returned = true
	return
}

type sfChecker struct {
	failed map[string]bool
	cases  int
}

func (c *sfChecker) fail(clause, format string, a ...interface{}) {
	if c.failed[clause] {
		return
	}
	c.failed[clause] = true
	fmt.Printf("BOUNDED-FAIL bounded:stream-face-chunking#%s %s\n", clause, fmt.Sprintf(format, a...))
}

func sfDescribe(blocks [][]byte) string {
	if len(blocks) > 12 {
		return fmt.Sprintf("%d blocks (first sizes %s...)", len(blocks), sfDescribe(blocks[:6]))
	}
	s := "["
	for i, b := range blocks {
		if i > 0 {
			s += " "
		}
		tl := 1
		if b[0] == 0xfd {
			tl = 3
		}
		s += fmt.Sprintf("%dB/T%d", len(b), tl)
	}
	return s + "]"
}

func (c *sfChecker) check(prefix string, blocks [][]byte, chunks []int, eofWithLast bool) {
	countClause, bytesClause := "none-lost-duplicated-split-merged", "byte-identical-in-order"
	if prefix != "" {
		countClause, bytesClause = prefix+"count", prefix+"bytes"
	}
	if c.failed[countClause] && c.failed[bytesClause] {
		return // both clauses of this family already have their failing case
	}
	c.cases++
	stream := bytes.Join(blocks, nil)
	res := sfRun(blocks, stream, chunks, eofWithLast)
	cs := fmt.Sprintf("%v", chunks)
	if len(chunks) > 10 {
		cs = fmt.Sprintf("%v...(%d sizes, cycled)", chunks[:10], len(chunks))
	}
	what := fmt.Sprintf("blocks %s (stream %d bytes), chunk sizes %s, EOF-with-last-bytes=%v", sfDescribe(blocks), len(stream), cs, eofWithLast)
	switch {
	case res.mismatch != "" && res.shape:
		c.fail(countClause, "%s: %s", what, res.mismatch)
	case res.mismatch != "":
		c.fail(bytesClause, "%s: %s", what, res.mismatch)
	case res.npkts != len(blocks):
		c.fail(countClause, "%s: %d blocks sent, %d packets handed to the engine (last error %v)", what, len(blocks), res.npkts, res.lastErr)
	case !res.returned || res.errCalls != 1 || res.lastErr != io.EOF:
		c.fail("ends-at-eof", "%s: after the last block: Run returned=%v, error callback invoked %d times, last error %v (want: returned, once, EOF)",
			what, res.returned, res.errCalls, res.lastErr)
	}
}

func TestBoundedStreamFaceChunking(t *testing.T) {
	c := &sfChecker{failed: map[string]bool{}}
	defer func() { // a crash outside a guarded case: report it and the cases run so far instead of dying silently
		if p := recover(); p != nil {
			fmt.Printf("BOUNDED-FAIL bounded:stream-face-chunking#panic after %d cases: %v\n", c.cases, p)
			fmt.Printf("BOUNDED-CASES %d\n", c.cases)
		}
	}()
	spec := []struct{ total, tform int }{
		{2, 1}, {3, 1}, {4, 3}, {254, 1}, {255, 3}, {256, 3}, {257, 1}, {259, 3}, {8800, 1}, {8800, 3},
	}
	var u [][]byte
	for i, s := range spec {
		u = append(u, sfBlock(s.total, s.tform, uint32(i+1)))
	}
	small := u[:8]
	cyc17 := make([]int, 17)
	for i := range cyc17 {
		cyc17[i] = i + 1
	}

	// family A: singles and ordered pairs of the small blocks, two chunks cut at every position (streams <= 64 bytes) or at every
	// position within 6 bytes of a block boundary plus every 37th; triples of the tiniest blocks in every 3-chunk split.
	var seqs [][][]byte
	for _, b := range u {
		seqs = append(seqs, [][]byte{b})
	}
	for _, a := range small {
		for _, b := range small {
			seqs = append(seqs, [][]byte{a, b})
		}
	}
	for _, blocks := range seqs {
		n := 0
		bounds := []int{0}
		for _, b := range blocks {
			n += len(b)
			bounds = append(bounds, n)
		}
		for cut := 1; cut < n; cut++ {
			near := n <= 64 || cut%37 == 0
			for _, b := range bounds {
				if cut >= b-6 && cut <= b+6 {
					near = true
				}
			}
			if !near {
				continue
			}
			c.check("", blocks, []int{cut, n - cut}, cut%2 == 0)
		}
	}
	for _, a := range u[:3] {
		for _, b := range u[:3] {
			for _, d := range u[:3] {
				n := len(a) + len(b) + len(d)
				for c1 := 1; c1 < n; c1++ {
					for c2 := c1 + 1; c2 < n; c2++ {
						c.check("", [][]byte{a, b, d}, []int{c1, c2 - c1, n - c2}, (c1+c2)%2 == 0)
					}
				}
			}
		}
	}

	// family B: every ordered pair of the whole universe, all ten blocks forwards and backwards, named chunking patterns.
	var seqsB [][][]byte
	for _, a := range u {
		for _, b := range u {
			seqsB = append(seqsB, [][]byte{a, b})
		}
	}
	rev := make([][]byte, len(u))
	for i := range u {
		rev[len(u)-1-i] = u[i]
	}
	seqsB = append(seqsB, u, rev)
	for _, blocks := range seqsB {
		n := 0
		var aligned, two []int
		for i, b := range blocks {
			n += len(b)
			aligned = append(aligned, len(b))
			if i%2 == 0 {
				two = append(two, len(b))
			} else {
				two[len(two)-1] += len(b)
			}
		}
		for _, p := range [][]int{
			{1}, {n}, aligned, two, cyc17,
			{len(blocks[0]) + (len(blocks[1])+1)/2, n},
			{len(blocks[0]) + 1, len(blocks[1]) - 2, 1, n},
			{len(blocks[0]) - 1, 2, n},
			{4096}, {4095, 4097}, {1460},
		} {
			c.check("", blocks, p, false)
			c.check("", blocks, p, true)
		}
	}

	// family C: a long stream: the universe repeated 50 times (944 500 bytes) with different value bytes per copy.
	var long [][]byte
	for r := 0; r < 50; r++ {
		for i, s := range spec {
			long = append(long, sfBlock(s.total, s.tform, uint32(1000+r*16+i)))
		}
	}
	for pi, p := range [][]int{{1 << 20}, {1}, cyc17, {4096}, {4095}, {4097}, {65536}, {8800}, {8799}, {7919}, {18890}} {
		c.check("long-stream-", long, p, pi%2 == 1)
	}

	fmt.Printf("BOUNDED-CASES %d\n", c.cases)
}
