// Package directory: fw/fw
//
// Bounded stand-in for the whole-history / cross-component clauses of C01, C02, C08, C09
// (forwarding pipelines + PIT/CS + FIB + strategies).  NOT a proof: an exhaustive enumeration of
// short event histories over a small universe, run against the REAL pipelines
// (processIncomingInterest / processIncomingData / PitCsTable.Update) with recording fake faces,
// compared after every event with a naive reference model written from the property texts
// (/verif/properties.jsonl, ids C01, C02, C08, C09).
//
// Universe
//   faces : L1 (local, point-to-point), L2 (local, p2p), N1 (non-local, p2p), N2 (non-local, ad hoc)
//   names : /a /a/b /a/b/c /localhost/x /localhost/x/y /   (+ /h and /r/x as forwarding-hint delegations)
//   FIB   : fixed per slice (1-2 next hops per entry, distinct costs), strategies best-route and multicast
//   CS    : on (admit + serve), capacity larger than the universe (no eviction)
// Events
//   Interest(name, CanBePrefix, MustBeFresh, nonce in {absent,1,2,3}, hop limit in {absent,0,1,5}, arrival face,
//            optional NextHopFaceId, optional PIT token of the downstream, lifetime in {0, default 4 s},
//            forwarding hint in {none, [/h], [/r/x], [/h,/r/x]})
//   Data(name, arrival face, token in {none, echo of the latest / the first token the forwarder attached,
//            fabricated 6-byte token, 4-byte token (not this forwarder's format)}, FreshnessPeriod in {none, 1 h})
//   Tick  = PitCsTable.Update() (the reaper the forwarding thread runs on its timer)
//   Age   = all out-records are made 600 ms older (LatestTimestamp is an exported field), i.e. the
//           suppression interval of 500 ms has elapsed; nothing else is aged
// Time: the forwarder reads time.Now() directly; there is no controllable clock.  A whole history runs in
// microseconds, so (a) all events fall into one suppression interval unless Age is used, (b) a lifetime of
// 0 ms has elapsed at the next Tick and a lifetime of 4 s never elapses.  A history that took longer than
// 200 ms of wall time (stalled machine) is re-run, and a failing history is re-run once before it is reported.
//
// Oracle clauses (the sentence of the property each one comes from is quoted at the check).
// The reference model deliberately leaves three things to observation instead of prescribing them, because
// the property texts leave them open: which nonces are "recorded as dead" (read from the dead nonce list
// before the event: C02 only says such an Interest is not forwarded), the value of the tokens the forwarder
// attaches (learned from the first transmission), and which of several cached Data answers a CanBePrefix
// Interest (any cached Data that satisfies the Interest is accepted).
package fw

import (
	"fmt"
	"os"
	"sort"
	"strings"
	"testing"
	"time"

	"github.com/named-data/ndnd/fw/core"
	"github.com/named-data/ndnd/fw/defn"
	"github.com/named-data/ndnd/fw/dispatch"
	"github.com/named-data/ndnd/fw/table"
	enc "github.com/named-data/ndnd/std/encoding"
	"github.com/named-data/ndnd/std/ndn"
	spec "github.com/named-data/ndnd/std/ndn/spec_2022"
	sec "github.com/named-data/ndnd/std/security"
	"github.com/named-data/ndnd/std/utils"
)

// ---------------------------------------------------------------------------------------------
// universe
// ---------------------------------------------------------------------------------------------

const (
	bhL1 = 0
	bhL2 = 1
	bhN1 = 2
	bhN2 = 3
	// bhNoFace is a NextHopFaceId that names no face
	bhNoFace = 9
)

type bhFaceSpec struct {
	id    uint64
	local bool
	adhoc bool
	tok   []byte // the PIT token this downstream attaches to its Interests (when it attaches one)
	label string
}

var bhFaceSpecs = []bhFaceSpec{
	{4101, true, false, []byte{0xa1, 0x01, 0x02, 0x03}, "L1"},
	{4102, true, false, []byte{0xa2}, "L2"},
	{4201, false, false, []byte{0x00, 0x00, 0xb1, 0x01, 0x02, 0x03}, "N1"}, // 6 bytes, like another forwarder of this kind
	{4202, false, true, []byte{0xb2, 1, 2, 3, 4, 5, 6, 7}, "N2"},
}

const bhNoFaceID = uint64(4999)

var bhNames = []string{"/a", "/a/b", "/a/b/c", "/localhost/x", "/localhost/x/y", "/"}

const (
	bhNmA = iota
	bhNmAB
	bhNmABC
	bhNmLX
	bhNmLXY
	bhNmRoot
)

// forwarding hints: index -> delegations.  /r is the producer region of this forwarder.
var bhHints = [][]string{nil, {"/h"}, {"/r/x"}, {"/h", "/r/x"}}

const bhRegion = "/r"

var bhCompsCache = map[string][]string{}

func bhComps(s string) []string {
	if c, ok := bhCompsCache[s]; ok {
		return c
	}
	c := []string{}
	if s != "/" {
		c = strings.Split(strings.TrimPrefix(s, "/"), "/")
	}
	bhCompsCache[s] = c
	return c
}

func bhIsPrefix(p, n []string) bool {
	if len(p) > len(n) {
		return false
	}
	for i := range p {
		if p[i] != n[i] {
			return false
		}
	}
	return true
}

func bhIsLocalhost(name string) bool {
	c := bhComps(name)
	return len(c) > 0 && c[0] == "localhost"
}

var bhNameCache = map[string]enc.Name{}

// bhName returns a cached name: only for read-only uses (lookups, hashing); packets are always parsed from fresh bytes
func bhName(s string) enc.Name {
	if n, ok := bhNameCache[s]; ok {
		return n
	}
	n, err := enc.NameFromStr(s)
	if err != nil {
		panic(err)
	}
	bhNameCache[s] = n
	return n
}

// ---------------------------------------------------------------------------------------------
// recording faces
// ---------------------------------------------------------------------------------------------

type bhSent struct {
	face    int
	data    bool
	name    string
	tok     string
	hop     int // hop limit of the decoded packet handed to the face, -1 absent
	wireHop int // hop limit found in the bytes handed to the face, -1 absent, -2 no bytes
	nonce   uint32
}

func (s bhSent) String() string {
	k := "I"
	if s.data {
		k = "D"
	}
	r := fmt.Sprintf("%s(%s)->%s tok=%x", k, s.name, bhFaceSpecs[s.face].label, s.tok)
	if !s.data {
		r += fmt.Sprintf(" nonce=%d hop=%d", s.nonce, s.hop)
	}
	return r
}

var bhLog []bhSent

type bhFace struct {
	idx  int
	spec bhFaceSpec
}

func (f *bhFace) String() string          { return "bounded-face-" + f.spec.label }
func (f *bhFace) SetFaceID(faceID uint64) {}
func (f *bhFace) FaceID() uint64          { return f.spec.id }
func (f *bhFace) LocalURI() *defn.URI     { return nil }
func (f *bhFace) RemoteURI() *defn.URI    { return nil }
func (f *bhFace) Scope() defn.Scope {
	if f.spec.local {
		return defn.Local
	}
	return defn.NonLocal
}
func (f *bhFace) LinkType() defn.LinkType {
	if f.spec.adhoc {
		return defn.AdHoc
	}
	return defn.PointToPoint
}
func (f *bhFace) MTU() int          { return defn.MaxNDNPacketSize }
func (f *bhFace) State() defn.State { return defn.Up }
func (f *bhFace) SendPacket(out dispatch.OutPkt) {
	s := bhSent{face: f.idx, tok: string(out.PitToken), hop: -1, wireHop: -2}
	p := out.Pkt
	if p.L3.Data != nil {
		s.data = true
		s.name = p.L3.Data.NameV.String()
	} else if p.L3.Interest != nil {
		s.name = p.L3.Interest.NameV.String()
		if p.L3.Interest.HopLimitV != nil {
			s.hop = int(*p.L3.Interest.HopLimitV)
		}
		if p.L3.Interest.NonceV != nil {
			s.nonce = *p.L3.Interest.NonceV
		}
	}
	if p.Raw != nil {
		// what the link service would put on the wire
		if w, _, err := spec.ReadPacket(enc.NewBufferReader(append([]byte(nil), p.Raw...))); err == nil {
			if w.Data != nil {
				s.name = w.Data.NameV.String()
			} else if w.Interest != nil {
				s.name = w.Interest.NameV.String()
				s.wireHop = -1
				if w.Interest.HopLimitV != nil {
					s.wireHop = int(*w.Interest.HopLimitV)
				}
			}
		}
	}
	if s.name == "" {
		s.name = "/"
	}
	bhLog = append(bhLog, s)
}

// ---------------------------------------------------------------------------------------------
// events
// ---------------------------------------------------------------------------------------------

const (
	bhEvInterest = iota
	bhEvData
	bhEvTick
	bhEvAge
)

const (
	bhTokNone = iota
	bhTokEchoLast
	bhTokEchoFirst
	bhTokFabricated
	bhTokShort
)

type bhEv struct {
	kind  int
	name  int
	face  int
	cbp   bool
	mbf   bool
	nonce uint32 // 0 = no Nonce element
	hop   int    // -1 = no HopLimit element
	nh    int    // -1 = no NextHopFaceId, else face index or bhNoFace
	tok   bool   // downstream attaches its PIT token
	short bool   // InterestLifetime 0 ms (else default 4 s)
	hint  int
	dtok  int
	fresh bool
}

func (e bhEv) String() string {
	switch e.kind {
	case bhEvTick:
		return "Tick"
	case bhEvAge:
		return "Age600ms"
	case bhEvData:
		tk := []string{"none", "echo-latest", "echo-first", "fabricated", "4-byte"}[e.dtok]
		fr := ""
		if e.fresh {
			fr = ",fresh"
		}
		return fmt.Sprintf("Data(%s from %s,token=%s%s)", bhNames[e.name], bhFaceSpecs[e.face].label, tk, fr)
	}
	s := fmt.Sprintf("Interest(%s from %s", bhNames[e.name], bhFaceSpecs[e.face].label)
	if e.cbp {
		s += ",CanBePrefix"
	}
	if e.mbf {
		s += ",MustBeFresh"
	}
	if e.nonce == 0 {
		s += ",no-nonce"
	} else {
		s += fmt.Sprintf(",nonce=%d", e.nonce)
	}
	if e.hop >= 0 {
		s += fmt.Sprintf(",hop=%d", e.hop)
	}
	if e.nh >= 0 {
		if e.nh == bhNoFace {
			s += ",NextHopFaceId=<no such face>"
		} else {
			s += ",NextHopFaceId=" + bhFaceSpecs[e.nh].label
		}
	}
	if e.tok {
		s += ",token"
	}
	if e.short {
		s += ",lifetime=0"
	}
	if e.hint > 0 {
		s += ",hint=" + strings.Join(bhHints[e.hint], "+")
	}
	return s + ")"
}

func bhHistory(evs []bhEv) string {
	p := make([]string, len(evs))
	for i, e := range evs {
		p[i] = e.String()
	}
	return strings.Join(p, ";")
}

type bhWireKey struct {
	name       int
	cbp, mbf   bool
	nonce      uint32
	hop        int
	short      bool
	hint       int
	data, frsh bool
}

var bhWires = map[bhWireKey][]byte{}

func bhInterestPkt(e bhEv) *defn.Pkt {
	k := bhWireKey{name: e.name, cbp: e.cbp, mbf: e.mbf, nonce: e.nonce, hop: e.hop, short: e.short, hint: e.hint}
	wire, ok := bhWires[k]
	if !ok {
		cfg := &ndn.InterestConfig{CanBePrefix: e.cbp, MustBeFresh: e.mbf}
		if e.nonce != 0 {
			cfg.Nonce = utils.IdPtr(uint64(e.nonce))
		}
		if e.hop >= 0 {
			cfg.HopLimit = utils.IdPtr(uint(e.hop))
		}
		if e.short {
			cfg.Lifetime = utils.IdPtr(time.Duration(0))
		}
		for _, h := range bhHints[e.hint] {
			cfg.ForwardingHint = append(cfg.ForwardingHint, bhName(h))
		}
		enci, err := spec.Spec{}.MakeInterest(bhName(bhNames[e.name]), cfg, nil, nil)
		if err != nil {
			panic(err)
		}
		wire = enci.Wire.Join()
		bhWires[k] = wire
	}
	raw := append([]byte(nil), wire...)
	pkt, _, err := spec.ReadPacket(enc.NewBufferReader(raw))
	if err != nil || pkt.Interest == nil {
		panic(fmt.Sprintf("harness: cannot parse generated Interest %v: %v", e, err))
	}
	ret := &defn.Pkt{
		Name:           pkt.Interest.NameV,
		L3:             pkt,
		Raw:            raw,
		IncomingFaceID: utils.IdPtr(bhFaceSpecs[e.face].id),
	}
	if e.tok {
		ret.PitToken = append([]byte(nil), bhFaceSpecs[e.face].tok...)
	}
	if e.nh >= 0 {
		if e.nh == bhNoFace {
			ret.NextHopFaceID = utils.IdPtr(bhNoFaceID)
		} else {
			ret.NextHopFaceID = utils.IdPtr(bhFaceSpecs[e.nh].id)
		}
	}
	return ret
}

func bhDataPkt(e bhEv, token []byte) *defn.Pkt {
	k := bhWireKey{name: e.name, data: true, frsh: e.fresh}
	wire, ok := bhWires[k]
	if !ok {
		cfg := &ndn.DataConfig{}
		if e.fresh {
			cfg.Freshness = utils.IdPtr(time.Hour)
		}
		encd, err := spec.Spec{}.MakeData(bhName(bhNames[e.name]), cfg, enc.Wire{[]byte("bounded")}, sec.NewSha256Signer())
		if err != nil {
			panic(err)
		}
		wire = encd.Wire.Join()
		bhWires[k] = wire
	}
	raw := append([]byte(nil), wire...)
	pkt, _, err := spec.ReadPacket(enc.NewBufferReader(raw))
	if err != nil || pkt.Data == nil {
		panic(fmt.Sprintf("harness: cannot parse generated Data %v: %v", e, err))
	}
	return &defn.Pkt{
		Name:           pkt.Data.NameV,
		L3:             pkt,
		Raw:            raw,
		PitToken:       token,
		IncomingFaceID: utils.IdPtr(bhFaceSpecs[e.face].id),
	}
}

// ---------------------------------------------------------------------------------------------
// configuration (FIB + strategy choice), installed in the real tables and read by the model
// ---------------------------------------------------------------------------------------------

type bhHop struct {
	face int
	cost uint64
}

type bhFibEntry struct {
	prefix string
	hops   []bhHop // in insertion order
}

type bhConfig struct {
	label string
	strat map[string]string // prefix -> "best-route" | "multicast"; "/" is mandatory
	fib   []bhFibEntry
}

var bhSetupDone bool

func bhInstall(cfg bhConfig) {
	if !bhSetupDone {
		c := core.DefaultConfig()
		c.Core.LogLevel = "FATAL"
		c.Fw.QueueSize = 1
		core.LoadConfig(c, "")
		core.InitializeLogger("")
		core.ShouldQuit = true // Update() does not start timers of its own
		table.Configure()
		Configure()
		table.NetworkRegion.Add(bhName(bhRegion))
		for i := range bhFaceSpecs {
			dispatch.AddFace(bhFaceSpecs[i].id, &bhFace{idx: i, spec: bhFaceSpecs[i]})
		}
		bhSetupDone = true
	}
	table.CreateFIBTable("nametree")
	for p, s := range cfg.strat {
		table.FibStrategyTable.SetStrategyEnc(bhName(p), bhName(StrategyPrefix+"/"+s+"/v=1"))
	}
	for _, fe := range cfg.fib {
		for _, h := range fe.hops {
			table.FibStrategyTable.InsertNextHopEnc(bhName(fe.prefix), bhFaceSpecs[h.face].id, h.cost)
		}
	}
}

// longest-prefix FIB entry (C02: "a next hop of the longest-prefix FIB entry for its name")
func (cfg *bhConfig) lpm(name string) []bhHop {
	n := bhComps(name)
	best := -1
	var hops []bhHop
	for _, fe := range cfg.fib {
		p := bhComps(fe.prefix)
		if len(fe.hops) > 0 && bhIsPrefix(p, n) && len(p) > best {
			best = len(p)
			hops = fe.hops
		}
	}
	return hops
}

func (cfg *bhConfig) strategy(name string) string {
	n := bhComps(name)
	best := -1
	ret := ""
	for ps, s := range cfg.strat {
		p := bhComps(ps)
		if bhIsPrefix(p, n) && len(p) > best {
			best = len(p)
			ret = s
		}
	}
	return ret
}

// ---------------------------------------------------------------------------------------------
// reference model
// ---------------------------------------------------------------------------------------------

type bhKey struct {
	name     int
	cbp, mbf bool
	hint     string // effective delegation ("" when none or when the producer region is reached)
}

type bhIn struct {
	nonce  uint32
	toks   []string // every token this face supplied for this pending Interest
	latest string
	long   bool
}

type bhOut struct {
	nonce uint32
	long  bool
	aged  bool // the suppression interval has elapsed since it was (re)stamped
}

type bhEntry struct {
	in     map[int]*bhIn
	out    map[int]*bhOut
	expNow bool   // due at the next Tick (all lifetimes elapsed, or satisfied)
	csOnly bool   // created for an Interest answered from the cache and never pending since
	csKept bool   // a cache hit on an entry that was already scheduled left the entry's expiration field reset (the queue still holds it)
	zombie bool   // known leak on this tree (see clause C08-cs-hit-entry-reclaimed): kept so that later events stay comparable
	token  string // token the forwarder attached for this entry (learned)
}

type bhModel struct {
	cfg      *bhConfig
	pit      map[bhKey]*bhEntry
	cs       map[int]bool // name -> has FreshnessPeriod
	tokens   map[string]bhKey
	fwdToks  []string
	consumed map[int]bool // faces whose pending Interest was consumed by an earlier Data of this history
}

func bhNewModel(cfg *bhConfig) *bhModel {
	return &bhModel{cfg: cfg, pit: map[bhKey]*bhEntry{}, cs: map[int]bool{}, tokens: map[string]bhKey{}, consumed: map[int]bool{}}
}

type bhCopy struct {
	face     int
	name     string
	toks     []string
	optional bool
}

type bhExpect struct {
	verdict   string // why the model drops / how it handles the packet
	interests []int  // faces that must receive the Interest (FIB path or chosen hop)
	hopOut    int
	copies    []bhCopy // Data copies (Data event)
	csHit     bool
	csNames   []string // acceptable cached Data for a cache hit
	csBlocked bool     // some acceptable cached Data may not be sent to the requester (scope): silence is acceptable
	key       bhKey
	hops      []bhHop // next hops of the longest-prefix entry consulted
	chosen    bool    // NextHopFaceId path
	strategy  string
}

func bhEffectiveHint(h int) string {
	first := ""
	for _, d := range bhHints[h] {
		if bhIsPrefix(bhComps(bhRegion), bhComps(d)) {
			return "" // C02: hint only "outside the producer region"
		}
		if first == "" {
			first = d
		}
	}
	return first
}

func (m *bhModel) interest(e bhEv, dead bool) bhExpect {
	x := bhExpect{hopOut: -1}
	name := bhNames[e.name]
	f := bhFaceSpecs[e.face]
	// C02: "an Interest ... arriving with hop limit zero ... is not forwarded"
	if e.hop == 0 {
		x.verdict = "hop-limit-zero"
		return x
	}
	if e.hop > 0 {
		x.hopOut = e.hop - 1 // C02: "forwarded, with its hop limit reduced by one"
	}
	// C09: "No Interest ... whose name begins with /localhost is ever accepted from ... a non-local face"
	if !f.local && bhIsLocalhost(name) {
		x.verdict = "scope-in"
		return x
	}
	// C02: "or lacking a nonce, is not forwarded"
	if e.nonce == 0 {
		x.verdict = "no-nonce"
		return x
	}
	// C02: "or a nonce recorded as dead ... is not forwarded" (recorded = observed in the dead nonce list)
	if dead {
		x.verdict = "dead-nonce"
		return x
	}
	key := bhKey{e.name, e.cbp, e.mbf, bhEffectiveHint(e.hint)}
	x.key = key
	ent := m.pit[key]
	isNew := ent == nil
	if isNew {
		ent = &bhEntry{in: map[int]*bhIn{}, out: map[int]*bhOut{}}
		m.pit[key] = ent
	}
	// C02: "an Interest repeating the nonce of one still pending from another face ... is not forwarded"
	for face, in := range ent.in {
		if face != e.face && in.nonce == e.nonce {
			x.verdict = "duplicate-nonce"
			return x
		}
	}
	tok := ""
	if e.tok {
		tok = string(f.tok)
	}
	in, pending := ent.in[e.face]
	if !pending {
		ent.in[e.face] = &bhIn{nonce: e.nonce, toks: []string{tok}, latest: tok, long: !e.short}
	} else {
		in.nonce = e.nonce
		in.toks = append(in.toks, tok)
		in.latest = tok
		in.long = !e.short
	}
	if !pending {
		// C01: "Data served from the cache in answer to an Interest goes to that Interest's face alone."
		// C02: only "the first Interest for content not in the cache" is forwarded.
		for n, fresh := range m.cs {
			dn := bhComps(bhNames[n])
			in := bhComps(name)
			match := (e.cbp && bhIsPrefix(in, dn)) || bhNames[n] == name
			if match && (!e.mbf || fresh) {
				if !f.local && bhIsLocalhost(bhNames[n]) {
					x.csBlocked = true // C09 forbids sending it; C01 "scope rules permitting"
				} else {
					x.csNames = append(x.csNames, bhNames[n])
				}
			}
		}
		if len(x.csNames) > 0 || x.csBlocked {
			x.csHit = true
			x.verdict = "cs-hit"
			x.copies = []bhCopy{{face: e.face, toks: []string{tok}}}
			delete(ent.in, e.face)
			if len(ent.in) == 0 {
				// C08: removed "promptly once it is satisfied - including entries created for Interests answered from the cache"
				if isNew || ent.zombie || ent.csOnly {
					ent.csOnly = true
				}
				ent.expNow = true
			}
			ent.csKept = !isNew
			return x
		}
	}
	// pending (not answered from the cache): C08 "removed no later than shortly after the latest lifetime among the Interests recorded in it"
	ent.csOnly = false
	ent.zombie = false
	ent.csKept = false
	ent.expNow = true
	for _, r := range ent.in {
		if r.long {
			ent.expNow = false
		}
	}
	for _, r := range ent.out {
		if r.long {
			ent.expNow = false
		}
	}
	// C02: "or the consumer-chosen next hop on faces where that is enabled"
	if e.nh >= 0 {
		x.chosen = true
		x.verdict = "chosen-next-hop"
		if e.nh != bhNoFace {
			nh := bhFaceSpecs[e.nh]
			if !(!nh.local && bhIsLocalhost(name)) && // C09: never transmitted on a non-local face
				!(e.nh == e.face && !nh.adhoc) { // C02: "never back out of the point-to-point face it arrived on"
				x.interests = []int{e.nh}
			}
		}
		return x
	}
	lookup := name
	if key.hint != "" {
		lookup = key.hint // C02: "or for its forwarding hint outside the producer region"
	}
	x.hops = m.cfg.lpm(lookup)
	x.strategy = m.cfg.strategy(name)
	// a next hop that is itself waiting for this Interest is not asked (it is a downstream of the same entry)
	var allowed []bhHop
	for _, h := range x.hops {
		if _, waits := ent.in[h.face]; !waits || h.face == e.face {
			allowed = append(allowed, h)
		}
	}
	if len(allowed) == 0 {
		x.verdict = "no-next-hop"
		return x
	}
	// C02: "a different-nonce retransmission inside the suppression interval is aggregated instead of forwarded"
	for _, o := range ent.out {
		if o.nonce != e.nonce && !o.aged {
			x.verdict = "suppressed"
			return x
		}
	}
	usable := func(h bhHop) bool {
		hf := bhFaceSpecs[h.face]
		if h.face == e.face && !hf.adhoc {
			return false // C02: "never back out of the point-to-point face it arrived on"
		}
		if !hf.local && bhIsLocalhost(name) {
			return false // C09
		}
		if !hf.local && x.hopOut == 0 {
			return false // a hop limit that reached zero does not leave the node
		}
		return true
	}
	sorted := append([]bhHop(nil), allowed...)
	sort.SliceStable(sorted, func(i, j int) bool { return sorted[i].cost < sorted[j].cost })
	for _, h := range sorted {
		if usable(h) {
			x.interests = append(x.interests, h.face)
			if x.strategy == "best-route" {
				break // C02: "best-route uses the lowest-cost usable next hop"
			}
			// C02: "multicast uses all of them"
		}
	}
	x.verdict = "forward"
	for _, face := range x.interests {
		ent.out[face] = &bhOut{nonce: e.nonce, long: !e.short}
	}
	return x
}

func (m *bhModel) data(e bhEv, token []byte) bhExpect {
	x := bhExpect{}
	name := bhNames[e.name]
	f := bhFaceSpecs[e.face]
	// C09: "No ... Data packet whose name begins with /localhost is ever accepted from ... a non-local face"
	if !f.local && bhIsLocalhost(name) {
		x.verdict = "scope-in"
		return x
	}
	m.cs[e.name] = e.fresh
	var matched []bhKey
	if len(token) == 6 {
		// C01: "satisfies a pending Interest if it echoes the PIT token this forwarder attached when it forwarded that Interest"
		if k, ok := m.tokens[string(token)]; ok {
			if _, live := m.pit[k]; live {
				matched = append(matched, k)
			}
		}
	} else {
		// C01: "when it carries no token in this forwarder's format, if its name equals the Interest's name or extends it and CanBePrefix was set"
		dn := bhComps(name)
		for k := range m.pit {
			in := bhComps(bhNames[k.name])
			if bhNames[k.name] == name || (k.cbp && bhIsPrefix(in, dn)) {
				matched = append(matched, k)
			}
		}
	}
	x.verdict = "data"
	for _, k := range matched {
		ent := m.pit[k]
		for face, in := range ent.in {
			c := bhCopy{face: face, name: name, toks: in.toks}
			if face == e.face {
				// C01 requires copies only for "every such face other than the arrival face"
				c.optional = true
			} else if !bhFaceSpecs[face].local && bhIsLocalhost(name) {
				// C01 "scope rules permitting" / C09
				m.consumed[face] = true
				continue
			}
			x.copies = append(x.copies, c)
			m.consumed[face] = true
		}
		// C01: "the pending Interest is thereby consumed so that a repeated copy of the Data is delivered to nobody"
		ent.in = map[int]*bhIn{}
		ent.out = map[int]*bhOut{}
		ent.expNow = true // C08: removed "promptly once it is satisfied"
		ent.csOnly = false
		ent.zombie = false
	}
	return x
}

// ---------------------------------------------------------------------------------------------
// running one history against the real pipelines
// ---------------------------------------------------------------------------------------------

type bhFail struct {
	clause string
	msg    string
}

type bhRun struct {
	prop  string
	th    *Thread
	m     *bhModel
	evs   []bhEv
	fails []bhFail
	notes map[string]int
}

func (r *bhRun) fail(step int, clause, format string, args ...interface{}) {
	for _, f := range r.fails {
		if f.clause == clause {
			return
		}
	}
	r.fails = append(r.fails, bhFail{clause, fmt.Sprintf("config=%s history=[%s] at event %d: ", r.m.cfg.label, bhHistory(r.evs), step+1) +
		fmt.Sprintf(format, args...)})
}

var bhTimers []<-chan struct{}

func bhDrainTimers() {
	// every PIT-CS table starts one timer goroutine that blocks on an unbuffered channel: release the ones that fired
	for len(bhTimers) > 0 {
		select {
		case <-bhTimers[0]:
			bhTimers = bhTimers[1:]
		default:
			return
		}
	}
}

func (r *bhRun) realEntry(k bhKey) table.PitEntry {
	return r.th.pitCS.FindInterestExactMatchEnc(&spec.Interest{NameV: bhName(bhNames[k.name]), CanBePrefixV: k.cbp, MustBeFreshV: k.mbf})
}

func bhSentList(l []bhSent) string {
	if len(l) == 0 {
		return "nothing"
	}
	p := make([]string, len(l))
	for i, s := range l {
		p[i] = s.String()
	}
	return strings.Join(p, ", ")
}

func bhFaceList(l []int) string {
	if len(l) == 0 {
		return "nobody"
	}
	p := make([]string, len(l))
	for i, f := range l {
		p[i] = bhFaceSpecs[f].label
	}
	return strings.Join(p, ",")
}

func bhHasTok(toks []string, t string) bool {
	for _, x := range toks {
		if x == t {
			return true
		}
	}
	return false
}

func bhRunHistory(prop string, cfg *bhConfig, evs []bhEv) (fails []bhFail, notes map[string]int, slow bool) {
	r := &bhRun{prop: prop, m: bhNewModel(cfg), evs: evs, notes: map[string]int{}}
	t0 := time.Now()
	step := 0
	defer func() {
		if r.th != nil {
			r.th.deadNonceList.Ticker.Stop()
		}
		if p := recover(); p != nil {
			r.fail(step, "no-panic", "panic: %v", p)
		}
		fails, notes = r.fails, r.notes
		slow = time.Since(t0) > 200*time.Millisecond
	}()
	r.th = NewThread(0)
	bhTimers = append(bhTimers, r.th.pitCS.UpdateTimer())
	for step = 0; step < len(evs); step++ {
		r.event(step, evs[step])
	}
	r.tick(step, true)
	return
}

func (r *bhRun) event(step int, e bhEv) {
	bhLog = bhLog[:0]
	switch e.kind {
	case bhEvTick:
		r.tick(step, false)
		return
	case bhEvAge:
		// the suppression interval elapses: every out-record becomes 600 ms old
		for n := range bhNames {
			for _, cbp := range []bool{false, true} {
				for _, mbf := range []bool{false, true} {
					if pe := r.realEntry(bhKey{n, cbp, mbf, ""}); pe != nil {
						for _, o := range pe.OutRecords() {
							o.LatestTimestamp = o.LatestTimestamp.Add(-600 * time.Millisecond)
						}
					}
				}
			}
		}
		for _, ent := range r.m.pit {
			for _, o := range ent.out {
				o.aged = true
			}
		}
		return
	case bhEvInterest:
		dead := false
		if e.nonce != 0 {
			dead = r.th.deadNonceList.Find(bhName(bhNames[e.name]), e.nonce)
		}
		x := r.m.interest(e, dead)
		r.th.processIncomingInterest(bhInterestPkt(e))
		r.checkInterest(step, e, x)
	case bhEvData:
		var token []byte
		switch e.dtok {
		case bhTokEchoLast:
			token = []byte{0, 0, 0xde, 0xad, 0xbe, 0xef}
			if n := len(r.m.fwdToks); n > 0 {
				token = []byte(r.m.fwdToks[n-1])
			}
		case bhTokEchoFirst:
			token = []byte{0, 0, 0xde, 0xad, 0xbe, 0xef}
			if n := len(r.m.fwdToks); n > 0 {
				token = []byte(r.m.fwdToks[0])
			}
		case bhTokFabricated:
			token = []byte{0, 0, 0xde, 0xad, 0xbe, 0xef}
		case bhTokShort:
			token = []byte{0xca, 0xfe, 0xf0, 0x0d}
		}
		x := r.m.data(e, token)
		r.th.processIncomingData(bhDataPkt(e, token))
		r.checkData(step, e, x)
	}
	r.checkState(step, e)
}

// universal C09 clause: "No Interest or Data packet whose name begins with /localhost is ever ... transmitted on a non-local face"
func (r *bhRun) checkScopeOut(step int) {
	for _, s := range bhLog {
		if !bhFaceSpecs[s.face].local && bhIsLocalhost(s.name) {
			r.fail(step, "C09-no-localhost-on-nonlocal", "%s was transmitted on the non-local face %s", s, bhFaceSpecs[s.face].label)
		}
	}
}

func (r *bhRun) checkInterest(step int, e bhEv, x bhExpect) {
	r.checkScopeOut(step)
	name := bhNames[e.name]
	var gotI, gotD []bhSent
	for _, s := range bhLog {
		if s.data {
			gotD = append(gotD, s)
		} else {
			gotI = append(gotI, s)
		}
	}
	allLocal := true
	for _, s := range bhLog {
		if !bhFaceSpecs[s.face].local {
			allLocal = false
		}
	}
	localhostLocal := bhIsLocalhost(name) && bhFaceSpecs[e.face].local
	switch x.verdict {
	case "hop-limit-zero", "scope-in", "no-nonce", "dead-nonce", "duplicate-nonce":
		if len(bhLog) > 0 {
			clause := map[string]string{"hop-limit-zero": "C02-hop-limit-zero", "scope-in": "C09-not-accepted-from-nonlocal", "no-nonce": "C02-no-nonce",
				"dead-nonce": "C02-dead-nonce", "duplicate-nonce": "C02-duplicate-nonce"}[x.verdict]
			r.fail(step, clause, "%s must be dropped (%s) but the forwarder sent %s", e, x.verdict, bhSentList(bhLog))
		}
		return
	case "cs-hit":
		// C02: only Interests "for content not in the cache" are forwarded
		if len(gotI) > 0 {
			r.fail(step, "C02-cached-not-forwarded", "%s is answered by the cache but was also forwarded: %s", e, bhSentList(gotI))
		}
		// C01: "Data served from the cache in answer to an Interest goes to that Interest's face alone."
		want := x.copies[0]
		if len(gotD) == 0 && x.csBlocked {
			return
		}
		if len(gotD) != 1 || gotD[0].face != e.face {
			r.fail(step, "C01-cs-hit-face-alone", "%s: cached Data (one of %v) must go to %s alone, exactly once; sent %s", e, x.csNames, bhFaceSpecs[e.face].label, bhSentList(gotD))
			if localhostLocal && len(gotD) == 0 {
				r.fail(step, "C09-local-exchange-works", "%s from a local face was not answered from the cache", e)
			}
			return
		}
		ok := false
		for _, n := range x.csNames {
			if n == gotD[0].name {
				ok = true
			}
		}
		if !ok {
			r.fail(step, "C01-cs-hit-satisfies", "%s answered from the cache with %s, which is not a cached Data satisfying it (acceptable: %v)", e, gotD[0], x.csNames)
		}
		if gotD[0].tok != want.toks[0] {
			r.fail(step, "C01-token-echo", "%s: cached Data delivered with token %x, the face supplied %x", e, gotD[0].tok, want.toks[0])
		}
		return
	}
	// not answered from the cache
	if len(gotD) > 0 {
		if localhostLocal || !bhIsLocalhost(gotD[0].name) {
			r.fail(step, "C01-only-pending-faces", "%s is not answerable from the cache (model cache %v) but Data was emitted: %s", e, r.m.csNames(), bhSentList(gotD))
		}
		if bhIsLocalhost(gotD[0].name) {
			r.fail(step, "C09-not-accepted-from-nonlocal", "%s answered with %s: that Data can only have entered through a non-local face", e, gotD[0])
		}
	}
	// faces
	var got []int
	seen := map[int]int{}
	for _, s := range gotI {
		got = append(got, s.face)
		seen[s.face]++
	}
	sort.Ints(got)
	want := append([]int(nil), x.interests...)
	sort.Ints(want)
	isHop := func(face int) bool {
		if x.chosen {
			return e.nh == face
		}
		for _, h := range x.hops {
			if h.face == face {
				return true
			}
		}
		return false
	}
	for _, s := range gotI {
		if s.name != name || s.nonce != e.nonce {
			r.fail(step, "C02-only-fib-nexthops", "%s: a different Interest was emitted: %s", e, s)
		}
		if !isHop(s.face) {
			clause := "C02-only-fib-nexthops"
			if e.hint > 0 {
				clause = "C02-forwarding-hint"
			}
			r.fail(step, clause, "%s was sent on %s, which is not a next hop of the longest-prefix FIB entry consulted (next hops %v, effective hint %q)", e,
				bhFaceSpecs[s.face].label, bhHopList(x.hops), x.key.hint)
		}
		if s.face == e.face && !bhFaceSpecs[s.face].adhoc {
			if x.chosen {
				r.fail(step, "C02-no-bounce-chosen-hop", "%s was sent back out of the point-to-point face it arrived on (NextHopFaceId names the arrival face)", e)
			} else {
				r.fail(step, "C02-no-bounce", "%s was sent back out of the point-to-point face it arrived on", e)
			}
		}
		if seen[s.face] > 1 {
			r.fail(step, "C02-no-duplicate-forwarding", "%s was sent %d times on %s", e, seen[s.face], bhFaceSpecs[s.face].label)
		}
		// C02: "forwarded, with its hop limit reduced by one"
		if s.hop != x.hopOut || (s.wireHop != -2 && s.wireHop != x.hopOut) {
			r.fail(step, "C02-hop-limit-decrement", "%s left on %s with hop limit %d (bytes: %d), expected %d (-1 = absent)", e, bhFaceSpecs[s.face].label, s.hop, s.wireHop, x.hopOut)
		}
		if !x.chosen {
			// C01: "the PIT token this forwarder attached when it forwarded that Interest"
			if len(s.tok) != 6 {
				r.fail(step, "C01-token-attached", "%s forwarded on %s with token %x, not a 6-byte token of this forwarder", e, bhFaceSpecs[s.face].label, s.tok)
			} else {
				ent := r.m.pit[x.key]
				if ent != nil {
					if ent.token != "" && ent.token != s.tok {
						r.fail(step, "C01-token-attached", "%s: the same pending Interest was forwarded with token %x and earlier with %x", e, s.tok, ent.token)
					}
					if k2, used := r.m.tokens[s.tok]; used && k2 != x.key {
						if _, live := r.m.pit[k2]; live {
							r.fail(step, "C01-token-attached", "%s: token %x is attached to two pending Interests", e, s.tok)
						}
					}
					ent.token = s.tok
					r.m.tokens[s.tok] = x.key
					r.m.fwdToks = append(r.m.fwdToks, s.tok)
				}
			}
		}
	}
	same := len(got) == len(want)
	if same {
		for i := range got {
			if got[i] != want[i] {
				same = false
			}
		}
	}
	if same {
		return
	}
	detail := fmt.Sprintf("%s (%s): expected on {%s}, sent on {%s}; next hops %v, strategy %s", e, x.verdict, bhFaceList(want), bhFaceList(got), bhHopList(x.hops), x.strategy)
	switch {
	case x.verdict == "suppressed":
		r.fail(step, "C02-suppression", "different-nonce retransmission inside the suppression interval must be aggregated: %s", detail)
	case x.verdict == "chosen-next-hop":
		if len(want) > 0 && len(got) == 0 {
			r.fail(step, "C02-chosen-next-hop", "%s", detail)
		} else if !bhIsLocalhost(name) || allLocal {
			r.fail(step, "C02-only-fib-nexthops", "%s", detail)
		}
	case len(want) > 0 && len(got) == 0:
		// C02: "The first Interest for content not in the cache that has a usable next hop is forwarded"
		r.fail(step, "C02-first-forwarded", "%s", detail)
	case x.verdict == "forward" && x.strategy == "best-route":
		r.fail(step, "C02-best-route-lowest-cost", "%s", detail)
	case x.verdict == "forward" && x.strategy == "multicast":
		r.fail(step, "C02-multicast-all", "%s", detail)
	default:
		r.fail(step, "C02-only-fib-nexthops", "%s", detail)
	}
	if localhostLocal {
		// C09: "Local faces are unaffected: /localhost exchanges between local applications ... always work."
		for _, w := range want {
			if bhFaceSpecs[w].local && seen[w] == 0 {
				r.fail(step, "C09-local-exchange-works", "%s", detail)
			}
		}
	}
}

func bhHopList(h []bhHop) string {
	p := make([]string, len(h))
	for i, x := range h {
		p[i] = fmt.Sprintf("%s:%d", bhFaceSpecs[x.face].label, x.cost)
	}
	return "[" + strings.Join(p, " ") + "]"
}

func (m *bhModel) csNames() []string {
	var r []string
	for n := range m.cs {
		r = append(r, bhNames[n])
	}
	sort.Strings(r)
	return r
}

func (r *bhRun) checkData(step int, e bhEv, x bhExpect) {
	r.checkScopeOut(step)
	name := bhNames[e.name]
	if x.verdict == "scope-in" {
		if len(bhLog) > 0 {
			r.fail(step, "C09-not-accepted-from-nonlocal", "%s must be dropped but the forwarder sent %s", e, bhSentList(bhLog))
		}
		return
	}
	used := make([]bool, len(x.copies))
	// match the emitted copies against the expected ones: exact single-token expectations first
	order := make([]int, len(x.copies))
	for i := range order {
		order[i] = i
	}
	sort.SliceStable(order, func(a, b int) bool {
		ca, cb := x.copies[order[a]], x.copies[order[b]]
		if ca.optional != cb.optional {
			return !ca.optional
		}
		return len(ca.toks) < len(cb.toks)
	})
	for _, s := range bhLog {
		if !s.data {
			r.fail(step, "C02-only-fib-nexthops", "%s: an Interest was emitted while processing Data: %s", e, s)
			continue
		}
		found := -1
		wrongTok := -1
		for _, i := range order {
			c := x.copies[i]
			if used[i] || c.face != s.face {
				continue
			}
			if bhHasTok(c.toks, s.tok) {
				found = i
				break
			}
			if wrongTok < 0 {
				wrongTok = i
			}
		}
		switch {
		case found >= 0:
			used[found] = true
			if s.name != name {
				r.fail(step, "C01-only-pending-faces", "%s: a different Data was emitted: %s", e, s)
			}
			if in := x.copies[found]; len(in.toks) > 1 && s.tok != in.toks[len(in.toks)-1] {
				r.notes["token-of-first-interest-kept-after-retransmission"]++
			}
		case wrongTok >= 0:
			used[wrongTok] = true
			// C01: "carrying the PIT token (if any) that face supplied"
			r.fail(step, "C01-token-echo", "%s: copy for %s carries token %x, that face supplied %x", e, bhFaceSpecs[s.face].label, s.tok, x.copies[wrongTok].toks)
		default:
			pendingHere := false
			for _, c := range x.copies {
				if c.face == s.face {
					pendingHere = true
				}
			}
			switch {
			case pendingHere:
				// C01: "exactly one copy per pending Interest"
				r.fail(step, "C01-one-copy", "%s: %s received more copies than it holds pending Interests satisfied by the Data; sent %s", e, bhFaceSpecs[s.face].label, bhSentList(bhLog))
			case r.m.consumed[s.face] && !(bhIsLocalhost(name) && !bhFaceSpecs[s.face].local):
				// C01: "consumed so that a repeated copy of the Data is delivered to nobody"
				r.fail(step, "C01-consumed", "%s: %s no longer holds a pending Interest (consumed earlier) but received %s", e, bhFaceSpecs[s.face].label, s)
			case bhIsLocalhost(name) && !bhFaceSpecs[s.face].local:
				// already reported as C09-no-localhost-on-nonlocal
			default:
				// C01: "emitted only on faces that at that moment hold an unsatisfied pending Interest it satisfies, never elsewhere"
				r.fail(step, "C01-only-pending-faces", "%s: %s holds no pending Interest the Data satisfies but received %s", e, bhFaceSpecs[s.face].label, s)
			}
		}
	}
	for i, c := range x.copies {
		if !used[i] && !c.optional {
			// C01: "every such face other than the arrival face receives ... exactly one copy per pending Interest"
			r.fail(step, "C01-one-copy", "%s: %s holds a pending Interest satisfied by the Data but received no copy; sent %s", e, bhFaceSpecs[c.face].label, bhSentList(bhLog))
			if bhIsLocalhost(name) && bhFaceSpecs[c.face].local && bhFaceSpecs[e.face].local {
				r.fail(step, "C09-local-exchange-works", "%s: local face %s did not receive the /localhost Data it is waiting for", e, bhFaceSpecs[c.face].label)
			}
		}
	}
}

// table sizes after every event (C08: "the reported PIT and CS sizes equal the true number of entries";
// C09: nothing is accepted from a non-local face under /localhost, so a rejected packet leaves no state)
func (r *bhRun) checkState(step int, e bhEv) {
	rejected := !bhFaceSpecs[e.face].local && bhIsLocalhost(bhNames[e.name])
	if got, want := r.th.GetNumPitEntries(), len(r.m.pit); got != want {
		if rejected {
			r.fail(step, "C09-rejected-leaves-no-state", "after %s the PIT holds %d entries, expected %d", e, got, want)
		} else {
			r.fail(step, "C08-pit-size", "after %s the PIT reports %d entries, the reference model holds %d", e, got, want)
		}
	}
	if got, want := r.th.GetNumCsEntries(), len(r.m.cs); got != want {
		if rejected {
			r.fail(step, "C09-rejected-leaves-no-state", "after %s the CS holds %d entries, expected %d", e, got, want)
		} else {
			r.fail(step, "C08-cs-size", "after %s the CS reports %d entries, the reference model holds %d", e, got, want)
		}
	}
}

// Tick: the reaper runs.  C08: "Every PIT entry is removed no later than shortly after the latest lifetime among the
// Interests recorded in it has elapsed, or promptly once it is satisfied - including entries created for Interests
// answered from the cache.  Once all lifetimes have elapsed the PIT is empty, the reported PIT ... sizes equal the true number of entries"
func (r *bhRun) tick(step int, final bool) {
	bhLog = bhLog[:0]
	now := time.Now()
	r.th.pitCS.Update()
	if len(bhLog) > 0 {
		r.fail(step, "C01-only-pending-faces", "the reaper emitted packets: %s", bhSentList(bhLog))
	}
	for k, ent := range r.m.pit {
		if ent.zombie {
			continue
		}
		if !ent.expNow {
			// still pending with a 4 s lifetime: it must be scheduled (entry field, the queue is not visible from this package)
			if k.hint == "" && !ent.csKept && r.prop == "C08" {
				pe := r.realEntry(k)
				if pe == nil {
					r.fail(step, "C08-not-removed-early", "PIT entry %v with an unexpired 4 s Interest is gone after the reaper ran", k)
				} else if !pe.ExpirationTime().After(now) || pe.ExpirationTime().After(now.Add(4100*time.Millisecond)) {
					r.fail(step, "C08-expiry-scheduled", "PIT entry %v (pending, lifetime 4 s) has expiration time %v: no expiry within the lifetime is scheduled", k, pe.ExpirationTime())
				}
			}
			continue
		}
		if ent.csOnly && k.hint == "" && r.realEntry(k) != nil {
			// the entry exists only because of Interests answered from the cache and was never scheduled for removal
			r.fail(step, "C08-cs-hit-entry-reclaimed", "PIT entry %s (CanBePrefix=%v MustBeFresh=%v) created for an Interest answered from the cache is still present after the reaper ran", bhNames[k.name], k.cbp, k.mbf)
			ent.zombie = true
			ent.expNow = false
			continue
		}
		for _, t := range r.m.fwdToks {
			if r.m.tokens[t] == k {
				delete(r.m.tokens, t)
			}
		}
		delete(r.m.pit, k)
	}
	if got, want := r.th.GetNumPitEntries(), len(r.m.pit); got != want {
		r.fail(step, "C08-pit-drained", "after the reaper ran (all 0 ms lifetimes elapsed, satisfied entries due) the PIT reports %d entries, expected %d (%s)", got, want, r.m.pitList())
	}
	if final && r.prop == "C08" {
		// true number of entries (over the universe's keys) vs reported size
		n := 0
		for nm := range bhNames {
			for _, cbp := range []bool{false, true} {
				for _, mbf := range []bool{false, true} {
					if r.realEntry(bhKey{nm, cbp, mbf, ""}) != nil {
						n++
					}
				}
			}
		}
		hinted := 0
		for k := range r.m.pit {
			if k.hint != "" {
				hinted++
			}
		}
		if hinted == 0 && n != r.th.GetNumPitEntries() {
			r.fail(step, "C08-pit-size", "the PIT reports %d entries but %d can be found", r.th.GetNumPitEntries(), n)
		}
		c := 0
		for nm := range bhNames {
			if nm == bhNmRoot {
				continue
			}
			if r.th.pitCS.FindMatchingDataFromCS(&spec.Interest{NameV: bhName(bhNames[nm])}) != nil {
				c++
			}
		}
		if c != r.th.GetNumCsEntries() || c != len(r.m.cs) {
			r.fail(step, "C08-cs-size", "the CS reports %d entries, %d can be found, the reference model holds %d", r.th.GetNumCsEntries(), c, len(r.m.cs))
		}
	}
}

func (m *bhModel) pitList() string {
	var p []string
	for k, e := range m.pit {
		p = append(p, fmt.Sprintf("%s cbp=%v mbf=%v hint=%q in=%d due=%v leaked=%v", bhNames[k.name], k.cbp, k.mbf, k.hint, len(e.in), e.expNow, e.zombie))
	}
	sort.Strings(p)
	return strings.Join(p, " | ")
}

// ---------------------------------------------------------------------------------------------
// enumeration
// ---------------------------------------------------------------------------------------------

type bhSlice struct {
	label  string
	cfgs   []bhConfig
	alpha  []bhEv
	maxLen int
}

type bhReporter struct {
	prop     string
	reported map[string]bool
	cases    int
	notes    map[string]int
	t        *testing.T
}

func (rp *bhReporter) runSlice(sl bhSlice) {
	for ci := range sl.cfgs {
		cfg := sl.cfgs[ci]
		cfg.label = sl.label + "/" + cfg.label
		bhInstall(cfg)
		for L := 1; L <= sl.maxLen; L++ {
			idx := make([]int, L)
			evs := make([]bhEv, L)
			for {
				for i, a := range idx {
					evs[i] = sl.alpha[a]
				}
				rp.runCase(&cfg, evs)
				// odometer
				p := L - 1
				for p >= 0 {
					idx[p]++
					if idx[p] < len(sl.alpha) {
						break
					}
					idx[p] = 0
					p--
				}
				if p < 0 {
					break
				}
			}
		}
	}
}

func (rp *bhReporter) runCase(cfg *bhConfig, evs []bhEv) {
	rp.cases++
	if rp.cases%256 == 0 {
		bhDrainTimers()
	}
	fails, notes, slow := bhRunHistory(rp.prop, cfg, evs)
	for try := 0; slow && try < 3; try++ {
		fails, notes, slow = bhRunHistory(rp.prop, cfg, evs)
	}
	for k, v := range notes {
		rp.notes[k] += v
	}
	if len(fails) == 0 {
		return
	}
	fresh := false
	for _, f := range fails {
		if rp.mine(f.clause) && !rp.reported[f.clause] {
			fresh = true
		}
	}
	if !fresh {
		return
	}
	// confirm (guards against a stalled machine stretching a history beyond the suppression interval)
	again, _, _ := bhRunHistory(rp.prop, cfg, append([]bhEv(nil), evs...))
	for _, f := range fails {
		if !rp.mine(f.clause) || rp.reported[f.clause] {
			continue
		}
		for _, g := range again {
			if g.clause == f.clause {
				rp.reported[f.clause] = true
				fmt.Printf("BOUNDED-FAIL bounded:pipeline#%s %s\n", rp.clauseName(f.clause), strings.ReplaceAll(f.msg, "\n", " "))
				break
			}
		}
	}
}

func (rp *bhReporter) mine(clause string) bool {
	return clause == "no-panic" || strings.HasPrefix(clause, rp.prop+"-")
}

func (rp *bhReporter) clauseName(clause string) string {
	if clause == "no-panic" {
		return rp.prop + "-no-panic"
	}
	return clause
}

func (rp *bhReporter) finish() {
	fmt.Printf("BOUNDED-CASES %d\n", rp.cases)
	keys := make([]string, 0, len(rp.notes))
	for k := range rp.notes {
		keys = append(keys, k)
	}
	sort.Strings(keys)
	for _, k := range keys {
		fmt.Printf("BOUNDED-NOTE %s %s %d\n", rp.prop, k, rp.notes[k])
	}
	os.Stdout.Sync()
}

func bhNewReporter(t *testing.T, prop string) *bhReporter {
	return &bhReporter{prop: prop, reported: map[string]bool{}, notes: map[string]int{}, t: t}
}

// alphabet helpers ------------------------------------------------------------------------------

func bhI(name, face int, nonce uint32) bhEv {
	return bhEv{kind: bhEvInterest, name: name, face: face, nonce: nonce, hop: -1, nh: -1}
}

func bhD(name, face, dtok int) bhEv {
	return bhEv{kind: bhEvData, name: name, face: face, dtok: dtok, hop: -1, nh: -1}
}

var bhTick = bhEv{kind: bhEvTick}
var bhAge = bhEv{kind: bhEvAge}

func bhBoth(fib []bhFibEntry, label string) []bhConfig {
	return []bhConfig{
		{label: label + "+best-route", strat: map[string]string{"/": "best-route"}, fib: fib},
		{label: label + "+multicast", strat: map[string]string{"/": "multicast"}, fib: fib},
	}
}

// FIB A: default route to a non-local face; /a with the cheaper hop registered second; /a/b via the ad hoc face
var bhFibA = []bhFibEntry{
	{"/", []bhHop{{bhN1, 10}}},
	{"/a", []bhHop{{bhL2, 5}, {bhN1, 1}}},
	{"/a/b", []bhHop{{bhN2, 3}, {bhL2, 7}}},
	{"/localhost/x", []bhHop{{bhL2, 2}}},
}

// FIB B: no default route; upstream of /a is the local producer L2 only
var bhFibB = []bhFibEntry{
	{"/a", []bhHop{{bhL2, 1}}},
	{"/localhost", []bhHop{{bhN1, 1}, {bhL2, 4}}},
}

// FIB C: everything (also /localhost) points at non-local faces first
var bhFibC = []bhFibEntry{
	{"/", []bhHop{{bhN1, 1}, {bhL2, 9}}},
	{"/localhost/x", []bhHop{{bhN2, 1}, {bhL2, 2}}},
}

// FIB H: forwarding hints: the name goes to L2, the foreign delegation /h to N1, the region /r to N2
var bhFibH = []bhFibEntry{
	{"/a", []bhHop{{bhL2, 1}}},
	{"/h", []bhHop{{bhN1, 1}}},
	{"/r", []bhHop{{bhN2, 1}}},
}

// ---------------------------------------------------------------------------------------------
// C01
// ---------------------------------------------------------------------------------------------

func bhSlicesC01() []bhSlice {
	var s []bhSlice
	// (1) name / CanBePrefix matching, single- and multi-match fan-out, tokens of the downstreams, repeated Data
	{
		var a []bhEv
		for _, n := range []int{bhNmA, bhNmAB} {
			for _, cbp := range []bool{false, true} {
				for _, f := range []int{bhL1, bhN1} {
					e := bhI(n, f, uint32(1+f))
					e.cbp, e.tok = cbp, true
					a = append(a, e)
				}
			}
		}
		a = append(a, bhD(bhNmAB, bhL2, bhTokNone), bhD(bhNmABC, bhL2, bhTokNone), bhD(bhNmAB, bhN1, bhTokNone), bhTick)
		s = append(s, bhSlice{"C01.1-names", bhBoth(bhFibB, "fibB"), a, 4})
	}
	// (2) token addressing: echoed / fabricated / stale (after Tick) / foreign-format tokens, downstream with and without token
	{
		var a []bhEv
		for _, n := range []int{bhNmA, bhNmAB} {
			for _, f := range []int{bhL1, bhN2} {
				e := bhI(n, f, uint32(1+f))
				e.cbp = n == bhNmA
				e.tok = f == bhL1
				e.short = f == bhN2
				a = append(a, e)
			}
		}
		e := bhI(bhNmAB, bhL1, 7) // retransmission without token, other nonce
		a = append(a, e)
		for _, tk := range []int{bhTokNone, bhTokEchoLast, bhTokEchoFirst, bhTokFabricated, bhTokShort} {
			a = append(a, bhD(bhNmAB, bhL2, tk))
		}
		a = append(a, bhD(bhNmABC, bhL2, bhTokEchoFirst), bhTick)
		s = append(s, bhSlice{"C01.2-tokens", bhBoth(bhFibB, "fibB")[:1], a, 4})
	}
	// (3) cache: Data cached (solicited or not), later Interests answered from the cache, MustBeFresh, CanBePrefix
	{
		var a []bhEv
		for _, n := range []int{bhNmA, bhNmAB} {
			for _, fl := range []int{0, 1, 2, 3} {
				for _, f := range []int{bhL1, bhN1} {
					e := bhI(n, f, uint32(1+f))
					e.cbp = fl == 1 || fl == 2
					e.mbf = fl >= 2
					e.tok = f == bhN1
					a = append(a, e)
				}
			}
		}
		for _, fresh := range []bool{false, true} {
			d := bhD(bhNmAB, bhL2, bhTokNone)
			d.fresh = fresh
			a = append(a, d)
		}
		a = append(a, bhD(bhNmABC, bhL2, bhTokEchoLast), bhTick)
		s = append(s, bhSlice{"C01.3-cache", bhBoth(bhFibB, "fibB")[1:], a, 3})
	}
	// (4) four faces, ad hoc arrival face, Data from a face that is itself waiting
	{
		var a []bhEv
		for _, f := range []int{bhL1, bhL2, bhN1, bhN2} {
			e := bhI(bhNmAB, f, uint32(1+f))
			e.tok = true
			a = append(a, e)
			e.cbp = true
			e.name = bhNmA
			a = append(a, e)
		}
		for _, f := range []int{bhL2, bhN2} {
			a = append(a, bhD(bhNmAB, f, bhTokNone))
		}
		a = append(a, bhD(bhNmAB, bhN2, bhTokEchoLast))
		s = append(s, bhSlice{"C01.4-faces", bhBoth(bhFibA, "fibA"), a, 3})
	}
	return s
}

func TestBoundedPipelineC01(t *testing.T) {
	rp := bhNewReporter(t, "C01")
	for _, sl := range bhSlicesC01() {
		rp.runSlice(sl)
	}
	rp.finish()
}

// ---------------------------------------------------------------------------------------------
// C02
// ---------------------------------------------------------------------------------------------

func bhSlicesC02() []bhSlice {
	var s []bhSlice
	// (1) hop limit x arrival face x name (longest prefix match incl. default route and no route), one and two events
	{
		var a []bhEv
		for _, n := range []int{bhNmA, bhNmAB, bhNmABC, bhNmRoot, bhNmLX} {
			for _, f := range []int{bhL1, bhL2, bhN1, bhN2} {
				for _, hop := range []int{-1, 0, 1, 5} {
					for _, nonce := range []uint32{1, 0} {
						if nonce == 0 && hop != -1 {
							continue
						}
						e := bhI(n, f, nonce)
						e.hop = hop
						a = append(a, e)
					}
				}
			}
		}
		cfgs := append(bhBoth(bhFibA, "fibA"), bhBoth(bhFibC, "fibC")...)
		s = append(s, bhSlice{"C02.1-hoplimit-lpm", cfgs, a, 2})
		s = append(s, bhSlice{"C02.1-hoplimit-lpm-1", bhBoth(bhFibB, "fibB"), a, 1})
	}
	// (2) nonces and loops: two nonces, three faces, Data and reaper in between (dead nonces), retransmissions
	{
		var a []bhEv
		for _, f := range []int{bhL1, bhN1, bhN2} {
			for _, nonce := range []uint32{1, 2} {
				a = append(a, bhI(bhNmAB, f, nonce))
			}
		}
		e := bhI(bhNmA, bhL1, 1)
		e.cbp = true
		a = append(a, e)
		a = append(a, bhD(bhNmAB, bhL2, bhTokNone), bhD(bhNmAB, bhN2, bhTokEchoLast), bhTick)
		s = append(s, bhSlice{"C02.2-nonces", bhBoth(bhFibA, "fibA"), a, 4})
	}
	// (3) suppression interval: retransmissions with three nonces from two faces, interval elapsing in between
	{
		var a []bhEv
		for _, f := range []int{bhL1, bhN1} {
			for _, nonce := range []uint32{1, 2, 3} {
				a = append(a, bhI(bhNmA, f, nonce))
			}
		}
		a = append(a, bhAge)
		cfgs := bhBoth(bhFibA, "fibA")
		cfgs = append(cfgs, bhBoth([]bhFibEntry{{"/a", []bhHop{{bhL2, 5}, {bhN2, 1}}}}, "fibA2")...)
		s = append(s, bhSlice{"C02.3-suppression", cfgs, a, 4})
		s = append(s, bhSlice{"C02.3-suppression-5", cfgs[1:2], a, 5})
	}
	// (4) consumer-chosen next hop
	{
		var a []bhEv
		for _, n := range []int{bhNmA, bhNmLX} {
			for _, f := range []int{bhL1, bhN1} {
				for _, nh := range []int{-1, bhL1, bhL2, bhN1, bhN2, bhNoFace} {
					for _, hop := range []int{-1, 1} {
						e := bhI(n, f, uint32(1+f))
						e.nh, e.hop, e.tok = nh, hop, true
						a = append(a, e)
					}
				}
			}
		}
		a = append(a, bhD(bhNmA, bhL2, bhTokNone))
		s = append(s, bhSlice{"C02.4-chosen-hop", bhBoth(bhFibA, "fibA")[:1], a, 2})
	}
	// (5) forwarding hints and the producer region
	{
		var a []bhEv
		for _, f := range []int{bhL1, bhN1} {
			for h := range bhHints {
				e := bhI(bhNmA, f, uint32(1+f))
				e.hint = h
				a = append(a, e)
			}
		}
		a = append(a, bhD(bhNmA, bhL2, bhTokNone))
		s = append(s, bhSlice{"C02.5-hints", bhBoth(bhFibH, "fibH"), a, 3})
	}
	// (6) strategy chosen per prefix: multicast below /a/b under a best-route root
	{
		var a []bhEv
		for _, n := range []int{bhNmA, bhNmAB, bhNmABC} {
			for _, f := range []int{bhL1, bhL2, bhN2} {
				a = append(a, bhI(n, f, uint32(1+f)))
			}
		}
		cfg := bhConfig{label: "fibA+mixed", strat: map[string]string{"/": "best-route", "/a/b": "multicast"}, fib: bhFibA}
		s = append(s, bhSlice{"C02.6-strategy-choice", []bhConfig{cfg}, a, 3})
	}
	return s
}

func TestBoundedPipelineC02(t *testing.T) {
	rp := bhNewReporter(t, "C02")
	for _, sl := range bhSlicesC02() {
		rp.runSlice(sl)
	}
	rp.finish()
}

// ---------------------------------------------------------------------------------------------
// C08
// ---------------------------------------------------------------------------------------------

func bhSlicesC08() []bhSlice {
	var s []bhSlice
	// (1) every way a PIT entry comes into being (forwarded, no route, chosen next hop incl. dropped ones, duplicate,
	//     answered from the cache) with lifetimes 0 and 4 s, Data with and without token, reaper in between
	{
		var a []bhEv
		for _, f := range []int{bhL1, bhN1} {
			for _, short := range []bool{true, false} {
				e := bhI(bhNmAB, f, uint32(1+f))
				e.short = short
				a = append(a, e)
			}
			e := bhI(bhNmA, f, uint32(1+f))
			e.short, e.cbp = true, true
			a = append(a, e)
		}
		for _, nh := range []int{bhL2, bhN1, bhNoFace} {
			e := bhI(bhNmAB, bhL1, 5)
			e.short, e.nh = true, nh
			a = append(a, e)
		}
		e := bhI(bhNmLX, bhL1, 6)
		e.short, e.nh = true, bhN1 // dropped by scope after the entry exists
		a = append(a, e)
		e = bhI(bhNmABC, bhL1, 7) // no route in FIB B below /a? (/a covers it) -> forwarded; /localhost/x/y from L1: N1 refused, L2 used
		e.short = true
		a = append(a, e)
		a = append(a, bhD(bhNmAB, bhL2, bhTokNone), bhD(bhNmAB, bhL2, bhTokEchoLast), bhTick)
		s = append(s, bhSlice{"C08.1-entry-paths", bhBoth(bhFibB, "fibB")[:1], a, 4})
		s = append(s, bhSlice{"C08.1-entry-paths-3", bhBoth(bhFibB, "fibB")[1:], a, 3})
	}
	// (2) all lifetimes 0: after the final reaper run the PIT must be EMPTY (asserted through the model: nothing is left)
	{
		var a []bhEv
		for _, n := range []int{bhNmA, bhNmAB, bhNmRoot} {
			for _, f := range []int{bhL1, bhL2, bhN2} {
				for _, nonce := range []uint32{1, 2} {
					e := bhI(n, f, nonce)
					e.short = true
					e.cbp = n != bhNmAB
					a = append(a, e)
				}
			}
		}
		a = append(a, bhD(bhNmAB, bhL2, bhTokNone), bhD(bhNmABC, bhN1, bhTokNone), bhTick)
		s = append(s, bhSlice{"C08.2-drain", bhBoth(bhFibA, "fibA"), a, 3})
	}
	return s
}

func TestBoundedPipelineC08(t *testing.T) {
	rp := bhNewReporter(t, "C08")
	for _, sl := range bhSlicesC08() {
		rp.runSlice(sl)
	}
	rp.finish()
}

// ---------------------------------------------------------------------------------------------
// C09
// ---------------------------------------------------------------------------------------------

func bhSlicesC09() []bhSlice {
	var s []bhSlice
	// (1) /localhost names and the root prefix, all four faces, CanBePrefix, chosen next hops, Data with/without token
	{
		var a []bhEv
		for _, f := range []int{bhL1, bhL2, bhN1, bhN2} {
			e := bhI(bhNmLX, f, uint32(1+f))
			e.tok = true
			a = append(a, e)
			e.cbp = true
			a = append(a, e)
			e = bhI(bhNmRoot, f, uint32(1+f))
			e.cbp = true
			a = append(a, e)
		}
		for _, nh := range []int{bhN1, bhL2} {
			e := bhI(bhNmLX, bhL1, 9)
			e.nh = nh
			a = append(a, e)
		}
		e := bhI(bhNmLX, bhN1, 9)
		e.nh = bhN2
		a = append(a, e)
		for _, f := range []int{bhL2, bhN1} {
			a = append(a, bhD(bhNmLX, f, bhTokNone), bhD(bhNmLXY, f, bhTokNone))
		}
		a = append(a, bhD(bhNmLX, bhL2, bhTokEchoLast), bhD(bhNmLX, bhN1, bhTokEchoLast), bhD(bhNmAB, bhL2, bhTokEchoFirst))
		cfgs := append(bhBoth(bhFibC, "fibC"), bhBoth(bhFibB, "fibB")...)
		s = append(s, bhSlice{"C09.1-localhost", cfgs, a, 3})
	}
	// (2) longer histories over a narrower alphabet (cache poisoning from a non-local face, fan-out to a non-local CanBePrefix consumer)
	{
		var a []bhEv
		e := bhI(bhNmRoot, bhN1, 3)
		e.cbp = true
		a = append(a, e)
		e = bhI(bhNmRoot, bhN2, 4)
		e.cbp = true
		a = append(a, e)
		a = append(a, bhI(bhNmLX, bhL1, 1), bhI(bhNmLX, bhN1, 3), bhI(bhNmLXY, bhL1, 1))
		e = bhI(bhNmLX, bhL1, 2)
		e.cbp = true
		a = append(a, e)
		a = append(a, bhD(bhNmLX, bhL2, bhTokNone), bhD(bhNmLX, bhN1, bhTokNone), bhD(bhNmLXY, bhL2, bhTokNone), bhD(bhNmLXY, bhN2, bhTokEchoLast), bhTick)
		s = append(s, bhSlice{"C09.2-fanout-cache", append(bhBoth(bhFibC, "fibC")[:1], bhBoth(bhFibA, "fibA")[1:]...), a, 4})
	}
	return s
}

func TestBoundedPipelineC09(t *testing.T) {
	rp := bhNewReporter(t, "C09")
	for _, sl := range bhSlicesC09() {
		rp.runSlice(sl)
	}
	rp.finish()
}
