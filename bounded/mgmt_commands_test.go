// Package directory: fw/mgmt
//
// Bounded stand-in for the cross-module clauses of C17 (management commands are authorised, act as specified,
// bad ones are refused safely).  NOT a proof: every verb of the rib, fib, strategy-choice, cs and faces(update)
// modules is driven with an enumerated set of ControlParameters (fields present / absent / zero / boundary /
// out of range), under the local and the non-local management prefix, from several prior table states, and
// for two-command histories.  The real module handlers are called the way Thread.Run calls them
// (module.handleIncomingInterest); the ControlResponse is read back from the internal face through a capturing
// stand-in for forwarding thread 0; tables are read through their exported accessors.
//
// Oracle (from /verif/properties.jsonl, id C17), applied to the snapshot of ALL tables taken before the command:
//   * "A control command changes forwarder state only if it arrives under the local management prefix ...
//     (RIB commands also under the link-local prefix when that is enabled)"        -> clause C17-nonlocal-prefix-no-effect
//   * "An accepted RIB, FIB, strategy-choice or cache-capacity command has exactly the table effect its parameters
//     describe ... defaulting to the requesting face, application origin, cost 0 and child-inherit - and reports
//     status 200"                                                                   -> clauses C17-accepted-exact-effect, C17-echo
//   * "each status dataset lists exactly the current table contents"                -> clause C17-dataset-lists-table
//   * "Commands whose parameters are missing, malformed or out of range (a face that does not exist, a strategy name
//     lacking a strategy component, an MTU too small to carry a packet) are answered with a 4xx status, change nothing"
//                                                                                   -> clauses C17-bad-params-refused, C17-refused-no-change
//   * "and never crash the daemon or leave a face unusable"                         -> clauses C17-no-panic, C17-never-unusable
// Where the property does not fix the answer (an MTU of 127, a capacity of 2^40, a persistency the transport may or
// may not support, updating the null face) either outcome is accepted, but it must be consistent:
// 200 => exactly the described effect, anything else => nothing changed.
package mgmt

import (
	"fmt"
	"net"
	"os"
	"sort"
	"strings"
	"syscall"
	"testing"
	"time"

	"github.com/named-data/ndnd/fw/core"
	"github.com/named-data/ndnd/fw/defn"
	"github.com/named-data/ndnd/fw/dispatch"
	"github.com/named-data/ndnd/fw/face"
	"github.com/named-data/ndnd/fw/fw"
	"github.com/named-data/ndnd/fw/table"
	enc "github.com/named-data/ndnd/std/encoding"
	mgmt "github.com/named-data/ndnd/std/ndn/mgmt_2022"
	spec "github.com/named-data/ndnd/std/ndn/spec_2022"
)

// ---------------------------------------------------------------------------------------------
// environment
// ---------------------------------------------------------------------------------------------

type bmFwThread struct{ datas chan *defn.Pkt }

func (s *bmFwThread) String() string                 { return "bounded-fw-thread" }
func (s *bmFwThread) QueueData(packet *defn.Pkt)     { s.datas <- packet }
func (s *bmFwThread) QueueInterest(packet *defn.Pkt) {}
func (s *bmFwThread) GetNumPitEntries() int          { return 0 }
func (s *bmFwThread) GetNumCsEntries() int           { return 0 }

type bmEnv struct {
	m        *Thread
	fwt      *bmFwThread
	req      *face.NDNLPLinkService // the local face the commands arrive on (Unix stream face over a socket pair)
	other    *face.NDNLPLinkService // another existing face (null transport)
	udp      *face.NDNLPLinkService // a UDP face (nil if no socket can be created here)
	sentinel int
	keep     []interface{}
}

const bmNoSuchFace = uint64(987654)
const bmDefaultCap = 1024

func bmName(s string) enc.Name {
	n, err := enc.NameFromStr(s)
	if err != nil {
		panic(err)
	}
	return n
}

func bmSetup() *bmEnv {
	cfg := core.DefaultConfig()
	cfg.Core.LogLevel = "FATAL"
	cfg.Tables.Rib.ReadvertiseNlsr = false
	cfg.Fw.Threads = 1
	cfg.Faces.Udp.PortUnicast = 0
	core.LoadConfig(cfg, "")
	core.InitializeLogger("")
	face.Configure()
	table.Configure()
	Configure()
	table.CreateFIBTable("nametree")

	e := &bmEnv{fwt: &bmFwThread{datas: make(chan *defn.Pkt, 256)}}
	dispatch.InitializeFWThreads([]dispatch.FWThread{e.fwt})
	fw.Threads = make([]*fw.Thread, 1)
	fw.NumFwThreads = 1

	e.m = MakeMgmtThread()
	e.m.face, e.m.transport = face.RegisterInternalTransport()

	// requester: a Unix stream face over one end of a socket pair (no file system, no network)
	fds, err := syscall.Socketpair(syscall.AF_UNIX, syscall.SOCK_STREAM, 0)
	if err != nil {
		panic(err)
	}
	f0 := os.NewFile(uintptr(fds[0]), "bounded-sp0")
	f1 := os.NewFile(uintptr(fds[1]), "bounded-sp1")
	c0, err := net.FileConn(f0)
	if err != nil {
		panic(err)
	}
	e.keep = append(e.keep, f0, f1, c0)
	ut, err := face.MakeUnixStreamTransport(defn.MakeFDFaceURI(fds[0]), defn.MakeUnixFaceURI("/bounded/mgmt.sock"), c0)
	if err != nil {
		panic(err)
	}
	e.req = face.MakeNDNLPLinkService(ut, face.MakeNDNLPLinkServiceOptions())
	face.FaceTable.Add(e.req)

	e.other = face.MakeNDNLPLinkService(face.MakeNullTransport(), face.MakeNDNLPLinkServiceOptions())
	face.FaceTable.Add(e.other)

	uri := defn.DecodeURIString("udp4://127.0.0.1:36363")
	if uri != nil && uri.Canonize() == nil {
		if tr, err := face.MakeUnicastUDPTransport(uri, nil, face.PersistencyPersistent); err == nil {
			e.udp = face.MakeNDNLPLinkService(tr, face.MakeNDNLPLinkServiceOptions())
			face.FaceTable.Add(e.udp)
		}
	}
	return e
}

// ---------------------------------------------------------------------------------------------
// snapshot of everything management can change
// ---------------------------------------------------------------------------------------------

type bmSnap struct {
	rib   map[string]string // name|face|origin -> cost|flags|expiration
	fib   map[string]string // name|face -> cost
	strat map[string]string // name -> strategy
	cs    int
	faces map[uint64]string // face -> mtu|persistency|flags
}

func (e *bmEnv) trackedFaces() []*face.NDNLPLinkService {
	l := []*face.NDNLPLinkService{e.req, e.other}
	if e.udp != nil {
		l = append(l, e.udp)
	}
	return l
}

func bmFlags(f *face.NDNLPLinkService) uint64 {
	o := f.Options()
	return uint64(o.Flags())
}

func bmFaceState(mtu int, pers uint64, flags uint64) string {
	return fmt.Sprintf("mtu=%d persistency=%d flags=%d", mtu, pers, flags)
}

func (e *bmEnv) snapshot() *bmSnap {
	s := &bmSnap{rib: map[string]string{}, fib: map[string]string{}, strat: map[string]string{}, faces: map[uint64]string{}}
	for _, ent := range table.Rib.GetAllEntries() {
		for _, r := range ent.GetRoutes() {
			exp := "never"
			if r.ExpirationPeriod != nil {
				exp = r.ExpirationPeriod.String()
			}
			s.rib[fmt.Sprintf("%s|%d|%d", ent.Name, r.FaceID, r.Origin)] = fmt.Sprintf("cost=%d flags=%d exp=%s", r.Cost, r.Flags, exp)
		}
	}
	for _, ent := range table.FibStrategyTable.GetAllFIBEntries() {
		for _, h := range ent.GetNextHops() {
			s.fib[fmt.Sprintf("%s|%d", ent.Name(), h.Nexthop)] = fmt.Sprintf("cost=%d", h.Cost)
		}
	}
	for _, ent := range table.FibStrategyTable.GetAllForwardingStrategies() {
		s.strat[ent.Name().String()] = ent.GetStrategy().String()
	}
	s.cs = table.CsCapacity()
	for _, f := range e.trackedFaces() {
		s.faces[f.FaceID()] = bmFaceState(f.MTU(), uint64(f.Persistency()), bmFlags(f))
	}
	return s
}

func (s *bmSnap) clone() *bmSnap {
	c := &bmSnap{rib: map[string]string{}, fib: map[string]string{}, strat: map[string]string{}, cs: s.cs, faces: map[uint64]string{}}
	for k, v := range s.rib {
		c.rib[k] = v
	}
	for k, v := range s.fib {
		c.fib[k] = v
	}
	for k, v := range s.strat {
		c.strat[k] = v
	}
	for k, v := range s.faces {
		c.faces[k] = v
	}
	return c
}

func bmDiffMap(what string, a, b map[string]string) []string {
	var d []string
	for k, v := range a {
		if w, ok := b[k]; !ok {
			d = append(d, fmt.Sprintf("%s[%s]: expected {%s}, absent", what, k, v))
		} else if w != v {
			d = append(d, fmt.Sprintf("%s[%s]: expected {%s}, got {%s}", what, k, v, w))
		}
	}
	for k, v := range b {
		if _, ok := a[k]; !ok {
			d = append(d, fmt.Sprintf("%s[%s]: unexpected {%s}", what, k, v))
		}
	}
	sort.Strings(d)
	return d
}

// diff(expected, got); the FIB is left out when ribDerivesFib (the FIB below a RIB change is C06's subject)
func bmDiff(want, got *bmSnap, skipFib bool) []string {
	d := bmDiffMap("rib", want.rib, got.rib)
	if !skipFib {
		d = append(d, bmDiffMap("fib", want.fib, got.fib)...)
	}
	d = append(d, bmDiffMap("strategy", want.strat, got.strat)...)
	if want.cs != got.cs {
		d = append(d, fmt.Sprintf("cs capacity: expected %d, got %d", want.cs, got.cs))
	}
	wf, gf := map[string]string{}, map[string]string{}
	for k, v := range want.faces {
		wf[fmt.Sprint(k)] = v
	}
	for k, v := range got.faces {
		gf[fmt.Sprint(k)] = v
	}
	return append(d, bmDiffMap("face", wf, gf)...)
}

// reset returns all tables to the neutral state
func (e *bmEnv) reset() {
	for _, ent := range table.Rib.GetAllEntries() {
		name := ent.Name
		for _, r := range append([]*table.Route(nil), ent.GetRoutes()...) {
			table.Rib.RemoveRouteEnc(name, r.FaceID, r.Origin)
		}
	}
	table.CreateFIBTable("nametree")
	table.SetCsCapacity(bmDefaultCap)
	for _, f := range e.trackedFaces() {
		f.SetMTU(defn.MaxNDNPacketSize)
		if f != e.other {
			f.SetPersistency(face.PersistencyPersistent)
		}
		f.SetOptions(face.MakeNDNLPLinkServiceOptions())
	}
	enableLocalhopManagement = false
}

// ---------------------------------------------------------------------------------------------
// commands
// ---------------------------------------------------------------------------------------------

const bmLocal = "/localhost/nfd"
const bmLocalhop = "/localhop/nfd"

type bmCmd struct {
	prefix  string
	module  string
	verb    string
	args    *mgmt.ControlArgs // nil: the name carries no ControlParameters component
	garbage []byte            // non-nil: the ControlParameters component holds these bytes instead
}

func bmU(v uint64) *uint64 { return &v }

func bmArgsString(a *mgmt.ControlArgs) string {
	if a == nil {
		return "<no parameters>"
	}
	var p []string
	if a.Name != nil {
		p = append(p, "Name="+a.Name.String())
	}
	add := func(n string, v *uint64) {
		if v != nil {
			p = append(p, fmt.Sprintf("%s=%d", n, *v))
		}
	}
	add("FaceId", a.FaceId)
	add("Origin", a.Origin)
	add("Cost", a.Cost)
	add("Flags", a.Flags)
	add("Mask", a.Mask)
	add("Capacity", a.Capacity)
	add("ExpirationPeriod", a.ExpirationPeriod)
	add("FacePersistency", a.FacePersistency)
	add("Mtu", a.Mtu)
	if a.Strategy != nil {
		p = append(p, "Strategy="+a.Strategy.Name.String())
	}
	return "{" + strings.Join(p, " ") + "}"
}

func (c bmCmd) String() string {
	s := fmt.Sprintf("%s/%s/%s ", c.prefix, c.module, c.verb)
	if c.garbage != nil {
		return s + fmt.Sprintf("<garbage parameters %x>", c.garbage)
	}
	return s + bmArgsString(c.args)
}

func (c bmCmd) interest() *spec.Interest {
	name := bmName(c.prefix + "/" + c.module + "/" + c.verb)
	if c.garbage != nil {
		name = append(name, enc.Component{Typ: enc.TypeGenericNameComponent, Val: c.garbage})
	} else if c.args != nil {
		p := &mgmt.ControlParameters{Val: c.args}
		name = append(name, enc.Component{Typ: enc.TypeGenericNameComponent, Val: p.Encode().Join()})
	}
	return &spec.Interest{NameV: name}
}

type bmResp struct {
	got    bool
	status uint64
	text   string
	params *mgmt.ControlArgs
}

// run executes the command; it returns the response (if any) and whether the handler panicked
func (e *bmEnv) run(c bmCmd) (resp bmResp, panicked interface{}) {
	in := c.interest()
	func() {
		defer func() { panicked = recover() }()
		e.m.modules[c.module].handleIncomingInterest(in, []byte{0, 0, 0, 0, 0, 1}, e.req.FaceID())
	}()
	for _, d := range e.collect() {
		if d.NameV.Equal(in.NameV) {
			if r, err := mgmt.ParseControlResponse(enc.NewWireReader(d.Content()), true); err == nil && r.Val != nil {
				resp = bmResp{true, r.Val.StatusCode, r.Val.StatusText, r.Val.Params}
			}
		}
	}
	return
}

// collect returns every Data management emitted so far: a sentinel command (unknown verb) is sent and everything up to
// its answer is read (the internal face delivers in order)
func (e *bmEnv) collect() []*spec.Data {
	e.sentinel++
	sn := bmName(fmt.Sprintf("%s/cs/bounded-sentinel/%d", bmLocal, e.sentinel))
	e.m.modules["cs"].handleIncomingInterest(&spec.Interest{NameV: sn}, []byte{0, 0, 0, 0, 0, 1}, e.req.FaceID())
	var out []*spec.Data
	for {
		select {
		case pkt := <-e.fwt.datas:
			if pkt.L3.Data.NameV.Equal(sn) {
				return out
			}
			out = append(out, pkt.L3.Data)
		case <-time.After(20 * time.Second):
			panic("harness: management did not answer the sentinel command")
		}
	}
}

// ---------------------------------------------------------------------------------------------
// oracle
// ---------------------------------------------------------------------------------------------

const (
	bmMust200 = iota
	bmRefuse
	bmEither
)

type bmExpect struct {
	verdict int
	why     string
	tag     string // appended to the clause name: keeps a defect that is known on the unchanged tree apart from the general clause
	after   *bmSnap
	skipFib bool
	echo    map[string]uint64
}

func (e *bmEnv) faceExists(id uint64) bool { return face.FaceTable.Get(id) != nil }

var bmStrategyPrefix = bmLocal + "/strategy"

// resolveStrategy: "" when the name is not an available strategy (C17: "a strategy name lacking a strategy component")
func bmResolveStrategy(n enc.Name) string {
	pfx := bmName(bmStrategyPrefix)
	if !pfx.IsPrefix(n) || len(n) <= len(pfx) {
		return ""
	}
	sn := n[len(pfx)].String()
	versions, ok := fw.StrategyVersions[sn]
	if !ok || len(versions) == 0 {
		return ""
	}
	if len(n) == len(pfx)+1 {
		best := versions[0]
		for _, v := range versions {
			if v > best {
				best = v
			}
		}
		return append(n.Clone(), enc.NewVersionComponent(best)).String()
	}
	if len(n) > len(pfx)+2 || n[len(pfx)+1].Typ != enc.TypeVersionNameComponent {
		return ""
	}
	for _, v := range versions {
		if n[len(pfx)+1].Equal(enc.NewVersionComponent(v)) {
			return n.String()
		}
	}
	return ""
}

func (e *bmEnv) expect(c bmCmd, before *bmSnap) bmExpect {
	x := bmExpect{verdict: bmMust200, after: before.clone(), echo: map[string]uint64{}}
	refuse := func(why string) bmExpect {
		x.verdict, x.why, x.after = bmRefuse, why, before.clone()
		return x
	}
	// C17: "changes forwarder state only if it arrives under the local management prefix ... (RIB commands also under
	// the link-local prefix when that is enabled)"
	if c.prefix != bmLocal && !(c.module == "rib" && c.prefix == bmLocalhop && enableLocalhopManagement) {
		return refuse("not under a permitted management prefix")
	}
	known := map[string]bool{"rib/register": true, "rib/unregister": true, "fib/add-nexthop": true, "fib/remove-nexthop": true,
		"strategy-choice/set": true, "strategy-choice/unset": true, "cs/config": true, "faces/update": true}
	if !known[c.module+"/"+c.verb] {
		return refuse("unknown verb")
	}
	// C17: "Commands whose parameters are missing, malformed ..."
	if c.garbage != nil {
		return refuse("malformed ControlParameters")
	}
	if c.args == nil {
		return refuse("missing ControlParameters")
	}
	a := c.args
	faceID := e.req.FaceID() // C17: "defaulting to the requesting face"
	if a.FaceId != nil && *a.FaceId != 0 {
		faceID = *a.FaceId
	}
	needName := c.module != "cs" && c.module != "faces"
	if needName && a.Name == nil {
		return refuse("missing Name")
	}
	switch c.module + "/" + c.verb {
	case "rib/register":
		if !e.faceExists(faceID) {
			return refuse("a face that does not exist")
		}
		origin, cost, flags := table.RouteOriginApp, uint64(0), table.RouteFlagChildInherit // C17: "application origin, cost 0 and child-inherit"
		if a.Origin != nil {
			origin = *a.Origin
		}
		if a.Cost != nil {
			cost = *a.Cost
		}
		if a.Flags != nil {
			flags = *a.Flags
		}
		exp := "never"
		if a.ExpirationPeriod != nil {
			exp = (time.Duration(*a.ExpirationPeriod) * time.Millisecond).String()
		}
		x.after.rib[fmt.Sprintf("%s|%d|%d", a.Name, faceID, origin)] = fmt.Sprintf("cost=%d flags=%d exp=%s", cost, flags, exp)
		x.skipFib = true
		x.echo = map[string]uint64{"FaceId": faceID, "Origin": origin, "Cost": cost, "Flags": flags}
	case "rib/unregister":
		origin := table.RouteOriginApp
		if a.Origin != nil {
			origin = *a.Origin
		}
		delete(x.after.rib, fmt.Sprintf("%s|%d|%d", a.Name, faceID, origin))
		x.skipFib = true
		x.echo = map[string]uint64{"FaceId": faceID, "Origin": origin}
	case "fib/add-nexthop":
		if !e.faceExists(faceID) {
			return refuse("a face that does not exist")
		}
		cost := uint64(0)
		if a.Cost != nil {
			cost = *a.Cost
		}
		x.after.fib[fmt.Sprintf("%s|%d", a.Name, faceID)] = fmt.Sprintf("cost=%d", cost)
		x.echo = map[string]uint64{"FaceId": faceID, "Cost": cost}
	case "fib/remove-nexthop":
		delete(x.after.fib, fmt.Sprintf("%s|%d", a.Name, faceID))
		x.echo = map[string]uint64{"FaceId": faceID}
	case "strategy-choice/set":
		if a.Strategy == nil {
			return refuse("missing Strategy")
		}
		st := bmResolveStrategy(a.Strategy.Name)
		if st == "" {
			if pfx := bmName(bmStrategyPrefix); pfx.IsPrefix(a.Strategy.Name) && len(a.Strategy.Name) > len(pfx)+2 &&
				bmResolveStrategy(a.Strategy.Name[:len(pfx)+2]) != "" {
				x.tag = "-strategy-trailing-components" // <available strategy>/<version>/<more components>: no forwarding thread has a strategy of that name
			}
			return refuse("not an available strategy name")
		}
		x.after.strat[a.Name.String()] = st
	case "strategy-choice/unset":
		if len(a.Name) == 0 {
			return refuse("the root strategy cannot be unset")
		}
		delete(x.after.strat, a.Name.String())
	case "cs/config":
		if (a.Flags == nil) != (a.Mask == nil) {
			return refuse("Flags without Mask or Mask without Flags")
		}
		if a.Capacity != nil {
			if *a.Capacity > 1<<62 {
				return refuse("capacity out of range")
			}
			if *a.Capacity > 1<<32 {
				x.verdict = bmEither
			}
			x.after.cs = int(*a.Capacity)
		}
	case "faces/update":
		var target *face.NDNLPLinkService
		for _, f := range e.trackedFaces() {
			if f.FaceID() == faceID {
				target = f
			}
		}
		if target == nil {
			return refuse("a face that does not exist")
		}
		if target == e.other {
			x.verdict = bmEither // whether the null face may be updated is not fixed by the property
		}
		mtu, pers, flags := target.MTU(), uint64(target.Persistency()), bmFlags(target)
		if a.Mtu != nil {
			switch {
			case *a.Mtu < 64:
				return refuse("an MTU too small to carry a packet")
			case *a.Mtu < 256:
				x.verdict = bmEither // the smallest workable MTU is not fixed by the property
				mtu = int(*a.Mtu)
			case *a.Mtu > defn.MaxNDNPacketSize:
				mtu = defn.MaxNDNPacketSize
			default:
				mtu = int(*a.Mtu)
			}
		}
		if a.FacePersistency != nil {
			if *a.FacePersistency > 2 {
				return refuse("persistency out of range")
			}
			if *a.FacePersistency != pers {
				x.verdict = bmEither // whether this transport supports the persistency is not fixed by the property
			}
			pers = *a.FacePersistency
		}
		if (a.Flags == nil) != (a.Mask == nil) {
			return refuse("Flags without Mask or Mask without Flags")
		}
		if a.Flags != nil {
			flags = (flags &^ *a.Mask) | (*a.Flags & *a.Mask)
		}
		x.after.faces[faceID] = bmFaceState(mtu, pers, flags)
	}
	return x
}

// ---------------------------------------------------------------------------------------------
// checking one command
// ---------------------------------------------------------------------------------------------

type bmReporter struct {
	reported map[string]bool
	cases    int
}

func (rp *bmReporter) fail(clause, format string, args ...interface{}) {
	if rp.reported[clause] {
		return
	}
	rp.reported[clause] = true
	fmt.Printf("BOUNDED-FAIL bounded:mgmt#%s %s\n", clause, strings.ReplaceAll(fmt.Sprintf(format, args...), "\n", " "))
}

func bmStatus(r bmResp) string {
	if !r.got {
		return "no response"
	}
	return fmt.Sprintf("%d %q", r.status, r.text)
}

// step runs one command against the current tables and checks it; ctx describes how the tables got there
func (e *bmEnv) step(rp *bmReporter, ctx string, c bmCmd) {
	before := e.snapshot()
	x := e.expect(c, before)
	resp, panicked := e.run(c)
	after := e.snapshot()
	where := fmt.Sprintf("%s%s (localhop management %v)", ctx, c, enableLocalhopManagement)

	if panicked != nil {
		// C17: "never crash the daemon"
		rp.fail("C17-no-panic", "%s: handler panicked: %v", where, panicked)
	}
	// C17: "or leave a face unusable"
	for _, f := range e.trackedFaces() {
		if f.MTU() < 64 || f.MTU() > defn.MaxNDNPacketSize {
			rp.fail("C17-never-unusable", "%s: face %d now has MTU %d (answer: %s)", where, f.FaceID(), f.MTU(), bmStatus(resp))
		}
	}
	if table.CsCapacity() < 0 {
		rp.fail("C17-never-unusable", "%s: CS capacity is now %d (answer: %s)", where, table.CsCapacity(), bmStatus(resp))
	}
	ok200 := resp.got && resp.status == 200
	unchanged := bmDiff(before, after, false)
	nonlocal := c.prefix != bmLocal && x.why == "not under a permitted management prefix"
	switch {
	case nonlocal:
		if ok200 || len(unchanged) > 0 {
			rp.fail("C17-nonlocal-prefix-no-effect", "%s: answer %s, state change %v", where, bmStatus(resp), unchanged)
		}
	case x.verdict == bmRefuse:
		if ok200 {
			rp.fail("C17-bad-params-refused"+x.tag, "%s must be refused (%s) but was answered %s; state change %v", where, x.why, bmStatus(resp), unchanged)
		} else if resp.got && (resp.status < 400 || resp.status > 599) {
			rp.fail("C17-bad-params-refused", "%s must be refused (%s) with an error status, answered %s", where, x.why, bmStatus(resp))
		}
		if !ok200 && len(unchanged) > 0 {
			rp.fail("C17-refused-no-change", "%s was answered %s (%s) but changed state: %v", where, bmStatus(resp), x.why, unchanged)
		}
	case ok200:
		if d := bmDiff(x.after, after, x.skipFib); len(d) > 0 {
			rp.fail("C17-accepted-exact-effect", "%s answered 200 but the tables differ from the described effect: %v", where, d)
		}
		// echoed parameters
		if resp.params != nil {
			got := map[string]*uint64{"FaceId": resp.params.FaceId, "Origin": resp.params.Origin, "Cost": resp.params.Cost, "Flags": resp.params.Flags}
			for k, want := range x.echo {
				if got[k] == nil || *got[k] != want {
					rp.fail("C17-echo", "%s answered 200 echoing %s, expected %s=%d", where, bmArgsString(resp.params), k, want)
				}
			}
		} else if len(x.echo) > 0 {
			rp.fail("C17-echo", "%s answered 200 without parameters", where)
		}
	default:
		if x.verdict == bmMust200 {
			rp.fail("C17-accepted-exact-effect", "%s is a valid command and must be answered 200, got %s", where, bmStatus(resp))
		}
		if len(unchanged) > 0 {
			rp.fail("C17-refused-no-change", "%s was answered %s but changed state: %v", where, bmStatus(resp), unchanged)
		}
	}
}

// datasets: C17 "each status dataset lists exactly the current table contents"
func (e *bmEnv) checkDatasets(rp *bmReporter, ctx string) {
	snap := e.snapshot()
	ask := func(module, verb string) *spec.Data {
		in := &spec.Interest{NameV: bmName(bmLocal + "/" + module + "/" + verb)}
		var panicked interface{}
		func() {
			defer func() { panicked = recover() }()
			e.m.modules[module].handleIncomingInterest(in, []byte{0, 0, 0, 0, 0, 1}, e.req.FaceID())
		}()
		if panicked != nil {
			rp.fail("C17-no-panic", "%s%s/%s: handler panicked: %v", ctx, module, verb, panicked)
		}
		for _, d := range e.collect() {
			if in.NameV.IsPrefix(d.NameV) {
				return d
			}
		}
		rp.fail("C17-dataset-lists-table", "%s%s/%s: no dataset was published", ctx, module, verb)
		return nil
	}
	if d := ask("rib", "list"); d != nil {
		got := map[string]string{}
		if st, err := mgmt.ParseRibStatus(enc.NewWireReader(d.Content()), true); err == nil {
			for _, ent := range st.Entries {
				for _, r := range ent.Routes {
					exp := "never"
					if r.ExpirationPeriod != nil {
						exp = (time.Duration(*r.ExpirationPeriod) * time.Millisecond).String()
					}
					got[fmt.Sprintf("%s|%d|%d", ent.Name, r.FaceId, r.Origin)] = fmt.Sprintf("cost=%d flags=%d exp=%s", r.Cost, r.Flags, exp)
				}
			}
		} else {
			rp.fail("C17-dataset-lists-table", "%srib/list: dataset does not parse: %v", ctx, err)
		}
		if df := bmDiffMap("rib", snap.rib, got); len(df) > 0 {
			rp.fail("C17-dataset-lists-table", "%srib/list differs from the RIB: %v", ctx, df)
		}
	}
	if d := ask("fib", "list"); d != nil {
		got := map[string]string{}
		if st, err := mgmt.ParseFibStatus(enc.NewWireReader(d.Content()), true); err == nil {
			for _, ent := range st.Entries {
				for _, h := range ent.NextHopRecords {
					got[fmt.Sprintf("%s|%d", ent.Name, h.FaceId)] = fmt.Sprintf("cost=%d", h.Cost)
				}
			}
		} else {
			rp.fail("C17-dataset-lists-table", "%sfib/list: dataset does not parse: %v", ctx, err)
		}
		if df := bmDiffMap("fib", snap.fib, got); len(df) > 0 {
			rp.fail("C17-dataset-lists-table", "%sfib/list differs from the FIB: %v", ctx, df)
		}
	}
	if d := ask("strategy-choice", "list"); d != nil {
		got := map[string]string{}
		if st, err := mgmt.ParseStrategyChoiceMsg(enc.NewWireReader(d.Content()), true); err == nil {
			for _, sc := range st.StrategyChoices {
				if sc.Strategy != nil {
					got[sc.Name.String()] = sc.Strategy.Name.String()
				}
			}
		} else {
			rp.fail("C17-dataset-lists-table", "%sstrategy-choice/list: dataset does not parse: %v", ctx, err)
		}
		if df := bmDiffMap("strategy", snap.strat, got); len(df) > 0 {
			rp.fail("C17-dataset-lists-table", "%sstrategy-choice/list differs from the strategy table: %v", ctx, df)
		}
	}
	if d := ask("cs", "info"); d != nil {
		if st, err := mgmt.ParseCsInfoMsg(enc.NewWireReader(d.Content()), true); err != nil || st.CsInfo == nil {
			rp.fail("C17-dataset-lists-table", "%scs/info: dataset does not parse: %v", ctx, err)
		} else if int(st.CsInfo.Capacity) != snap.cs {
			rp.fail("C17-dataset-lists-table", "%scs/info lists capacity %d, the capacity is %d", ctx, st.CsInfo.Capacity, snap.cs)
		}
	}
}

// ---------------------------------------------------------------------------------------------
// enumeration
// ---------------------------------------------------------------------------------------------

type bmPre struct {
	label string
	apply func(e *bmEnv)
}

func (e *bmEnv) prestates() []bmPre {
	return []bmPre{
		{"tables empty; ", func(e *bmEnv) {}},
		{"tables populated; ", func(e *bmEnv) {
			table.Rib.AddEncRoute(bmName("/p"), &table.Route{FaceID: e.req.FaceID(), Origin: table.RouteOriginApp, Cost: 7, Flags: table.RouteFlagChildInherit})
			table.Rib.AddEncRoute(bmName("/p"), &table.Route{FaceID: e.other.FaceID(), Origin: table.RouteOriginClient, Cost: 3, Flags: table.RouteFlagCapture})
			table.Rib.AddEncRoute(bmName("/p"), &table.Route{FaceID: e.other.FaceID(), Origin: table.RouteOriginApp, Cost: 4, Flags: 0})
			table.Rib.AddEncRoute(bmName("/p/q"), &table.Route{FaceID: e.req.FaceID(), Origin: table.RouteOriginStatic, Cost: 1, Flags: 3})
			table.FibStrategyTable.InsertNextHopEnc(bmName("/f"), e.req.FaceID(), 7)
			table.FibStrategyTable.InsertNextHopEnc(bmName("/f"), e.other.FaceID(), 3)
			table.FibStrategyTable.InsertNextHopEnc(bmName("/f/g"), e.other.FaceID(), 2)
			table.FibStrategyTable.SetStrategyEnc(bmName("/p"), bmName(bmStrategyPrefix+"/multicast/v=1"))
			table.FibStrategyTable.SetStrategyEnc(bmName("/f/g"), bmName(bmStrategyPrefix+"/multicast/v=1"))
			table.SetCsCapacity(77)
		}},
	}
}

func bmOpt(vals ...uint64) []*uint64 {
	r := []*uint64{nil}
	for _, v := range vals {
		r = append(r, bmU(v))
	}
	return r
}

func (e *bmEnv) faceIDs() []*uint64 {
	return []*uint64{nil, bmU(0), bmU(e.req.FaceID()), bmU(e.other.FaceID()), bmU(bmNoSuchFace)}
}

func bmNamesOpt(names ...string) []enc.Name {
	r := []enc.Name{nil}
	for _, n := range names {
		r = append(r, bmName(n))
	}
	return r
}

// commands enumerates the single-command universe
func (e *bmEnv) commands() []bmCmd {
	var out []bmCmd
	// rib/register
	for _, name := range bmNamesOpt("/", "/p", "/p/q", "/new") {
		for _, fid := range e.faceIDs() {
			for _, origin := range bmOpt(0, 65, 255) {
				for _, cost := range bmOpt(0, 5) {
					for _, flags := range bmOpt(0, 1, 2, 3) {
						out = append(out, bmCmd{bmLocal, "rib", "register", &mgmt.ControlArgs{Name: name, FaceId: fid, Origin: origin, Cost: cost, Flags: flags}, nil})
					}
				}
			}
		}
	}
	out = append(out, bmCmd{bmLocal, "rib", "register", &mgmt.ControlArgs{Name: bmName("/p"), ExpirationPeriod: bmU(3600000)}, nil})
	// rib/unregister
	for _, name := range bmNamesOpt("/", "/p", "/p/q", "/new") {
		for _, fid := range e.faceIDs() {
			for _, origin := range bmOpt(0, 65, 255) {
				out = append(out, bmCmd{bmLocal, "rib", "unregister", &mgmt.ControlArgs{Name: name, FaceId: fid, Origin: origin}, nil})
			}
		}
	}
	// fib/add-nexthop, fib/remove-nexthop
	for _, name := range bmNamesOpt("/", "/f", "/f/g", "/new") {
		for _, fid := range e.faceIDs() {
			for _, cost := range bmOpt(0, 5, 1<<63) {
				out = append(out, bmCmd{bmLocal, "fib", "add-nexthop", &mgmt.ControlArgs{Name: name, FaceId: fid, Cost: cost}, nil})
			}
			out = append(out, bmCmd{bmLocal, "fib", "remove-nexthop", &mgmt.ControlArgs{Name: name, FaceId: fid}, nil})
		}
	}
	// strategy-choice/set, unset
	strategies := []enc.Name{nil,
		bmName(bmStrategyPrefix + "/best-route/v=1"), bmName(bmStrategyPrefix + "/multicast/v=1"),
		bmName(bmStrategyPrefix + "/multicast"), bmName(bmStrategyPrefix + "/best-route"),
		bmName(bmStrategyPrefix), bmName(bmLocal), bmName("/"),
		bmName(bmStrategyPrefix + "/unknown/v=1"), bmName(bmStrategyPrefix + "/unknown"),
		bmName(bmStrategyPrefix + "/best-route/v=9"), bmName(bmStrategyPrefix + "/best-route/x"),
		bmName("/other/nfd/strategy/best-route/v=1"), bmName(bmStrategyPrefix + "/best-route/v=1/extra"),
	}
	for _, name := range bmNamesOpt("/", "/p", "/f/g", "/new") {
		for _, st := range strategies {
			a := &mgmt.ControlArgs{Name: name}
			if st != nil {
				a.Strategy = &mgmt.Strategy{Name: st}
			}
			out = append(out, bmCmd{bmLocal, "strategy-choice", "set", a, nil})
		}
		out = append(out, bmCmd{bmLocal, "strategy-choice", "unset", &mgmt.ControlArgs{Name: name}, nil})
	}
	// cs/config
	for _, capacity := range bmOpt(0, 5, 1<<32, 1<<40, 1<<63, 1<<64-1) {
		for _, fm := range [][2]*uint64{{nil, nil}, {bmU(3), bmU(3)}, {bmU(0), bmU(3)}, {bmU(1), nil}, {nil, bmU(1)}} {
			out = append(out, bmCmd{bmLocal, "cs", "config", &mgmt.ControlArgs{Capacity: capacity, Flags: fm[0], Mask: fm[1]}, nil})
		}
	}
	// faces/update
	targets := e.faceIDs()
	if e.udp != nil {
		targets = append(targets, bmU(e.udp.FaceID()))
	}
	for _, fid := range targets {
		for _, mtu := range bmOpt(0, 10, 127, 128, 9000, 1<<31, 1<<63, 1<<64-1) {
			out = append(out, bmCmd{bmLocal, "faces", "update", &mgmt.ControlArgs{FaceId: fid, Mtu: mtu}, nil})
		}
		for _, pers := range bmOpt(0, 1, 2, 7) {
			for _, mtu := range bmOpt(1500, 16) {
				out = append(out, bmCmd{bmLocal, "faces", "update", &mgmt.ControlArgs{FaceId: fid, FacePersistency: pers, Mtu: mtu}, nil})
			}
		}
		for _, fm := range [][2]*uint64{{bmU(1), bmU(1)}, {bmU(0), bmU(1)}, {bmU(4), bmU(4)}, {bmU(5), bmU(4)}, {bmU(1), nil}, {nil, bmU(1)}} {
			for _, mtu := range bmOpt(1500, 16) {
				out = append(out, bmCmd{bmLocal, "faces", "update", &mgmt.ControlArgs{FaceId: fid, Flags: fm[0], Mask: fm[1], Mtu: mtu}, nil})
			}
		}
	}
	// missing / malformed parameters, unknown verbs
	for _, mv := range [][2]string{{"rib", "register"}, {"rib", "unregister"}, {"fib", "add-nexthop"}, {"fib", "remove-nexthop"},
		{"strategy-choice", "set"}, {"strategy-choice", "unset"}, {"cs", "config"}, {"faces", "update"},
		{"rib", "no-such-verb"}, {"fib", "no-such-verb"}, {"strategy-choice", "no-such-verb"}, {"cs", "no-such-verb"}, {"faces", "no-such-verb"}} {
		out = append(out, bmCmd{bmLocal, mv[0], mv[1], nil, nil})
		for _, g := range [][]byte{{}, {0x68}, {0x68, 0x05, 0x07}, {0xff, 0xff, 0xff}, {0x68, 0x03, 0x69, 0x09, 0x01}} {
			out = append(out, bmCmd{bmLocal, mv[0], mv[1], nil, g})
		}
	}
	return out
}

// a valid state-changing command per verb, for the prefix / authorisation clause and the two-command histories
func (e *bmEnv) coreCommands() []bmCmd {
	o := e.other.FaceID()
	return []bmCmd{
		{bmLocal, "rib", "register", &mgmt.ControlArgs{Name: bmName("/p")}, nil},
		{bmLocal, "rib", "register", &mgmt.ControlArgs{Name: bmName("/p"), Flags: bmU(0), Cost: bmU(5)}, nil},
		{bmLocal, "rib", "register", &mgmt.ControlArgs{Name: bmName("/p"), FaceId: bmU(o), Origin: bmU(65), Flags: bmU(2)}, nil},
		{bmLocal, "rib", "register", &mgmt.ControlArgs{Name: bmName("/p/q"), FaceId: bmU(o)}, nil},
		{bmLocal, "rib", "register", &mgmt.ControlArgs{Name: bmName("/p"), FaceId: bmU(bmNoSuchFace)}, nil},
		{bmLocal, "rib", "unregister", &mgmt.ControlArgs{Name: bmName("/p")}, nil},
		{bmLocal, "rib", "unregister", &mgmt.ControlArgs{Name: bmName("/p"), FaceId: bmU(o), Origin: bmU(65)}, nil},
		{bmLocal, "rib", "unregister", &mgmt.ControlArgs{Name: bmName("/p/q"), FaceId: bmU(o)}, nil},
		{bmLocal, "fib", "add-nexthop", &mgmt.ControlArgs{Name: bmName("/f")}, nil},
		{bmLocal, "fib", "add-nexthop", &mgmt.ControlArgs{Name: bmName("/f"), Cost: bmU(5)}, nil},
		{bmLocal, "fib", "add-nexthop", &mgmt.ControlArgs{Name: bmName("/f"), FaceId: bmU(o), Cost: bmU(2)}, nil},
		{bmLocal, "fib", "add-nexthop", &mgmt.ControlArgs{Name: bmName("/f/g"), FaceId: bmU(o)}, nil},
		{bmLocal, "fib", "add-nexthop", &mgmt.ControlArgs{Name: bmName("/f"), FaceId: bmU(bmNoSuchFace)}, nil},
		{bmLocal, "fib", "remove-nexthop", &mgmt.ControlArgs{Name: bmName("/f")}, nil},
		{bmLocal, "fib", "remove-nexthop", &mgmt.ControlArgs{Name: bmName("/f"), FaceId: bmU(o)}, nil},
		{bmLocal, "fib", "remove-nexthop", &mgmt.ControlArgs{Name: bmName("/f/g"), FaceId: bmU(o)}, nil},
		{bmLocal, "strategy-choice", "set", &mgmt.ControlArgs{Name: bmName("/p"), Strategy: &mgmt.Strategy{Name: bmName(bmStrategyPrefix + "/multicast")}}, nil},
		{bmLocal, "strategy-choice", "set", &mgmt.ControlArgs{Name: bmName("/p"), Strategy: &mgmt.Strategy{Name: bmName(bmStrategyPrefix + "/best-route/v=1")}}, nil},
		{bmLocal, "strategy-choice", "set", &mgmt.ControlArgs{Name: bmName("/"), Strategy: &mgmt.Strategy{Name: bmName(bmStrategyPrefix + "/multicast/v=1")}}, nil},
		{bmLocal, "strategy-choice", "set", &mgmt.ControlArgs{Name: bmName("/p"), Strategy: &mgmt.Strategy{Name: bmName(bmStrategyPrefix)}}, nil},
		{bmLocal, "strategy-choice", "unset", &mgmt.ControlArgs{Name: bmName("/p")}, nil},
		{bmLocal, "strategy-choice", "unset", &mgmt.ControlArgs{Name: bmName("/")}, nil},
		{bmLocal, "cs", "config", &mgmt.ControlArgs{Capacity: bmU(5)}, nil},
		{bmLocal, "cs", "config", &mgmt.ControlArgs{Capacity: bmU(9), Flags: bmU(1)}, nil},
		{bmLocal, "cs", "config", &mgmt.ControlArgs{Capacity: bmU(1 << 63)}, nil},
		{bmLocal, "faces", "update", &mgmt.ControlArgs{Mtu: bmU(1500)}, nil},
		{bmLocal, "faces", "update", &mgmt.ControlArgs{Mtu: bmU(0)}, nil},
		{bmLocal, "faces", "update", &mgmt.ControlArgs{Flags: bmU(1), Mask: bmU(1)}, nil},
		{bmLocal, "faces", "update", &mgmt.ControlArgs{FaceId: bmU(bmNoSuchFace), Mtu: bmU(1500)}, nil},
	}
}

func TestBoundedMgmtC17(t *testing.T) {
	e := bmSetup()
	rp := &bmReporter{reported: map[string]bool{}}
	pres := e.prestates()

	// (1) every single command, from every prior state
	cmds := e.commands()
	for _, pre := range pres {
		for i, c := range cmds {
			e.reset()
			pre.apply(e)
			e.step(rp, pre.label, c)
			rp.cases++
			if i%16 == 0 {
				e.checkDatasets(rp, pre.label+"after "+c.String()+": ")
			}
		}
	}
	// (2) the non-local prefix: every core command under /localhop/nfd, with link-local management off and on
	for _, pre := range pres {
		for _, hop := range []bool{false, true} {
			for _, c := range e.coreCommands() {
				c.prefix = bmLocalhop
				e.reset()
				pre.apply(e)
				enableLocalhopManagement = hop
				e.step(rp, pre.label, c)
				rp.cases++
			}
			// and a foreign prefix altogether
			for _, c := range e.coreCommands() {
				c.prefix = "/example/nfd"
				e.reset()
				pre.apply(e)
				enableLocalhopManagement = hop
				e.step(rp, pre.label, c)
				rp.cases++
			}
		}
	}
	// (3) two-command histories over the core commands (no reset in between), datasets after each history
	core := e.coreCommands()
	for _, pre := range pres {
		for _, c1 := range core {
			for _, c2 := range core {
				e.reset()
				pre.apply(e)
				e.step(rp, pre.label, c1)
				e.step(rp, pre.label+"after "+c1.String()+"; ", c2)
				e.checkDatasets(rp, pre.label+"after "+c1.String()+"; "+c2.String()+": ")
				rp.cases++
			}
		}
	}
	e.reset()
	if e.udp == nil {
		fmt.Printf("BOUNDED-NOTE C17 no UDP socket could be created: faces/update was driven on the Unix stream face and the null face only\n")
	}
	fmt.Printf("BOUNDED-CASES %d\n", rp.cases)
	os.Stdout.Sync()
}
