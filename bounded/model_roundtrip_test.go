package mgmt_2022_test

// Bounded stand-in for property C13 ("Every generated TLV model round-trips exactly and matches its generator"), clauses
//   [announced]  "encoding yields exactly the number of bytes the encoder announced": encoder.length == sum of the wire-plan
//                entries == sum of the lengths of the emitted segments == len(Bytes()); each segment has its planned length;
//                the bytes are a sequence of well-formed elements (exact lengths, nothing left over)
//   [roundtrip]  "and decoding it reproduces the value": Parse(Encode(v)) == v, from contiguous bytes and from 1- and 3-byte
//                segments
//   [unknown-noncritical] "an unrecognised non-critical element inserted at any position of a valid encoding is skipped and
//                every other field still decodes unchanged": element 0xFE00 at every field boundary, also inside nested models
//   [unknown-critical], [unknown-critical-ignored] "an unrecognised critical element causes rejection unless the caller asked
//                to ignore it": element 0xFE01 (odd) and an unused element number <= 31 at the same positions
// for every generated model that has an exported Parse function (listed below by scanning the generated sources of nine of the
// eleven generated packages; the ordered packet models Interest/Data are covered by packet_roundtrip_test.go, gen_map and
// gen_signature are not covered here).
//
// Oracle: the value handed to the encoder (compared through a type-directed canonical rendering written here) and a minimal TLV
// walker of this file; values come from a type-directed generator (zero value, every field set with small values, every field
// set with boundary/large values, and every single field cleared).

import (
	"crypto/sha256"
	"encoding/hex"
	"fmt"
	"reflect"
	"sort"
	"strconv"
	"strings"
	"testing"
	"time"

	dvtlv "github.com/named-data/ndnd/dv/tlv"
	enc "github.com/named-data/ndnd/std/encoding"
	gbasic "github.com/named-data/ndnd/std/encoding/tests/gen_basic"
	gcomp "github.com/named-data/ndnd/std/encoding/tests/gen_composition"
	mgmt "github.com/named-data/ndnd/std/ndn/mgmt_2022"
	rdr "github.com/named-data/ndnd/std/ndn/rdr_2024"
	spec "github.com/named-data/ndnd/std/ndn/spec_2022"
	svs "github.com/named-data/ndnd/std/ndn/svs_2024"
	demosec "github.com/named-data/ndnd/std/schema/demosec"
	ndncert "github.com/named-data/ndnd/std/security/ndncert_0_3"
)

type mrtModel struct {
	name   string
	typ    reflect.Type
	encode func(v reflect.Value) (w enc.Wire, announced int, plan []int, hasPlan bool)
	parse  func(r enc.ParseReader, ignoreCritical bool) (reflect.Value, error)
}

func mrtReg[T any, E any](name string, parse func(enc.ParseReader, bool) (*T, error)) mrtModel {
	return mrtModel{
		name: name,
		typ:  reflect.TypeOf((*T)(nil)).Elem(),
		encode: func(v reflect.Value) (enc.Wire, int, []int, bool) {
			e := reflect.New(reflect.TypeOf((*E)(nil)).Elem())
			e.MethodByName("Init").Call([]reflect.Value{v})
			announced := int(e.Elem().FieldByName("length").Uint())
			var plan []int
			pf := e.Elem().FieldByName("wirePlan")
			if pf.IsValid() {
				for i := 0; i < pf.Len(); i++ {
					plan = append(plan, int(pf.Index(i).Uint()))
				}
			}
			out := e.MethodByName("Encode").Call([]reflect.Value{v})
			w, _ := out[0].Interface().(enc.Wire)
			return w, announced, plan, pf.IsValid()
		},
		parse: func(r enc.ParseReader, ic bool) (reflect.Value, error) {
			p, err := parse(r, ic)
			return reflect.ValueOf(p), err
		},
	}
}

func mrtModels() []mrtModel {
	return []mrtModel{
		mrtReg[mgmt.Strategy, mgmt.StrategyEncoder]("mgmt_2022.Strategy", mgmt.ParseStrategy),
		mrtReg[mgmt.ControlArgs, mgmt.ControlArgsEncoder]("mgmt_2022.ControlArgs", mgmt.ParseControlArgs),
		mrtReg[mgmt.ControlResponseVal, mgmt.ControlResponseValEncoder]("mgmt_2022.ControlResponseVal", mgmt.ParseControlResponseVal),
		mrtReg[mgmt.ControlParameters, mgmt.ControlParametersEncoder]("mgmt_2022.ControlParameters", mgmt.ParseControlParameters),
		mrtReg[mgmt.ControlResponse, mgmt.ControlResponseEncoder]("mgmt_2022.ControlResponse", mgmt.ParseControlResponse),
		mrtReg[mgmt.FaceEventNotificationValue, mgmt.FaceEventNotificationValueEncoder]("mgmt_2022.FaceEventNotificationValue", mgmt.ParseFaceEventNotificationValue),
		mrtReg[mgmt.FaceEventNotification, mgmt.FaceEventNotificationEncoder]("mgmt_2022.FaceEventNotification", mgmt.ParseFaceEventNotification),
		mrtReg[mgmt.GeneralStatus, mgmt.GeneralStatusEncoder]("mgmt_2022.GeneralStatus", mgmt.ParseGeneralStatus),
		mrtReg[mgmt.FaceStatus, mgmt.FaceStatusEncoder]("mgmt_2022.FaceStatus", mgmt.ParseFaceStatus),
		mrtReg[mgmt.FaceStatusMsg, mgmt.FaceStatusMsgEncoder]("mgmt_2022.FaceStatusMsg", mgmt.ParseFaceStatusMsg),
		mrtReg[mgmt.FaceQueryFilterValue, mgmt.FaceQueryFilterValueEncoder]("mgmt_2022.FaceQueryFilterValue", mgmt.ParseFaceQueryFilterValue),
		mrtReg[mgmt.FaceQueryFilter, mgmt.FaceQueryFilterEncoder]("mgmt_2022.FaceQueryFilter", mgmt.ParseFaceQueryFilter),
		mrtReg[mgmt.Route, mgmt.RouteEncoder]("mgmt_2022.Route", mgmt.ParseRoute),
		mrtReg[mgmt.RibEntry, mgmt.RibEntryEncoder]("mgmt_2022.RibEntry", mgmt.ParseRibEntry),
		mrtReg[mgmt.RibStatus, mgmt.RibStatusEncoder]("mgmt_2022.RibStatus", mgmt.ParseRibStatus),
		mrtReg[mgmt.NextHopRecord, mgmt.NextHopRecordEncoder]("mgmt_2022.NextHopRecord", mgmt.ParseNextHopRecord),
		mrtReg[mgmt.FibEntry, mgmt.FibEntryEncoder]("mgmt_2022.FibEntry", mgmt.ParseFibEntry),
		mrtReg[mgmt.FibStatus, mgmt.FibStatusEncoder]("mgmt_2022.FibStatus", mgmt.ParseFibStatus),
		mrtReg[mgmt.StrategyChoice, mgmt.StrategyChoiceEncoder]("mgmt_2022.StrategyChoice", mgmt.ParseStrategyChoice),
		mrtReg[mgmt.StrategyChoiceMsg, mgmt.StrategyChoiceMsgEncoder]("mgmt_2022.StrategyChoiceMsg", mgmt.ParseStrategyChoiceMsg),
		mrtReg[mgmt.CsInfo, mgmt.CsInfoEncoder]("mgmt_2022.CsInfo", mgmt.ParseCsInfo),
		mrtReg[mgmt.CsInfoMsg, mgmt.CsInfoMsgEncoder]("mgmt_2022.CsInfoMsg", mgmt.ParseCsInfoMsg),
		mrtReg[spec.KeyLocator, spec.KeyLocatorEncoder]("spec_2022.KeyLocator", spec.ParseKeyLocator),
		mrtReg[spec.Links, spec.LinksEncoder]("spec_2022.Links", spec.ParseLinks),
		mrtReg[spec.MetaInfo, spec.MetaInfoEncoder]("spec_2022.MetaInfo", spec.ParseMetaInfo),
		mrtReg[spec.ValidityPeriod, spec.ValidityPeriodEncoder]("spec_2022.ValidityPeriod", spec.ParseValidityPeriod),
		mrtReg[spec.CertDescriptionEntry, spec.CertDescriptionEntryEncoder]("spec_2022.CertDescriptionEntry", spec.ParseCertDescriptionEntry),
		mrtReg[spec.CertAdditionalDescription, spec.CertAdditionalDescriptionEncoder]("spec_2022.CertAdditionalDescription", spec.ParseCertAdditionalDescription),
		mrtReg[spec.SignatureInfo, spec.SignatureInfoEncoder]("spec_2022.SignatureInfo", spec.ParseSignatureInfo),
		mrtReg[spec.NetworkNack, spec.NetworkNackEncoder]("spec_2022.NetworkNack", spec.ParseNetworkNack),
		mrtReg[spec.CachePolicy, spec.CachePolicyEncoder]("spec_2022.CachePolicy", spec.ParseCachePolicy),
		mrtReg[gbasic.FakeMetaInfo, gbasic.FakeMetaInfoEncoder]("gen_basic.FakeMetaInfo", gbasic.ParseFakeMetaInfo),
		mrtReg[gbasic.OptField, gbasic.OptFieldEncoder]("gen_basic.OptField", gbasic.ParseOptField),
		mrtReg[gbasic.WireNameField, gbasic.WireNameFieldEncoder]("gen_basic.WireNameField", gbasic.ParseWireNameField),
		mrtReg[gbasic.NoCopyStruct, gbasic.NoCopyStructEncoder]("gen_basic.NoCopyStruct", gbasic.ParseNoCopyStruct),
		mrtReg[gbasic.StrField, gbasic.StrFieldEncoder]("gen_basic.StrField", gbasic.ParseStrField),
		mrtReg[gbasic.FixedUintField, gbasic.FixedUintFieldEncoder]("gen_basic.FixedUintField", gbasic.ParseFixedUintField),
		mrtReg[gcomp.IntArray, gcomp.IntArrayEncoder]("gen_composition.IntArray", gcomp.ParseIntArray),
		mrtReg[gcomp.NameArray, gcomp.NameArrayEncoder]("gen_composition.NameArray", gcomp.ParseNameArray),
		mrtReg[gcomp.Inner, gcomp.InnerEncoder]("gen_composition.Inner", gcomp.ParseInner),
		mrtReg[gcomp.Nested, gcomp.NestedEncoder]("gen_composition.Nested", gcomp.ParseNested),
		mrtReg[gcomp.NestedSeq, gcomp.NestedSeqEncoder]("gen_composition.NestedSeq", gcomp.ParseNestedSeq),
		mrtReg[gcomp.NestedWire, gcomp.NestedWireEncoder]("gen_composition.NestedWire", gcomp.ParseNestedWire),
		mrtReg[svs.StateVectorAppParam, svs.StateVectorAppParamEncoder]("svs_2024.StateVectorAppParam", svs.ParseStateVectorAppParam),
		mrtReg[svs.StateVector, svs.StateVectorEncoder]("svs_2024.StateVector", svs.ParseStateVector),
		mrtReg[svs.StateVectorEntry, svs.StateVectorEntryEncoder]("svs_2024.StateVectorEntry", svs.ParseStateVectorEntry),
		mrtReg[rdr.ManifestDigest, rdr.ManifestDigestEncoder]("rdr_2024.ManifestDigest", rdr.ParseManifestDigest),
		mrtReg[rdr.ManifestData, rdr.ManifestDataEncoder]("rdr_2024.ManifestData", rdr.ParseManifestData),
		mrtReg[rdr.MetaData, rdr.MetaDataEncoder]("rdr_2024.MetaData", rdr.ParseMetaData),
		mrtReg[ndncert.CaProfile, ndncert.CaProfileEncoder]("ndncert_0_3.CaProfile", ndncert.ParseCaProfile),
		mrtReg[ndncert.ProbeIntAppParam, ndncert.ProbeIntAppParamEncoder]("ndncert_0_3.ProbeIntAppParam", ndncert.ParseProbeIntAppParam),
		mrtReg[ndncert.ProbeRes, ndncert.ProbeResEncoder]("ndncert_0_3.ProbeRes", ndncert.ParseProbeRes),
		mrtReg[ndncert.ProbeResContent, ndncert.ProbeResContentEncoder]("ndncert_0_3.ProbeResContent", ndncert.ParseProbeResContent),
		mrtReg[ndncert.CmdNewInt, ndncert.CmdNewIntEncoder]("ndncert_0_3.CmdNewInt", ndncert.ParseCmdNewInt),
		mrtReg[ndncert.CmdNewData, ndncert.CmdNewDataEncoder]("ndncert_0_3.CmdNewData", ndncert.ParseCmdNewData),
		mrtReg[ndncert.CipherMsg, ndncert.CipherMsgEncoder]("ndncert_0_3.CipherMsg", ndncert.ParseCipherMsg),
		mrtReg[ndncert.ChallengeIntPlain, ndncert.ChallengeIntPlainEncoder]("ndncert_0_3.ChallengeIntPlain", ndncert.ParseChallengeIntPlain),
		mrtReg[ndncert.ChallengeDataPlain, ndncert.ChallengeDataPlainEncoder]("ndncert_0_3.ChallengeDataPlain", ndncert.ParseChallengeDataPlain),
		mrtReg[ndncert.ErrorMsgData, ndncert.ErrorMsgDataEncoder]("ndncert_0_3.ErrorMsgData", ndncert.ParseErrorMsgData),
		mrtReg[dvtlv.Packet, dvtlv.PacketEncoder]("tlv.Packet", dvtlv.ParsePacket),
		mrtReg[dvtlv.Advertisement, dvtlv.AdvertisementEncoder]("tlv.Advertisement", dvtlv.ParseAdvertisement),
		mrtReg[dvtlv.AdvEntry, dvtlv.AdvEntryEncoder]("tlv.AdvEntry", dvtlv.ParseAdvEntry),
		mrtReg[dvtlv.Destination, dvtlv.DestinationEncoder]("tlv.Destination", dvtlv.ParseDestination),
		mrtReg[dvtlv.PrefixOpList, dvtlv.PrefixOpListEncoder]("tlv.PrefixOpList", dvtlv.ParsePrefixOpList),
		mrtReg[dvtlv.PrefixOpAdd, dvtlv.PrefixOpAddEncoder]("tlv.PrefixOpAdd", dvtlv.ParsePrefixOpAdd),
		mrtReg[dvtlv.PrefixOpRemove, dvtlv.PrefixOpRemoveEncoder]("tlv.PrefixOpRemove", dvtlv.ParsePrefixOpRemove),
		mrtReg[demosec.EncryptedContent, demosec.EncryptedContentEncoder]("demosec.EncryptedContent", demosec.ParseEncryptedContent),
	}
}

// ---- type-directed values ---------------------------------------------------------------------------------------------

var (
	mrtNameT = reflect.TypeOf(enc.Name{})
	mrtWireT = reflect.TypeOf(enc.Wire{})
	mrtCompT = reflect.TypeOf(enc.Component{})
	mrtDurT  = reflect.TypeOf(time.Duration(0))
)

func mrtBytes(n int, salt int) []byte {
	b := make([]byte, n)
	for i := range b {
		b[i] = byte(i*5 + salt)
	}
	return b
}

var mrtNats = []uint64{1, 255, 256, 65535, 65536, 1<<32 - 1, 1 << 32, 1<<64 - 1, 252, 253}

// mrtFill: mode 1 = small values, mode 2 = boundary / large values. salt varies the values from field to field.
func mrtFill(t reflect.Type, mode int, depth int, salt *int) reflect.Value {
	*salt++
	k := *salt
	v := reflect.New(t).Elem()
	switch {
	case t == mrtNameT:
		n := enc.Name{enc.Component{Typ: 8, Val: mrtBytes(1+k%3, k)}}
		if mode == 2 {
			n = append(n, enc.Component{Typ: enc.TLNum([]uint64{8, 1, 32, 253, 65535}[k%5]), Val: mrtBytes([]int{0, 252, 253, 300}[k%4], k)})
		}
		v.Set(reflect.ValueOf(n))
	case t == mrtWireT:
		w := enc.Wire{mrtBytes(2+k%3, k)}
		if mode == 2 {
			w = enc.Wire{mrtBytes(100, k), mrtBytes([]int{152, 153, 200}[k%3], k+1)}
		}
		v.Set(reflect.ValueOf(w))
	case t == mrtCompT:
		v.Set(reflect.ValueOf(enc.Component{Typ: 8, Val: mrtBytes(3, k)}))
	case t == mrtDurT:
		if mode == 2 {
			v.SetInt(int64(time.Duration(mrtNats[k%7]%(1<<40)) * time.Millisecond))
		} else {
			v.SetInt(int64(time.Duration(k%200+1) * time.Millisecond))
		}
	default:
		switch t.Kind() {
		case reflect.Bool:
			v.SetBool(true)
		case reflect.Uint8, reflect.Uint16, reflect.Uint32, reflect.Uint64, reflect.Uint:
			x := uint64(k%200 + 1)
			if mode == 2 {
				x = mrtNats[k%len(mrtNats)]
			}
			if bits := t.Bits(); bits < 64 {
				x &= 1<<uint(bits) - 1
			}
			v.SetUint(x)
		case reflect.Int, reflect.Int64, reflect.Int32:
			v.SetInt(int64(k%100 + 1))
		case reflect.String:
			if mode == 2 {
				v.SetString(strings.Repeat("s", []int{252, 253, 0, 300}[k%4]))
			} else {
				v.SetString("str" + strconv.Itoa(k))
			}
		case reflect.Ptr:
			if t.Elem().Kind() == reflect.Struct && depth > 16 {
				return v
			}
			p := reflect.New(t.Elem())
			p.Elem().Set(mrtFill(t.Elem(), mode, depth+1, salt))
			v.Set(p)
		case reflect.Struct:
			for i := 0; i < t.NumField(); i++ {
				if f := t.Field(i); f.IsExported() && f.Tag.Get("tlv") != "" {
					v.Field(i).Set(mrtFill(f.Type, mode, depth+1, salt))
				}
			}
		case reflect.Slice:
			if t.Elem().Kind() == reflect.Uint8 {
				n := 1 + k%4
				if mode == 2 {
					n = []int{252, 253, 300, 1}[k%4]
				}
				v.SetBytes(mrtBytes(n, k))
				return v
			}
			n := 1 + mode
			s := reflect.MakeSlice(t, n, n)
			for i := 0; i < n; i++ {
				s.Index(i).Set(mrtFill(t.Elem(), mode, depth+1, salt))
			}
			v.Set(s)
		case reflect.Map:
			mp := reflect.MakeMap(t)
			for i := 0; i < 2; i++ {
				mp.SetMapIndex(mrtFill(t.Key(), 1, depth+1, salt), mrtFill(t.Elem(), mode, depth+1, salt))
			}
			v.Set(mp)
		default:
			panic("harness: unsupported field type " + t.String())
		}
	}
	return v
}

// mrtLeaves visits the settable leaves of a value (pointers followed, first element of sequences, map values not).
func mrtLeaves(v reflect.Value, path string, visit func(path string, leaf reflect.Value)) {
	t := v.Type()
	switch {
	case t == mrtNameT, t == mrtWireT, t == mrtCompT, t == mrtDurT:
		visit(path, v)
	case t.Kind() == reflect.Ptr:
		if !v.IsNil() {
			mrtLeaves(v.Elem(), path, visit)
		}
	case t.Kind() == reflect.Struct:
		for i := 0; i < t.NumField(); i++ {
			if f := t.Field(i); f.IsExported() && f.Tag.Get("tlv") != "" {
				mrtLeaves(v.Field(i), path+"."+f.Name, visit)
			}
		}
	case t.Kind() == reflect.Slice && t.Elem().Kind() != reflect.Uint8:
		if v.Len() > 0 {
			mrtLeaves(v.Index(0), path+"[0]", visit)
		}
	case t.Kind() == reflect.Map:
	default:
		visit(path, v)
	}
}

// mrtBoundary: the boundary values of a leaf kind (number widths 1/2/4/8 bytes, length fields 1/3/5 bytes).
func mrtBoundary(t reflect.Type) []reflect.Value {
	var out []reflect.Value
	add := func(x interface{}) { out = append(out, reflect.ValueOf(x).Convert(t)) }
	switch {
	case t == mrtNameT:
		for _, l := range []int{0, 252, 253, 65536} {
			add(enc.Name{enc.Component{Typ: 8, Val: mrtBytes(l, l)}})
		}
		add(enc.Name{enc.Component{Typ: 65535, Val: mrtBytes(248, 1)}}) // name value of exactly 253 bytes
		add(enc.Name{enc.Component{Typ: 253, Val: []byte{}}, enc.Component{Typ: 1, Val: mrtBytes(32, 2)}})
	case t == mrtWireT:
		for _, l := range []int{1, 252, 253, 65535, 65536} {
			add(enc.Wire{mrtBytes(l/2, l), mrtBytes(l-l/2, l+1)})
		}
	case t == mrtCompT:
		add(enc.Component{Typ: 8, Val: mrtBytes(253, 1)})
	case t == mrtDurT:
		for _, ms := range []int64{0, 255, 256, 65535, 65536, 1<<32 - 1, 1 << 32} {
			add(time.Duration(ms) * time.Millisecond)
		}
	case t.Kind() == reflect.String:
		for _, l := range []int{0, 252, 253, 65535, 65536} {
			add(strings.Repeat("x", l))
		}
	case t.Kind() == reflect.Slice && t.Elem().Kind() == reflect.Uint8:
		for _, l := range []int{1, 252, 253, 65535, 65536} {
			add(mrtBytes(l, l))
		}
	case t.Kind() == reflect.Bool:
		add(false)
	default:
		switch t.Kind() {
		case reflect.Uint8, reflect.Uint16, reflect.Uint32, reflect.Uint64, reflect.Uint:
			for _, x := range []uint64{0, 255, 256, 65535, 65536, 1<<32 - 1, 1 << 32, 1<<64 - 1} {
				if bits := t.Bits(); bits < 64 && x >= 1<<uint(bits) {
					continue
				}
				add(x)
			}
		}
	}
	return out
}

// mrtRender: canonical rendering (nil and empty byte strings / sequences are the same thing; a wire is its bytes).
func mrtRender(sb *strings.Builder, v reflect.Value) {
	t := v.Type()
	switch {
	case t == mrtWireT:
		sb.WriteString("wire:")
		mrtHex(sb, v.Interface().(enc.Wire).Join())
	case t == mrtNameT:
		if v.IsNil() {
			sb.WriteString("name:nil")
			return
		}
		sb.WriteString("name:")
		for _, c := range v.Interface().(enc.Name) {
			fmt.Fprintf(sb, "/%d=", c.Typ)
			mrtHex(sb, c.Val)
		}
	case t == mrtCompT:
		c := v.Interface().(enc.Component)
		fmt.Fprintf(sb, "comp:%d=%x", c.Typ, c.Val)
	default:
		switch t.Kind() {
		case reflect.Ptr:
			if v.IsNil() {
				sb.WriteString("-")
				return
			}
			sb.WriteString("&")
			mrtRender(sb, v.Elem())
		case reflect.Struct:
			sb.WriteString("{")
			for i := 0; i < t.NumField(); i++ {
				if f := t.Field(i); f.IsExported() && f.Tag.Get("tlv") != "" {
					sb.WriteString(f.Name + "=")
					mrtRender(sb, v.Field(i))
					sb.WriteString(" ")
				}
			}
			sb.WriteString("}")
		case reflect.Slice:
			if t.Elem().Kind() == reflect.Uint8 {
				sb.WriteString("bytes:")
				mrtHex(sb, v.Bytes())
				return
			}
			sb.WriteString("[")
			for i := 0; i < v.Len(); i++ {
				mrtRender(sb, v.Index(i))
				sb.WriteString(",")
			}
			sb.WriteString("]")
		case reflect.Map:
			var items []string
			for it := v.MapRange(); it.Next(); {
				var e strings.Builder
				mrtRender(&e, it.Key())
				e.WriteString("=>")
				mrtRender(&e, it.Value())
				items = append(items, e.String())
			}
			sort.Strings(items)
			sb.WriteString("map[" + strings.Join(items, ",") + "]")
		case reflect.String:
			sb.WriteString("str:")
			if v.Len() > 256 {
				mrtHex(sb, []byte(v.String()))
			} else {
				sb.WriteString(v.String())
			}
		default:
			fmt.Fprintf(sb, "%v", v.Interface())
		}
	}
}

// mrtHex renders a byte string (long ones as length + SHA-256).
func mrtHex(sb *strings.Builder, b []byte) {
	if len(b) > 256 {
		fmt.Fprintf(sb, "%d#%x", len(b), sha256.Sum256(b))
		return
	}
	sb.WriteString(hex.EncodeToString(b))
}

func mrtKey(v reflect.Value) string {
	var sb strings.Builder
	mrtRender(&sb, v)
	return sb.String()
}

// ---- TLV walker driven by the model's field tags ----------------------------------------------------------------------

type mrtSchema struct {
	nested map[uint64]*mrtSchema // element number -> schema of the nested model
	used   map[uint64]bool
	pairs  bool // has a map field (key and value elements alternate: no insertion between them)
}

func mrtSchemaOf(t reflect.Type, seen map[reflect.Type]*mrtSchema) *mrtSchema {
	if s, ok := seen[t]; ok {
		return s
	}
	s := &mrtSchema{nested: map[uint64]*mrtSchema{}, used: map[uint64]bool{}}
	seen[t] = s
	for i := 0; i < t.NumField(); i++ {
		f := t.Field(i)
		tag := f.Tag.Get("tlv")
		if !f.IsExported() || tag == "" {
			continue
		}
		num, err := strconv.ParseUint(tag, 0, 64)
		if err != nil {
			panic("harness: tag " + tag)
		}
		s.used[num] = true
		ft := f.Type
		if ft.Kind() == reflect.Map {
			s.pairs = true
		}
		if ft.Kind() == reflect.Slice && ft != mrtNameT && ft != mrtWireT {
			ft = ft.Elem()
		}
		if ft.Kind() == reflect.Ptr && ft.Elem().Kind() == reflect.Struct {
			s.nested[num] = mrtSchemaOf(ft.Elem(), seen)
		}
	}
	return s
}

type mrtNode struct {
	typ             uint64
	start, val, end int
	kids            []*mrtNode
	schema          *mrtSchema // non-nil: a nested model
}

func mrtVarNum(b []byte, off, end int) (v uint64, n int, ok bool) {
	if off >= end {
		return 0, 0, false
	}
	switch {
	case b[off] < 253:
		return uint64(b[off]), 1, true
	case b[off] == 253:
		n = 3
	case b[off] == 254:
		n = 5
	default:
		n = 9
	}
	if off+n > end {
		return 0, 0, false
	}
	for _, x := range b[off+1 : off+n] {
		v = v<<8 | uint64(x)
	}
	return v, n, true
}

func mrtWalk(b []byte, off, end int, s *mrtSchema) ([]*mrtNode, string) {
	var out []*mrtNode
	for off < end {
		typ, n, ok := mrtVarNum(b, off, end)
		if !ok {
			return nil, fmt.Sprintf("element number at offset %d runs past the end (%d)", off, end)
		}
		l, m, ok := mrtVarNum(b, off+n, end)
		if !ok || l > uint64(end-off-n-m) {
			return nil, fmt.Sprintf("element %#x at offset %d: length %d does not fit the %d bytes left", typ, off, l, end-off-n-m)
		}
		nd := &mrtNode{typ: typ, start: off, val: off + n + m, end: off + n + m + int(l)}
		if sub := s.nested[typ]; sub != nil {
			kids, p := mrtWalk(b, nd.val, nd.end, sub)
			if p != "" {
				return nil, p
			}
			nd.kids, nd.schema = kids, sub
		}
		out = append(out, nd)
		off = nd.end
	}
	return out, ""
}

func mrtVarEnc(v uint64) []byte {
	switch {
	case v < 253:
		return []byte{byte(v)}
	case v <= 0xffff:
		return []byte{253, byte(v >> 8), byte(v)}
	default:
		return []byte{254, byte(v >> 24), byte(v >> 16), byte(v >> 8), byte(v)}
	}
}

// mrtRebuild serialises the element sequence kids with extra inserted before index at of the sequence owned by target
// (target == nil: the top-level sequence).
func mrtRebuild(b []byte, kids []*mrtNode, owner, target *mrtNode, at int, extra []byte) []byte {
	var out []byte
	for i, k := range kids {
		if owner == target && i == at {
			out = append(out, extra...)
		}
		if k.schema == nil || !mrtHas(k, target) {
			out = append(out, b[k.start:k.end]...)
			continue
		}
		val := mrtRebuild(b, k.kids, k, target, at, extra)
		out = append(out, mrtVarEnc(k.typ)...)
		out = append(out, mrtVarEnc(uint64(len(val)))...)
		out = append(out, val...)
	}
	if owner == target && at == len(kids) {
		out = append(out, extra...)
	}
	return out
}

func mrtHas(n, target *mrtNode) bool {
	if n == target {
		return true
	}
	for _, k := range n.kids {
		if k.schema != nil && mrtHas(k, target) {
			return true
		}
	}
	return false
}

type mrtPoint struct {
	owner  *mrtNode
	schema *mrtSchema
	at, n  int
}

func mrtPoints(kids []*mrtNode, owner *mrtNode, s *mrtSchema, out *[]mrtPoint) {
	for i := 0; i <= len(kids); i++ {
		if s.pairs && i != 0 && i != len(kids) {
			continue
		}
		*out = append(*out, mrtPoint{owner, s, i, len(kids)})
	}
	for _, k := range kids {
		if k.schema != nil {
			mrtPoints(k.kids, k, k.schema, out)
		}
	}
}

func mrtChunks(b []byte, size int) enc.Wire {
	var w enc.Wire
	for i := 0; i < len(b); i += size {
		w = append(w, b[i:min(len(b), i+size)])
	}
	if w == nil {
		w = enc.Wire{}
	}
	return w
}

// ---- harness ---------------------------------------------------------------------------------------------------------

type mrtState struct {
	failed map[string]bool
	cases  int
}

func (s *mrtState) fail(clause, format string, a ...interface{}) {
	if s.failed[clause] {
		return
	}
	s.failed[clause] = true
	msg := strings.ReplaceAll(fmt.Sprintf(format, a...), "\n", " ")
	if len(msg) > 700 {
		msg = msg[:700] + "..."
	}
	fmt.Printf("BOUNDED-FAIL bounded:model-roundtrip#%s %s\n", clause, msg)
}

func mrtDiff(want, got string) string {
	i := 0
	for i < len(want) && i < len(got) && want[i] == got[i] {
		i++
	}
	cut := func(s string) string { return s[max(0, i-50):min(len(s), i+30)] }
	return fmt.Sprintf("first difference at offset %d of the rendering: expected ...%s... got ...%s...", i, cut(want), cut(got))
}

func (s *mrtState) parse(m *mrtModel, r enc.ParseReader, ic bool) (v reflect.Value, err error) {
	defer func() {
		if x := recover(); x != nil {
			err = fmt.Errorf("PANIC: %v", x)
			s.fail("panic", "%s: Parse panics: %v", m.name, x)
		}
	}()
	return m.parse(r, ic)
}

func (s *mrtState) one(m *mrtModel, schema *mrtSchema, v reflect.Value, what string, lite bool) {
	s.cases++
	defer func() {
		if x := recover(); x != nil {
			s.fail("panic", "%s (%s): %v", m.name, what, x)
		}
	}()
	ptr := reflect.New(m.typ)
	ptr.Elem().Set(v)
	want := mrtKey(v)
	ctx := fmt.Sprintf("%s (%s) value %.300s", m.name, what, want)

	// [announced]
	w, announced, plan, hasPlan := m.encode(ptr)
	b := w.Join()
	sum := 0
	for _, seg := range w {
		sum += len(seg)
	}
	if sum != announced || len(b) != announced {
		s.fail("announced", "%s: the encoder announced %d bytes, the segments hold %d, joined %d", ctx, announced, sum, len(b))
	}
	if hasPlan && len(plan) == len(w) { // no-copy models: a planned length of 0 stands for a caller's buffer placed as it is
		for i, p := range plan {
			if p != 0 && len(w[i]) != p {
				s.fail("announced", "%s: segment %d has %d bytes, the wire plan %v says %d", ctx, i, len(w[i]), plan, p)
			}
		}
	}
	if viaBytes := ptr.MethodByName("Bytes").Call(nil)[0].Bytes(); string(viaBytes) != string(b) {
		// (the entries of a map field may come out in another order: then the two must still decode to the same value)
		got, err := s.parse(m, enc.NewBufferReader(viaBytes), false)
		if len(viaBytes) != len(b) || err != nil || mrtKey(got.Elem()) != want {
			s.fail("announced", "%s: Bytes() gives %d bytes, Encode() %d, with different contents (err=%v)", ctx, len(viaBytes), len(b), err)
		}
	}
	if want2 := mrtKey(ptr.Elem()); want2 != want {
		s.fail("roundtrip", "%s: encoding changed the value: %s", ctx, mrtDiff(want, want2))
	}
	tops, p := mrtWalk(b, 0, len(b), schema)
	if p != "" {
		s.fail("announced", "%s: the %d bytes are not a sequence of well-formed elements: %s", ctx, len(b), p)
		return
	}

	// [roundtrip]
	for _, size := range []int{0, 1, 3} {
		if size == 1 && len(b) > 4000 {
			size = 1000
		}
		var r enc.ParseReader = enc.NewBufferReader(b)
		if size > 0 {
			r = enc.NewWireReader(mrtChunks(b, size))
		}
		s.cases++
		got, err := s.parse(m, r, false)
		if err != nil {
			s.fail("roundtrip", "%s: Parse(Encode(v)) (segment size %d, 0 = contiguous) fails: %v", ctx, size, err)
		} else if k := mrtKey(got.Elem()); k != want {
			s.fail("roundtrip", "%s: Parse(Encode(v)) (segment size %d, 0 = contiguous) differs: %s", ctx, size, mrtDiff(want, k))
		}
	}

	// [unknown-*]
	if lite {
		return
	}
	var pts []mrtPoint
	mrtPoints(tops, nil, schema, &pts)
	for _, pt := range pts {
		low := uint64(0)
		for c := uint64(30); c >= 2; c -= 2 { // even, so that only the "<= 31" half of the rule makes it critical
			if !pt.schema.used[c] {
				low = c
				break
			}
		}
		extras := []struct {
			bytes    []byte
			critical bool
			what     string
		}{
			{[]byte{0xfd, 0xfe, 0x00, 0x02, 0xfd, 0x00}, false, "non-critical element 0xFE00"},
			{[]byte{0xfd, 0xfe, 0x01, 0x00}, true, "critical element 0xFE01 (odd)"},
			{[]byte{byte(low), 0x01, 0x00}, true, fmt.Sprintf("critical element %#x (<= 31)", low)},
		}
		for _, ex := range extras {
			nb := mrtRebuild(b, tops, nil, pt.owner, pt.at, ex.bytes)
			where := "top level"
			if pt.owner != nil {
				where = fmt.Sprintf("nested model in element %#x at offset %d", pt.owner.typ, pt.owner.start)
			}
			pos := fmt.Sprintf("%s before field %d of %d (%s)", ex.what, pt.at, pt.n, where)
			s.cases++
			got, err := s.parse(m, enc.NewBufferReader(nb), false)
			if !ex.critical {
				if err != nil {
					s.fail("unknown-noncritical", "%s: %s: decoding fails: %v", ctx, pos, err)
				} else if k := mrtKey(got.Elem()); k != want {
					s.fail("unknown-noncritical", "%s: %s: other fields change: %s", ctx, pos, mrtDiff(want, k))
				}
				if got, err = s.parse(m, enc.NewWireReader(mrtChunks(nb, 2)), false); err != nil || mrtKey(got.Elem()) != want {
					s.fail("unknown-noncritical", "%s: %s, 2-byte segments: err=%v or other fields change", ctx, pos, err)
				}
				continue
			}
			if err == nil {
				s.fail("unknown-critical", "%s: %s: accepted", ctx, pos)
			}
			got, err = s.parse(m, enc.NewBufferReader(nb), true)
			if err != nil {
				s.fail("unknown-critical-ignored", "%s: %s, ignoreCritical: decoding fails: %v", ctx, pos, err)
			} else if k := mrtKey(got.Elem()); k != want {
				s.fail("unknown-critical-ignored", "%s: %s, ignoreCritical: other fields change: %s", ctx, pos, mrtDiff(want, k))
			}
		}
	}
}

func TestBoundedModelRoundTrip(t *testing.T) {
	s := &mrtState{failed: map[string]bool{}}
	defer func() {
		if r := recover(); r != nil {
			s.fail("panic", "%v", r)
		}
		fmt.Printf("BOUNDED-CASES %d\n", s.cases)
	}()
	models := mrtModels()
	names := make([]string, 0, len(models))
	for _, m := range models {
		names = append(names, m.name)
	}
	sort.Strings(names)
	seen := map[reflect.Type]*mrtSchema{}
	for mi := range models {
		m := &models[mi]
		schema := mrtSchemaOf(m.typ, seen)
		salt := mi * 13
		s.one(m, schema, reflect.New(m.typ).Elem(), "zero value", false)
		for mode := 1; mode <= 2; mode++ {
			full := mrtFill(m.typ, mode, 0, &salt)
			s.one(m, schema, full, []string{"", "every field, small values", "every field, boundary values"}[mode], false)
			if mode == 1 {
				// every leaf of the value in turn (first element of each sequence) over the boundary values of its kind
				holder := reflect.New(m.typ).Elem()
				holder.Set(full)
				mrtLeaves(holder, "", func(path string, leaf reflect.Value) {
					old := reflect.New(leaf.Type()).Elem()
					old.Set(leaf)
					for _, bv := range mrtBoundary(leaf.Type()) {
						leaf.Set(bv)
						s.one(m, schema, holder, "every field, small values, but "+path+" at a boundary value", true)
					}
					leaf.Set(old)
				})
			}
			for i := 0; i < m.typ.NumField(); i++ {
				if f := m.typ.Field(i); f.IsExported() && f.Tag.Get("tlv") != "" && (mode == 1 || i%2 == 0) {
					hole := reflect.New(m.typ).Elem()
					hole.Set(full)
					hole.Field(i).Set(reflect.Zero(f.Type))
					s.one(m, schema, hole, "every field but "+f.Name, false)
				}
			}
		}
	}
}
