// Bounded stand-in for the history clauses of properties C07 ("The Content Store answers only
// with matching, fresh-enough Data, within capacity") and C08 ("Forwarder state is reclaimed:
// PIT, name trees ... drain at quiescence") on the PIT-CS name tree with the LRU policy.
// In-package test of fw/table, injected with `go test -overlay`. Not a proof: an exhaustive /
// systematic check of the REAL PitCsTree + CsLRU + expiry queue against a naive oracle over the
// finite bound stated at bphCsCore, bphTreeCore and bphExpiryCore below.
//
// Oracle (written from the statements of C07 and C08):
//
//	CS   = list of (name, bytes, fresh?) ordered by recency; capacity = the configured value
//	  insert new name : append as most recent; then, while |CS| > capacity, drop the least recent
//	                    ("Inserting a packet under a new name leaves at most the currently configured
//	                    capacity of packets cached (also when the capacity was lowered through management),
//	                    eviction removes the entry least recently inserted, refreshed or hit by an
//	                    exact-name lookup")
//	  insert old name : replace bytes/freshness, becomes most recent (refresh)
//	  exact lookup    : found iff the name is in CS and (not MustBeFresh or fresh); a found entry becomes
//	                    most recent ("a packet that is cached, unevicted and fresh is always found by an
//	                    exact-name lookup"); what is found has that name and the bytes last inserted
//	  prefix lookup   : whatever is returned must be in CS, its name must extend the Interest name, it must
//	                    be fresh if MustBeFresh, and carry the bytes last inserted ("returns only ...")
//	PIT  = set of live entries (name, CanBePrefix) with a deadline; an entry leaves the PIT when it is
//	       removed or when its deadline has passed at an Update ("Every PIT entry is removed ... promptly
//	       once it is satisfied"; "Once all lifetimes have elapsed the PIT is empty")
//	tree = the nodes needed are exactly the non-empty prefixes of the names of the PIT and CS entries it holds
//	       ("the PIT/CS name tree holds only nodes on the path to a live cache entry (no dead branches left
//	       by expiry or eviction)"); "the reported PIT and CS sizes equal the true number of entries"
//
// Freshness needs no clock control: a freshness period of 0 is stale at once, one of 1 h is fresh for
// the whole run. Deadlines likewise: lifetimes are whole hours, "satisfied" is SetExpirationTimerToNow.
//
// Clauses (BOUNDED-FAIL names): #capacity #lru-victim #cs-contents #exact-found #lookup-sound #cs-size
// #pit-size #pit-contents #dead-branch #expiry #panic.
package table

import (
	"bytes"
	"fmt"
	"runtime/debug"
	"sort"
	"strings"
	"testing"
	"time"

	"github.com/named-data/ndnd/fw/core"
	enc "github.com/named-data/ndnd/std/encoding"
	spec "github.com/named-data/ndnd/std/ndn/spec_2022"
)

// ---- names ----

type bphNameT struct {
	str  string
	name enc.Name
}

var bphNames []bphNameT

func bphName(s string) int {
	for i := range bphNames {
		if bphNames[i].str == s {
			return i
		}
	}
	n, err := enc.NameFromStr(s)
	if err != nil {
		panic(err)
	}
	bphNames = append(bphNames, bphNameT{s, n})
	return len(bphNames) - 1
}

func bphIsPrefix(p, n string) bool {
	if p == "/" {
		return true
	}
	return n == p || strings.HasPrefix(n, p+"/")
}

// ---- packets ----

func bphNNI(v uint64) []byte {
	switch {
	case v < 1<<8:
		return []byte{byte(v)}
	case v < 1<<16:
		return []byte{byte(v >> 8), byte(v)}
	case v < 1<<32:
		return []byte{byte(v >> 24), byte(v >> 16), byte(v >> 8), byte(v)}
	}
	out := make([]byte, 8)
	for i := 0; i < 8; i++ {
		out[i] = byte(v >> (56 - 8*i))
	}
	return out
}

// bphWire hand-encodes a Data packet (Name, MetaInfo{FreshnessPeriod}, Content{'v',version},
// SignatureInfo{type 0}, empty SignatureValue); all lengths stay below 253.
func bphWire(name enc.Name, freshMs uint64, version byte) []byte {
	var body []byte
	body = append(body, name.Bytes()...)
	fp := bphNNI(freshMs)
	body = append(body, 0x14, byte(2+len(fp)), 0x19, byte(len(fp)))
	body = append(body, fp...)
	body = append(body, 0x15, 2, 'v', version)
	body = append(body, 0x16, 3, 0x1b, 1, 0)
	body = append(body, 0x17, 0)
	return append([]byte{0x06, byte(len(body))}, body...)
}

func bphData(n int, fresh bool, version byte) (*spec.Data, []byte) {
	d := time.Duration(0)
	ms := uint64(0)
	if fresh {
		d = time.Hour
		ms = 3600000
	}
	return &spec.Data{NameV: bphNames[n].name, MetaInfo: &spec.MetaInfo{FreshnessPeriod: &d}},
		bphWire(bphNames[n].name, ms, version)
}

var bphNonce uint32

func bphInterest(n int, canBePrefix, mustBeFresh bool, lifetime time.Duration) *spec.Interest {
	bphNonce++
	nonce := bphNonce
	i := &spec.Interest{NameV: bphNames[n].name, CanBePrefixV: canBePrefix, MustBeFreshV: mustBeFresh, NonceV: &nonce}
	if lifetime > 0 {
		i.InterestLifetimeV = &lifetime
	}
	return i
}

// ---- operations ----

const (
	bphInsertData = iota // InsertData(name, fresh?)
	bphExact             // FindMatchingDataFromCS(name, CanBePrefix=false, MustBeFresh=flag)
	bphPrefix            // FindMatchingDataFromCS(name, CanBePrefix=true, MustBeFresh=flag)
	bphSetCap            // SetCsCapacity(n)
	bphInterestOp        // InsertInterest + InsertInRecord(lifetime 1h) + UpdateExpirationTimer, as the forwarder does
	bphRemove            // RemoveInterest(entry)
	bphSatisfy           // SetExpirationTimerToNow(entry) (if it exists) followed by Update()
)

type bphOp struct {
	kind int
	name int
	flag bool // fresh? / MustBeFresh? / CanBePrefix of the PIT entry
	n    int  // capacity
}

func (o bphOp) String() string {
	nm := ""
	if o.kind != bphSetCap {
		nm = bphNames[o.name].str
	}
	switch o.kind {
	case bphInsertData:
		if o.flag {
			return "data(" + nm + ",fresh=1h)"
		}
		return "data(" + nm + ",fresh=0)"
	case bphExact:
		return fmt.Sprintf("exact(%s,mustBeFresh=%v)", nm, o.flag)
	case bphPrefix:
		return fmt.Sprintf("prefix(%s,mustBeFresh=%v)", nm, o.flag)
	case bphSetCap:
		return fmt.Sprintf("setCapacity(%d)", o.n)
	case bphInterestOp:
		return fmt.Sprintf("interest(%s,canBePrefix=%v)", nm, o.flag)
	case bphRemove:
		return fmt.Sprintf("removeInterest(%s,canBePrefix=%v)", nm, o.flag)
	}
	return fmt.Sprintf("satisfy+update(%s,canBePrefix=%v)", nm, o.flag)
}

func bphSeqString(initCap int, seq []bphOp) string {
	parts := []string{fmt.Sprintf("capacity=%d", initCap)}
	for _, o := range seq {
		parts = append(parts, o.String())
	}
	return strings.Join(parts, ";")
}

// ---- failure reporting ----

var bphFailed = map[string]bool{}

func bphFail(clause string, format string, args ...any) {
	if bphFailed[clause] {
		return
	}
	bphFailed[clause] = true
	fmt.Printf("BOUNDED-FAIL bounded:pitcs-history#%s %s\n", clause, fmt.Sprintf(format, args...))
}

// ---- update-timer hygiene ----
// NewPitCS arms a 100 ms timer whose callback blocks on an unbuffered channel until the owner
// receives from UpdateTimer(). The harness never sleeps; it keeps the channels and, now and then,
// takes whatever signals are already waiting (non-blocking), so that the callbacks can finish.

var bphTimers []<-chan struct{}

func bphDrainTimers() {
	kept := bphTimers[:0]
	for _, ch := range bphTimers {
		select {
		case <-ch:
		default:
			kept = append(kept, ch)
		}
	}
	bphTimers = kept
}

// ---- the model + the real table, driven in lock-step ----

type bphCsModel struct {
	name    int
	wire    []byte
	fresh   bool
	version byte
}

type bphPitModel struct {
	name  int
	cbp   bool
	entry PitEntry
}

type bphWorld struct {
	initCap int
	seq     []bphOp
	desc    func() string

	p       *PitCsTree
	expired []PitEntry

	cap     int
	cs      []bphCsModel // least recent first
	pit     []bphPitModel
	version byte
}

func bphNewWorld(initCap int) *bphWorld {
	w := &bphWorld{initCap: initCap, cap: initCap}
	SetCsCapacity(initCap)
	w.p = NewPitCS(func(e PitEntry) { w.expired = append(w.expired, e) })
	bphTimers = append(bphTimers, w.p.UpdateTimer())
	if len(bphTimers) >= 4096 {
		bphDrainTimers()
	}
	return w
}

func (w *bphWorld) csIndex(n int) int {
	for i := range w.cs {
		if w.cs[i].name == n {
			return i
		}
	}
	return -1
}

func (w *bphWorld) pitIndex(n int, cbp bool) int {
	for i := range w.pit {
		if w.pit[i].name == n && w.pit[i].cbp == cbp {
			return i
		}
	}
	return -1
}

func (w *bphWorld) touch(i int) {
	e := w.cs[i]
	w.cs = append(append(w.cs[:i:i], w.cs[i+1:]...), e)
}

// checkReturned checks a lookup result against the model: soundness for any result, and, for exact
// lookups, that the expected entry is found. Returns the model index of the returned entry or -1.
func (w *bphWorld) checkReturned(what string, interestName int, canBePrefix, mustBeFresh bool, got CsEntry) int {
	if got == nil {
		return -1
	}
	data, wire, err := got.Copy()
	if err != nil || data == nil {
		bphFail("lookup-sound", "%s %s: returned entry does not parse: %v", w.desc(), what, err)
		return -1
	}
	idx := -1
	for i := range w.cs {
		if bphNames[w.cs[i].name].name.Equal(data.NameV) {
			idx = i
		}
	}
	iname := bphNames[interestName].str
	switch {
	case idx < 0:
		bphFail("lookup-sound", "%s %s: returned %s which is not (any longer) stored", w.desc(), what, data.NameV)
	case !canBePrefix && w.cs[idx].name != interestName:
		bphFail("lookup-sound", "%s %s: returned %s for an exact lookup", w.desc(), what, data.NameV)
	case canBePrefix && !bphIsPrefix(iname, bphNames[w.cs[idx].name].str):
		bphFail("lookup-sound", "%s %s: returned %s which does not extend the Interest name", w.desc(), what, data.NameV)
	case mustBeFresh && !w.cs[idx].fresh:
		bphFail("lookup-sound", "%s %s: returned stale %s for MustBeFresh", w.desc(), what, data.NameV)
	case !bytes.Equal(wire, w.cs[idx].wire):
		bphFail("lookup-sound", "%s %s: returned bytes of %s differ from those last inserted (version %d)", w.desc(), what, data.NameV, w.cs[idx].version)
	}
	return idx
}

func (w *bphWorld) exact(n int, mustBeFresh bool, what string) {
	got := w.p.FindMatchingDataFromCS(bphInterest(n, false, mustBeFresh, 0))
	i := w.csIndex(n)
	expectHit := i >= 0 && (!mustBeFresh || w.cs[i].fresh)
	if got != nil {
		// soundness: stored, same name, fresh if required, bytes as last inserted
		w.checkReturned(what, n, false, mustBeFresh, got)
	}
	if expectHit && got == nil {
		bphFail("exact-found", "%s %s: %s is cached, unevicted and fresh enough but was not found", w.desc(), what, bphNames[n].str)
	}
	if expectHit {
		w.touch(i) // a hit by an exact-name lookup makes the entry the most recently used
	}
}

func (w *bphWorld) apply(op bphOp) {
	switch op.kind {
	case bphInsertData:
		w.version++
		data, wire := bphData(op.name, op.flag, w.version)
		w.p.InsertData(data, wire)
		if i := w.csIndex(op.name); i >= 0 {
			w.cs[i].wire, w.cs[i].fresh, w.cs[i].version = wire, op.flag, w.version
			w.touch(i)
		} else {
			w.cs = append(w.cs, bphCsModel{op.name, wire, op.flag, w.version})
			for len(w.cs) > w.cap && len(w.cs) > 0 {
				w.cs = w.cs[1:]
			}
			// capacity clause, directly on the reported size
			if got := w.p.CsSize(); got > w.cap {
				bphFail("capacity", "%s: %d packets cached after inserting a new name with capacity %d", w.desc(), got, w.cap)
			}
		}
	case bphExact:
		w.exact(op.name, op.flag, "step")
	case bphPrefix:
		got := w.p.FindMatchingDataFromCS(bphInterest(op.name, true, op.flag, 0))
		w.checkReturned("step", op.name, true, op.flag, got)
	case bphSetCap:
		SetCsCapacity(op.n)
		w.cap = op.n
	case bphInterestOp:
		interest := bphInterest(op.name, op.flag, false, time.Hour)
		e, _ := w.p.InsertInterest(interest, nil, 1)
		e.InsertInRecord(interest, 1, nil)
		UpdateExpirationTimer(e)
		if i := w.pitIndex(op.name, op.flag); i >= 0 {
			if w.pit[i].entry != e {
				bphFail("pit-contents", "%s: a second PIT entry was created for the same (name, CanBePrefix, MustBeFresh)", w.desc())
				w.pit[i].entry = e
			}
		} else {
			w.pit = append(w.pit, bphPitModel{op.name, op.flag, e})
		}
	case bphRemove:
		if i := w.pitIndex(op.name, op.flag); i >= 0 {
			if !w.p.RemoveInterest(w.pit[i].entry) {
				bphFail("pit-contents", "%s: RemoveInterest of a live entry returned false", w.desc())
			}
			w.pit = append(w.pit[:i], w.pit[i+1:]...)
		}
	case bphSatisfy:
		w.expired = nil
		var want []PitEntry
		if i := w.pitIndex(op.name, op.flag); i >= 0 {
			SetExpirationTimerToNow(w.pit[i].entry)
			want = []PitEntry{w.pit[i].entry}
			w.pit = append(w.pit[:i], w.pit[i+1:]...)
		}
		w.p.Update()
		w.checkExpired(want)
	}
}

func (w *bphWorld) checkExpired(want []PitEntry) {
	ok := len(want) == len(w.expired)
	for _, e := range want {
		n := 0
		for _, g := range w.expired {
			if g == e {
				n++
			}
		}
		if n != 1 {
			ok = false
		}
	}
	if !ok {
		name := func(es []PitEntry) string {
			var s []string
			for _, e := range es {
				s = append(s, e.EncName().String())
			}
			return "[" + strings.Join(s, ",") + "]"
		}
		bphFail("expiry", "%s: Update() expired %s, but exactly the entries whose deadline has passed are %s", w.desc(), name(w.expired), name(want))
	}
}

// ---- white-box walk of the name tree ----

type bphShape struct {
	nodes int
	cs    []string
	pit   []string
}

func bphWalk(n *pitCsTreeNode, path string, sh *bphShape) {
	if n.csEntry != nil {
		sh.cs = append(sh.cs, path)
	}
	for _, e := range n.pitEntries {
		sh.pit = append(sh.pit, fmt.Sprintf("%s cbp=%v", path, e.CanBePrefix()))
	}
	for _, c := range n.children {
		sh.nodes++
		cp := path
		if cp == "/" {
			cp = ""
		}
		bphWalk(c, cp+"/"+c.component.String(), sh)
	}
}

// checkState: the non-perturbing checks made after every operation.
func (w *bphWorld) checkState(lastWasNewInsert bool) {
	var sh bphShape
	bphWalk(w.p.root, "/", &sh)
	sort.Strings(sh.cs)
	sort.Strings(sh.pit)

	var expCs, expPit []string
	for _, c := range w.cs {
		expCs = append(expCs, bphNames[c.name].str)
	}
	for _, e := range w.pit {
		expPit = append(expPit, fmt.Sprintf("%s cbp=%v", bphNames[e.name].str, e.cbp))
	}
	sort.Strings(expCs)
	sort.Strings(expPit)

	gotCs, wantCs := strings.Join(sh.cs, " "), strings.Join(expCs, " ")
	if lastWasNewInsert && len(sh.cs) > w.cap {
		bphFail("capacity", "%s: %d packets [%s] in the tree after inserting a new name with capacity %d", w.desc(), len(sh.cs), gotCs, w.cap)
	}
	if gotCs != wantCs {
		clause := "cs-contents"
		if len(sh.cs) == len(expCs) {
			clause = "lru-victim"
		}
		bphFail(clause, "%s: packets cached in the tree [%s], expected [%s] (least recently used evicted first)", w.desc(), gotCs, wantCs)
	}
	if got := w.p.CsSize(); got != len(w.cs) || got != len(sh.cs) {
		bphFail("cs-size", "%s: CsSize()=%d, packets in the tree=%d, true count=%d", w.desc(), got, len(sh.cs), len(w.cs))
	}
	if got := w.p.PitSize(); got != len(w.pit) || got != len(sh.pit) {
		bphFail("pit-size", "%s: PitSize()=%d, PIT entries in the tree=%d, true count=%d", w.desc(), got, len(sh.pit), len(w.pit))
	}
	if g, e := strings.Join(sh.pit, ", "), strings.Join(expPit, ", "); g != e {
		bphFail("pit-contents", "%s: PIT entries in the tree [%s], expected [%s]", w.desc(), g, e)
	}
	// dead branches: judged on the tree itself - every node must lie on the path to a node that holds
	// a CS entry or a PIT entry (names found by the walk, not the oracle's, so that a wrong eviction
	// victim is not reported a second time here)
	inTree := map[string]bool{}
	for _, s := range sh.cs {
		inTree[s] = true
	}
	for _, s := range sh.pit {
		inTree[s[:strings.Index(s, " ")]] = true
	}
	neededInTree := map[string]bool{}
	for s := range inTree {
		for s != "/" && s != "" {
			neededInTree[s] = true
			s = s[:strings.LastIndex(s, "/")]
		}
	}
	if sh.nodes != len(neededInTree) {
		bphFail("dead-branch", "%s: %d tree nodes below the root, but the CS entries [%s] and PIT entries [%s] in the tree need only %d", w.desc(), sh.nodes, gotCs, strings.Join(sh.pit, ", "), len(neededInTree))
	}
}

// finalSweep: an exact-name lookup of every name of the universe (perturbs the LRU order, so it is
// done once, after the last operation of a history).
func (w *bphWorld) finalSweep(names []int) {
	for _, n := range names {
		w.exact(n, false, "final exact lookup of "+bphNames[n].str)
	}
	for _, n := range names {
		w.exact(n, true, "final MustBeFresh lookup of "+bphNames[n].str)
	}
}

// bphHistory replays seq on a fresh table; the state is checked after the LAST operation (every
// prefix of an enumerated sequence is itself enumerated).
func bphHistory(initCap int, names []int, seq []bphOp) {
	w := bphNewWorld(initCap)
	w.seq = seq
	w.desc = func() string { return "ops=" + bphSeqString(initCap, seq) }
	defer func() {
		if r := recover(); r != nil {
			bphFail("panic", "%s panic: %v", w.desc(), r)
		}
	}()
	newInsert := false
	for _, op := range seq {
		newInsert = op.kind == bphInsertData && w.csIndex(op.name) < 0
		w.apply(op)
	}
	w.checkState(newInsert)
	w.finalSweep(names)
}

func bphEnumerate(initCap int, names []int, ops []bphOp, seq []bphOp, length int, cases *int) {
	for _, op := range ops {
		seq = append(seq, op)
		if len(seq) < length {
			bphEnumerate(initCap, names, ops, seq, length, cases)
		} else {
			bphHistory(initCap, names, seq)
			*cases++
		}
		seq = seq[:len(seq)-1]
	}
}

// ---- core 1: Content Store histories --------------------------------------------------------
// names /a, /a/b/c (below a filler node), /d; EXHAUSTIVE: all sequences of length 1..4 over
//
//	data(n, fresh=1h) for the 3 names, data(/a, fresh=0),
//	exact(n, MustBeFresh=false) for the 3 names, exact(/a, MustBeFresh=true),
//	prefix(/a, MustBeFresh=false), prefix(/, MustBeFresh=true),
//	setCapacity(0), setCapacity(1), setCapacity(2)                           (13 operations)
//
// for each initial capacity 1 and 2.
func bphCsCore() int {
	a, abc, d, root := bphName("/a"), bphName("/a/b/c"), bphName("/d"), bphName("/")
	names := []int{a, abc, d}
	var ops []bphOp
	for _, n := range names {
		ops = append(ops, bphOp{kind: bphInsertData, name: n, flag: true})
	}
	ops = append(ops, bphOp{kind: bphInsertData, name: a, flag: false})
	for _, n := range names {
		ops = append(ops, bphOp{kind: bphExact, name: n})
	}
	ops = append(ops, bphOp{kind: bphExact, name: a, flag: true},
		bphOp{kind: bphPrefix, name: a}, bphOp{kind: bphPrefix, name: root, flag: true},
		bphOp{kind: bphSetCap, n: 0}, bphOp{kind: bphSetCap, n: 1}, bphOp{kind: bphSetCap, n: 2})
	cases := 0
	for _, initCap := range []int{1, 2} {
		for l := 1; l <= 4; l++ {
			bphEnumerate(initCap, names, ops, nil, l, &cases)
		}
	}
	return cases
}

// ---- core 2: PIT and CS entries sharing the tree ----------------------------------------------
// names /a, /a/b, /a/c; capacity 1 (every second new packet evicts); EXHAUSTIVE: all sequences of
// length 1..4 over
//
//	interest(n, CanBePrefix=false) for the 3 names, interest(/a/b, CanBePrefix=true) (a second entry on one node),
//	removeInterest(...) and satisfy+update(...) for the same 4 entries, data(n, fresh=1h) for the 3 names
//	                                                                           (15 operations)
func bphTreeCore() int {
	a, ab, ac := bphName("/a"), bphName("/a/b"), bphName("/a/c")
	names := []int{a, ab, ac}
	var ops []bphOp
	for _, k := range []int{bphInterestOp, bphRemove, bphSatisfy} {
		for _, n := range names {
			ops = append(ops, bphOp{kind: k, name: n})
		}
		ops = append(ops, bphOp{kind: k, name: ab, flag: true})
	}
	for _, n := range names {
		ops = append(ops, bphOp{kind: bphInsertData, name: n, flag: true})
	}
	cases := 0
	for l := 1; l <= 4; l++ {
		bphEnumerate(1, names, ops, nil, l, &cases)
	}
	return cases
}

// ---- core 3: the expiry queue -------------------------------------------------------------------
// SYSTEMATIC (not all sequences): for n = 1..5 PIT entries on /a, /a/b, /a/b/c, /d, /d/e created in
// that order, every assignment of the lifetimes 1h..nh to them (n! permutations) and every order of
// satisfying them (n!): each step is SetExpirationTimerToNow(entry) + Update(), after which exactly that
// entry must have expired and left the PIT and the tree. For n <= 4 additionally: one entry is re-armed
// with a lifetime of 9h (a retransmission) before the satisfaction order is played.
func bphPermutations(n int) [][]int {
	if n == 0 {
		return [][]int{{}}
	}
	var out [][]int
	for _, p := range bphPermutations(n - 1) {
		for pos := 0; pos <= len(p); pos++ {
			q := make([]int, 0, n)
			q = append(q, p[:pos]...)
			q = append(q, n-1)
			q = append(q, p[pos:]...)
			out = append(out, q)
		}
	}
	return out
}

func bphExpiryCore() int {
	nameStrs := []string{"/a", "/a/b", "/a/b/c", "/d", "/d/e"}
	cases := 0
	run := func(n int, lifetimes []int, order []int, rearm int) {
		w := bphNewWorld(1)
		w.desc = func() string {
			re := "none"
			if rearm >= 0 {
				re = nameStrs[rearm]
			}
			hours := make([]int, n)
			for i := range hours {
				hours[i] = lifetimes[i] + 1
			}
			return fmt.Sprintf("ops=interests on %v with lifetimes %vh; re-armed with 9h: %s; satisfied in order %v (indices)", nameStrs[:n], hours, re, order)
		}
		defer func() {
			if r := recover(); r != nil {
				bphFail("panic", "%s panic: %v", w.desc(), r)
			}
		}()
		for i := 0; i < n; i++ {
			interest := bphInterest(bphName(nameStrs[i]), false, false, time.Duration(lifetimes[i]+1)*time.Hour)
			e, _ := w.p.InsertInterest(interest, nil, 1)
			e.InsertInRecord(interest, 1, nil)
			UpdateExpirationTimer(e)
			w.pit = append(w.pit, bphPitModel{bphName(nameStrs[i]), false, e})
		}
		if rearm >= 0 {
			interest := bphInterest(w.pit[rearm].name, false, false, 9*time.Hour)
			e, _ := w.p.InsertInterest(interest, nil, 1)
			e.InsertInRecord(interest, 1, nil)
			UpdateExpirationTimer(e)
		}
		// nothing has expired yet
		w.expired = nil
		w.p.Update()
		w.checkExpired(nil)
		w.checkState(false)
		entries := append([]bphPitModel{}, w.pit...)
		for _, k := range order {
			w.apply(bphOp{kind: bphSatisfy, name: entries[k].name})
			w.checkState(false)
		}
		if w.p.PitSize() != 0 {
			bphFail("pit-size", "%s: PitSize()=%d after every entry has expired", w.desc(), w.p.PitSize())
		}
	}
	for n := 1; n <= 5; n++ {
		perms := bphPermutations(n)
		for _, lifetimes := range perms {
			for _, order := range perms {
				run(n, lifetimes, order, -1)
				cases++
				if n <= 4 {
					for r := 0; r < n; r++ {
						run(n, lifetimes, order, r)
						cases++
					}
				}
			}
		}
	}
	return cases
}

// bphSetup configures the package for the harness and returns the function that restores it.
func bphSetup(t *testing.T) func() {
	restoreGC := debug.SetGCPercent(1000)
	savedPolicy, savedCap, savedQuit := csReplacementPolicy, CsCapacity(), core.ShouldQuit
	csReplacementPolicy = "lru"
	core.ShouldQuit = true // Update() must not re-arm its timer: the harness calls it itself

	// self-check of the hand-encoded packets
	for _, s := range []string{"/a", "/a/b/c"} {
		_, wire := bphData(bphName(s), true, 7)
		pkt, _, err := spec.ReadPacket(enc.NewBufferReader(wire))
		if err != nil || pkt.Data == nil || !pkt.Data.NameV.Equal(bphNames[bphName(s)].name) {
			t.Fatalf("harness broken: hand-encoded Data for %s does not parse: %v", s, err)
		}
	}
	return func() {
		csReplacementPolicy = savedPolicy
		SetCsCapacity(savedCap)
		core.ShouldQuit = savedQuit
		bphDrainTimers()
		debug.SetGCPercent(restoreGC)
	}
}

// TestBoundedPitCsHistoryCS: core 1 (Content Store histories) - the stand-in registered for C07.
func TestBoundedPitCsHistoryCS(t *testing.T) {
	defer bphSetup(t)()
	c1 := bphCsCore()
	t.Logf("pitcs-history: cs core %d histories", c1)
	fmt.Printf("BOUNDED-CASES %d\n", c1)
}

// TestBoundedPitCsHistoryPIT: cores 2 and 3 (PIT and CS entries sharing the tree; the expiry
// queue) - the stand-in registered for C08.
func TestBoundedPitCsHistoryPIT(t *testing.T) {
	defer bphSetup(t)()
	c2 := bphTreeCore()
	c3 := bphExpiryCore()
	t.Logf("pitcs-history: tree core %d, expiry core %d histories", c2, c3)
	fmt.Printf("BOUNDED-CASES %d\n", c2+c3)
}
