package basic

// Bounded stand-in for C20: whole histories of the application-side engine (Express / onData / onNack / timer / onInterest).
//
// Property C20: "Every Interest an application expresses resolves by invoking its callback exactly once - with a Data packet that
// actually satisfies it (same name, or longer only if CanBePrefix was set, and with the matching implicit digest if one was
// requested), with a Nack for that name, or with a timeout no earlier than its lifetime - under every interleaving of packet
// arrivals and timer expirations, and each arriving Data resolves all pending Interests it satisfies. An incoming Interest is
// handed to the handler attached at the longest matching prefix, and a reply is transmitted only before that Interest's deadline."
//
// The REAL engine runs over the repository's dummy face and dummy timer (std/engine/dummy); everything is single-threaded, so an
// "interleaving" is the order in which the test feeds packets and advances the clock.
//
// ORACLE (a naive model written from the statement; it knows nothing about tries, lists or timers):
//   state: for each expressed Interest i: name, CanBePrefix, requested digest, lifetime, time of Express, pending yes/no.
//   satisfies(i, D)  :=  (name(i) == name(D)  ||  (CanBePrefix(i) && name(i) is a proper prefix of name(D)))
//                        && (i requested no digest || digest(i) == SHA-256 of the wire of D)
//   event Data D     :  exactly the pending i with satisfies(i, D) get ONE callback (result Data, that Data's name and wire) and stop
//                       being pending; nobody else gets a callback.
//                         missing callback                       -> #data-resolves-all   ("each arriving Data resolves all pending ...")
//                         callback for a pending, unsatisfied i  -> #data-satisfies      ("a Data packet that actually satisfies it")
//   event Nack for n :  a callback (result Nack) is legitimate only for a pending i with name(i) == n ("a Nack for that name"),
//                       full name compared, i.e. including a digest component     -> #nack-for-that-name
//                       (#nack-for-that-name-digest when the only difference is the Interest's implicit-digest component)
//   event clock += d :  a callback (result timeout) is legitimate only for a pending i with now - expressed(i) >= lifetime(i)
//                                                                                 -> #timeout-not-before-lifetime
//   any callback for an Interest that is no longer pending                        -> #exactly-once
//   end of history (clock advanced far beyond every lifetime): every Interest has had exactly one callback
//                                                                                 -> #every-interest-resolves / #exactly-once
//   incoming Interest: of the attached prefixes that are prefixes of its name, the handler of the longest one is invoked once and
//                       no other handler is                                       -> #handler-longest-prefix
//   Reply called at time t for an Interest that arrived at time a with lifetime L: deadline reported == a + L; t > a + L => nothing
//                       is put on the face and an error is returned              -> #reply-only-before-deadline
//                       (t < a + L => the Data is put on the face: sanity clause  #reply-in-time-is-sent)
//
// KNOWN OPEN FINDING kept apart: NameTrie.Delete prunes a value-holding parent (required by the repository's own TestBasicMatch).
//   #nack-prunes-parent    a Data does not resolve a pending Interest i after a Nack arrived for a name below name(i) on or below
//                          which an Interest was pending (the Nack deletes that PIT node and prunes i's node with it)
//   #detach-prunes-parent  same root cause through DetachHandler: after detaching a handler below prefix q, q's handler is lost
//   Misses that fit these patterns are reported under these two names ONLY; all other clauses are independent of them.

import (
	"bytes"
	"crypto/sha256"
	"fmt"
	"runtime/debug"
	"sort"
	"testing"
	"time"

	enc "github.com/named-data/ndnd/std/encoding"
	"github.com/named-data/ndnd/std/engine/dummy"
	"github.com/named-data/ndnd/std/log"
	"github.com/named-data/ndnd/std/ndn"
	spec "github.com/named-data/ndnd/std/ndn/spec_2022"
)

// --------------------------------------------------------------------------------------------------------------------------
// fixtures
// --------------------------------------------------------------------------------------------------------------------------

type ehSigner struct{} // DigestSha256 signer (std/security imports this package, so it cannot be used here)

func (ehSigner) SigInfo() (*ndn.SigConfig, error) {
	return &ndn.SigConfig{Type: ndn.SignatureDigestSha256}, nil
}
func (ehSigner) EstimateSize() uint { return 32 }
func (ehSigner) ComputeSigValue(w enc.Wire) ([]byte, error) {
	h := sha256.New()
	for _, b := range w {
		h.Write(b)
	}
	return h.Sum(nil), nil
}

func ehName(s string) enc.Name {
	n, err := enc.NameFromStr(s)
	if err != nil {
		panic(err)
	}
	return n
}

// Interest names 0..2, Data names 0..3
var ehNameStr = []string{"/a", "/a/b", "/a/b/c", "/a/b/c/d"}

const (
	ehDigNone  = 0
	ehDigMatch = 1 // the digest of the Data packet of the universe that carries the same name
	ehDigWrong = 2 // 32 bytes 0xFF
)

type ehIType struct {
	name   int
	cbp    bool
	digest int
	life   time.Duration
}

func (t ehIType) String() string {
	s := ehNameStr[t.name]
	switch t.digest {
	case ehDigMatch:
		s += "/sha256digest=<of Data " + ehNameStr[t.name] + ">"
	case ehDigWrong:
		s += "/sha256digest=<ff..ff>"
	}
	if t.cbp {
		s += " CanBePrefix"
	}
	return fmt.Sprintf("%s lifetime=%v", s, t.life)
}

type ehFixture struct {
	names     []enc.Name
	dataWire  [][]byte   // Data packet per Data name
	dataDig   [][]byte   // SHA-256 of the whole Data packet
	nackWire  [][]byte   // Nack packet for the plain Interest names 0..2, [3] = Nack for /a/b/sha256digest=<of Data /a/b>
	nackName  []enc.Name // the name the Nack is for
	interests map[ehIType]*ndn.EncodedInterest
}

func ehLpNack(interestWire enc.Wire) []byte {
	pkt := &spec.Packet{LpPacket: &spec.LpPacket{
		Nack:     &spec.NetworkNack{Reason: spec.NackReasonNoRoute},
		Fragment: interestWire,
	}}
	e := spec.PacketEncoder{}
	e.Init(pkt)
	w := e.Encode(pkt)
	if w == nil {
		panic("eh: cannot encode Nack")
	}
	return w.Join()
}

func ehFullName(fx *ehFixture, t ehIType) enc.Name {
	n := fx.names[t.name].Clone()
	switch t.digest {
	case ehDigMatch:
		n = append(n, enc.NewBytesComponent(enc.TypeImplicitSha256DigestComponent, fx.dataDig[t.name]))
	case ehDigWrong:
		n = append(n, enc.NewBytesComponent(enc.TypeImplicitSha256DigestComponent, bytes.Repeat([]byte{0xff}, 32)))
	}
	return n
}

func ehNewFixture() *ehFixture {
	fx := &ehFixture{interests: map[ehIType]*ndn.EncodedInterest{}}
	sp := spec.Spec{}
	for i, s := range ehNameStr {
		n := ehName(s)
		fx.names = append(fx.names, n)
		d, err := sp.MakeData(n, &ndn.DataConfig{}, enc.Wire{[]byte(fmt.Sprintf("content-%d", i))}, ehSigner{})
		if err != nil {
			panic(err)
		}
		w := d.Wire.Join()
		fx.dataWire = append(fx.dataWire, w)
		sum := sha256.Sum256(w)
		fx.dataDig = append(fx.dataDig, sum[:])
	}
	for _, life := range []time.Duration{10 * time.Millisecond, 20 * time.Millisecond, 30 * time.Millisecond} {
		for name := 0; name < 3; name++ {
			for _, cbp := range []bool{false, true} {
				for dg := 0; dg < 3; dg++ {
					t := ehIType{name, cbp, dg, life}
					l := life
					it, err := sp.MakeInterest(ehFullName(fx, t), &ndn.InterestConfig{CanBePrefix: cbp, Lifetime: &l}, nil, nil)
					if err != nil {
						panic(err)
					}
					fx.interests[t] = it
				}
			}
		}
	}
	for name := 0; name < 3; name++ {
		fx.nackWire = append(fx.nackWire, ehLpNack(fx.interests[ehIType{name, false, ehDigNone, 10 * time.Millisecond}].Wire))
		fx.nackName = append(fx.nackName, fx.names[name])
	}
	dt := ehIType{1, false, ehDigMatch, 10 * time.Millisecond}
	fx.nackWire = append(fx.nackWire, ehLpNack(fx.interests[dt].Wire))
	fx.nackName = append(fx.nackName, ehFullName(fx, dt))
	return fx
}

// --------------------------------------------------------------------------------------------------------------------------
// histories
// --------------------------------------------------------------------------------------------------------------------------

const (
	ehEvData    = 0 // arg: Data name index 0..3
	ehEvNack    = 1 // arg: nack index 0..3
	ehEvAdvance = 2 // arg: milliseconds
	ehEvExpress = 3 // arg: index into the history's Interest list (late Express)
)

type ehEvent struct{ kind, arg int }

func (e ehEvent) String() string {
	switch e.kind {
	case ehEvData:
		return "Data(" + ehNameStr[e.arg] + ")"
	case ehEvNack:
		if e.arg == 3 {
			return "Nack(/a/b/sha256digest=<of Data /a/b>)"
		}
		return "Nack(" + ehNameStr[e.arg] + ")"
	case ehEvAdvance:
		return fmt.Sprintf("clock+=%dms", e.arg)
	}
	return fmt.Sprintf("Express(#%d)", e.arg)
}

type ehCall struct {
	result  ndn.InterestResult
	dataIdx int // index of the Data name delivered, -1 if none/unknown
	rawOK   bool
	reason  uint64
}

type ehChecker struct {
	fx     *ehFixture
	failed map[string]bool
	cases  int
}

func (c *ehChecker) fail(clause, format string, a ...interface{}) {
	if c.failed[clause] {
		return
	}
	c.failed[clause] = true
	fmt.Printf("BOUNDED-FAIL bounded:engine-history#%s %s\n", clause, fmt.Sprintf(format, a...))
}

func ehIsPrefix(a, b enc.Name) bool { // a is a prefix of (or equal to) b; own implementation, component-wise on the encoded bytes
	if len(a) > len(b) {
		return false
	}
	for i := range a {
		if a[i].Typ != b[i].Typ || !bytes.Equal(a[i].Val, b[i].Val) {
			return false
		}
	}
	return true
}

func ehNewEngine() (*Engine, *dummy.DummyFace, *dummy.Timer) {
	face := dummy.NewDummyFace()
	timer := dummy.NewTimer()
	eng := NewEngine(face, timer, ehSigner{}, func(enc.Name, enc.Wire, ndn.Signature) bool { return true })
	if eng == nil || eng.Start() != nil {
		panic("eh: cannot start the engine")
	}
	return eng, face, timer
}

// run one history: the Interests `its` (those not named by an Express event are expressed up front, in order), then the events,
// then a final clock advance far beyond every lifetime. Returns after checking every step against the oracle.
func (c *ehChecker) history(its []ehIType, events []ehEvent) {
	c.cases++
	defer func() {
		if p := recover(); p != nil {
			c.fail("panic", "Interests %v history %v: %v", its, events, p)
		}
	}()
	fx := c.fx
	eng, face, timer := ehNewEngine()
	n := len(its)
	calls := make([][]ehCall, n)
	seen := make([]int, n) // number of calls already accounted for
	// oracle state
	expressed := make([]bool, n)
	pending := make([]bool, n)
	t0 := make([]time.Duration, n)
	tainted := make([]bool, n) // known finding: a Nack arrived for a name below this Interest's name (see header)
	now := time.Duration(0)

	describe := func(upto int) string {
		s := "Interests ["
		for i, t := range its {
			if i > 0 {
				s += "; "
			}
			s += fmt.Sprintf("#%d %s", i, t)
		}
		s += "] history ["
		late := map[int]bool{}
		for _, e := range events {
			if e.kind == ehEvExpress {
				late[e.arg] = true
			}
		}
		first := true
		for i := range its {
			if !late[i] {
				if !first {
					s += ", "
				}
				first = false
				s += fmt.Sprintf("Express(#%d)", i)
			}
		}
		for k, e := range events {
			if k > upto {
				break
			}
			s += ", " + e.String()
		}
		if upto >= len(events) {
			s += ", clock+=10s (end)"
		}
		return s + "]"
	}

	express := func(i int) {
		i2 := i
		err := eng.Express(fx.interests[its[i]], func(a ndn.ExpressCallbackArgs) {
			cl := ehCall{result: a.Result, dataIdx: -1, reason: a.NackReason}
			if a.Result == ndn.InterestResultData && a.Data != nil {
				for d, dn := range fx.names {
					if a.Data.Name().Equal(dn) {
						cl.dataIdx = d
						cl.rawOK = bytes.Equal(a.RawData.Join(), fx.dataWire[d])
					}
				}
			}
			calls[i2] = append(calls[i2], cl)
		})
		if err != nil {
			panic(fmt.Sprintf("eh: Express failed: %v", err))
		}
		face.Consume()
		expressed[i], pending[i], t0[i] = true, true, now
	}

	lateSet := map[int]bool{}
	for _, e := range events {
		if e.kind == ehEvExpress {
			lateSet[e.arg] = true
		}
	}
	for i := range its {
		if !lateSet[i] {
			express(i)
		}
	}

	satisfies := func(i, d int) bool {
		t := its[i]
		nameOK := t.name == d || (t.cbp && t.name < d) // the universe is the chain /a < /a/b < /a/b/c < /a/b/c/d
		if !nameOK {
			return false
		}
		switch t.digest {
		case ehDigMatch:
			return t.name == d // the requested digest is that of the Data packet named like the Interest
		case ehDigWrong:
			return false
		}
		return true
	}

	// account for the callbacks made during step k; want[i]: 0 = no callback expected, 1 = required, 2 = permitted
	settle := func(k int, ev *ehEvent, want []int, wantResult ndn.InterestResult, wantData int) {
		for i := 0; i < n; i++ {
			newCalls := calls[i][seen[i]:]
			seen[i] = len(calls[i])
			if len(newCalls) == 0 {
				if want[i] == 1 {
					if tainted[i] {
						c.fail("nack-prunes-parent", "%s: %s does not resolve pending Interest #%d although it satisfies it (an earlier Nack for a longer name pruned its PIT node)",
							describe(k), ev, i)
					} else {
						c.fail("data-resolves-all", "%s: %s satisfies pending Interest #%d but its callback was not invoked", describe(k), ev, i)
					}
					// the model follows the engine from here on (the Interest stays pending for the engine)
				}
				continue
			}
			if !pending[i] {
				c.fail("exactly-once", "%s: callback of Interest #%d invoked again (result %d) at step %d although it had already been resolved",
					describe(k), i, newCalls[0].result, k)
				continue
			}
			if len(newCalls) > 1 {
				c.fail("exactly-once", "%s: callback of Interest #%d invoked %d times in one step", describe(k), i, len(newCalls))
			}
			cl := newCalls[0]
			pending[i] = false
			if want[i] == 0 || cl.result != wantResult {
				switch {
				case cl.result == ndn.InterestResultData:
					c.fail("data-satisfies", "%s: Interest #%d got a Data callback (Data %s) at step %d (%v), which does not satisfy it", describe(k), i, ehDataName(cl.dataIdx), k, ev)
				case cl.result == ndn.InterestResultNack:
					clause := "nack-for-that-name"
					if ev.kind == ehEvNack && its[i].digest != ehDigNone && fx.names[its[i].name].Equal(fx.nackName[ev.arg]) {
						// the Nack is for the Interest's name WITHOUT its implicit-digest component: a different name, reported apart
						clause = "nack-for-that-name-digest"
					}
					c.fail(clause, "%s: Interest #%d (%s) got a Nack callback at step %d (%v), which is not a Nack for its name", describe(k), i, its[i], k, ev)
				case cl.result == ndn.InterestResultTimeout:
					c.fail("timeout-not-before-lifetime", "%s: Interest #%d (%s, expressed at %v) got a timeout at clock %v (step %d, %v)", describe(k), i, its[i], t0[i], now, k, ev)
				default:
					c.fail("exactly-once", "%s: Interest #%d got result %d at step %d, which is none of Data/Nack/timeout", describe(k), i, cl.result, k)
				}
				continue
			}
			if wantResult == ndn.InterestResultData && (cl.dataIdx != wantData || !cl.rawOK) {
				c.fail("data-satisfies", "%s: Interest #%d resolved at step %d with Data %s (wire identical=%v), the Data that arrived was %s",
					describe(k), i, k, ehDataName(cl.dataIdx), cl.rawOK, ehNameStr[wantData])
			}
		}
	}

	want := make([]int, n)
	for k := range events {
		ev := &events[k]
		for i := range want {
			want[i] = 0
		}
		switch ev.kind {
		case ehEvExpress:
			express(ev.arg)
			settle(k, ev, want, ndn.InterestResultTimeout, -1) // no callback is legitimate during Express
		case ehEvData:
			for i := 0; i < n; i++ {
				if pending[i] && satisfies(i, ev.arg) {
					want[i] = 1
				}
			}
			if err := face.FeedPacket(fx.dataWire[ev.arg]); err != nil {
				panic(err)
			}
			settle(k, ev, want, ndn.InterestResultData, ev.arg)
		case ehEvNack:
			nn := fx.nackName[ev.arg]
			// known finding: Interests whose name is a proper prefix of the nacked name, if something is pending on or below it
			below := false
			for j := 0; j < n; j++ {
				if pending[j] && ehIsPrefix(nn, fx.names[its[j].name]) {
					below = true
				}
			}
			for i := 0; i < n; i++ {
				if pending[i] && ehFullName(fx, its[i]).Equal(nn) {
					want[i] = 2 // "with a Nack for that name": permitted
				}
			}
			if err := face.FeedPacket(fx.nackWire[ev.arg]); err != nil {
				panic(err)
			}
			// permitted-but-absent is fine: turn 2 into "whatever happened"
			for i := 0; i < n; i++ {
				if want[i] == 2 {
					if len(calls[i]) > seen[i] {
						want[i] = 1
					} else {
						want[i] = 0
					}
				}
			}
			settle(k, ev, want, ndn.InterestResultNack, -1)
			if below {
				for i := 0; i < n; i++ {
					if pending[i] && len(fx.names[its[i].name]) < len(nn) && ehIsPrefix(fx.names[its[i].name], nn) {
						tainted[i] = true
					}
				}
			}
		case ehEvAdvance:
			now += time.Duration(ev.arg) * time.Millisecond
			timer.MoveForward(time.Duration(ev.arg) * time.Millisecond)
			for i := 0; i < n; i++ {
				if pending[i] && now-t0[i] >= its[i].life && len(calls[i]) > seen[i] {
					want[i] = 1
				}
			}
			settle(k, ev, want, ndn.InterestResultTimeout, -1)
		}
	}
	// end of history: far beyond every lifetime
	now += 10 * time.Second
	timer.MoveForward(10 * time.Second)
	for i := range want {
		want[i] = 0
		if pending[i] && len(calls[i]) > seen[i] {
			want[i] = 1
		}
	}
	end := ehEvent{ehEvAdvance, 10000}
	settle(len(events), &end, want, ndn.InterestResultTimeout, -1)
	for i := 0; i < n; i++ {
		if expressed[i] && len(calls[i]) == 0 {
			c.fail("every-interest-resolves", "%s: the callback of Interest #%d (%s) was never invoked, 10 s after the last event", describe(len(events)), i, its[i])
		}
	}
}

func ehDataName(d int) string {
	if d < 0 {
		return "<none/unknown>"
	}
	return ehNameStr[d]
}

// all sequences (with repetition) of length 0..maxLen over the event universe
func ehSequences(universe []ehEvent, maxLen int) [][]ehEvent {
	res := [][]ehEvent{{}}
	prev := [][]ehEvent{{}}
	for l := 1; l <= maxLen; l++ {
		var next [][]ehEvent
		for _, p := range prev {
			for _, e := range universe {
				s := append(append(make([]ehEvent, 0, l), p...), e)
				next = append(next, s)
			}
		}
		res = append(res, next...)
		prev = next
	}
	return res
}

func TestBoundedEngineHistory(t *testing.T) {
	log.SetLevel(log.FatalLevel) // the engine warns about every dropped packet
	defer log.SetLevel(log.InfoLevel)
	defer debug.SetGCPercent(debug.SetGCPercent(800)) // hundreds of thousands of tiny engines: collect less often
	c := &ehChecker{fx: ehNewFixture(), failed: map[string]bool{}}
	defer func() {
		if p := recover(); p != nil {
			fmt.Printf("BOUNDED-FAIL bounded:engine-history#panic after %d cases: %v\n", c.cases, p)
			fmt.Printf("BOUNDED-CASES %d\n", c.cases)
		}
	}()

	const L1, L2, L3 = 10 * time.Millisecond, 30 * time.Millisecond, 20 * time.Millisecond
	evFull := []ehEvent{
		{ehEvData, 0}, {ehEvData, 1}, {ehEvData, 2}, {ehEvData, 3},
		{ehEvNack, 0}, {ehEvNack, 1}, {ehEvNack, 2}, {ehEvNack, 3},
		{ehEvAdvance, 6}, {ehEvAdvance, 25},
	}
	evPlain := append(append([]ehEvent{}, evFull[:7]...), evFull[8:]...) // without the Nack that carries a digest name
	seqFull3 := ehSequences(evFull, 3)
	seqPlain3 := ehSequences(evPlain, 3)
	seqPlain2 := ehSequences(evPlain, 2)

	var types18 []ehIType // name x CanBePrefix x digest, lifetime filled in per position
	for name := 0; name < 3; name++ {
		for _, cbp := range []bool{false, true} {
			for dg := 0; dg < 3; dg++ {
				types18 = append(types18, ehIType{name, cbp, dg, 0})
			}
		}
	}
	var types6 []ehIType
	for _, t := range types18 {
		if t.digest == ehDigNone {
			types6 = append(types6, t)
		}
	}
	with := func(t ehIType, l time.Duration) ehIType { t.life = l; return t }

	// F1: one Interest (3 names x CanBePrefix x {no, matching, wrong digest} x lifetime 10/30 ms), every event sequence of length <= 3
	//     over 10 events (Data for 4 names, Nack for 3 names and for one digest-bearing name, clock +6 ms, clock +25 ms)
	for _, t := range types18 {
		for _, l := range []time.Duration{L1, L2} {
			for _, s := range seqFull3 {
				c.history([]ehIType{with(t, l)}, s)
			}
		}
	}
	f1 := c.cases
	// F2: two Interests (18 x 18 ordered type pairs, lifetimes 10 ms/30 ms by position; also 30/10 for two of the same type), every event sequence of length <= 2 over the 9 plain
	//     events; of length 3 for the Interests without digest and for same-name pairs (duplicates / same PIT node)
	for _, a := range types18 {
		for _, b := range types18 {
			for li, ls := range [][2]time.Duration{{L1, L2}, {L2, L1}} {
				if li == 1 && a != b {
					continue // (b, a) with lifetimes 10/30 is enumerated anyway; both orders only for two Interests of the same type
				}
				seqs := seqPlain2
				if (a.digest == ehDigNone && b.digest == ehDigNone) || a.name == b.name {
					seqs = seqPlain3
				}
				for _, s := range seqs {
					c.history([]ehIType{with(a, ls[0]), with(b, ls[1])}, s)
				}
			}
		}
	}
	f2 := c.cases - f1
	// F3: three Interests without digest (6^3 type triples, lifetimes 10/30/20 ms): sequences of length <= 2; length 3 for the
	//     triples over three distinct names (the chain /a, /a/b, /a/b/c in any order of expression)
	for _, a := range types6 {
		for _, b := range types6 {
			for _, d := range types6 {
				seqs := seqPlain2
				if a.name != b.name && b.name != d.name && a.name != d.name {
					seqs = seqPlain3
				}
				for _, s := range seqs {
					c.history([]ehIType{with(a, L1), with(b, L2), with(d, L3)}, s)
				}
			}
		}
	}
	f3 := c.cases - f1 - f2
	// F4: late Express: two Interests without digest (6 x 6 ordered type pairs, lifetimes 10/30 ms; also 30/10 for two of the same type); the second one is expressed after the
	//     first or second event of a sequence of <= 3 plain events (its lifetime counts from its own Express)
	for _, a := range types6 {
		for _, b := range types6 {
			for li, ls := range [][2]time.Duration{{L1, L2}, {L2, L1}} {
				if li == 1 && a != b {
					continue
				}
				for _, s := range seqPlain3 {
					for pos := 1; pos <= 2 && pos <= len(s); pos++ {
						h := append(append(append([]ehEvent{}, s[:pos]...), ehEvent{ehEvExpress, 1}), s[pos:]...)
						c.history([]ehIType{with(a, ls[0]), with(b, ls[1])}, h)
					}
				}
			}
		}
	}
	f4 := c.cases - f1 - f2 - f3
	fmt.Printf("BOUNDED-CASES %d\n", c.cases)
	t.Logf("histories: one Interest %d, two %d, three %d, late Express %d", f1, f2, f3, f4)
}

// --------------------------------------------------------------------------------------------------------------------------
// incoming Interests: handler selection and the reply deadline
// --------------------------------------------------------------------------------------------------------------------------

func ehInterestWire(name enc.Name, life *time.Duration, pitToken []byte) []byte {
	it, err := spec.Spec{}.MakeInterest(name, &ndn.InterestConfig{Lifetime: life}, nil, nil)
	if err != nil {
		panic(err)
	}
	if pitToken == nil {
		return it.Wire.Join()
	}
	pkt := &spec.Packet{LpPacket: &spec.LpPacket{PitToken: pitToken, Fragment: it.Wire}}
	e := spec.PacketEncoder{}
	e.Init(pkt)
	return e.Encode(pkt).Join()
}

func TestBoundedEngineHandlers(t *testing.T) {
	log.SetLevel(log.FatalLevel)
	defer log.SetLevel(log.InfoLevel)
	c := &ehChecker{fx: nil, failed: map[string]bool{}}
	defer func() {
		if p := recover(); p != nil {
			fmt.Printf("BOUNDED-FAIL bounded:engine-history#panic after %d cases: %v\n", c.cases, p)
			fmt.Printf("BOUNDED-CASES %d\n", c.cases)
		}
	}()

	prefixes := []enc.Name{{}, ehName("/a"), ehName("/a/b"), ehName("/a/b/c")}
	prefixStr := []string{"/", "/a", "/a/b", "/a/b/c"}
	probes := []string{"/a", "/a/b", "/a/b/c", "/a/b/c/d", "/a/x", "/a/b/x", "/x"}
	var probeName []enc.Name
	var probeWire [][]byte
	life := 10 * time.Millisecond
	for _, p := range probes {
		probeName = append(probeName, ehName(p))
		probeWire = append(probeWire, ehInterestWire(ehName(p), &life, nil))
	}

	// H1: every sequence of <= 4 operations from {attach(p), detach(p) : p in /, /a, /a/b, /a/b/c}; after the sequence every probe
	//     Interest is fed once. Oracle: A = set of attached prefixes (attach adds, detach removes); the handler of the longest
	//     p in A that is a prefix of the probe name is invoked exactly once, no other handler is invoked.
	type op struct {
		attach bool
		p      int
	}
	var ops []op
	for p := range prefixes {
		ops = append(ops, op{true, p}, op{false, p})
	}
	var seqs [][]op
	var gen func(cur []op, left int)
	gen = func(cur []op, left int) {
		seqs = append(seqs, append([]op{}, cur...))
		if left == 0 {
			return
		}
		for _, o := range ops {
			gen(append(cur, o), left-1)
		}
	}
	gen(nil, 4)
	sort.SliceStable(seqs, func(i, j int) bool { return len(seqs[i]) < len(seqs[j]) }) // shortest failing case first
	for _, seq := range seqs {
		c.cases++
		eng, face, _ := ehNewEngine()
		hits := make([]int, len(prefixes))
		attached := make([]bool, len(prefixes))
		tainted := make([]bool, len(prefixes)) // known finding: a handler was detached below this attached prefix
		desc := "["
		for k, o := range seq {
			if k > 0 {
				desc += ", "
			}
			p := o.p
			if o.attach {
				desc += "attach(" + prefixStr[p] + ")"
				eng.AttachHandler(prefixes[p], func(ndn.InterestHandlerArgs) { hits[p]++ })
				attached[p] = true
				tainted[p] = false
			} else {
				desc += "detach(" + prefixStr[p] + ")"
				eng.DetachHandler(prefixes[p])
				if attached[p] {
					for q := range prefixes {
						if attached[q] && q != p && len(prefixes[q]) < len(prefixes[p]) && ehIsPrefix(prefixes[q], prefixes[p]) {
							tainted[q] = true
						}
					}
				}
				attached[p] = false
				tainted[p] = false
			}
		}
		desc += "]"
		for pi := range probes {
			for i := range hits {
				hits[i] = 0
			}
			wantP := -1
			for p := range prefixes {
				if attached[p] && ehIsPrefix(prefixes[p], probeName[pi]) && (wantP < 0 || len(prefixes[p]) > len(prefixes[wantP])) {
					wantP = p
				}
			}
			if err := face.FeedPacket(probeWire[pi]); err != nil {
				panic(err)
			}
			for p := range prefixes {
				wantHits := 0
				if p == wantP {
					wantHits = 1
				}
				if hits[p] != wantHits {
					clause := "handler-longest-prefix"
					if wantP >= 0 && tainted[wantP] && hits[wantP] == 0 {
						clause = "detach-prunes-parent"
					}
					ws := "none"
					if wantP >= 0 {
						ws = prefixStr[wantP]
					}
					c.fail(clause, "operations %s, incoming Interest %s: handler at %s invoked %d times, want %d (longest attached matching prefix: %s)",
						desc, probes[pi], prefixStr[p], hits[p], wantHits, ws)
					break
				}
			}
		}
	}

	// H2: reply deadline. Interest with lifetime 10 ms / 4 s explicit / absent (default 4 s), bare or with a PIT token, arrives at
	//     clock 7 ms; the handler keeps args; the clock is advanced by a delay; then Reply is called.
	dataFor := func(n enc.Name) enc.Wire {
		d, err := spec.Spec{}.MakeData(n, &ndn.DataConfig{}, enc.Wire{[]byte("reply")}, ehSigner{})
		if err != nil {
			panic(err)
		}
		return d.Wire
	}
	l10, l4s := 10*time.Millisecond, 4*time.Second
	for _, lc := range []struct {
		life *time.Duration
		eff  time.Duration
	}{{&l10, l10}, {&l4s, l4s}, {nil, 4 * time.Second}} {
		for _, tok := range [][]byte{nil, {1, 2, 3, 4}} {
			for _, num := range []int64{0, 1, 50, 99, 100, 101, 150, 200, 1000} { // delay in percent of the lifetime
				for _, attachAt := range []int{0, 2} {
					c.cases++
					delay := time.Duration(int64(lc.eff) * num / 100)
					eng, face, timer := ehNewEngine()
					var got *ndn.InterestHandlerArgs
					eng.AttachHandler(prefixes[attachAt], func(a ndn.InterestHandlerArgs) { a2 := a; got = &a2 })
					timer.MoveForward(7 * time.Millisecond)
					arrival := timer.Now()
					name := ehName("/a/b/c")
					if err := face.FeedPacket(ehInterestWire(name, lc.life, tok)); err != nil {
						panic(err)
					}
					what := fmt.Sprintf("Interest /a/b/c lifetime=%v (effective %v) pitToken=%v arrives at clock 7ms, handler at %s, Reply called %v later",
						lc.life, lc.eff, tok, prefixStr[attachAt], delay)
					if got == nil {
						c.fail("handler-longest-prefix", "%s: handler not invoked", what)
						continue
					}
					if !got.Deadline.Equal(arrival.Add(lc.eff)) {
						c.fail("reply-only-before-deadline", "%s: deadline handed to the handler is %v after arrival, want the lifetime", what, got.Deadline.Sub(arrival))
					}
					timer.MoveForward(delay)
					_, pre := face.Consume()
					err := got.Reply(dataFor(name))
					sent, cerr := face.Consume()
					wasSent := cerr == nil && pre != nil
					switch {
					case delay > lc.eff && (wasSent || err == nil):
						c.fail("reply-only-before-deadline", "%s: the reply was made after the deadline but was transmitted=%v, Reply returned %v", what, wasSent, err)
					case delay < lc.eff && (!wasSent || err != nil):
						c.fail("reply-in-time-is-sent", "%s: the reply was made before the deadline but transmitted=%v, Reply returned %v", what, wasSent, err)
					case wasSent:
						// what is on the face must be the Data (inside an LpPacket echoing the PIT token, if the Interest carried one)
						pkt, _, perr := spec.ReadPacket(enc.NewBufferReader(sent))
						ok := perr == nil
						if ok && tok != nil {
							ok = pkt.LpPacket != nil && bytes.Equal(pkt.LpPacket.PitToken, tok) && bytes.Equal(pkt.LpPacket.Fragment.Join(), dataFor(name).Join())
						} else if ok {
							ok = pkt.Data != nil && bytes.Equal(sent, dataFor(name).Join())
						}
						if !ok {
							c.fail("reply-in-time-is-sent", "%s: the packet put on the face is not the reply Data (parse error %v)", what, perr)
						}
					}
				}
			}
		}
	}
	fmt.Printf("BOUNDED-CASES %d\n", c.cases)
}
