package dv

// Bounded stand-in for C19, first sentence (whole-history clause: "after every sequence of table changes, not just
// from a clean start").
//
// Property text (C19): "For remote routers and the prefixes they announce, the routes the routing daemon holds
// registered in the forwarder equal what its current tables prescribe - for each prefix, over all reachable remote
// routers currently announcing it (and for each such router's own routing prefix), the faces of that router's best
// and finite second-best next hops, each face at the lowest such cost, and nothing for destinations that are
// unreachable, prefixes that were withdrawn, or faces a neighbour no longer uses - after every sequence of table
// changes, not just from a clean start."
//
// What is run: one real Router ("/net/me": real Rib, NeighborTable, PrefixTable, Fib, fibUpdate). Its tables are changed
// through their exported operations in the combinations the daemon itself uses (an advertisement of a neighbour =
// DirtyResetNextHop + Set... + Prune as in ribUpdate; a dead neighbour = NeighborTable.Remove + RemoveNextHop + Prune
// as in checkDeadNeighbors; a neighbour heard on another face = RecvPing; prefix operations of remote routers =
// PrefixTable.Apply), the real fibUpdate is called after every change, and the register/unregister commands it queues
// are replayed, in order, into a route table standing for the forwarder (prefix -> face -> cost).
//
// Oracle: the harness keeps its own model of what it did (offers per neighbour and destination, faces, announced
// prefixes) and computes the prescribed routes from scratch from the property sentence (all admissible tie-breaks
// among equal-cost next hops are accepted). Nothing of the oracle reads the tables of the code under test.
//
// Output protocol: BOUNDED-CASES <n>, BOUNDED-FAIL <clause> <case>.

import (
	"fmt"
	"reflect"
	"runtime"
	"runtime/debug"
	"sort"
	"strings"
	"sync"
	"sync/atomic"
	"testing"
	"time"
	"unsafe"

	"github.com/named-data/ndnd/dv/config"
	"github.com/named-data/ndnd/dv/nfdc"
	"github.com/named-data/ndnd/dv/table"
	"github.com/named-data/ndnd/dv/tlv"
	enc "github.com/named-data/ndnd/std/encoding"
	basic_engine "github.com/named-data/ndnd/std/engine/basic"
	"github.com/named-data/ndnd/std/log"
	"github.com/named-data/ndnd/std/ndn"
	mgmt "github.com/named-data/ndnd/std/ndn/mgmt_2022"
	"github.com/named-data/ndnd/std/ndn/spec_2022"
	svs_2024 "github.com/named-data/ndnd/std/ndn/svs_2024"
	ndn_sync "github.com/named-data/ndnd/std/sync"
	"github.com/named-data/ndnd/std/utils"
)

const bcv19Inf = uint64(16)

// ---------------------------------------------------------------- the forwarder stand-in

type bcv19Fw struct {
	mu     sync.Mutex
	routes map[string]map[uint64]uint64 // prefix -> face -> cost
	synced chan struct{}
}

func (f *bcv19Fw) apply(module, cmd string, ca *mgmt.ControlArgs) {
	if module != "rib" || ca == nil || ca.Name == nil {
		return
	}
	key := ca.Name.String()
	face := uint64(0)
	if ca.FaceId != nil {
		face = *ca.FaceId
	}
	f.mu.Lock()
	defer f.mu.Unlock()
	switch cmd {
	case "register":
		cost := uint64(0)
		if ca.Cost != nil {
			cost = *ca.Cost
		}
		if f.routes[key] == nil {
			f.routes[key] = map[uint64]uint64{}
		}
		f.routes[key][face] = cost
	case "unregister":
		delete(f.routes[key], face)
		if len(f.routes[key]) == 0 {
			delete(f.routes, key)
		}
	}
}

// engine: only the management commands matter
type bcv19Engine struct{ fw *bcv19Fw }

func (e *bcv19Engine) EngineTrait() ndn.Engine                                   { return e }
func (*bcv19Engine) Spec() ndn.Spec                                              { return spec_2022.Spec{} }
func (*bcv19Engine) Timer() ndn.Timer                                            { return basic_engine.NewTimer() }
func (*bcv19Engine) Start() error                                                { return nil }
func (*bcv19Engine) Stop() error                                                 { return nil }
func (*bcv19Engine) IsRunning() bool                                             { return true }
func (*bcv19Engine) AttachHandler(enc.Name, ndn.InterestHandler) error           { return nil }
func (*bcv19Engine) DetachHandler(enc.Name) error                                { return nil }
func (*bcv19Engine) Express(*ndn.EncodedInterest, ndn.ExpressCallbackFunc) error { return nil }
func (*bcv19Engine) RegisterRoute(enc.Name) error                                { return nil }
func (*bcv19Engine) UnregisterRoute(enc.Name) error                              { return nil }
func (e *bcv19Engine) ExecMgmtCmd(module string, cmd string, args any) error {
	if module == "bounded-sync" {
		e.fw.synced <- struct{}{}
		return nil
	}
	ca, _ := args.(*mgmt.ControlArgs)
	e.fw.apply(module, cmd, ca)
	return nil
}

// the command queue of the management thread (read directly: the thread itself sleeps 1 ms after every command)
func bcv19Queue(m *nfdc.NfdMgmtThread) chan nfdc.NfdMgmtCmd {
	rv := reflect.ValueOf(m).Elem().FieldByName("channel")
	if !rv.IsValid() || rv.Type() != reflect.TypeOf((chan nfdc.NfdMgmtCmd)(nil)) || !rv.CanAddr() {
		return nil
	}
	return *(*chan nfdc.NfdMgmtCmd)(unsafe.Pointer(rv.UnsafeAddr()))
}

// ---------------------------------------------------------------- the router under test and the harness's model

var (
	bcv19Nbrs   = []string{"/net/a", "/net/b", "/net/c"}
	bcv19Remote = []string{"/net/x", "/net/y"}
	bcv19Pfx    = []string{"/app/p", "/app/q"}
	// face on which a neighbour is first heard; a and c share a (multi-access) face
	bcv19Face0 = map[string]uint64{"/net/a": 10, "/net/b": 11, "/net/c": 10}
	bcv19Face1 = map[string]uint64{"/net/a": 12, "/net/b": 11, "/net/c": 11} // after the "moves" operation
)

type bcv19Sys struct {
	r     *Router
	fw    *bcv19Fw
	queue chan nfdc.NfdMgmtCmd // nil: fallback through the running management thread
	names map[string]enc.Name

	// the harness's own model
	alive map[string]bool
	face  map[string]uint64
	offer map[string]map[string]uint64 // neighbour -> destination -> cost through that neighbour (absent: none)
	ann   map[string]map[string]bool   // router -> announced prefixes
	hist  []string
}

var bcv19MgmtPool []*nfdc.NfdMgmtThread
var bcv19PoolMu sync.Mutex

// name -> String() of the parsed name (cached; the oracle needs them at every comparison)
var bcv19Str = func() map[string]string {
	m := map[string]string{}
	for _, n := range append(append(append([]string{"/net/me"}, bcv19Nbrs...), bcv19Remote...), bcv19Pfx...) {
		nm, err := enc.NameFromStr(n)
		if err != nil {
			panic(err)
		}
		m[n] = nm.String()
	}
	return m
}()

func bcv19Name(s string) enc.Name {
	n, err := enc.NameFromStr(s)
	if err != nil {
		panic(err)
	}
	return n
}

func bcv19New(fast bool) *bcv19Sys {
	cfg := config.DefaultConfig()
	cfg.Network = "/net"
	cfg.Router = "/net/me"
	if err := cfg.Parse(); err != nil {
		panic(err)
	}
	fw := &bcv19Fw{routes: map[string]map[uint64]uint64{}, synced: make(chan struct{}, 1)}
	eng := &bcv19Engine{fw: fw}
	s := &bcv19Sys{fw: fw, names: map[string]enc.Name{}, alive: map[string]bool{}, face: map[string]uint64{},
		offer: map[string]map[string]uint64{}, ann: map[string]map[string]bool{}}
	var m *nfdc.NfdMgmtThread
	if fast {
		bcv19PoolMu.Lock()
		if k := len(bcv19MgmtPool); k > 0 {
			m, bcv19MgmtPool = bcv19MgmtPool[k-1], bcv19MgmtPool[:k-1]
		}
		bcv19PoolMu.Unlock()
		if m == nil {
			m = nfdc.NewNfdMgmtThread(eng)
		}
		s.queue = bcv19Queue(m)
	}
	if s.queue == nil {
		m = nfdc.NewNfdMgmtThread(eng)
		go m.Start()
	}
	r := &Router{engine: eng, config: cfg, nfdc: m, mutex: sync.Mutex{}}
	r.pfxSvs = ndn_sync.NewSvSync(eng, cfg.PrefixTableSyncPrefix(), r.onPfxSyncUpdate)
	r.pfxSvs.SetSeqNo(cfg.RouterName(), 1)
	r.neighbors = table.NewNeighborTable(cfg, r.nfdc)
	r.rib = table.NewRib(cfg)
	r.pfx = table.NewPrefixTable(cfg, eng, r.pfxSvs)
	r.fib = table.NewFib(cfg, r.nfdc)
	r.rib.Set(cfg.RouterName(), cfg.RouterName(), 0) // Router.Start
	s.r = r
	for _, n := range append(append(append([]string{"/net/me"}, bcv19Nbrs...), bcv19Remote...), bcv19Pfx...) {
		s.names[n] = bcv19Name(n)
	}
	return s
}

func (s *bcv19Sys) release() {
	if s.queue != nil {
		s.drain()
		bcv19PoolMu.Lock()
		if len(bcv19MgmtPool) < 16 {
			bcv19MgmtPool = append(bcv19MgmtPool, s.r.nfdc)
		}
		bcv19PoolMu.Unlock()
	} else {
		s.r.nfdc.Stop()
	}
}

// replay everything the daemon has queued so far into the forwarder stand-in
func (s *bcv19Sys) drain() {
	if s.queue != nil {
		for {
			select {
			case c := <-s.queue:
				s.fw.apply(c.Module, c.Cmd, c.Args)
			default:
				return
			}
		}
	}
	s.r.nfdc.Exec(nfdc.NfdMgmtCmd{Module: "bounded-sync", Cmd: "sync", Args: &mgmt.ControlArgs{}, Retries: 1})
	<-s.fw.synced
}

// ---- operations (each changes the real tables AND the model)

func (s *bcv19Sys) ensureNeighbor(n string) *table.NeighborState {
	ns := s.r.neighbors.Get(s.names[n])
	if ns == nil {
		// advertSyncOnInterest: first Sync Interest of a new neighbour
		ns = s.r.neighbors.Add(s.names[n])
		ns.AdvertSeq = 5
		ns.RecvPing(bcv19Face0[n], true)
		s.alive[n], s.face[n] = true, bcv19Face0[n]
		s.offer[n] = map[string]uint64{}
	}
	return ns
}

// neighbour n's advertisement now offers destination d at cost c (16: not at all); table effect of ribUpdate
func (s *bcv19Sys) opOffer(n, d string, c uint64) {
	r := s.r
	r.mutex.Lock()
	defer r.mutex.Unlock()
	s.ensureNeighbor(n)
	if c >= bcv19Inf {
		delete(s.offer[n], d)
	} else {
		s.offer[n][d] = c
	}
	s.offer[n][n] = 1 // the neighbour lists itself at cost 0
	r.rib.DirtyResetNextHop(s.names[n])
	dests := make([]string, 0, len(s.offer[n]))
	for dd := range s.offer[n] {
		dests = append(dests, dd)
	}
	sort.Strings(dests)
	for _, dd := range dests {
		r.rib.Set(s.names[dd], s.names[n], s.offer[n][dd])
	}
	r.rib.Prune()
}

// neighbour n is dead; table effect of checkDeadNeighbors
func (s *bcv19Sys) opDie(n string) {
	r := s.r
	r.mutex.Lock()
	defer r.mutex.Unlock()
	if !s.alive[n] {
		return
	}
	r.neighbors.Remove(s.names[n])
	r.rib.RemoveNextHop(s.names[n])
	r.rib.Prune()
	s.alive[n] = false
	delete(s.offer, n)
	delete(s.face, n)
}

// neighbour n is heard on its other face (toggle); what advertSyncOnInterest does before it calls fibUpdate
func (s *bcv19Sys) opMove(n string) {
	r := s.r
	r.mutex.Lock()
	defer r.mutex.Unlock()
	if !s.alive[n] {
		return
	}
	f := bcv19Face1[n]
	if s.face[n] == f {
		f = bcv19Face0[n]
	}
	r.neighbors.Get(s.names[n]).RecvPing(f, true)
	s.face[n] = f
}

// remote router rt adds / removes prefix p, or resets its prefix list (processPrefixData -> PrefixTable.Apply)
func (s *bcv19Sys) opPfx(rt, p string, kind string) {
	r := s.r
	r.mutex.Lock()
	defer r.mutex.Unlock()
	ops := &tlv.PrefixOpList{ExitRouter: &tlv.Destination{Name: s.names[rt]}}
	if s.ann[rt] == nil {
		s.ann[rt] = map[string]bool{}
	}
	switch kind {
	case "add":
		ops.PrefixOpAdds = []*tlv.PrefixOpAdd{{Name: s.names[p], Cost: 1}}
		s.ann[rt][p] = true
	case "remove":
		ops.PrefixOpRemoves = []*tlv.PrefixOpRemove{{Name: s.names[p]}}
		delete(s.ann[rt], p)
	case "reset":
		ops.PrefixOpReset = true
		s.ann[rt] = map[string]bool{}
	}
	r.pfx.Apply(ops)
}

// this router itself announces / withdraws p (toggle): must never produce routes of its own
func (s *bcv19Sys) opSelf(p string) {
	r := s.r
	r.mutex.Lock()
	defer r.mutex.Unlock()
	if s.ann["/net/me"] == nil {
		s.ann["/net/me"] = map[string]bool{}
	}
	if s.ann["/net/me"][p] {
		r.pfx.Withdraw(s.names[p])
		delete(s.ann["/net/me"], p)
	} else {
		r.pfx.Announce(s.names[p])
		s.ann["/net/me"][p] = true
	}
}

// ---------------------------------------------------------------- oracle

type bcv19Hop struct {
	face, cost uint64
}

// all admissible (best, finite second-best) next-hop choices for destination d
func (s *bcv19Sys) hopOptions(d string) [][]bcv19Hop {
	type cand struct {
		n string
		c uint64
	}
	var cs []cand
	for n, off := range s.offer {
		if c, ok := off[d]; ok && s.alive[n] && c < bcv19Inf {
			cs = append(cs, cand{n, c})
		}
	}
	if len(cs) == 0 {
		return nil // unreachable: nothing
	}
	sort.Slice(cs, func(i, j int) bool { return cs[i].n < cs[j].n })
	c1 := bcv19Inf
	for _, c := range cs {
		if c.c < c1 {
			c1 = c.c
		}
	}
	var opts [][]bcv19Hop
	for _, h1 := range cs {
		if h1.c != c1 {
			continue
		}
		c2 := bcv19Inf
		for _, h2 := range cs {
			if h2.n != h1.n && h2.c < c2 {
				c2 = h2.c
			}
		}
		if c2 >= bcv19Inf {
			opts = append(opts, []bcv19Hop{{s.face[h1.n], c1}})
			continue
		}
		for _, h2 := range cs {
			if h2.n != h1.n && h2.c == c2 {
				opts = append(opts, []bcv19Hop{{s.face[h1.n], c1}, {s.face[h2.n], c2}})
			}
		}
	}
	return opts
}

// the routes the tables prescribe, one table per admissible combination of tie-breaks
func (s *bcv19Sys) prescribed() []map[string]map[uint64]uint64 {
	dests := append(append([]string{}, bcv19Nbrs...), bcv19Remote...)
	combos := []map[string][]bcv19Hop{{}}
	for _, d := range dests {
		opts := s.hopOptions(d)
		if len(opts) == 0 {
			continue
		}
		var next []map[string][]bcv19Hop
		for _, c := range combos {
			for _, o := range opts {
				m := map[string][]bcv19Hop{}
				for k, v := range c {
					m[k] = v
				}
				m[d] = o
				next = append(next, m)
			}
		}
		combos = next
	}
	var res []map[string]map[uint64]uint64
	for _, c := range combos {
		routes := map[string]map[uint64]uint64{}
		put := func(name string, hops []bcv19Hop) {
			if routes[name] == nil {
				routes[name] = map[uint64]uint64{}
			}
			for _, h := range hops {
				if old, ok := routes[name][h.face]; !ok || h.cost < old {
					routes[name][h.face] = h.cost // "each face at the lowest such cost"
				}
			}
		}
		for d, hops := range c {
			// "for each such router's own routing prefix"
			put(bcv19Str[d]+"/32=DV", hops)
			// "for each prefix, over all reachable remote routers currently announcing it"
			for p := range s.ann[d] {
				put(bcv19Str[p], hops)
			}
		}
		res = append(res, routes)
	}
	return res
}

func bcv19Fmt(m map[string]map[uint64]uint64) string {
	var names []string
	for k := range m {
		names = append(names, k)
	}
	sort.Strings(names)
	var parts []string
	for _, k := range names {
		var fs []string
		for f, c := range m[k] {
			fs = append(fs, fmt.Sprintf("face%d@%d", f, c))
		}
		sort.Strings(fs)
		parts = append(parts, k+"{"+strings.Join(fs, ",")+"}")
	}
	return "[" + strings.Join(parts, " ") + "]"
}

// the part of the forwarder's table the property speaks about (the neighbour table registers its own
// /localhop/... and sync-group routes through the same management thread; those belong to other properties)
func (s *bcv19Sys) installed() map[string]map[uint64]uint64 {
	s.fw.mu.Lock()
	defer s.fw.mu.Unlock()
	sync := s.r.config.PrefixTableSyncPrefix().String()
	out := map[string]map[uint64]uint64{}
	for k, v := range s.fw.routes {
		if strings.HasPrefix(k, "/localhop/") || k == sync {
			continue
		}
		m := map[uint64]uint64{}
		for f, c := range v {
			m[f] = c
		}
		out[k] = m
	}
	return out
}

// failures found by one worker: clause -> first failing history (by index in the enumeration)
type bcv19Fail struct {
	idx int
	msg string
}
type bcv19H struct {
	cur   int
	first map[string]bcv19Fail
}

func (h *bcv19H) fail(clause, format string, a ...any) {
	if _, ok := h.first[clause]; ok {
		return
	}
	h.first[clause] = bcv19Fail{h.cur, strings.ReplaceAll(fmt.Sprintf(format, a...), "\n", " ")}
}

// does the forwarder hold exactly what the tables prescribe? (no report)
func (s *bcv19Sys) matches() bool {
	got := s.installed()
	for _, w := range s.prescribed() {
		if reflect.DeepEqual(got, w) {
			return true
		}
	}
	return false
}

// compare the forwarder with the prescription; returns false on a mismatch
func (s *bcv19Sys) compare(h *bcv19H, prelude string) bool {
	got := s.installed()
	want := s.prescribed()
	best, bestDiff := -1, 1<<30
	var bestKinds map[string]string
	for i, w := range want {
		kinds := map[string]string{}
		diff := 0
		for name, faces := range got {
			for f, c := range faces {
				wc, ok := w[name][f]
				switch {
				case w[name] == nil:
					// "nothing for destinations that are unreachable, prefixes that were withdrawn"
					kinds["nothing-for-unreachable-or-withdrawn"] = fmt.Sprintf("%s is routed to face %d (cost %d) but no reachable remote router announces it", name, f, c)
					diff++
				case !ok:
					// "or faces a neighbour no longer uses" / no next hop on that face
					kinds["no-route-on-unprescribed-face"] = fmt.Sprintf("%s is routed to face %d (cost %d), which is not the face of a best or finite second-best next hop", name, f, c)
					diff++
				case wc != c:
					// "each face at the lowest such cost"
					kinds["face-at-lowest-cost"] = fmt.Sprintf("%s on face %d has cost %d, the tables prescribe %d", name, f, c, wc)
					diff++
				}
			}
		}
		for name, faces := range w {
			for f, c := range faces {
				if _, ok := got[name][f]; !ok {
					// "the routes ... equal what its current tables prescribe"
					kinds["prescribed-route-installed"] = fmt.Sprintf("%s has no route on face %d, the tables prescribe cost %d", name, f, c)
					diff++
				}
			}
		}
		if diff < bestDiff {
			best, bestDiff, bestKinds = i, diff, kinds
		}
	}
	if bestDiff == 0 {
		return true
	}
	keys := make([]string, 0, len(bestKinds))
	for k := range bestKinds {
		keys = append(keys, k)
	}
	sort.Strings(keys)
	for _, k := range keys {
		h.fail(k, "%s; after %s %s: forwarder has %s, tables prescribe %s", bestKinds[k], prelude, strings.Join(s.hist, " "), bcv19Fmt(got), bcv19Fmt(want[best]))
	}
	return false
}

// ---------------------------------------------------------------- enumeration

type bcv19Op struct {
	name string
	do   func(s *bcv19Sys)
}

func bcv19Ops() []bcv19Op {
	var ops []bcv19Op
	offer := func(n, d string, c uint64) {
		ops = append(ops, bcv19Op{fmt.Sprintf("offer(%s:%s@%d)", n[5:], d[5:], c), func(s *bcv19Sys) { s.opOffer(n, d, c) }})
	}
	// destination x: a and b offer 2 / 3 / nothing, c (same face as a) offers 2 / nothing
	for _, c := range []uint64{2, 3, bcv19Inf} {
		offer("/net/a", "/net/x", c)
		offer("/net/b", "/net/x", c)
	}
	offer("/net/c", "/net/x", 2)
	offer("/net/c", "/net/x", bcv19Inf)
	// destination y: a and b offer 2 / nothing
	for _, c := range []uint64{2, bcv19Inf} {
		offer("/net/a", "/net/y", c)
		offer("/net/b", "/net/y", c)
	}
	pfx := func(rt, p, kind string) {
		ops = append(ops, bcv19Op{fmt.Sprintf("%s(%s,%s)", kind, rt[5:], p), func(s *bcv19Sys) { s.opPfx(rt, p, kind) }})
	}
	for _, k := range []string{"add", "remove"} {
		pfx("/net/x", "/app/p", k)
		pfx("/net/y", "/app/p", k) // p is multi-homed when both announce it
		pfx("/net/x", "/app/q", k)
	}
	pfx("/net/x", "", "reset")
	for _, n := range []string{"/net/a", "/net/c"} {
		n := n
		ops = append(ops, bcv19Op{"move(" + n[5:] + ")", func(s *bcv19Sys) { s.opMove(n) }})
	}
	for _, n := range bcv19Nbrs {
		n := n
		ops = append(ops, bcv19Op{"die(" + n[5:] + ")", func(s *bcv19Sys) { s.opDie(n) }})
	}
	ops = append(ops, bcv19Op{"self(/app/p)", func(s *bcv19Sys) { s.opSelf("/app/p") }})
	return ops
}

// starting states ("not just from a clean start")
func bcv19Preludes() map[string][]func(s *bcv19Sys) {
	return map[string][]func(s *bcv19Sys){
		"clean-start": nil,
		"rich-start": {
			func(s *bcv19Sys) { s.opOffer("/net/a", "/net/x", 2) },
			func(s *bcv19Sys) { s.opOffer("/net/b", "/net/x", 3) },
			func(s *bcv19Sys) { s.opOffer("/net/a", "/net/y", 3) },
			func(s *bcv19Sys) { s.opOffer("/net/b", "/net/y", 2) },
			func(s *bcv19Sys) { s.opOffer("/net/c", "/net/y", 2) },
			func(s *bcv19Sys) { s.opPfx("/net/x", "/app/p", "add") },
			func(s *bcv19Sys) { s.opPfx("/net/y", "/app/p", "add") },
			func(s *bcv19Sys) { s.opPfx("/net/x", "/app/q", "add") },
		},
	}
}

// Run one history: the real fibUpdate after the prelude and after every operation. The forwarder is compared with the
// prescription after the last operation (after every operation if everyStep), and once more after the same tables
// were synchronised a second time ("the routes the routing daemon HOLDS registered").
func bcv19Run(h *bcv19H, fast bool, pname string, prelude []func(*bcv19Sys), seq []bcv19Op, everyStep bool) {
	s := bcv19New(fast)
	defer s.release()
	for _, p := range prelude {
		p(s)
	}
	s.r.fibUpdate()
	s.drain()
	if len(seq) == 0 || everyStep {
		if !s.compare(h, pname) {
			return
		}
	}
	for i, op := range seq {
		op.do(s)
		s.hist = append(s.hist, op.name)
		s.r.fibUpdate()
		s.drain()
		if i < len(seq)-1 && !everyStep {
			continue
		}
		if !s.compare(h, pname) {
			return
		}
		s.r.fibUpdate()
		s.drain()
		if !s.compare(h, pname+" (tables synchronised twice)") {
			return
		}
	}
}

type bcv19Job struct {
	pname     string
	seq       []bcv19Op
	everyStep bool
}

func TestBoundedDvFibMirror(t *testing.T) {
	log.SetLevel(log.FatalLevel)
	defer debug.SetGCPercent(debug.SetGCPercent(400)) // many short-lived routers; the live heap is small
	t0 := time.Now()
	ops := bcv19Ops()
	preludes := bcv19Preludes()
	pnames := []string{"clean-start", "rich-start"}

	fast := bcv19Queue(nfdc.NewNfdMgmtThread(&bcv19Engine{})) != nil
	maxLen := 3
	if !fast {
		maxLen = 1 // the management thread sleeps 1 ms per command: only single operations
	}

	// exhaustive: every sequence of 0..maxLen operations from both starting states (shortest first)
	var jobs []bcv19Job
	var rec func(seq []bcv19Op, length int)
	rec = func(seq []bcv19Op, length int) {
		if len(seq) == length {
			for _, pn := range pnames {
				jobs = append(jobs, bcv19Job{pn, seq, false})
			}
			return
		}
		for _, op := range ops {
			rec(append(seq[:len(seq):len(seq)], op), length)
		}
	}
	for length := 0; length <= maxLen; length++ {
		rec(nil, length)
	}
	seqs := len(jobs)

	// deterministic enumeration of longer histories (length 10, compared after every operation): operation k of
	// history i is ops[(7i + 13k + ik + (i div n)k^2) mod n]
	if fast {
		for i := 0; i < 1500; i++ {
			var seq []bcv19Op
			for k := 0; k < 10; k++ {
				seq = append(seq, ops[(7*i+13*k+i*k+(i/len(ops))*k*k)%len(ops)])
			}
			jobs = append(jobs, bcv19Job{pnames[i%2], seq, true})
		}
	}
	long := len(jobs) - seqs

	// The histories are independent (own router, own forwarder stand-in): a few workers run them, the first failing
	// history per clause (in enumeration order) is reported, so the report does not depend on the interleaving.
	workers := runtime.NumCPU()
	if workers > 4 {
		workers = 4
	}
	if !fast {
		workers = 1
	}
	hs := make([]*bcv19H, workers)
	var next int64 = -1
	var wg sync.WaitGroup
	for w := 0; w < workers; w++ {
		hs[w] = &bcv19H{first: map[string]bcv19Fail{}}
		wg.Add(1)
		go func(h *bcv19H) {
			defer wg.Done()
			for {
				i := int(atomic.AddInt64(&next, 1))
				if i >= len(jobs) {
					return
				}
				h.cur = i
				bcv19Run(h, fast, jobs[i].pname, preludes[jobs[i].pname], jobs[i].seq, jobs[i].everyStep)
			}
		}(hs[w])
	}
	wg.Wait()

	// the real Sync Interest handler: a known neighbour whose advertisement did not change is heard on another face
	hf := &bcv19H{cur: len(jobs), first: map[string]bcv19Fail{}}
	faceCases := bcv19FaceChange(hf, fast)

	first := map[string]bcv19Fail{}
	for _, h := range append(hs, hf) {
		for c, f := range h.first {
			if old, ok := first[c]; !ok || f.idx < old.idx {
				first[c] = f
			}
		}
	}
	clauses := make([]string, 0, len(first))
	for c := range first {
		clauses = append(clauses, c)
	}
	sort.Strings(clauses)
	for _, c := range clauses {
		fmt.Printf("BOUNDED-FAIL bounded:dv-fib-mirror#%s %s\n", c, first[c].msg)
	}

	fmt.Printf("BOUNDED-NOTE dv-fib-mirror: %d operations, %d exhaustive sequences of length <= %d, %d long histories, queue read directly: %v, %d workers, %.1fs\n",
		len(ops), seqs, maxLen, long, fast, workers, time.Since(t0).Seconds())
	fmt.Printf("BOUNDED-CASES %d\n", len(jobs)+faceCases)
}

// "faces a neighbour no longer uses": the face change arrives through the real advertSyncOnInterest, which has to
// trigger the FIB update itself (in a goroutine; the harness waits until that goroutine is gone).
func bcv19FaceChange(h *bcv19H, fast bool) int {
	cases := 0
	pre := bcv19Preludes()["rich-start"]
	for _, n := range bcv19Nbrs {
		for _, active := range []bool{true} {
			s := bcv19New(fast)
			for _, p := range pre {
				p(s)
			}
			s.r.fibUpdate()
			s.drain()
			s.hist = nil
			if !s.compare(h, "rich-start") {
				s.release()
				return cases
			}
			newFace := uint64(20)
			sv := &svs_2024.StateVectorAppParam{StateVector: &svs_2024.StateVector{Entries: []*svs_2024.StateVectorEntry{{
				NodeId: s.names[n], SeqNo: 5, // the sequence number the neighbour already has: nothing new to fetch
			}}}}
			syncName := append(s.r.config.AdvertisementSyncActivePrefix(), enc.NewVersionComponent(2))
			interest, err := s.r.engine.Spec().MakeInterest(syncName, &ndn.InterestConfig{
				MustBeFresh: true, Lifetime: utils.IdPtr(1 * time.Millisecond), Nonce: utils.IdPtr(uint64(1)), HopLimit: utils.IdPtr(uint(2)),
			}, sv.Encode(), nil)
			if err != nil {
				panic(err)
			}
			pkt, _, err := spec_2022.ReadPacket(enc.NewBufferReader(interest.Wire.Join()))
			if err != nil || pkt.Interest == nil {
				panic(fmt.Sprintf("cannot re-read the Sync Interest: %v", err))
			}
			s.hist = append(s.hist, fmt.Sprintf("sync-interest(%s, same sequence number, incoming face %d)", n[5:], newFace))
			s.r.advertSyncOnInterest(ndn.InterestHandlerArgs{Interest: pkt.Interest, IncomingFaceId: &newFace}, active)
			s.face[n] = newFace
			// the handler starts the FIB update in a goroutine: give it up to 2 s (only used up when the update never comes)
			deadline := time.Now().Add(2 * time.Second)
			for {
				s.r.mutex.Lock() // an update that is running holds the lock
				s.r.mutex.Unlock()
				s.drain()
				if s.matches() || !time.Now().Before(deadline) {
					break
				}
				runtime.Gosched()
			}
			cases++
			ok := s.compare(h, "rich-start")
			s.release()
			if !ok {
				return cases
			}
		}
	}
	return cases
}
