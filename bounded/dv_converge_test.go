package dv

// Bounded stand-in for C18 (whole-history clauses that the per-function contracts cannot decide).
//
// Property text (C18): "In any connected topology of routers with stable links, whatever the order in which
// advertisements are exchanged, every router's routing table reaches within a bounded number of exchanges a fixed
// point in which the cost to every other router is its hop distance (below the infinity metric 16), the chosen next
// hop lies on a shortest path, and ties are broken the same way every time. After any link or router loss the tables
// re-converge to the shortest paths of the remaining topology, unreachable destinations are withdrawn rather than
// lingering, and no advertisement ever lists a destination whose best cost is at or above infinity."
//
// What is run: N real Router objects (inert engine, real Rib / NeighborTable / PrefixTable / Fib) in one process.
// "v fetches the current advertisement of its neighbour u" = u.rib.Advert() -> Encode -> ParseAdvertisement ->
// v.ribUpdate(neighbour state of u) (the real code path of advertDataHandler). A loss is detected with the real
// checkDeadNeighbors (the neighbour's last-seen time is set to the zero time).
//
// Oracles (none of them calls the code under test):
//   * hop distances / shortest-path next hops: breadth-first search on the (remaining) graph;
//   * "best cost" of a destination at a router at ANY moment of a history: recomputed from scratch from the harness's
//     own record of the latest advertisement delivered by each live neighbour, by the rule of SPEC.md "Update
//     Processing" (cost+1, poison reverse through OtherCost, skip >= 16);
//   * tie-break: a memo (router, role, set of equally good neighbours) -> chosen neighbour; the choice must be a
//     function of the candidate set over all graphs/schedules/histories of the run.
//
// Output protocol: BOUNDED-CASES <n>, BOUNDED-FAIL <clause> <case>.

import (
	"fmt"
	"os"
	"reflect"
	"runtime"
	"runtime/debug"
	"sort"
	"strconv"
	"strings"
	"sync"
	"sync/atomic"
	"testing"
	"time"
	"unsafe"

	"github.com/named-data/ndnd/dv/config"
	"github.com/named-data/ndnd/dv/nfdc"
	"github.com/named-data/ndnd/dv/table"
	"github.com/named-data/ndnd/dv/tlv"
	enc "github.com/named-data/ndnd/std/encoding"
	basic_engine "github.com/named-data/ndnd/std/engine/basic"
	"github.com/named-data/ndnd/std/log"
	"github.com/named-data/ndnd/std/ndn"
	"github.com/named-data/ndnd/std/ndn/spec_2022"
	ndn_sync "github.com/named-data/ndnd/std/sync"
)

const bcv18Inf = uint64(16) // the infinity metric of the property statement

// ---------------------------------------------------------------- inert engine

type bcv18Engine struct{}

func (e *bcv18Engine) EngineTrait() ndn.Engine                                   { return e }
func (*bcv18Engine) Spec() ndn.Spec                                              { return spec_2022.Spec{} }
func (*bcv18Engine) Timer() ndn.Timer                                            { return basic_engine.NewTimer() }
func (*bcv18Engine) Start() error                                                { return nil }
func (*bcv18Engine) Stop() error                                                 { return nil }
func (*bcv18Engine) IsRunning() bool                                             { return true }
func (*bcv18Engine) AttachHandler(enc.Name, ndn.InterestHandler) error           { return nil }
func (*bcv18Engine) DetachHandler(enc.Name) error                                { return nil }
func (*bcv18Engine) Express(*ndn.EncodedInterest, ndn.ExpressCallbackFunc) error { return nil }
func (*bcv18Engine) RegisterRoute(enc.Name) error                                { return nil }
func (*bcv18Engine) UnregisterRoute(enc.Name) error                              { return nil }
func (*bcv18Engine) ExecMgmtCmd(string, string, any) error                       { return nil }

// ---------------------------------------------------------------- harness state

type bcv18H struct {
	failed map[string]bool
	// tie-break memo over all scenarios: "router|role|candidates" -> chosen (and where it was first seen)
	tie      map[string]int
	tieWhere map[string]string
	// statistics (BCV18_STATS=1; not part of the protocol)
	killViaTable bool
	stats        map[string]map[int]int
	statMax      map[string]int
	statMaxAt    map[string]string
}

func (h *bcv18H) fail(clause, msg string) {
	if h.failed[clause] {
		return
	}
	h.failed[clause] = true
	fmt.Printf("BOUNDED-FAIL bounded:dv-converge#%s %s\n", clause, strings.ReplaceAll(msg, "\n", " "))
}

type bcv18Fail struct{ clause, msg string }
type bcv18Stat struct {
	key string
	v   int
}

// advertisement entry in the harness's own representation (indices instead of names)
type bcv18Ref struct {
	nh          int // -1: no / unknown next hop name
	cost, other uint64
}
type bcv18Adv map[int]bcv18Ref

type bcv18Net struct {
	desc string // graph + schedule + losses, for messages
	// results of the scenario (merged in scenario order by the test function)
	fails        []bcv18Fail
	ties         map[string]int
	stats        []bcv18Stat
	killViaTable bool

	n      int
	names  []enc.Name
	adj    [][]bool
	alive  []bool
	r      []*Router
	last   [][]bcv18Adv // last[v][u]: latest advertisement of u delivered to v (harness's record)
	trace  []string
	broken bool // a clause failed in this scenario: stop it
}

func bcv18Name(s string) enc.Name {
	n, err := enc.NameFromStr(s)
	if err != nil {
		panic(err)
	}
	return n
}

// The management thread of a router is never started (it sleeps after every command). Its queue holds 4096 commands,
// enough for one scenario; the queues are recycled between scenarios (emptied through the channel field) because
// allocating them dominates the run time. If the field cannot be found a fresh thread is allocated per router.
var bcv18Pool []*nfdc.NfdMgmtThread
var bcv18PoolMu sync.Mutex

// development aid: only the graph-level oracle (to see what it catches on its own)
var bcv18NoStep = os.Getenv("BCV18_NOSTEP") != ""

func bcv18Drain(m *nfdc.NfdMgmtThread) bool {
	rv := reflect.ValueOf(m).Elem().FieldByName("channel")
	if !rv.IsValid() || rv.Type() != reflect.TypeOf((chan nfdc.NfdMgmtCmd)(nil)) || !rv.CanAddr() {
		return false
	}
	ch := *(*chan nfdc.NfdMgmtCmd)(unsafe.Pointer(rv.UnsafeAddr()))
	for {
		select {
		case <-ch:
		default:
			return true
		}
	}
}

func bcv18GetMgmt(eng ndn.Engine) *nfdc.NfdMgmtThread {
	bcv18PoolMu.Lock()
	if k := len(bcv18Pool); k > 0 {
		m := bcv18Pool[k-1]
		bcv18Pool = bcv18Pool[:k-1]
		bcv18PoolMu.Unlock()
		return m
	}
	bcv18PoolMu.Unlock()
	return nfdc.NewNfdMgmtThread(eng)
}

// give the routers' management threads back (called when the scenario is over)
func (nt *bcv18Net) release() {
	for _, r := range nt.r {
		r.mutex.Lock() // no update of this router is in flight
		ok := bcv18Drain(r.nfdc)
		r.mutex.Unlock()
		bcv18PoolMu.Lock()
		if ok && len(bcv18Pool) < 64 {
			bcv18Pool = append(bcv18Pool, r.nfdc)
		}
		bcv18PoolMu.Unlock()
	}
}

func bcv18NewRouter(name string) *Router {
	cfg := config.DefaultConfig()
	cfg.Network = "/net"
	cfg.Router = name
	if err := cfg.Parse(); err != nil {
		panic(err)
	}
	eng := &bcv18Engine{}
	r := &Router{engine: eng, config: cfg, nfdc: bcv18GetMgmt(eng), mutex: sync.Mutex{}}
	r.pfxSvs = ndn_sync.NewSvSync(eng, cfg.PrefixTableSyncPrefix(), r.onPfxSyncUpdate)
	r.pfxSvs.SetSeqNo(cfg.RouterName(), 1)
	r.neighbors = table.NewNeighborTable(cfg, r.nfdc)
	r.rib = table.NewRib(cfg)
	r.pfx = table.NewPrefixTable(cfg, eng, r.pfxSvs)
	r.fib = table.NewFib(cfg, r.nfdc)
	// what Router.Start does: add self to the RIB
	r.rib.Set(cfg.RouterName(), cfg.RouterName(), 0)
	return r
}

func bcv18NewNet(n int, edges [][2]int, desc string) *bcv18Net {
	nt := &bcv18Net{desc: desc, n: n, ties: map[string]int{}}
	nt.adj = make([][]bool, n)
	nt.last = make([][]bcv18Adv, n)
	nt.alive = make([]bool, n)
	for i := 0; i < n; i++ {
		nt.adj[i] = make([]bool, n)
		nt.last[i] = make([]bcv18Adv, n)
		nt.alive[i] = true
		nm := fmt.Sprintf("/net/r%d", i)
		nt.names = append(nt.names, bcv18Name(nm))
		nt.r = append(nt.r, bcv18NewRouter(nm))
	}
	for _, e := range edges {
		nt.adj[e[0]][e[1]] = true
		nt.adj[e[1]][e[0]] = true
	}
	return nt
}

// index of the router called /net/r<i> (the names the harness hands out)
func (nt *bcv18Net) idx(name enc.Name) (int, bool) {
	if len(name) != 2 || string(name[0].Val) != "net" || len(name[1].Val) != 2 || name[1].Val[0] != 'r' {
		return -1, false
	}
	i := int(name[1].Val[1]) - '0'
	if i < 0 || i >= nt.n || name[0].Typ != nt.names[i][0].Typ || name[1].Typ != nt.names[i][1].Typ {
		return -1, false
	}
	return i, true
}

func (nt *bcv18Net) fail(clause, format string, a ...any) {
	nt.broken = true
	for _, f := range nt.fails {
		if f.clause == clause {
			return
		}
	}
	tr := nt.trace
	if len(tr) > 40 {
		tr = append([]string{"..."}, tr[len(tr)-40:]...)
	}
	nt.fails = append(nt.fails, bcv18Fail{clause, fmt.Sprintf("%s :: %s :: history: %s", nt.desc, fmt.Sprintf(format, a...), strings.Join(tr, " "))})
}

func bcv18Face(u int) uint64 { return uint64(100 + u) }

// u's current advertisement through the wire encoding; also in the harness's representation.
// Clause "no advertisement ever lists a destination whose best cost is at or above infinity" (literal part:
// the listed cost itself).
func (nt *bcv18Net) fetch(u int) (*tlv.Advertisement, bcv18Adv) {
	return nt.parse(u, nt.fetchWire(u))
}

// u's current advertisement, without the wire round trip (for the checks of u's own state)
func (nt *bcv18Net) own(u int) bcv18Adv {
	r := nt.r[u]
	r.mutex.Lock()
	adv := r.rib.Advert()
	r.mutex.Unlock()
	return nt.toRef(u, adv)
}

func (nt *bcv18Net) fetchWire(u int) []byte {
	r := nt.r[u]
	r.mutex.Lock()
	defer r.mutex.Unlock()
	return r.rib.Advert().Encode().Join()
}

func (nt *bcv18Net) parse(u int, wire []byte) (*tlv.Advertisement, bcv18Adv) {
	adv, err := tlv.ParseAdvertisement(enc.NewBufferReader(wire), false)
	if err != nil {
		nt.fail("advert-well-formed", "advertisement of r%d does not parse: %v", u, err)
		return nil, nil
	}
	return adv, nt.toRef(u, adv)
}

func (nt *bcv18Net) toRef(u int, adv *tlv.Advertisement) bcv18Adv {
	ref := bcv18Adv{}
	for _, e := range adv.Entries {
		if e == nil || e.Destination == nil {
			nt.fail("advert-well-formed", "advertisement of r%d has an entry without destination", u)
			return nil
		}
		d, ok := nt.idx(e.Destination.Name)
		if !ok {
			nt.fail("advert-well-formed", "advertisement of r%d lists unknown destination %s", u, e.Destination.Name)
			return nil
		}
		if _, dup := ref[d]; dup {
			nt.fail("advert-well-formed", "advertisement of r%d lists r%d twice", u, d)
			return nil
		}
		nh := -1
		if e.NextHop != nil {
			if i, ok := nt.idx(e.NextHop.Name); ok {
				nh = i
			}
		}
		ref[d] = bcv18Ref{nh: nh, cost: e.Cost, other: e.OtherCost}
		if e.Cost >= bcv18Inf {
			nt.fail("no-infinite-cost-advertised", "advertisement of r%d lists r%d with cost %d (>= 16)", u, d, e.Cost)
		}
	}
	return ref
}

// v processes the advertisement adv of its neighbour u (real ribUpdate)
func (nt *bcv18Net) deliver(u, v int, adv *tlv.Advertisement, ref bcv18Adv) {
	if nt.broken || adv == nil {
		return
	}
	nt.trace = append(nt.trace, fmt.Sprintf("%d>%d", u, v))
	nt.last[v][u] = ref
	r := nt.r[v]
	r.mutex.Lock()
	ns := r.neighbors.Get(nt.names[u])
	if ns == nil {
		// what advertSyncOnInterest does when it first hears a neighbour
		ns = r.neighbors.Add(nt.names[u])
		ns.RecvPing(bcv18Face(u), true)
	}
	ns.Advert = adv
	r.mutex.Unlock()
	r.ribUpdate(ns)
	nt.check(v)
}

// offers of the live neighbours of v for destination d, by SPEC.md "Update Processing", from the harness's record
func (nt *bcv18Net) offers(v, d int) map[int]uint64 {
	off := map[int]uint64{}
	if d == v {
		off[v] = 0 // Router.Start: self at cost 0 through self
	}
	for u := 0; u < nt.n; u++ {
		a := nt.last[v][u]
		if a == nil {
			continue
		}
		e, ok := a[d]
		if !ok || e.cost >= bcv18Inf {
			continue
		}
		c := e.cost + 1
		if e.nh == v { // poison reverse
			if e.other < bcv18Inf {
				c = e.other + 1
			} else {
				c = bcv18Inf
			}
		}
		if c >= bcv18Inf {
			continue
		}
		off[u] = c
	}
	return off
}

func bcv18Min(off map[int]uint64, except int) (uint64, []int) {
	best := bcv18Inf
	var cands []int
	for u, c := range off {
		if u == except {
			continue
		}
		if c < best {
			best, cands = c, []int{u}
		} else if c == best && c < bcv18Inf {
			cands = append(cands, u)
		}
	}
	sort.Ints(cands)
	return best, cands
}

func (nt *bcv18Net) tieCheck(v int, role string, cands []int, chosen int) {
	if len(cands) < 2 {
		return
	}
	key := fmt.Sprintf("r%d|%s|%v", v, role, cands)
	if prev, ok := nt.ties[key]; ok {
		if prev != chosen {
			// "ties are broken the same way every time"
			nt.fail("tie-break-deterministic", "router r%d, %s next hop among equally good neighbours %v: chose r%d now, but r%d earlier in the same history",
				v, role, cands, chosen, prev)
		}
		return
	}
	nt.ties[key] = chosen // compared with the other scenarios by the test function
}

// After every step at v: v's table/advertisement must be what the latest advertisements of its live neighbours
// prescribe. Clauses: "whatever the order in which advertisements are exchanged" (the table is a function of the
// latest advertisements, not of the history), "no advertisement ever lists a destination whose best cost is at or
// above infinity" (best cost = best offer of a live neighbour), "ties are broken the same way every time".
func (nt *bcv18Net) check(v int) {
	if nt.broken || bcv18NoStep {
		return
	}
	mine := nt.own(v)
	if nt.broken {
		return
	}
	r := nt.r[v]
	// next-hop faces as the FIB computation sees them
	type hops struct {
		f1, f2 uint64
		c1, c2 uint64
	}
	fe := map[int]hops{}
	has := make([]bool, nt.n)
	r.mutex.Lock()
	for _, e := range r.rib.Entries() {
		d, ok := nt.idx(e.Name())
		if !ok {
			continue
		}
		fes := r.rib.GetFibEntries(r.neighbors, e.Name().Hash())
		if len(fes) == 2 {
			fe[d] = hops{fes[0].FaceId, fes[1].FaceId, fes[0].Cost, fes[1].Cost}
		}
	}
	for d := 0; d < nt.n; d++ {
		has[d] = r.rib.Has(nt.names[d])
	}
	r.mutex.Unlock()

	for d := 0; d < nt.n; d++ {
		off := nt.offers(v, d)
		best, c1 := bcv18Min(off, -1)
		e, listed := mine[d]
		if best >= bcv18Inf {
			if listed {
				nt.fail("no-unreachable-destination-advertised", "r%d advertises r%d (cost %d, other %d) although no live neighbour offers it below 16 (latest advertisements: %s)",
					v, d, e.cost, e.other, nt.lastStr(v, d))
			}
			if has[d] {
				nt.fail("no-unreachable-destination-advertised", "r%d holds r%d as reachable although no live neighbour offers it below 16", v, d)
			}
			continue
		}
		if !listed || !has[d] {
			nt.fail("table-follows-latest-adverts", "r%d does not list r%d (listed=%v reachable=%v) although the best offer is %d (%s)", v, d, listed, has[d], best, nt.lastStr(v, d))
			continue
		}
		if e.cost != best {
			nt.fail("table-follows-latest-adverts", "r%d lists r%d at cost %d, best offer of its live neighbours is %d (%s)", v, d, e.cost, best, nt.lastStr(v, d))
			continue
		}
		okHop := false
		for _, u := range c1 {
			if u == e.nh {
				okHop = true
			}
		}
		if !okHop {
			nt.fail("next-hop-is-a-best-offer", "r%d lists r%d with next hop r%d, but the neighbours offering the best cost %d are %v (%s)", v, d, e.nh, best, c1, nt.lastStr(v, d))
			continue
		}
		nt.tieCheck(v, "best", c1, e.nh)
		second, c2 := bcv18Min(off, e.nh)
		if e.other != second {
			nt.fail("second-best-follows-latest-adverts", "r%d lists r%d with second-best cost %d, second-best offer is %d (%s)", v, d, e.other, second, nt.lastStr(v, d))
			continue
		}
		// the same through the FIB view (faces of best / second-best next hop)
		if f, ok := fe[d]; ok {
			want1 := bcv18Face(e.nh)
			if e.nh == v {
				want1 = 0
			}
			if f.f1 != want1 || f.c1 != best {
				nt.fail("next-hop-is-a-best-offer", "r%d: forwarding hops for r%d are face %d cost %d, advertisement says next hop r%d cost %d", v, d, f.f1, f.c1, e.nh, best)
				continue
			}
			if f.c2 != second {
				nt.fail("second-best-follows-latest-adverts", "r%d: second forwarding hop for r%d has cost %d, second-best offer is %d", v, d, f.c2, second)
				continue
			}
			if second < bcv18Inf {
				chosen2 := -1
				for _, u := range c2 {
					w := bcv18Face(u)
					if u == v {
						w = 0
					}
					if f.f2 == w {
						chosen2 = u
					}
				}
				if chosen2 < 0 {
					nt.fail("next-hop-is-a-best-offer", "r%d: second forwarding hop for r%d is face %d, but the neighbours offering the second-best cost %d are %v (%s)", v, d, f.f2, second, c2, nt.lastStr(v, d))
					continue
				}
				nt.tieCheck(v, "second", c2, chosen2)
			}
		}
	}
}

func (nt *bcv18Net) lastStr(v, d int) string {
	var parts []string
	for u := 0; u < nt.n; u++ {
		if a := nt.last[v][u]; a != nil {
			if e, ok := a[d]; ok {
				parts = append(parts, fmt.Sprintf("r%d says (nh r%d, cost %d, other %d)", u, e.nh, e.cost, e.other))
			} else {
				parts = append(parts, fmt.Sprintf("r%d does not list it", u))
			}
		}
	}
	return strings.Join(parts, "; ")
}

// ---------------------------------------------------------------- graph oracle (BFS)

func (nt *bcv18Net) bfs(src int) []int {
	dist := make([]int, nt.n)
	for i := range dist {
		dist[i] = -1
	}
	if !nt.alive[src] {
		return dist
	}
	dist[src] = 0
	q := []int{src}
	for len(q) > 0 {
		x := q[0]
		q = q[1:]
		for y := 0; y < nt.n; y++ {
			if nt.alive[y] && nt.adj[x][y] && dist[y] < 0 {
				dist[y] = dist[x] + 1
				q = append(q, y)
			}
		}
	}
	return dist
}

func (nt *bcv18Net) diameter() int {
	dm := 0
	for v := 0; v < nt.n; v++ {
		if nt.alive[v] {
			for _, x := range nt.bfs(v) {
				if x > dm {
					dm = x
				}
			}
		}
	}
	return dm
}

// is the remaining graph a forest?
func (nt *bcv18Net) forest() bool {
	nodes, edges, comps := 0, 0, 0
	seen := make([]bool, nt.n)
	for v := 0; v < nt.n; v++ {
		if !nt.alive[v] {
			continue
		}
		nodes++
		for w := v + 1; w < nt.n; w++ {
			if nt.alive[w] && nt.adj[v][w] {
				edges++
			}
		}
		if !seen[v] {
			comps++
			for w, x := range nt.bfs(v) {
				if x >= 0 {
					seen[w] = true
				}
			}
		}
	}
	return edges == nodes-comps
}

func (nt *bcv18Net) nAlive() int {
	c := 0
	for _, a := range nt.alive {
		if a {
			c++
		}
	}
	return c
}

// At a fixed point: costs are hop distances, next hops lie on shortest paths, unreachable destinations are gone.
func (nt *bcv18Net) checkConverged(phase string) {
	if nt.broken {
		return
	}
	dists := make([][]int, nt.n)
	for v := 0; v < nt.n; v++ {
		dists[v] = nt.bfs(v)
	}
	for v := 0; v < nt.n; v++ {
		if !nt.alive[v] {
			continue
		}
		mine := nt.own(v)
		if nt.broken {
			return
		}
		r := nt.r[v]
		r.mutex.Lock()
		inEntries := map[int]bool{}
		for _, e := range r.rib.Entries() {
			if d, ok := nt.idx(e.Name()); ok {
				inEntries[d] = true
			}
		}
		has := make([]bool, nt.n)
		nbr := make([]bool, nt.n)
		for d := 0; d < nt.n; d++ {
			has[d] = r.rib.Has(nt.names[d])
			nbr[d] = r.neighbors.Get(nt.names[d]) != nil
		}
		r.mutex.Unlock()
		for d := 0; d < nt.n; d++ {
			e, listed := mine[d]
			dist := dists[v][d]
			if dist < 0 || dist >= int(bcv18Inf) {
				// "unreachable destinations are withdrawn rather than lingering"
				if listed || has[d] || inEntries[d] {
					nt.fail("unreachable-withdrawn", "%s: r%d still holds r%d (advertised=%v cost=%d other=%d reachable=%v) which is not reachable in the remaining topology",
						phase, v, d, listed, e.cost, e.other, has[d])
					return
				}
				continue
			}
			// "the cost to every other router is its hop distance"
			if !listed || !has[d] || !inEntries[d] || e.cost != uint64(dist) {
				nt.fail("cost-is-hop-distance", "%s: r%d reaches r%d at cost %d (advertised=%v reachable=%v), hop distance is %d",
					phase, v, d, e.cost, listed, has[d], dist)
				return
			}
			// "the chosen next hop lies on a shortest path"
			if d == v {
				if e.nh != v {
					nt.fail("next-hop-on-shortest-path", "%s: r%d reaches itself through r%d", phase, v, e.nh)
					return
				}
			} else if e.nh < 0 || !nt.alive[e.nh] || !nt.adj[v][e.nh] || dists[e.nh][d] != dist-1 {
				nt.fail("next-hop-on-shortest-path", "%s: r%d reaches r%d (distance %d) through r%d, which is not a live neighbour one hop closer", phase, v, d, dist, e.nh)
				return
			}
		}
		// a lost neighbour is forgotten
		for u := 0; u < nt.n; u++ {
			if nbr[u] && !(nt.alive[u] && nt.adj[v][u]) {
				nt.fail("unreachable-withdrawn", "%s: r%d still has the lost neighbour r%d in its neighbour table", phase, v, u)
				return
			}
		}
	}
}

// ---------------------------------------------------------------- schedules

type bcv18Sched struct {
	name string
	// every router's advertisement is taken at the beginning of the round (simultaneous exchange) instead of at delivery
	sync  bool
	order func(round int, links [][2]int) [][2]int
}

func (nt *bcv18Net) links() [][2]int {
	var l [][2]int
	for u := 0; u < nt.n; u++ {
		for v := 0; v < nt.n; v++ {
			if u != v && nt.alive[u] && nt.alive[v] && nt.adj[u][v] {
				l = append(l, [2]int{u, v})
			}
		}
	}
	return l
}

func bcv18Reverse(l [][2]int) [][2]int {
	o := make([][2]int, len(l))
	for i := range l {
		o[len(l)-1-i] = l[i]
	}
	return o
}

// idx-th permutation of l (factorial number system)
func bcv18PermByIndex(l [][2]int, idx uint64) [][2]int {
	pool := append([][2]int{}, l...)
	var o [][2]int
	for len(pool) > 0 {
		k := int(idx % uint64(len(pool)))
		idx /= uint64(len(pool))
		o = append(o, pool[k])
		pool = append(pool[:k], pool[k+1:]...)
	}
	return o
}

func bcv18Perms(n int) [][]int {
	var res [][]int
	var rec func(cur []int, used []bool)
	rec = func(cur []int, used []bool) {
		if len(cur) == n {
			res = append(res, append([]int{}, cur...))
			return
		}
		for i := 0; i < n; i++ {
			if !used[i] {
				used[i] = true
				rec(append(cur, i), used)
				used[i] = false
			}
		}
	}
	rec(nil, make([]bool, n))
	return res
}

func bcv18BasicScheds() []bcv18Sched {
	id := func(_ int, l [][2]int) [][2]int { return l }
	rev := func(_ int, l [][2]int) [][2]int { return bcv18Reverse(l) }
	return []bcv18Sched{
		{"round-robin", false, id},
		{"reverse", false, rev},
		{"simultaneous", true, id},
		{"simultaneous-reverse", true, rev},
		{"alternating", false, func(r int, l [][2]int) [][2]int {
			if r%2 == 1 {
				return bcv18Reverse(l)
			}
			return l
		}},
	}
}

// one-at-a-time asynchronous orders: every window of |links| deliveries contains every link once, the order inside
// the window is the (seed + window*step)-th permutation of the links (deterministic enumeration)
func bcv18AsyncScheds() []bcv18Sched {
	var s []bcv18Sched
	for _, p := range [][2]uint64{{1, 7}, {5, 11}, {23, 101}, {97, 1009}, {311, 7919}, {1201, 104729}} {
		seed, step := p[0], p[1]
		s = append(s, bcv18Sched{fmt.Sprintf("async(seed=%d,step=%d)", seed, step), false,
			func(r int, l [][2]int) [][2]int { return bcv18PermByIndex(l, seed+uint64(r)*step) }})
	}
	return s
}

// all permutations of the router order, receiver-major and sender-major
func bcv18PermScheds(n int) []bcv18Sched {
	var s []bcv18Sched
	for _, p := range bcv18Perms(n) {
		p := p
		pos := make([]int, n)
		for i, x := range p {
			pos[x] = i
		}
		s = append(s, bcv18Sched{fmt.Sprintf("receiver-order%v", p), false, func(_ int, l [][2]int) [][2]int {
			o := append([][2]int{}, l...)
			sort.SliceStable(o, func(i, j int) bool {
				if o[i][1] != o[j][1] {
					return pos[o[i][1]] < pos[o[j][1]]
				}
				return pos[o[i][0]] < pos[o[j][0]]
			})
			return o
		}})
		s = append(s, bcv18Sched{fmt.Sprintf("sender-order%v", p), false, func(_ int, l [][2]int) [][2]int {
			o := append([][2]int{}, l...)
			sort.SliceStable(o, func(i, j int) bool {
				if o[i][0] != o[j][0] {
					return pos[o[i][0]] < pos[o[j][0]]
				}
				return pos[o[i][1]] < pos[o[j][1]]
			})
			return o
		}})
	}
	return s
}

// the advertisements of all live routers: (destination, next hop, cost) part and complete (with second-best cost)
func (nt *bcv18Net) snapshot() (string, string) {
	var b, f strings.Builder
	for v := 0; v < nt.n; v++ {
		if !nt.alive[v] {
			continue
		}
		a := nt.own(v)
		fmt.Fprintf(&b, "r%d:", v)
		fmt.Fprintf(&f, "r%d:", v)
		for d := 0; d < nt.n; d++ {
			if e, ok := a[d]; ok {
				fmt.Fprintf(&b, "%d/%d/%d,", d, e.nh, e.cost)
				fmt.Fprintf(&f, "%d/%d/%d/%d,", d, e.nh, e.cost, e.other)
			}
		}
	}
	return b.String(), f.String()
}

func (nt *bcv18Net) round(s bcv18Sched, r int) {
	ls := s.order(r, nt.links())
	nt.trace = append(nt.trace, "|")
	if s.sync {
		wires := map[int][]byte{}
		for _, l := range ls {
			if _, ok := wires[l[0]]; !ok {
				wires[l[0]] = nt.fetchWire(l[0])
			}
		}
		for _, l := range ls {
			adv, ref := nt.parse(l[0], wires[l[0]])
			nt.deliver(l[0], l[1], adv, ref)
		}
		return
	}
	for _, l := range ls {
		adv, ref := nt.fetch(l[0])
		nt.deliver(l[0], l[1], adv, ref)
	}
}

// run full rounds until one of them changes no advertisement (fixed point); returns the number of rounds that
// changed something, the number of rounds after which costs and next hops no longer changed, and whether the fixed
// point was reached within max rounds
func (nt *bcv18Net) runToFixedPoint(s bcv18Sched, max int) (int, int, bool) {
	best, full := nt.snapshot()
	lastBest := 0
	for r := 0; r <= max; r++ {
		if nt.broken {
			return r, lastBest, false
		}
		nt.round(s, r)
		if nt.broken {
			return r, lastBest, false
		}
		b2, f2 := nt.snapshot()
		if b2 != best {
			lastBest = r + 1
		}
		if f2 == full {
			return r, lastBest, true
		}
		best, full = b2, f2
	}
	return max + 1, lastBest, false
}

// ---------------------------------------------------------------- losses

type bcv18Loss struct {
	links   [][2]int
	routers []int
}

func (l bcv18Loss) String() string {
	var p []string
	for _, e := range l.links {
		p = append(p, fmt.Sprintf("link r%d-r%d", e[0], e[1]))
	}
	for _, x := range l.routers {
		p = append(p, fmt.Sprintf("router r%d", x))
	}
	return "lose{" + strings.Join(p, ",") + "}"
}

// make the neighbour look dead to IsDead (last sync Interest seen at the zero time)
func bcv18Expire(ns *table.NeighborState) bool {
	rv := reflect.ValueOf(ns).Elem().FieldByName("lastSeen")
	if !rv.IsValid() || rv.Type() != reflect.TypeOf(time.Time{}) || !rv.CanAddr() {
		return false
	}
	*(*time.Time)(unsafe.Pointer(rv.UnsafeAddr())) = time.Time{}
	return true
}

func (nt *bcv18Net) lose(l bcv18Loss) {
	if nt.broken {
		return
	}
	nt.trace = append(nt.trace, l.String())
	dead := make([][]int, nt.n)
	for _, x := range l.routers {
		if !nt.alive[x] {
			continue
		}
		nt.alive[x] = false
		for v := 0; v < nt.n; v++ {
			if nt.adj[x][v] {
				nt.adj[x][v], nt.adj[v][x] = false, false
				dead[v] = append(dead[v], x)
			}
		}
	}
	for _, e := range l.links {
		if nt.adj[e[0]][e[1]] {
			nt.adj[e[0]][e[1]], nt.adj[e[1]][e[0]] = false, false
			dead[e[0]] = append(dead[e[0]], e[1])
			dead[e[1]] = append(dead[e[1]], e[0])
		}
	}
	for v := 0; v < nt.n; v++ {
		if !nt.alive[v] || len(dead[v]) == 0 {
			continue
		}
		r := nt.r[v]
		viaSweep := true
		r.mutex.Lock()
		for _, u := range dead[v] {
			ns := r.neighbors.Get(nt.names[u])
			if ns == nil {
				continue // never heard of it
			}
			if !bcv18Expire(ns) {
				viaSweep = false
			}
		}
		if !viaSweep {
			// fallback (NeighborState was refactored): the statements checkDeadNeighbors runs for a dead neighbour
			nt.killViaTable = true
			for _, u := range dead[v] {
				r.neighbors.Remove(nt.names[u])
				r.rib.RemoveNextHop(nt.names[u])
				r.rib.Prune()
			}
		}
		r.mutex.Unlock()
		if viaSweep {
			r.checkDeadNeighbors()
		}
		for _, u := range dead[v] {
			nt.last[v][u] = nil
		}
		nt.check(v)
	}
}

// ---------------------------------------------------------------- scenario

// One scenario: bring-up from a clean start under schedule s, then the loss events one after the other, each followed
// by re-convergence under the same schedule.
func bcv18Scenario(n int, edges [][2]int, gname string, s bcv18Sched, losses []bcv18Loss) (nt *bcv18Net) {
	var ls []string
	for _, l := range losses {
		ls = append(ls, l.String())
	}
	nt = bcv18NewNet(n, edges, fmt.Sprintf("graph %s edges %v, schedule %s, losses [%s]", gname, edges, s.name, strings.Join(ls, " then ")))
	defer nt.release()
	stats := os.Getenv("BCV18_STATS") != ""
	// "reaches within a bounded number of exchanges a fixed point in which the cost ... is its hop distance ... the
	// chosen next hop lies on a shortest path": from a clean start every full round (every neighbour pair exchanges
	// once, in whatever order) spreads exact distances one hop further, so costs and next hops must be final after
	// diameter rounds (one round of slack: diameter+1). The advertised second-best costs describe alternative walks of
	// at most n hops: the complete fixed point (no advertisement changes any more) must be reached within diameter+n
	// rounds.
	diam := nt.diameter()
	boundBest, bound := diam+1, diam+n
	if stats {
		bound = 60
	}
	rounds, rbest, ok := nt.runToFixedPoint(s, bound)
	if nt.broken {
		return
	}
	if !ok {
		nt.fail("fixed-point-within-bound", "bring-up: advertisements still change after %d full rounds (diameter %d + %d routers)", bound, diam, n)
		return
	}
	if rbest > boundBest && !stats {
		nt.fail("fixed-point-within-bound", "bring-up: costs / next hops still changed in full round %d (diameter %d + 1 allowed)", rbest, diam)
		return
	}
	nt.stats = append(nt.stats, bcv18Stat{"bringup best-diam", rbest - diam})
	nt.stats = append(nt.stats, bcv18Stat{"bringup full-diam-n", rounds - diam - n})
	nt.checkConverged("after bring-up")
	for _, l := range losses {
		if nt.broken {
			return
		}
		nt.lose(l)
		// "After any link or router loss the tables re-converge to the shortest paths of the remaining topology,
		// unreachable destinations are withdrawn rather than lingering": if the remaining topology has no cycle, poison
		// reverse leaves no alternative to bounce on and the change travels one hop per full round (diameter of the
		// remaining forest + 1 rounds); with cycles a count to infinity may happen but must end at 16 (16 + number of
		// remaining routers rounds).
		forest := nt.forest()
		bound := 16 + nt.nAlive()
		if forest {
			bound = nt.diameter() + 1
		}
		if stats {
			bound = 60
		}
		rounds, rbest, ok := nt.runToFixedPoint(s, bound)
		if nt.broken {
			return
		}
		if !ok {
			nt.fail("reconverges-within-bound", "after %s: advertisements still change after %d full rounds (remaining topology is a forest: %v)", l, bound, forest)
			return
		}
		if forest {
			nt.stats = append(nt.stats, bcv18Stat{"loss forest full-diam", rounds - nt.diameter()})
		} else {
			nt.stats = append(nt.stats, bcv18Stat{"loss cyclic full", rounds})
			nt.stats = append(nt.stats, bcv18Stat{"loss cyclic best", rbest})
		}
		nt.checkConverged("after " + l.String())
	}
	return
}

func (h *bcv18H) stat(key string, v int, where string) {
	if h.stats == nil {
		h.stats = map[string]map[int]int{}
		h.statMaxAt = map[string]string{}
		h.statMax = map[string]int{}
	}
	if h.stats[key] == nil {
		h.stats[key] = map[int]int{}
		h.statMax[key] = -1000
	}
	h.stats[key][v]++
	if v > h.statMax[key] {
		h.statMax[key] = v
		h.statMaxAt[key] = where
	}
}

// ---------------------------------------------------------------- graphs

func bcv18Connected(n int, edges [][2]int) bool {
	adj := make([][]bool, n)
	for i := range adj {
		adj[i] = make([]bool, n)
	}
	for _, e := range edges {
		adj[e[0]][e[1]], adj[e[1]][e[0]] = true, true
	}
	seen := make([]bool, n)
	seen[0] = true
	q := []int{0}
	c := 1
	for len(q) > 0 {
		x := q[0]
		q = q[1:]
		for y := 0; y < n; y++ {
			if adj[x][y] && !seen[y] {
				seen[y] = true
				c++
				q = append(q, y)
			}
		}
	}
	return c == n
}

// all connected simple labelled graphs on n routers
func bcv18AllGraphs(n int) [][][2]int {
	var pairs [][2]int
	for a := 0; a < n; a++ {
		for b := a + 1; b < n; b++ {
			pairs = append(pairs, [2]int{a, b})
		}
	}
	var res [][][2]int
	for m := 1; m < 1<<len(pairs); m++ {
		var e [][2]int
		for i, p := range pairs {
			if m&(1<<i) != 0 {
				e = append(e, p)
			}
		}
		if bcv18Connected(n, e) {
			res = append(res, e)
		}
	}
	return res
}

type bcv18Graph struct {
	name  string
	n     int
	edges [][2]int
}

func bcv18Relabel(g bcv18Graph, p []int, tag string) bcv18Graph {
	o := bcv18Graph{name: g.name + tag, n: g.n}
	for _, e := range g.edges {
		o.edges = append(o.edges, [2]int{p[e[0]], p[e[1]]})
	}
	return o
}

func bcv18BigGraphs() []bcv18Graph {
	gs := []bcv18Graph{
		{"line5", 5, [][2]int{{0, 1}, {1, 2}, {2, 3}, {3, 4}}},
		{"ring5", 5, [][2]int{{0, 1}, {1, 2}, {2, 3}, {3, 4}, {4, 0}}},
		{"star5", 5, [][2]int{{0, 1}, {0, 2}, {0, 3}, {0, 4}}},
		{"diamond5(2+3 hops)", 5, [][2]int{{0, 1}, {1, 4}, {0, 2}, {2, 3}, {3, 4}}},
		{"three-path-diamond5", 5, [][2]int{{0, 1}, {0, 2}, {0, 3}, {1, 4}, {2, 4}, {3, 4}}},
		{"complete5", 5, [][2]int{{0, 1}, {0, 2}, {0, 3}, {0, 4}, {1, 2}, {1, 3}, {1, 4}, {2, 3}, {2, 4}, {3, 4}}},
		{"line6", 6, [][2]int{{0, 1}, {1, 2}, {2, 3}, {3, 4}, {4, 5}}},
		{"ring6", 6, [][2]int{{0, 1}, {1, 2}, {2, 3}, {3, 4}, {4, 5}, {5, 0}}},
		{"star6", 6, [][2]int{{0, 1}, {0, 2}, {0, 3}, {0, 4}, {0, 5}}},
		{"ring5+pendant", 6, [][2]int{{0, 1}, {1, 2}, {2, 3}, {1, 4}, {4, 5}, {5, 3}}},
		{"two-triangles+bridge", 6, [][2]int{{0, 1}, {1, 2}, {2, 0}, {2, 3}, {3, 4}, {4, 5}, {5, 3}}},
		{"two-path-diamond6(3+3 hops)", 6, [][2]int{{0, 1}, {1, 2}, {2, 5}, {0, 3}, {3, 4}, {4, 5}}},
	}
	var out []bcv18Graph
	for _, g := range gs {
		out = append(out, g)
		rev := make([]int, g.n)
		rot := make([]int, g.n)
		for i := range rev {
			rev[i] = g.n - 1 - i
			rot[i] = (i*2 + 1) % g.n
			if g.n%2 == 0 {
				rot[i] = (i + g.n/2) % g.n
			}
		}
		out = append(out, bcv18Relabel(g, rev, "/relabelled-reverse"))
		out = append(out, bcv18Relabel(g, rot, "/relabelled-rotate"))
	}
	return out
}

func bcv18SingleLosses(n int, edges [][2]int) []bcv18Loss {
	var l []bcv18Loss
	for _, e := range edges {
		l = append(l, bcv18Loss{links: [][2]int{e}})
	}
	for x := 0; x < n; x++ {
		l = append(l, bcv18Loss{routers: []int{x}})
	}
	return l
}

func bcv18PairLosses(n int, edges [][2]int) []bcv18Loss {
	s := bcv18SingleLosses(n, edges)
	var l []bcv18Loss
	for i := 0; i < len(s); i++ {
		for j := i + 1; j < len(s); j++ {
			l = append(l, bcv18Loss{links: append(append([][2]int{}, s[i].links...), s[j].links...),
				routers: append(append([]int{}, s[i].routers...), s[j].routers...)})
		}
	}
	return l
}

type bcv18Job struct {
	n      int
	edges  [][2]int
	gname  string
	s      bcv18Sched
	losses []bcv18Loss
}

func TestBoundedDvConverge(t *testing.T) {
	log.SetLevel(log.FatalLevel)
	defer debug.SetGCPercent(debug.SetGCPercent(400)) // many short-lived routers; the live heap is small
	t0 := time.Now()
	h := &bcv18H{failed: map[string]bool{}, tie: map[string]int{}, tieWhere: map[string]string{}}

	basic := bcv18BasicScheds()
	async := bcv18AsyncScheds()
	var jobs []bcv18Job
	add := func(n int, edges [][2]int, gname string, s bcv18Sched, losses []bcv18Loss) {
		jobs = append(jobs, bcv18Job{n, edges, gname, s, losses})
	}

	// Part 1: all connected graphs on 2..4 routers.
	for n := 2; n <= 4; n++ {
		scheds := append(append(append([]bcv18Sched{}, basic...), async...), bcv18PermScheds(n)...)
		for gi, edges := range bcv18AllGraphs(n) {
			gname := fmt.Sprintf("n%d#%d", n, gi)
			// (a) bring-up under every schedule
			for _, s := range scheds {
				add(n, edges, gname, s, nil)
			}
			// (b) every single loss under three schedules; every simultaneous pair of losses (round-robin) and
			// every sequence of a single loss followed by the loss of a(nother) router (simultaneous exchange)
			single := bcv18SingleLosses(n, edges)
			for _, s := range []bcv18Sched{basic[0], basic[2], async[2]} {
				for _, l := range single {
					add(n, edges, gname, s, []bcv18Loss{l})
				}
			}
			for _, l := range bcv18PairLosses(n, edges) {
				add(n, edges, gname, basic[0], []bcv18Loss{l})
			}
			for _, l1 := range single {
				for _, l2 := range single {
					if len(l2.routers) == 1 && !(len(l1.routers) == 1 && l1.routers[0] == l2.routers[0]) {
						add(n, edges, gname, basic[2], []bcv18Loss{l1, l2})
					}
				}
			}
		}
	}

	// Part 2: selected graphs on 5 and 6 routers (three labellings each).
	for gi, g := range bcv18BigGraphs() {
		for _, s := range append(append([]bcv18Sched{}, basic...), async...) {
			add(g.n, g.edges, g.name, s, nil)
		}
		single := bcv18SingleLosses(g.n, g.edges)
		lossScheds := []bcv18Sched{basic[0], basic[2]}
		if gi%3 == 1 {
			lossScheds = []bcv18Sched{async[1]} // first relabelled copy: single losses under one asynchronous order
		} else if gi%3 == 2 {
			continue // second relabelled copy: bring-up only
		}
		for _, s := range lossScheds {
			for _, l := range single {
				add(g.n, g.edges, g.name, s, []bcv18Loss{l})
			}
		}
		if gi%3 != 0 {
			continue
		}
		// two routers lost in the same sweep
		for a := 0; a < g.n; a++ {
			for b := a + 1; b < g.n; b++ {
				add(g.n, g.edges, g.name, basic[0], []bcv18Loss{{routers: []int{a, b}}})
			}
		}
	}

	// The scenarios are independent of each other (own routers); they are run by a few workers and their results are
	// merged in scenario order, so the report does not depend on the interleaving of the workers.
	if p := os.Getenv("BCV18_PART"); p != "" { // development aid
		var sel []bcv18Job
		for _, j := range jobs {
			if (p == "1") == (j.n <= 4) {
				sel = append(sel, j)
			}
		}
		jobs = sel
	}
	results := make([]*bcv18Net, len(jobs))
	workers := runtime.NumCPU()
	if workers > 4 {
		workers = 4
	}
	if w, err := strconv.Atoi(os.Getenv("BCV18_WORKERS")); err == nil && w > 0 {
		workers = w
	}
	var next int64 = -1
	var wg sync.WaitGroup
	for w := 0; w < workers; w++ {
		wg.Add(1)
		go func() {
			defer wg.Done()
			for {
				i := int(atomic.AddInt64(&next, 1))
				if i >= len(jobs) {
					return
				}
				j := jobs[i]
				nt := bcv18Scenario(j.n, j.edges, j.gname, j.s, j.losses)
				nt.r, nt.last, nt.trace = nil, nil, nil
				results[i] = nt
			}
		}()
	}
	wg.Wait()

	for _, nt := range results {
		for _, f := range nt.fails {
			h.fail(f.clause, f.msg)
		}
		// "ties are broken the same way every time": the choice among equally good neighbours must be the same in
		// every graph, schedule and history in which the same router faces the same candidates
		keys := make([]string, 0, len(nt.ties))
		for k := range nt.ties {
			keys = append(keys, k)
		}
		sort.Strings(keys)
		for _, k := range keys {
			chosen := nt.ties[k]
			if prev, ok := h.tie[k]; !ok {
				h.tie[k], h.tieWhere[k] = chosen, nt.desc
			} else if prev != chosen {
				h.fail("tie-break-deterministic", fmt.Sprintf("router|role|equally good neighbours = %s: chose r%d in [%s] but r%d in [%s]", k, chosen, nt.desc, prev, h.tieWhere[k]))
			}
		}
		for _, st := range nt.stats {
			h.stat(st.key, st.v, nt.desc)
		}
		h.killViaTable = h.killViaTable || nt.killViaTable
	}

	if os.Getenv("BCV18_STATS") != "" {
		var keys []string
		for k := range h.stats {
			keys = append(keys, k)
		}
		sort.Strings(keys)
		for _, k := range keys {
			fmt.Printf("BOUNDED-NOTE stat %s: %v max at %s\n", k, h.stats[k], h.statMaxAt[k])
		}
	}
	fmt.Printf("BOUNDED-NOTE dv-converge: tie-break memo %d keys; dead neighbours via table-level fallback: %v; %d workers; %.1fs\n",
		len(h.tie), h.killViaTable, workers, time.Since(t0).Seconds())
	fmt.Printf("BOUNDED-CASES %d\n", len(jobs))
}
