// Bounded stand-in for property C06 ("The FIB always equals the flattening of the
// currently registered routes"). In-package test of fw/table, injected with
// `go test -overlay`; nothing here is a proof - it is an exhaustive check of the REAL
// RibTable / FibStrategyTable code against a naive oracle over the finite bound
// stated in brfUniverses below.
//
// Oracle (written from the statement of C06, not from rib.go):
//
//	R            = the list of currently registered routes (prefix, face, origin, cost, flags),
//	               maintained by the harness itself: register = insert or overwrite the
//	               (prefix, face, origin) slot, unregister = delete the slot, face removal =
//	               delete every slot of the face.
//	contrib(P)   = routes of R on P
//	             + (only if no route on P has the capture flag) for every proper prefix Q of P,
//	               from the longest to the root: the child-inherit routes of R on Q, stopping
//	               after the first Q that holds a capture route (that Q is included).
//	flatten(P)   = { face -> min cost over contrib(P) }         defined only if P has routes in R
//	lookup(N)    = flatten(P) for the longest prefix P of N that has routes in R, else nothing
//	               (prefixes without routes contribute nothing of their own)
//
// Checked after EVERY operation of every enumerated history:
//
//	#missing-hop / #extra-hop / #min-cost   FindNextHopsEnc(N) == lookup(N) for every N of the
//	                                        15-name universe ("every prefix that has routes forwards
//	                                        to exactly its own routes' faces plus ... each face at the
//	                                        minimum cost"; "once a route or a face is removed no next
//	                                        hop derived from it remains anywhere")
//	#listing                                GetAllFIBEntries() == { P -> flatten(P) | P has routes }
//	#prefix-without-routes / #root-entry    a listed prefix that has no routes in R ("Prefixes without
//	                                        routes contribute nothing of their own (in particular nothing
//	                                        ever appears in the root entry that was not registered there)")
//	#rib-listing                            RibTable.GetAllEntries() == R (observe_at of C06)
//	#panic                                  the code under test panicked
package table

import (
	"fmt"
	"runtime/debug"
	"sort"
	"strings"
	"testing"

	"github.com/named-data/ndnd/fw/core"
	enc "github.com/named-data/ndnd/std/encoding"
)

// ---- name universe: all names over {a,b} of depth 0..3 (15 names, index 0 is the root "/") ----

type brfNameT struct {
	str    string
	name   enc.Name
	parent int // index of the name one component shorter, -1 for the root
}

var brfNames []brfNameT
var brfNameIdx map[string]int

func brfInitNames() {
	if brfNames != nil {
		return
	}
	brfNameIdx = map[string]int{}
	add := func(s string, parent int) int {
		n, err := enc.NameFromStr(s)
		if err != nil {
			panic(err)
		}
		brfNames = append(brfNames, brfNameT{str: s, name: n, parent: parent})
		brfNameIdx[s] = len(brfNames) - 1
		return len(brfNames) - 1
	}
	root := add("/", -1)
	level := []int{root}
	for d := 1; d <= 3; d++ {
		var next []int
		for _, p := range level {
			for _, c := range []string{"a", "b"} {
				s := brfNames[p].str
				if s == "/" {
					s = ""
				}
				next = append(next, add(s+"/"+c, p))
			}
		}
		level = next
	}
}

// ---- operations ----

const (
	brfAdd = iota
	brfRemove
	brfCleanup
)

type brfOp struct {
	kind   int
	name   int
	face   uint64
	origin uint64
	cost   uint64
	flags  uint64
}

func (o brfOp) String() string {
	fl := []string{"0", "CI", "CAP", "CI|CAP"}[o.flags&3]
	switch o.kind {
	case brfAdd:
		return fmt.Sprintf("add(%s,face=%d,origin=%d,cost=%d,flags=%s)", brfNames[o.name].str, o.face, o.origin, o.cost, fl)
	case brfRemove:
		return fmt.Sprintf("remove(%s,face=%d,origin=%d)", brfNames[o.name].str, o.face, o.origin)
	}
	return fmt.Sprintf("cleanupFace(%d)", o.face)
}

func brfSeqString(seq []brfOp) string {
	parts := make([]string, len(seq))
	for i, o := range seq {
		parts[i] = o.String()
	}
	return strings.Join(parts, ";")
}

type brfUniverse struct {
	label   string // universes whose label starts with "t:" are run on the name-tree FIB only
	names   []string
	faces   []uint64
	origins []uint64
	costs   []uint64
	flags   []uint64
	length  int
}

// The bound. Every universe is enumerated EXHAUSTIVELY: all operation sequences of length
// 1..length over add(name,face,origin,cost,flags) x remove(name,face,origin) x cleanupFace(face),
// including re-registration (add on an occupied slot with changed cost/flags), removal of
// routes that do not exist and clean-up of faces without routes.
var brfUniverses = []brfUniverse{
	// chain with the root and gaps (/a/b/a registered without /a/b etc.), two faces, all four flag combinations
	{"chain", []string{"/", "/a", "/a/b", "/a/b/a"}, []uint64{1, 2}, []uint64{0}, []uint64{1}, []uint64{0, 1, 2, 3}, 3},
	// several routes of one face on one prefix (two origins), two costs: min-cost and multi-route clean-up
	{"t:origins", []string{"/a", "/a/b", "/a/b/a"}, []uint64{1}, []uint64{0, 255}, []uint64{1, 2}, []uint64{0, 1}, 3},
	// three faces on two nested prefixes: several routes per prefix with different flags (a capture route
	// next to a plain one), where inherited and own faces can be told apart
	{"t:faces3", []string{"/a", "/a/b"}, []uint64{1, 2, 3}, []uint64{0}, []uint64{1}, []uint64{0, 1, 2, 3}, 3},
	// the whole 15-name universe (siblings, all depths), short histories
	{"wide", nil /* all 15 */, []uint64{1, 2}, []uint64{0}, []uint64{1}, []uint64{0, 1, 2, 3}, 2},
	// longer histories: root + a prefix below a name-less filler node, child-inherit and capture
	{"long", []string{"/", "/a/b"}, []uint64{1, 2}, []uint64{0}, []uint64{1}, []uint64{1, 2}, 4},
}

func (u *brfUniverse) ops() []brfOp {
	var names []int
	if u.names == nil {
		for i := range brfNames {
			names = append(names, i)
		}
	} else {
		for _, s := range u.names {
			names = append(names, brfNameIdx[s])
		}
	}
	var ops []brfOp
	for _, n := range names {
		for _, f := range u.faces {
			for _, o := range u.origins {
				for _, c := range u.costs {
					for _, fl := range u.flags {
						ops = append(ops, brfOp{kind: brfAdd, name: n, face: f, origin: o, cost: c, flags: fl})
					}
				}
			}
		}
	}
	for _, n := range names {
		for _, f := range u.faces {
			for _, o := range u.origins {
				ops = append(ops, brfOp{kind: brfRemove, name: n, face: f, origin: o})
			}
		}
	}
	for _, f := range u.faces {
		ops = append(ops, brfOp{kind: brfCleanup, face: f})
	}
	return ops
}

// ---- the oracle ----

type brfRoute struct {
	name   int
	face   uint64
	origin uint64
	cost   uint64
	flags  uint64
}

type brfOracle struct {
	routes []brfRoute
}

func (o *brfOracle) apply(op brfOp) {
	switch op.kind {
	case brfAdd:
		for i := range o.routes {
			r := &o.routes[i]
			if r.name == op.name && r.face == op.face && r.origin == op.origin {
				r.cost, r.flags = op.cost, op.flags
				return
			}
		}
		o.routes = append(o.routes, brfRoute{op.name, op.face, op.origin, op.cost, op.flags})
	case brfRemove:
		for i := range o.routes {
			r := o.routes[i]
			if r.name == op.name && r.face == op.face && r.origin == op.origin {
				o.routes = append(o.routes[:i], o.routes[i+1:]...)
				return
			}
		}
	case brfCleanup:
		kept := o.routes[:0]
		for _, r := range o.routes {
			if r.face != op.face {
				kept = append(kept, r)
			}
		}
		o.routes = kept
	}
}

func (o *brfOracle) hasRoutes(p int) bool {
	for _, r := range o.routes {
		if r.name == p {
			return true
		}
	}
	return false
}

func (o *brfOracle) hasCapture(p int) bool {
	for _, r := range o.routes {
		if r.name == p && r.flags&2 != 0 {
			return true
		}
	}
	return false
}

// hop sets are tiny: face -> cost+1 (0 = absent), faces are 1..3
type brfHops [5]uint64

func (h brfHops) String() string {
	var parts []string
	for f, c := range h {
		if c != 0 {
			parts = append(parts, fmt.Sprintf("%d:%d", f, c-1))
		}
	}
	return "{" + strings.Join(parts, ",") + "}"
}

func (o *brfOracle) flatten(p int) brfHops {
	var h brfHops
	put := func(r brfRoute) {
		if h[r.face] == 0 || r.cost+1 < h[r.face] {
			h[r.face] = r.cost + 1
		}
	}
	for _, r := range o.routes {
		if r.name == p {
			put(r)
		}
	}
	if !o.hasCapture(p) {
		for q := brfNames[p].parent; q >= 0; q = brfNames[q].parent {
			for _, r := range o.routes {
				if r.name == q && r.flags&1 != 0 {
					put(r)
				}
			}
			if o.hasCapture(q) {
				break
			}
		}
	}
	return h
}

func (o *brfOracle) lookup(n int) brfHops {
	for p := n; p >= 0; p = brfNames[p].parent {
		if o.hasRoutes(p) {
			return o.flatten(p)
		}
	}
	return brfHops{}
}

// ---- the run ----

type brfRun struct {
	fibLabel string
	mkFib    func()
	fails    map[string]bool
	cases    int
}

var brfFailed = map[string]bool{}

func brfFail(clause string, format string, args ...any) {
	if brfFailed[clause] {
		return
	}
	brfFailed[clause] = true
	fmt.Printf("BOUNDED-FAIL bounded:rib-flatten#%s %s\n", clause, fmt.Sprintf(format, args...))
}

func brfActualHops(nhs []*FibNextHopEntry) (h brfHops, bad string) {
	for _, nh := range nhs {
		if nh.Nexthop >= uint64(len(h)) {
			return h, fmt.Sprintf("face %d outside the universe", nh.Nexthop)
		}
		if h[nh.Nexthop] != 0 {
			bad = fmt.Sprintf("face %d listed twice", nh.Nexthop)
		}
		h[nh.Nexthop] = nh.Cost + 1
	}
	return h, bad
}

func brfClassify(exp, got brfHops) string {
	for f := range exp {
		if got[f] != 0 && exp[f] == 0 {
			return "extra-hop"
		}
	}
	for f := range exp {
		if got[f] == 0 && exp[f] != 0 {
			return "missing-hop"
		}
	}
	return "min-cost"
}

func brfMkHashtable(m uint16) func() {
	return func() {
		cfg := core.GetConfig()
		if cfg == nil {
			cfg = core.DefaultConfig()
			core.LoadConfig(cfg, "")
		}
		old := cfg.Tables.Fib.Hashtable.M
		cfg.Tables.Fib.Hashtable.M = m
		CreateFIBTable("hashtable")
		cfg.Tables.Fib.Hashtable.M = old
	}
}

// brfHistory replays seq on a fresh RIB + fresh FIB and checks the state after the LAST
// operation (the states after the shorter prefixes are checked when the prefix itself is
// enumerated - every prefix of an enumerated sequence is an enumerated sequence).
func brfHistory(fibLabel string, mkFib func(), seq []brfOp) {
	defer func() {
		if r := recover(); r != nil {
			brfFail("panic", "fib=%s ops=%s panic: %v", fibLabel, brfSeqString(seq), r)
		}
	}()
	mkFib()
	rib := RibTable{RibEntry: RibEntry{children: map[*RibEntry]bool{}}}
	var o brfOracle
	for _, op := range seq {
		o.apply(op)
		switch op.kind {
		case brfAdd:
			rib.AddEncRoute(brfNames[op.name].name, &Route{FaceID: op.face, Origin: op.origin, Cost: op.cost, Flags: op.flags})
		case brfRemove:
			rib.RemoveRouteEnc(brfNames[op.name].name, op.face, op.origin)
		case brfCleanup:
			rib.CleanUpFace(op.face)
		}
	}

	// lookups of every name of the universe
	for n := range brfNames {
		exp := o.lookup(n)
		got, bad := brfActualHops(FibStrategyTable.FindNextHopsEnc(brfNames[n].name))
		if bad != "" {
			brfFail("extra-hop", "fib=%s ops=%s lookup %s: %s (got %v)", fibLabel, brfSeqString(seq), brfNames[n].str, bad, got)
		} else if exp != got {
			brfFail(brfClassify(exp, got), "fib=%s ops=%s lookup %s: expected %v got %v", fibLabel, brfSeqString(seq), brfNames[n].str, exp, got)
		}
	}

	// FIB listing
	var seen [15]bool
	for _, e := range FibStrategyTable.GetAllFIBEntries() {
		idx := brfFindName(e.Name())
		if idx < 0 {
			brfFail("listing", "fib=%s ops=%s FIB lists unknown prefix %q", fibLabel, brfSeqString(seq), e.Name().String())
			continue
		}
		got, bad := brfActualHops(e.GetNextHops())
		if !o.hasRoutes(idx) {
			clause := "prefix-without-routes"
			if idx == 0 {
				clause = "root-entry"
			}
			brfFail(clause, "fib=%s ops=%s FIB lists %s -> %v but no route is registered there", fibLabel, brfSeqString(seq), brfNames[idx].str, got)
			continue
		}
		if seen[idx] {
			brfFail("listing", "fib=%s ops=%s FIB lists %s twice", fibLabel, brfSeqString(seq), brfNames[idx].str)
		}
		seen[idx] = true
		if exp := o.flatten(idx); bad != "" || exp != got {
			brfFail("listing", "fib=%s ops=%s FIB entry %s: expected %v got %v %s", fibLabel, brfSeqString(seq), brfNames[idx].str, exp, got, bad)
		}
	}
	for n := range brfNames {
		if o.hasRoutes(n) && !seen[n] {
			brfFail("listing", "fib=%s ops=%s FIB has no entry for %s, expected %v", fibLabel, brfSeqString(seq), brfNames[n].str, o.flatten(n))
		}
	}

	// RIB listing: every listed route is a route of R with the same cost and flags, and the counts agree
	nGot := 0
	ribOK := true
	for _, e := range rib.GetAllEntries() {
		idx := brfFindName(e.Name)
		for _, r := range e.GetRoutes() {
			nGot++
			found := false
			for _, x := range o.routes {
				if x.name == idx && x.face == r.FaceID && x.origin == r.Origin && x.cost == r.Cost && x.flags == r.Flags {
					found = true
					break
				}
			}
			if !found {
				ribOK = false
			}
		}
	}
	if !ribOK || nGot != len(o.routes) {
		var gotR, expR []string
		for _, e := range rib.GetAllEntries() {
			for _, r := range e.GetRoutes() {
				gotR = append(gotR, fmt.Sprintf("%s f%d o%d c%d fl%d", e.Name.String(), r.FaceID, r.Origin, r.Cost, r.Flags))
			}
		}
		for _, r := range o.routes {
			expR = append(expR, fmt.Sprintf("%s f%d o%d c%d fl%d", brfNames[r.name].str, r.face, r.origin, r.cost, r.flags))
		}
		sort.Strings(gotR)
		sort.Strings(expR)
		brfFail("rib-listing", "fib=%s ops=%s RIB: expected [%s] got [%s]", fibLabel, brfSeqString(seq), strings.Join(expR, "|"), strings.Join(gotR, "|"))
	}
}

// brfFindName maps a name handed out by the code under test to its index in the universe (-1 if unknown).
func brfFindName(n enc.Name) int {
	for i := range brfNames {
		if len(brfNames[i].name) == len(n) && brfNames[i].name.Equal(n) {
			return i
		}
	}
	return -1
}

// brfEnumerate runs every sequence of exactly `length` operations (called for length = 1, 2, ...
// so that the first failing case reported for a clause is a shortest one).
func brfEnumerate(fibLabel string, mkFib func(), ops []brfOp, seq []brfOp, length int, cases *int) {
	for _, op := range ops {
		seq = append(seq, op)
		if len(seq) < length {
			brfEnumerate(fibLabel, mkFib, ops, seq, length, cases)
		} else {
			brfHistory(fibLabel, mkFib, seq)
			*cases++
		}
		seq = seq[:len(seq)-1]
	}
}

func TestBoundedRibFlatten(t *testing.T) {
	brfInitNames()
	saved := FibStrategyTable
	defer func() { FibStrategyTable = saved }()
	// the code under test allocates on every call; collect less often (the live heap is a few kB)
	defer debug.SetGCPercent(debug.SetGCPercent(2000))

	fibs := []struct {
		label string
		mk    func()
	}{
		{"nametree", func() { CreateFIBTable("nametree") }},
		{"hashtable(m=2)", brfMkHashtable(2)},
	}
	total := 0
	for _, fib := range fibs {
		for i := range brfUniverses {
			u := &brfUniverses[i]
			if strings.HasPrefix(u.label, "t:") && fib.label != "nametree" {
				// these universes vary what the RIB computes on one or two fixed prefixes; the FIB
				// implementation only stores the result (time budget)
				continue
			}
			cases := 0
			for l := 1; l <= u.length; l++ {
				brfEnumerate(fib.label, fib.mk, u.ops(), nil, l, &cases)
			}
			total += cases
			t.Logf("rib-flatten %s/%s: %d ops, length<=%d, %d histories", fib.label, u.label, len(u.ops()), u.length, cases)
		}
	}
	// the wide universe once more with the virtual depth m=1 (all names of depth >= 1 are "long")
	{
		u := &brfUniverses[3]
		cases := 0
		for l := 1; l <= u.length; l++ {
			brfEnumerate("hashtable(m=1)", brfMkHashtable(1), u.ops(), nil, l, &cases)
		}
		total += cases
	}
	fmt.Printf("BOUNDED-CASES %d\n", total)
	if len(brfFailed) > 0 {
		t.Logf("rib-flatten: %d clause(s) violated", len(brfFailed))
	}
}
