package face

// Bounded stand-in for C11 (forwarder side): readTlvStream, the framing loop shared by the TCP / Unix-stream / UDP transports.
//
// Property C11: "For any sequence of well-formed TLV blocks, each no larger than the maximum packet size, sent over a stream
// face and read back in chunks of arbitrary sizes - one byte at a time, or many blocks per read - the receiver hands the link
// layer exactly those blocks, byte-identical and in order, none lost, duplicated, split or merged. This holds for streams of
// unbounded total length: moving unread bytes to the front of the receive buffer never corrupts a partially received block."
//
// ORACLE (written from the statement, no code of the repository involved): the test builds the blocks itself (TLV-TYPE and
// TLV-LENGTH encoded by hand per the NDN packet format: one byte below 253, else 0xFD + 2 bytes big endian), concatenates them
// into the stream, and the expected list of frames IS that list of blocks. What the receiver hands to onFrame is copied and
// compared with it:
//   #none-lost-duplicated-split-merged  the number of frames and the length of every frame equal those of the blocks sent
//                                       ("exactly those blocks ... none lost, duplicated, split or merged")
//   #byte-identical-in-order            frame i is byte-identical to block i ("byte-identical and in order")
//   #long-stream-*                      the same two checks for streams longer than the 32*8800 byte receive buffer
//                                       ("streams of unbounded total length: moving unread bytes to the front ... never corrupts")
//   #no-empty-read                      the receiver never polls the connection with an empty buffer (a net.Conn answers that
//                                       with (0, nil) at once: the loop would spin and every later block is lost)
//   #oversize-refused                   companion for the hypothesis "each no larger than the maximum packet size": a block that is
//                                       larger is not handed to the link layer, the blocks before it are, and the loop ends
//
// The fake io.Reader delivers the stream in a prescribed chunking: a chunk that does not fit into the caller's buffer is continued
// by the following Read calls (socket backlog); EOF comes either by itself (n == 0) or together with the last bytes (n > 0, io.EOF);
// optionally a transient error (ignored through ignoreError, like a read timeout) is interleaved, with or without bytes.

import (
	"bytes"
	"errors"
	"fmt"
	"io"
	"testing"
)

const scMaxPkt = 8800           // maximum packet size of the property
const scRecvBuf = 32 * scMaxPkt // size of the receive buffer the chunkings are aligned to (32*8800)

var errScStuck = errors.New("sc: receiver keeps reading into an empty buffer")
var errScTemp = errors.New("sc: transient error")

type scReader struct {
	data        []byte
	pos         int
	chunks      []int // sizes; cycled when exhausted
	ci          int
	left        int // rest of the current chunk
	eofWithLast bool
	tempMode    int // 0 none, 1 transient error between chunks (n == 0), 2 transient error together with the bytes of every 3rd chunk
	tempToggle  bool
	nreads      int
	emptyReads  int
}

func (r *scReader) Read(p []byte) (int, error) {
	r.nreads++
	if len(p) == 0 {
		r.emptyReads++
		if r.emptyReads >= 50 {
			return 0, errScStuck
		}
		return 0, nil
	}
	if r.pos >= len(r.data) {
		return 0, io.EOF
	}
	if r.left == 0 {
		if r.tempMode == 1 && !r.tempToggle {
			r.tempToggle = true
			return 0, errScTemp
		}
		r.tempToggle = false
		r.left = r.chunks[r.ci%len(r.chunks)]
		r.ci++
		if r.left <= 0 {
			r.left = 1
		}
	}
	n := r.left
	if n > len(p) {
		n = len(p)
	}
	if n > len(r.data)-r.pos {
		n = len(r.data) - r.pos
	}
	copy(p, r.data[r.pos:r.pos+n])
	r.pos += n
	r.left -= n
	if r.pos == len(r.data) && r.eofWithLast {
		return n, io.EOF
	}
	if r.tempMode == 2 && r.left == 0 && r.ci%3 == 0 {
		return n, errScTemp
	}
	return n, nil
}

// scNum: NDN-TLV variable-length number, written from the packet format specification.
func scNum(v int) []byte {
	if v < 253 {
		return []byte{byte(v)}
	}
	if v <= 0xffff {
		return []byte{0xfd, byte(v >> 8), byte(v)}
	}
	panic("sc: number too large for this harness")
}

// scBlock builds a well-formed block of exactly `total` bytes whose TLV-TYPE uses the 1-byte (tform=1) or 3-byte (tform=3) form;
// the TLV-LENGTH form follows from the value length. Returns nil if no such block exists (e.g. 255 bytes with a 1-byte type).
func scBlock(total, tform int, seed uint32) []byte {
	var typ []byte
	if tform == 1 {
		typ = []byte{[]byte{0x05, 0x06, 0x64, 0x50}[seed%4]}
	} else {
		typ = scNum(800 + int(seed%7)) // 0xFD 0x03 0x2x
	}
	for vlen := 0; vlen <= total; vlen++ {
		l := scNum(vlen)
		if len(typ)+len(l)+vlen == total {
			b := append(append([]byte{}, typ...), l...)
			x := seed*2654435761 + 99991
			for i := 0; i < vlen; i++ {
				x = x*1664525 + 1013904223
				b = append(b, byte(x>>24))
			}
			return b
		}
	}
	return nil
}

type scResult struct {
	frames     [][]byte
	err        error
	emptyReads int
	nreads     int
}

func scRun(stream []byte, chunks []int, eofWithLast bool, tempMode int) scResult {
	rd := &scReader{data: stream, chunks: chunks, eofWithLast: eofWithLast, tempMode: tempMode}
	var res scResult
	func() {
		defer func() {
			if p := recover(); p != nil { // a crash of the receive loop loses every later block; reported through the count clause
				res.err = fmt.Errorf("PANIC in readTlvStream: %v", p)
			}
		}()
		res.err = readTlvStream(rd, func(b []byte) {
			res.frames = append(res.frames, append([]byte(nil), b...))
		}, func(err error) bool { return errors.Is(err, errScTemp) })
	}()
	res.emptyReads = rd.emptyReads
	res.nreads = rd.nreads
	return res
}

type scChecker struct {
	failed map[string]bool
	cases  int
}

func (c *scChecker) fail(clause, format string, a ...interface{}) {
	if c.failed[clause] {
		return
	}
	c.failed[clause] = true
	fmt.Printf("BOUNDED-FAIL bounded:stream-chunking#%s %s\n", clause, fmt.Sprintf(format, a...))
}

func scDescribe(blocks [][]byte) string {
	if len(blocks) > 12 {
		return fmt.Sprintf("%d blocks (first sizes %s...)", len(blocks), scDescribe(blocks[:6]))
	}
	s := "["
	for i, b := range blocks {
		if i > 0 {
			s += " "
		}
		tl := 1
		if b[0] == 0xfd {
			tl = 3
		}
		s += fmt.Sprintf("%dB/T%d", len(b), tl)
	}
	return s + "]"
}

func scChunkStr(chunks []int) string {
	if len(chunks) > 10 {
		return fmt.Sprintf("%v...(%d sizes, cycled)", chunks[:10], len(chunks))
	}
	return fmt.Sprintf("%v", chunks)
}

// check one (blocks, chunking) case against the oracle. prefix selects the clause family ("" or "long-stream-").
func (c *scChecker) check(prefix string, blocks [][]byte, chunks []int, eofWithLast bool, tempMode int) {
	c.cases++
	stream := bytes.Join(blocks, nil)
	res := scRun(stream, chunks, eofWithLast, tempMode)
	what := fmt.Sprintf("blocks %s (stream %d bytes), chunk sizes %s, EOF-with-last-bytes=%v, transient-error-mode=%d",
		scDescribe(blocks), len(stream), scChunkStr(chunks), eofWithLast, tempMode)
	if res.emptyReads > 0 {
		c.fail("no-empty-read", "%s: Read was called with an empty buffer %d times after %d of %d blocks (err=%v)",
			what, res.emptyReads, len(res.frames), len(blocks), res.err)
	}
	countClause, bytesClause := "none-lost-duplicated-split-merged", "byte-identical-in-order"
	if prefix != "" {
		countClause, bytesClause = prefix+"count", prefix+"bytes"
	}
	okShape := len(res.frames) == len(blocks)
	if okShape {
		for i := range blocks {
			if len(res.frames[i]) != len(blocks[i]) {
				okShape = false
				c.fail(countClause, "%s: frame %d has %d bytes, block %d was %d bytes (err=%v)", what, i, len(res.frames[i]), i, len(blocks[i]), res.err)
				break
			}
		}
	} else {
		c.fail(countClause, "%s: %d blocks sent, %d frames handed to the link layer (err=%v)", what, len(blocks), len(res.frames), res.err)
	}
	if okShape {
		for i := range blocks {
			if !bytes.Equal(res.frames[i], blocks[i]) {
				j := 0
				for j < len(blocks[i]) && res.frames[i][j] == blocks[i][j] {
					j++
				}
				c.fail(bytesClause, "%s: frame %d differs from block %d at byte %d (want %#x got %#x)", what, i, i, j, blocks[i][j], res.frames[i][j])
				break
			}
		}
		if res.err != nil {
			c.fail(countClause, "%s: all blocks delivered but the loop ended with error %v instead of the end of the stream", what, res.err)
		}
	}
}

// the block universe: total sizes {2, 3, 255, 256, 257, 8800} of the brief (+ their neighbours 4, 254, 259 which are the
// nearest sizes that exist for the other TYPE form), with 1- and 3-byte TYPE and 1- and 3-byte LENGTH forms:
//
//	T1/L1: 2, 3, 254   T3/L1: 4, 255, 256   T1/L3: 257, 8800   T3/L3: 259, 8800
func scUniverse() [][]byte {
	spec := []struct{ total, tform int }{
		{2, 1}, {3, 1}, {4, 3}, {254, 1}, {255, 3}, {256, 3}, {257, 1}, {259, 3}, {8800, 1}, {8800, 3},
	}
	var u [][]byte
	for i, s := range spec {
		b := scBlock(s.total, s.tform, uint32(i+1))
		if b == nil {
			panic(fmt.Sprintf("sc: no block of %d bytes with %d-byte type", s.total, s.tform))
		}
		u = append(u, b)
	}
	return u
}

func scBoundaries(blocks [][]byte) []int {
	var bs []int
	off := 0
	for _, b := range blocks {
		off += len(b)
		bs = append(bs, off)
	}
	return bs
}

func TestBoundedStreamChunking(t *testing.T) {
	c := &scChecker{failed: map[string]bool{}}
	defer func() { // a crash outside a guarded case: report it and the cases run so far instead of dying silently
		if p := recover(); p != nil {
			fmt.Printf("BOUNDED-FAIL bounded:stream-chunking#panic after %d cases: %v\n", c.cases, p)
			fmt.Printf("BOUNDED-CASES %d\n", c.cases)
		}
	}()
	u := scUniverse()
	small := u[:8]

	// ---- family A: short sequences, exhaustive cut positions --------------------------------------------------------------
	// A1: every single block and every ordered pair of the 8 small blocks, delivered in two chunks cut at EVERY position
	//     for streams <= 64 bytes, and at every position within 6 bytes of a block start/end (all header splits) plus every
	//     37th position for longer ones; both EOF modes.
	var seqs [][][]byte
	for _, b := range u {
		seqs = append(seqs, [][]byte{b})
	}
	for _, a := range small {
		for _, b := range small {
			seqs = append(seqs, [][]byte{a, b})
		}
	}
	for _, blocks := range seqs {
		n := 0
		for _, b := range blocks {
			n += len(b)
		}
		bounds := append([]int{0}, scBoundaries(blocks)...)
		for cut := 1; cut < n; cut++ {
			near := n <= 64 || cut%37 == 0
			for _, b := range bounds {
				if cut >= b-6 && cut <= b+6 {
					near = true
				}
			}
			if !near || (n > 1000 && cut%2 == 1 && cut > 12 && cut < n-12) {
				continue
			}
			c.check("", blocks, []int{cut, n - cut}, cut%2 == 0, 0)
		}
	}
	// A2: every ordered triple of the three tiniest blocks (2, 3, 4 bytes): every chunking into three chunks.
	for _, a := range u[:3] {
		for _, b := range u[:3] {
			for _, d := range u[:3] {
				blocks := [][]byte{a, b, d}
				n := len(a) + len(b) + len(d)
				for c1 := 1; c1 < n; c1++ {
					for c2 := c1 + 1; c2 < n; c2++ {
						c.check("", blocks, []int{c1, c2 - c1, n - c2}, (c1+c2)%2 == 0, 0)
					}
				}
			}
		}
	}

	// ---- family B: every ordered pair of the whole universe (incl. the two 8800-byte blocks) and two sequences of all ten
	//      blocks, under the named chunking patterns of the property ----------------------------------------------------------
	cyc17 := make([]int, 17)
	for i := range cyc17 {
		cyc17[i] = i + 1
	}
	var seqsB [][][]byte
	for _, a := range u {
		for _, b := range u {
			seqsB = append(seqsB, [][]byte{a, b})
		}
	}
	rev := make([][]byte, len(u))
	for i := range u {
		rev[len(u)-1-i] = u[i]
	}
	seqsB = append(seqsB, u, rev)
	for si, blocks := range seqsB {
		n := 0
		var aligned []int
		for _, b := range blocks {
			n += len(b)
			aligned = append(aligned, len(b))
		}
		var two []int // two blocks per read
		for i := 0; i < len(blocks); i += 2 {
			s := len(blocks[i])
			if i+1 < len(blocks) {
				s += len(blocks[i+1])
			}
			two = append(two, s)
		}
		patterns := [][]int{
			{1},     // one byte at a time
			{n},     // everything in one read (many blocks per read)
			aligned, // one block per read
			two,
			cyc17, // chunk sizes cycling through 1..17
			{len(blocks[0]) + (len(blocks[1])+1)/2, n}, // a whole block and MORE than that many bytes of the next one
			{len(blocks[0]) + 1, len(blocks[1]) - 2, 1, n},
			{len(blocks[0]) - 1, 2, n},
			{4096}, {1460},
		}
		for pi, p := range patterns {
			for eof := 0; eof < 2; eof++ {
				tm := 0
				if (si+pi)%5 == 0 {
					tm = 1 + (si+pi+eof)%2
				}
				c.check("", blocks, p, eof == 1, tm)
			}
		}
	}

	// ---- family C: streams longer than the receive buffer (compaction; offsets must be rewound) -----------------------------
	// C1: 40 maximum-size blocks (alternating TYPE forms)
	var c1 [][]byte
	for i := 0; i < 40; i++ {
		c1 = append(c1, scBlock(scMaxPkt, 1+2*(i%2), uint32(100+i)))
	}
	for pi, p := range [][]int{
		{scMaxPkt},                // boundary-aligned reads; 32 of them fill the receive buffer exactly
		{2 * scMaxPkt},            // two blocks per read
		{40 * scMaxPkt},           // greedy: the first Read fills the whole receive buffer (exactly 32 blocks)
		{scRecvBuf - 1, 1, 12345}, // fills the buffer to one byte short of a block boundary
		{scMaxPkt - 1}, {scMaxPkt + 1}, {scMaxPkt / 2}, {scMaxPkt + 3, scMaxPkt - 3},
		cyc17,
	} {
		c.check("long-stream-", c1, p, pi%2 == 0, 0)
	}
	// C2: boundary-aligned reads of smaller blocks whose running total hits the end of the receive buffer exactly:
	//     one block of s bytes per read for s in {2, 4, 256}, and ten 440-byte blocks per read; a few blocks more follow.
	for _, s := range []struct{ total, tform, perRead int }{{2, 1, 1}, {4, 3, 1}, {256, 3, 1}, {440, 1, 10}, {440, 3, 64}} {
		var blocks [][]byte
		nb := scRecvBuf/s.total + 2*s.perRead + 3
		for i := 0; i < nb; i++ {
			blocks = append(blocks, scBlock(s.total, s.tform, uint32(i)))
		}
		c.check("long-stream-", blocks, []int{s.total * s.perRead}, false, 0)
		c.check("long-stream-", blocks, []int{s.total * s.perRead}, true, 1)
	}
	// C3: the universe repeated 50 times (944 500 bytes, more than three receive buffers), value bytes differ per copy.
	var c3 [][]byte
	for r := 0; r < 50; r++ {
		for i, b := range u {
			tf := 1
			if b[0] == 0xfd {
				tf = 3
			}
			c3 = append(c3, scBlock(len(b), tf, uint32(1000+r*16+i)))
		}
	}
	n3 := 0
	for _, b := range c3 {
		n3 += len(b)
	}
	for pi, p := range [][]int{
		{n3},        // greedy: every Read fills the buffer to its end, a partial block is moved to the front each time
		{scRecvBuf}, // chunks of exactly the buffer size
		{1}, cyc17, {4096}, {65536}, {scMaxPkt}, {scMaxPkt - 1}, {7919}, {18890}, {18889, 18891},
		{scRecvBuf - 8800, 8800, 1, 8799},
	} {
		c.check("long-stream-", c3, p, pi%2 == 1, (pi%4)/2*(1+pi%2))
	}

	// ---- family D: a block LARGER than the maximum packet size (outside the hypothesis): never framed, no spin ------------------
	for _, vlen := range []int{8797, 8798, 8800, 8801, 9000, 65535} {
		for _, nbefore := range []int{31, 0, 1} {
			var blocks [][]byte
			for i := 0; i < nbefore; i++ {
				blocks = append(blocks, scBlock(scMaxPkt, 1, uint32(7+i)))
			}
			over := append([]byte{0x06}, scNum(vlen)...)
			over = append(over, make([]byte, scMaxPkt-len(over))...) // the first 8800 bytes of the oversize block
			stream := append(bytes.Join(blocks, nil), over...)
			for _, p := range [][]int{{len(stream)}, {scMaxPkt}, {1000}} {
				c.cases++
				res := scRun(stream, p, false, 0)
				what := fmt.Sprintf("%d blocks of 8800 bytes, then the first 8800 bytes of a block with 1-byte TYPE and TLV-LENGTH %d (block size %d > 8800), chunk sizes %v",
					nbefore, vlen, 4+vlen, p)
				if res.emptyReads > 0 {
					c.fail("no-empty-read", "%s: Read was called with an empty buffer %d times (err=%v)", what, res.emptyReads, res.err)
				}
				bad := len(res.frames) != nbefore
				for i := 0; !bad && i < nbefore; i++ {
					bad = !bytes.Equal(res.frames[i], blocks[i])
				}
				if bad || res.err == nil || errors.Is(res.err, errScStuck) {
					c.fail("oversize-refused", "%s: want the %d well-formed blocks framed and then an error, got %d frames, err=%v", what, nbefore, len(res.frames), res.err)
				}
			}
		}
	}

	fmt.Printf("BOUNDED-CASES %d\n", c.cases)
}
