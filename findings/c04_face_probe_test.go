package face

import (
	"fmt"
	"io"
	"testing"
	"time"

	enc "github.com/named-data/ndnd/std/encoding"
	spec "github.com/named-data/ndnd/std/ndn/spec_2022"
	"github.com/named-data/ndnd/std/utils"
)

func probe(name string, f func()) {
	defer func() {
		if r := recover(); r != nil {
			fmt.Println("PROBE", name, "PANIC:", r)
		} else {
			fmt.Println("PROBE", name, "ok")
		}
	}()
	f()
}

type chunkReader struct {
	data []byte
	pos  int
}

func (c *chunkReader) Read(p []byte) (int, error) {
	if len(p) == 0 {
		return 0, nil
	}
	if c.pos >= len(c.data) {
		return 0, io.EOF
	}
	n := copy(p, c.data[c.pos:])
	c.pos += n
	return n, nil
}

func TestVerifProbeFace(t *testing.T) {
	probe("reassemble fragIndex >= fragCount", func() {
		l := &NDNLPLinkService{partialMessageStore: map[uint64][][]byte{}}
		l.reassemblePacket(&spec.LpPacket{Fragment: enc.Wire{[]byte{1}}, Sequence: utils.IdPtr(uint64(7))}, 5, 2, 1)
	})
	probe("reassemble huge fragCount", func() {
		l := &NDNLPLinkService{partialMessageStore: map[uint64][][]byte{}}
		l.reassemblePacket(&spec.LpPacket{Fragment: enc.Wire{[]byte{1}}, Sequence: utils.IdPtr(uint64(7))}, 7, 0, 1<<62)
	})
	probe("readTlvStream length 2^63 (negative tlvSize)", func() {
		data := []byte{0x06, 0xff, 0x80, 0, 0, 0, 0, 0, 0, 0, 1, 2, 3}
		done := make(chan error, 1)
		go func() {
			defer func() {
				if r := recover(); r != nil {
					done <- fmt.Errorf("PANIC: %v", r)
				}
			}()
			done <- readTlvStream(&chunkReader{data: data}, func([]byte) {}, nil)
		}()
		select {
		case err := <-done:
			fmt.Println("   result:", err)
		case <-time.After(3 * time.Second):
			fmt.Println("   SPIN: no result after 3s")
		}
	})
}
