package encoding_test

import (
	"fmt"
	"testing"

	enc "github.com/named-data/ndnd/std/encoding"
)

// C14 "parsing never panics on any string": each of these inputs makes the parser panic.
func catch(f func()) (msg string) {
	defer func() {
		if r := recover(); r != nil {
			msg = fmt.Sprint(r)
		}
	}()
	f()
	return ""
}

func TestH6ParserPanics(t *testing.T) {
	cases := []struct {
		name string
		f    func()
	}{
		{`NameFromStr("/a/=x")`, func() { enc.NameFromStr("/a/=x") }},
		{`NameFromStr("=")`, func() { enc.NameFromStr("=") }},
		{`ComponentFromStr("=abc")`, func() { enc.ComponentFromStr("=abc") }},
		{`ComponentPatternFromStr("<=x>")`, func() { enc.ComponentPatternFromStr("<=x>") }},
		{`NamePatternFromStr("/a/<=x>")`, func() { enc.NamePatternFromStr("/a/<=x>") }},
		{`NamePatternFromStr("")`, func() { enc.NamePatternFromStr("") }},
	}
	for _, c := range cases {
		if m := catch(c.f); m != "" {
			t.Errorf("%s panics: %s", c.name, m)
		} else {
			t.Logf("%s: no panic", c.name)
		}
	}
}
