package object_test

// Property C15 ("a metadata/version name as the code defines it"): Produce returns the versioned name
// <Name>/v=<version> under which the segments were stored, and the metadata packet names it.
// When args.Name has spare capacity for at least 4 more components, the three append calls on args.Name share
// its backing array: the metadata name append(args.Name, 32=metadata, v, seg=0) overwrites the version component
// that basename := append(args.Name, v) had placed in the same slot. The returned name (and the Name field
// inside the metadata packet, which is encoded after the overwrite) then is <Name>/32=metadata.

import (
	"testing"

	enc "github.com/named-data/ndnd/std/encoding"
	"github.com/named-data/ndnd/std/engine"
	"github.com/named-data/ndnd/std/engine/dummy"
	"github.com/named-data/ndnd/std/object"
)

func TestVerifH7ProduceNameAliasing(t *testing.T) {
	store := object.NewMemoryStore()
	cli := object.NewClient(engine.NewBasicEngine(dummy.NewDummyFace()), store)
	parsed, _ := enc.NameFromStr("/verif/obj")
	name := make(enc.Name, len(parsed), len(parsed)+8) // a name with spare capacity (e.g. built by append)
	copy(name, parsed)
	ver := uint64(7)
	vname, err := cli.Produce(object.ProduceArgs{Name: name, Content: enc.Wire{make([]byte, 10)}, Version: &ver})
	if err != nil {
		t.Fatal(err)
	}
	want := append(append(enc.Name{}, parsed...), enc.NewVersionComponent(ver))
	if !vname.Equal(want) {
		t.Fatalf("Produce returned %s, want the versioned name %s", vname, want)
	}
	if w, _ := store.Get(append(vname, enc.NewSegmentComponent(0)), false); w == nil {
		t.Fatalf("segment 0 is not stored under the returned name %s", vname)
	}
}
