package face

// C10 defect demonstrations on the real sendPacket (run in-package through a go test overlay, see run-tests.sh).

import (
	"testing"

	defn "github.com/named-data/ndnd/fw/defn"
	"github.com/named-data/ndnd/fw/dispatch"
	enc "github.com/named-data/ndnd/std/encoding"
	spec "github.com/named-data/ndnd/std/ndn/spec_2022"
)

type recTransport struct {
	NullTransport
	frames [][]byte
}

func (t *recTransport) sendFrame(f []byte) { t.frames = append(t.frames, append([]byte(nil), f...)) }

func newRecLS(mtu int, frag bool) (*NDNLPLinkService, *recTransport) {
	t := &recTransport{}
	t.makeTransportBase(defn.MakeNullFaceURI(), defn.MakeNullFaceURI(), PersistencyPermanent, defn.NonLocal, defn.PointToPoint, mtu)
	opts := MakeNDNLPLinkServiceOptions()
	opts.IsFragmentationEnabled = frag
	l := MakeNDNLPLinkService(t, opts)
	return l, t
}

func mkOut(n int, token []byte, mark *uint64) dispatch.OutPkt {
	raw := make([]byte, n)
	for i := range raw {
		raw[i] = byte(i)
	}
	return dispatch.OutPkt{
		Pkt:      &defn.Pkt{Raw: raw, L3: &spec.Packet{Data: &spec.Data{}}, CongestionMark: mark},
		PitToken: token,
	}
}

// Defect 1: fragments carry Sequence but neither FragIndex nor FragCount, so no receiver can reassemble them.
func TestC10_FragIndexCountMissing(t *testing.T) {
	l, tr := newRecLS(300, true)
	sendPacket(l, mkOut(1400, nil, nil))
	if len(tr.frames) < 2 {
		t.Fatalf("expected fragmentation, got %d frames", len(tr.frames))
	}
	missing := 0
	for i, f := range tr.frames {
		p, _, err := spec.ReadPacket(enc.NewBufferReader(f))
		if err != nil || p.LpPacket == nil {
			t.Fatalf("frame %d does not decode: %v", i, err)
		}
		if p.LpPacket.Sequence == nil {
			t.Errorf("frame %d: no Sequence", i)
		}
		if p.LpPacket.FragIndex == nil || p.LpPacket.FragCount == nil {
			missing++
		}
	}
	if missing > 0 {
		t.Errorf("DEFECT: %d of %d fragments carry neither FragIndex nor FragCount", missing, len(tr.frames))
	}
}

// Defect 2: frames exceed the MTU: the PIT token budget is keyed on pkt.PitToken (incoming token) while the frame
// carries out.PitToken; the Fragment TL and a locally added congestion mark are not budgeted either.
func TestC10_FrameExceedsMTU(t *testing.T) {
	worst := 0
	for _, mtu := range []int{128, 300, 1500} {
		for n := 1; n <= 8800; n += 7 {
			l, tr := newRecLS(mtu, true)
			sendPacket(l, mkOut(n, []byte{1, 2, 3, 4, 5, 6}, nil))
			for _, f := range tr.frames {
				if len(f) > mtu {
					if len(f)-mtu > worst {
						worst = len(f) - mtu
					}
					if worst == len(f)-mtu && false {
						t.Logf("mtu %d packet %d: frame %d bytes", mtu, n, len(f))
					}
				}
			}
		}
	}
	if worst > 0 {
		t.Errorf("DEFECT: frames exceed the MTU by up to %d bytes (6-byte PIT token on the OutPkt)", worst)
	}
	// locally added congestion mark
	congestionMarking = true
	defer func() { congestionMarking = false }()
	l, tr := newRecLS(300, true)
	l.options.DefaultCongestionThresholdBytes = 0
	l.congestionCheck = 1
	tr2 := &markTransport{recTransport: tr}
	l.transport = tr2
	sendPacket(l, mkOut(1400, nil, nil))
	for _, f := range tr.frames {
		if len(f) > 300 {
			t.Errorf("DEFECT: locally marked frame of %d bytes on MTU 300", len(f))
			break
		}
	}
}

type markTransport struct{ *recTransport }

func (t *markTransport) GetSendQueueSize() uint64 { return 1 << 30 }

// Defect 3: an MTU not larger than the header overhead makes effectiveMtu <= 0: division by zero (or a negative
// fragment count handed to make).
func TestC10_TinyMTUPanics(t *testing.T) {
	for _, mtu := range []int{0, 10, 22} {
		func() {
			defer func() {
				if r := recover(); r != nil {
					t.Errorf("DEFECT: MTU %d: sendPacket panics: %v", mtu, r)
				}
			}()
			l, _ := newRecLS(mtu, true)
			sendPacket(l, mkOut(100, nil, nil))
		}()
	}
}
