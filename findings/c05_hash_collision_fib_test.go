package table

import (
	"testing"

	enc "github.com/named-data/ndnd/std/encoding"
)

// Two different names feed the same bytes to the name hash (no length delimiter): /a/b and the one-component name
// "a"||00 00 00 00 00 00 00 08||"b". The hash-table FIB is keyed by name hash.
func TestVerifHashCollisionFibLpm(t *testing.T) {
	n1 := enc.Name{enc.NewBytesComponent(enc.TypeGenericNameComponent, []byte("a")), enc.NewBytesComponent(enc.TypeGenericNameComponent, []byte("b"))}
	n2 := enc.Name{enc.NewBytesComponent(enc.TypeGenericNameComponent, []byte{'a', 0, 0, 0, 0, 0, 0, 0, 8, 'b'})}
	for _, m := range []uint16{1, 2, 3} {
		newFibStrategyTableHashTable(m)
		ft := FibStrategyTable.(*FibStrategyHashTable)
		ft.InsertNextHopEnc(n1, 7, 1)
		hops := ft.FindNextHopsEnc(n2)
		if len(hops) != 0 {
			t.Errorf("m=%d: lookup of %s returns %d next hop(s) (face %d) although no prefix of it is registered (only %s is)", m, n2, len(hops), hops[0].Nexthop, n1)
		}
	}
}
