package object_test

// Demonstration, on the real code, that the precondition [no-empty-buffer] of the Produce contract is necessary:
// property C15 demands "segment count == ceil(size/8000) == lastSeg+1 for every split of the content into input
// buffers". A split whose last buffer is empty and whose content size is a multiple of the segment size makes
// Produce emit one extra, empty segment beyond FinalBlockId. The test FAILS on the current code.

import (
	"testing"

	enc "github.com/named-data/ndnd/std/encoding"
	"github.com/named-data/ndnd/std/engine"
	"github.com/named-data/ndnd/std/engine/dummy"
	"github.com/named-data/ndnd/std/object"
)

func TestVerifProduceEmptyTrailingBuffer(t *testing.T) {
	store := object.NewMemoryStore()
	cli := object.NewClient(engine.NewBasicEngine(dummy.NewDummyFace()), store)
	name, _ := enc.NameFromStr("/verif/obj")
	ver := uint64(1)
	vname, err := cli.Produce(object.ProduceArgs{
		Name:    name,
		Content: enc.Wire{make([]byte, 8000), {}}, // 8000 bytes: exactly one segment; the second buffer is empty
		Version: &ver,
	})
	if err != nil {
		t.Fatal(err)
	}
	seg1 := append(vname, enc.NewSegmentComponent(1))
	if w, _ := store.Get(seg1, false); w != nil {
		t.Fatalf("8000 bytes of content were published as 2 segments: segment 1 exists (%d byte packet) although FinalBlockId is 0", len(w))
	}
}
