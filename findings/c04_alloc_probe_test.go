package spec_2022

import (
	"fmt"
	"runtime"
	"testing"

	enc "github.com/named-data/ndnd/std/encoding"
)

// 12 bytes of input: Data(06) len 0a { Name(07) len fe 7f ff ff ff }  -> make(enc.Name, 0x7fffffff/2+1) = 32 GiB
func TestVerifProbeAlloc(t *testing.T) {
	pkt := []byte{0x06, 0x0a, 0x07, 0xfe, 0x7f, 0xff, 0xff, 0xff, 0x00, 0x00, 0x00, 0x00}
	var m0, m1 runtime.MemStats
	runtime.ReadMemStats(&m0)
	_, _, err := ReadPacket(enc.NewBufferReader(pkt))
	runtime.ReadMemStats(&m1)
	fmt.Println("PROBE err:", err, "allocated bytes:", m1.TotalAlloc-m0.TotalAlloc)
}

// optional one-byte field (HopLimit, type 0x22) as the last element on a segmented reader: Skip(1) fails, Range()[0][0] panics
func TestVerifProbeHopLimit(t *testing.T) {
	defer func() { fmt.Println("PROBE recovered:", recover()) }()
	pkt := enc.Wire{[]byte{0x05, 0x06, 0x07, 0x02, 0x08, 0x00}, []byte{0x22, 0x00}}
	_, _, err := ReadPacket(enc.NewWireReader(pkt))
	fmt.Println("PROBE err:", err)
}
