// Package directory: fw/defn
// C09: "No Interest or Data packet whose name begins with /localhost is ever accepted from, or transmitted on, a non-local
// face". Whether a face is local is decided from the address of its peer; (*URI).Scope is the URI-level classifier that
// fw/defn offers for this.
//
// Contract violated on the unchanged tree: (*URI).Scope  ensures [local-only-on-this-host]  (fw/defn/zz_verif_scope.go)
// Scope() has no case for TCP URIs: a canonical tcp4/tcp6 URI falls through to the final "return Local" that was meant
// for internal URIs only, so every TCP endpoint, on whatever host, is reported Local. (No production caller uses
// URI.Scope() for TCP today: the TCP transports compute the scope themselves. The defect is latent: seeded change C09-5,
// "use the URI helper in MakeUnicastTCPTransport", turns it into /localhost traffic crossing to remote hosts.)
package defn

import "testing"

func TestH3C09URIScopeOfRemoteTCPEndpoint(t *testing.T) {
	for _, s := range []string{"tcp4://192.0.2.7:6363", "tcp6://[2001:db8::7]:6363"} {
		u := DecodeURIString(s)
		if u == nil || !u.IsCanonical() {
			t.Fatalf("setup: %s should decode to a canonical URI", s)
		}
		if got := u.Scope(); got != NonLocal {
			t.Errorf("%s: Scope() = %d, want NonLocal (%d): the endpoint is on another host", s, got, NonLocal)
		}
	}
	// the UDP twin and the loopback TCP endpoint are classified as the property demands
	if got := DecodeURIString("udp4://192.0.2.7:6363").Scope(); got != NonLocal {
		t.Errorf("udp4://192.0.2.7:6363: Scope() = %d, want NonLocal", got)
	}
	if got := DecodeURIString("tcp4://127.0.0.1:6363").Scope(); got != Local {
		t.Errorf("tcp4://127.0.0.1:6363: Scope() = %d, want Local", got)
	}
}
