package mgmt

// C17 defect demonstrations on the real management modules (run in-package through a go test overlay, see run-tests.sh).

import (
	"testing"

	"github.com/named-data/ndnd/fw/core"
	defn "github.com/named-data/ndnd/fw/defn"
	"github.com/named-data/ndnd/fw/face"
	"github.com/named-data/ndnd/fw/table"
	enc "github.com/named-data/ndnd/std/encoding"
	mgmt "github.com/named-data/ndnd/std/ndn/mgmt_2022"
	spec "github.com/named-data/ndnd/std/ndn/spec_2022"
	"github.com/named-data/ndnd/std/utils"
)

func c17Thread(t *testing.T) *Thread {
	core.LoadConfig(core.DefaultConfig(), "/tmp")
	face.Configure()
	table.Configure()
	table.CreateFIBTable("nametree")
	m := MakeMgmtThread()
	m.transport = face.MakeInternalTransport() // not running: responses just queue up
	return m
}

func c17Cmd(prefix string, module, verb string, args *mgmt.ControlArgs) *spec.Interest {
	name, _ := enc.NameFromStr(prefix + "/" + module + "/" + verb)
	if args != nil {
		p := &mgmt.ControlParameters{Val: args}
		name = append(name, enc.Component{Typ: enc.TypeGenericNameComponent, Val: p.Encode().Join()})
	}
	return &spec.Interest{NameV: name}
}

func defnURI(s string) *defn.URI { u := defn.DecodeURIString(s); u.Canonize(); return u }

// Defect 1: strategy-choice/set with a Strategy name equal to the strategy prefix (no strategy component):
// index out of range in the management thread (daemon crash).
func TestC17_StrategySetPrefixOnlyPanics(t *testing.T) {
	m := c17Thread(t)
	strat, _ := enc.NameFromStr("/localhost/nfd/strategy")
	name, _ := enc.NameFromStr("/a")
	cmd := c17Cmd("/localhost/nfd", "strategy-choice", "set", &mgmt.ControlArgs{Name: name, Strategy: &mgmt.Strategy{Name: strat}})
	defer func() {
		if r := recover(); r != nil {
			t.Errorf("DEFECT: strategy-choice/set with Strategy=/localhost/nfd/strategy panics: %v", r)
		}
	}()
	m.modules["strategy-choice"].handleIncomingInterest(cmd, nil, 1)
}

// Defect 2: rib/register is accepted under /localhop/nfd although localhop management is disabled (the RIB module has no
// prefix test, and the dispatcher admits /localhop/nfd regardless of the flag).
func TestC17_RibLocalhopAcceptedWhenDisabled(t *testing.T) {
	m := c17Thread(t)
	enableLocalhopManagement = false
	name, _ := enc.NameFromStr("/victim/prefix")
	cmd := c17Cmd("/localhop/nfd", "rib", "register", &mgmt.ControlArgs{Name: name})
	// the dispatcher's own admission test (thread.go, Run)
	if !m.localPrefix.IsPrefix(cmd.NameV) && !m.nonLocalPrefix.IsPrefix(cmd.Name()) {
		t.Fatal("dispatcher would drop it")
	}
	m.modules["rib"].handleIncomingInterest(cmd, nil, 77)
	found := false
	for _, e := range table.Rib.GetAllEntries() {
		if e.Name.Equal(name) && len(e.GetRoutes()) > 0 {
			found = true
		}
	}
	if found {
		t.Errorf("DEFECT: /localhop/nfd/rib/register created a route for %s with enableLocalhopManagement=false", name)
	}
	// the other modules refuse the same prefix
	before := table.CsCapacity()
	m.modules["cs"].handleIncomingInterest(c17Cmd("/localhop/nfd", "cs", "config", &mgmt.ControlArgs{Capacity: utils.IdPtr(uint64(5))}), nil, 77)
	if table.CsCapacity() != before {
		t.Errorf("cs/config accepted under /localhop/nfd")
	}
}

// Defect 3: cs/config installs any capacity: 2^63 becomes a negative int.
func TestC17_CsCapacityOutOfRange(t *testing.T) {
	m := c17Thread(t)
	cmd := c17Cmd("/localhost/nfd", "cs", "config", &mgmt.ControlArgs{Capacity: utils.IdPtr(uint64(1) << 63)})
	m.modules["cs"].handleIncomingInterest(cmd, nil, 1)
	if table.CsCapacity() < 0 {
		t.Errorf("DEFECT: cs/config Capacity=2^63 accepted, CsCapacity() = %d", table.CsCapacity())
	}
}

// Defect 4: faces/update installs any MTU (0 here); the next packet sent on that face panics in sendPacket
// (see TestC10_TinyMTUPanics), i.e. the face is unusable and its send goroutine dies.
func TestC17_FaceUpdateMtuZero(t *testing.T) {
	m := c17Thread(t)
	remote := defnURI("udp4://127.0.0.1:36363")
	local := defnURI("udp4://127.0.0.1:36364")
	tr, err := face.MakeUnicastUDPTransport(remote, local, face.PersistencyPersistent)
	if err != nil {
		t.Skip("cannot create UDP transport: ", err)
	}
	ls := face.MakeNDNLPLinkService(tr, face.MakeNDNLPLinkServiceOptions())
	face.FaceTable.Add(ls)
	cmd := c17Cmd("/localhost/nfd", "faces", "update", &mgmt.ControlArgs{FaceId: utils.IdPtr(ls.FaceID()), Mtu: utils.IdPtr(uint64(0))})
	m.modules["faces"].handleIncomingInterest(cmd, nil, 1)
	if ls.MTU() < 128 {
		t.Errorf("DEFECT: faces/update Mtu=0 accepted, face MTU is now %d", ls.MTU())
	}
}
