// Package directory: fw/fw
// C08: "Every PIT entry is removed ... promptly once it is satisfied - including entries created for Interests answered
// from the cache. Once all lifetimes have elapsed the PIT is empty."
//
// Contract violated on the unchanged tree: (*Thread).processIncomingInterest
//   ensures [expiry-scheduled]              (fw/fw/zz_verif_contracts.go)
//   ensures [cache-answer-reaped-promptly]
// The Content-Store-hit path returns right after strategy.AfterContentStoreHit, above table.UpdateExpirationTimer: the PIT
// entry that InsertInterest created for the Interest is never put into the expiry queue, so the reaper (PitCsTree.Update)
// never sees it. One entry leaks per distinct name that is answered from the cache.
package fw

import (
	"testing"
	"time"

	"github.com/named-data/ndnd/fw/core"
	"github.com/named-data/ndnd/fw/defn"
	"github.com/named-data/ndnd/fw/dispatch"
	"github.com/named-data/ndnd/fw/table"
	enc "github.com/named-data/ndnd/std/encoding"
	"github.com/named-data/ndnd/std/ndn"
	spec "github.com/named-data/ndnd/std/ndn/spec_2022"
	sec "github.com/named-data/ndnd/std/security"
	"github.com/named-data/ndnd/std/utils"
)

// h3c08Drain runs the PIT reaper (what Thread.Run does on every update tick) until the PIT is empty or the deadline passes.
func h3c08Drain(th *Thread, d time.Duration) int {
	deadline := time.Now().Add(d)
	for th.GetNumPitEntries() > 0 && time.Now().Before(deadline) {
		time.Sleep(10 * time.Millisecond)
		th.pitCS.Update()
	}
	return th.GetNumPitEntries()
}

// Eight Data packets are cached; a local consumer then asks for each of them once (lifetime 10 ms). Every Interest is
// answered from the Content Store. Long after every lifetime has elapsed the PIT must be empty.
func TestH3C08CacheHitLeavesPitEntryForever(t *testing.T) {
	th := h3c08Setup()
	consumer := h3c08AddFace(5, defn.Local, defn.PointToPoint)
	h3c08AddFace(20, defn.NonLocal, defn.PointToPoint)

	for i := 0; i < 8; i++ {
		name := "/h3/cached/" + string(rune('a'+i))
		d := h3c08DataPkt(name, 20, nil)
		th.pitCS.InsertData(d.L3.Data, d.Raw)
	}
	if th.GetNumCsEntries() != 8 {
		t.Fatalf("setup: expected 8 CS entries, got %d", th.GetNumCsEntries())
	}
	for i := 0; i < 8; i++ {
		name := "/h3/cached/" + string(rune('a'+i))
		th.processIncomingInterest(h3c08InterestPkt(name, uint32(9000+i), 10*time.Millisecond, false, 5))
	}
	if consumer.nData() != 8 {
		t.Fatalf("setup: the 8 Interests should have been answered from the cache, consumer got %d Data", consumer.nData())
	}
	if left := h3c08Drain(th, 2*time.Second); left != 0 {
		t.Fatalf("%d PIT entries (of 8 Interests answered from the cache) are still present 2 s after their 10 ms lifetime elapsed", left)
	}
}

// Control: the same Interests for names that are NOT cached are forwarded through the FIB and do expire.
func TestH3C08ForwardedInterestsExpire(t *testing.T) {
	th := h3c08Setup()
	h3c08AddFace(5, defn.Local, defn.PointToPoint)
	h3c08AddFace(20, defn.NonLocal, defn.PointToPoint)
	table.FibStrategyTable.InsertNextHopEnc(h3c08Name("/h3"), 20, 1)
	for i := 0; i < 8; i++ {
		th.processIncomingInterest(h3c08InterestPkt("/h3/fib/"+string(rune('a'+i)), uint32(9100+i), 10*time.Millisecond, false, 5))
	}
	if left := h3c08Drain(th, 2*time.Second); left != 0 {
		t.Fatalf("%d PIT entries are still present 2 s after their 10 ms lifetime elapsed", left)
	}
}

// ---------------------------------------------------------------------------
// Minimal in-package harness: fake faces registered in the dispatch table and a
// forwarding thread whose pipelines are called synchronously.
// ---------------------------------------------------------------------------

type h3c08Face struct {
	id    uint64
	scope defn.Scope
	link  defn.LinkType
	out   []dispatch.OutPkt
}

func (f *h3c08Face) String() string          { return "seed-face" }
func (f *h3c08Face) SetFaceID(id uint64)     { f.id = id }
func (f *h3c08Face) FaceID() uint64          { return f.id }
func (f *h3c08Face) LocalURI() *defn.URI     { return nil }
func (f *h3c08Face) RemoteURI() *defn.URI    { return nil }
func (f *h3c08Face) Scope() defn.Scope       { return f.scope }
func (f *h3c08Face) LinkType() defn.LinkType { return f.link }
func (f *h3c08Face) MTU() int                { return defn.MaxNDNPacketSize }
func (f *h3c08Face) State() defn.State       { return defn.Up }
func (f *h3c08Face) SendPacket(o dispatch.OutPkt) {
	f.out = append(f.out, o)
}

// nData / nInterest count what was emitted on the face.
func (f *h3c08Face) nData() int {
	n := 0
	for _, o := range f.out {
		if o.Pkt.L3.Data != nil {
			n++
		}
	}
	return n
}

func (f *h3c08Face) nInterest() int {
	n := 0
	for _, o := range f.out {
		if o.Pkt.L3.Interest != nil {
			n++
		}
	}
	return n
}

func h3c08Setup() *Thread {
	cfg := core.DefaultConfig()
	core.LoadConfig(cfg, "")
	table.Configure()
	Configure()
	table.CreateFIBTable("nametree")
	return NewThread(0)
}

func h3c08AddFace(id uint64, scope defn.Scope, link defn.LinkType) *h3c08Face {
	f := &h3c08Face{id: id, scope: scope, link: link}
	dispatch.AddFace(id, f)
	return f
}

func h3c08Name(s string) enc.Name {
	n, err := enc.NameFromStr(s)
	if err != nil {
		panic(err)
	}
	return n
}

// h3c08InterestPkt builds an Interest packet as the link service would hand it to the thread.
func h3c08InterestPkt(name string, nonce uint32, lifetime time.Duration, canBePrefix bool, inFace uint64) *defn.Pkt {
	interest := &spec.Interest{
		NameV:             h3c08Name(name),
		CanBePrefixV:      canBePrefix,
		NonceV:            utils.IdPtr(nonce),
		InterestLifetimeV: utils.IdPtr(lifetime),
	}
	return &defn.Pkt{
		Name:           interest.NameV,
		L3:             &spec.Packet{Interest: interest},
		IncomingFaceID: utils.IdPtr(inFace),
	}
}

// h3c08DataPkt builds a (really encoded, then parsed) Data packet arriving on inFace.
func h3c08DataPkt(name string, inFace uint64, pitToken []byte) *defn.Pkt {
	fresh := 10 * time.Second
	encoded, err := spec.Spec{}.MakeData(h3c08Name(name), &ndn.DataConfig{Freshness: &fresh},
		enc.Wire{[]byte("seed")}, sec.NewSha256Signer())
	if err != nil {
		panic(err)
	}
	wire := encoded.Wire.Join()
	pkt, _, err := spec.ReadPacket(enc.NewBufferReader(wire))
	if err != nil || pkt.Data == nil {
		panic("cannot parse generated Data")
	}
	return &defn.Pkt{
		Name:           pkt.Data.NameV,
		L3:             pkt,
		Raw:            wire,
		PitToken:       pitToken,
		IncomingFaceID: utils.IdPtr(inFace),
	}
}
