package security_test

import (
	"crypto/rand"
	"crypto/rsa"
	"testing"
	"time"

	enc "github.com/named-data/ndnd/std/encoding"
	"github.com/named-data/ndnd/std/ndn"
	spec "github.com/named-data/ndnd/std/ndn/spec_2022"
	sec "github.com/named-data/ndnd/std/security"
)

// C12: "for every signer type shipped, a packet built with it ... the matching validator accepts it".
func TestH6RsaSignerMatchesRsaValidator(t *testing.T) {
	key, _ := rsa.GenerateKey(rand.Reader, 2048)
	kn, _ := enc.NameFromStr("/key")
	name, _ := enc.NameFromStr("/a/b")
	signer := sec.NewRsaSigner(false, false, time.Hour, key, kn)
	d, err := spec.Spec{}.MakeData(name, &ndn.DataConfig{}, enc.Wire{[]byte("hello")}, signer)
	if err != nil {
		t.Fatal(err)
	}
	data, covered, err := spec.Spec{}.ReadData(enc.NewBufferReader(d.Wire.Join()))
	if err != nil {
		t.Fatal(err)
	}
	t.Logf("signature type on the wire: %d (SignatureSha256WithRsa = %d, SignatureSha256WithEcdsa = %d)",
		data.Signature().SigType(), ndn.SignatureSha256WithRsa, ndn.SignatureSha256WithEcdsa)
	if !sec.RsaValidate(covered, data.Signature(), &key.PublicKey) {
		t.Errorf("C12 violated: RsaValidate rejects an untampered Data signed by the shipped RSA signer")
	}
}
