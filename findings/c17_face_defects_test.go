// Package directory: fw/mgmt  (copy as fw/mgmt/zz_c17_face_defects_test.go)
package mgmt

import (
	"testing"

	"github.com/named-data/ndnd/fw/core"
	"github.com/named-data/ndnd/fw/face"
	"github.com/named-data/ndnd/fw/table"
	enc "github.com/named-data/ndnd/std/encoding"
	spec "github.com/named-data/ndnd/std/ndn/spec_2022"
)

func c17fThread(t *testing.T) *Thread {
	cfg := core.DefaultConfig()
	core.LoadConfig(cfg, "")
	face.Configure()
	table.CreateFIBTable("nametree")
	m := MakeMgmtThread()
	m.transport = face.MakeInternalTransport()
	return m
}

// Finding 1 (C17: "commands whose parameters are missing [or] malformed ... never crash the daemon").
// /localhost/nfd/faces/query/<component that contains no FaceQueryFilter element>: ParseFaceQueryFilter succeeds with
// Val == nil and `filter.FaceId` dereferences nil; the management goroutine has no recover, so the forwarder dies.
func TestVerifC17FacesQueryWithoutFilterElementDoesNotPanic(t *testing.T) {
	m := c17fThread(t)
	faces := m.modules["faces"]
	// the face table is not empty (in a running forwarder it never is: null face, internal face, listeners)
	ls := face.MakeNDNLPLinkService(face.MakeNullTransport(), face.MakeNDNLPLinkServiceOptions())
	face.FaceTable.Add(ls)
	defer face.FaceTable.Remove(ls.FaceID())
	for _, val := range [][]byte{{}, {0xf0, 0x00}} { // empty value; only an unknown (non-critical) element
		name, _ := enc.NameFromStr("/localhost/nfd/faces/query")
		name = append(name, enc.Component{Typ: enc.TypeGenericNameComponent, Val: val})
		func() {
			defer func() {
				if r := recover(); r != nil {
					t.Errorf("faces/query with filter component % x panicked: %v", val, r)
				}
			}()
			faces.handleIncomingInterest(&spec.Interest{NameV: name}, nil, 1)
		}()
	}
}

// Finding 2 (C17: "each status dataset lists exactly the current table contents").
// The faces dataset reports the number of RECEIVED bytes in the NOutBytes field.
func TestVerifC17FaceDatasetReportsOutBytes(t *testing.T) {
	m := c17fThread(t)
	fm := m.modules["faces"].(*FaceModule)
	real := face.MakeNDNLPLinkService(face.MakeNullTransport(), face.MakeNDNLPLinkServiceOptions())
	ls := c17fCounted{LinkService: real, in: 111, out: 222}
	ds := fm.createDataset(ls)
	if ds.NInBytes != 111 {
		t.Errorf("faces dataset: NInBytes = %d, the face has received 111 bytes", ds.NInBytes)
	}
	if ds.NOutBytes != 222 {
		t.Errorf("faces dataset: NOutBytes = %d, the face has sent 222 bytes (and received 111)", ds.NOutBytes)
	}
}

// c17fCounted is a link service with fixed byte counters (everything else is the wrapped face).
type c17fCounted struct {
	face.LinkService
	in, out uint64
}

func (c c17fCounted) NInBytes() uint64  { return c.in }
func (c c17fCounted) NOutBytes() uint64 { return c.out }
