package fw

import (
	"fmt"
	"testing"
	"time"

	"github.com/named-data/ndnd/fw/defn"
	"github.com/named-data/ndnd/fw/dispatch"
	"github.com/named-data/ndnd/fw/table"
	enc "github.com/named-data/ndnd/std/encoding"
	spec "github.com/named-data/ndnd/std/ndn/spec_2022"
	"github.com/named-data/ndnd/std/utils"
)

type probeFace struct {
	id    uint64
	scope defn.Scope
	sent  []string
}

func (f *probeFace) String() string           { return "probe" }
func (f *probeFace) SetFaceID(id uint64)       { f.id = id }
func (f *probeFace) FaceID() uint64            { return f.id }
func (f *probeFace) LocalURI() *defn.URI       { return nil }
func (f *probeFace) RemoteURI() *defn.URI      { return nil }
func (f *probeFace) Scope() defn.Scope         { return f.scope }
func (f *probeFace) LinkType() defn.LinkType   { return defn.PointToPoint }
func (f *probeFace) MTU() int                  { return 8800 }
func (f *probeFace) State() defn.State         { return defn.Up }
func (f *probeFace) SendPacket(o dispatch.OutPkt) { f.sent = append(f.sent, o.Pkt.Name.String()) }

func TestVerifProbeScope(t *testing.T) {
	table.Configure()
	Configure()
	table.CreateFIBTable("nametree")
	th := NewThread(0)
	Threads = []*Thread{th}
	local := &probeFace{id: 1, scope: defn.Local}
	remote := &probeFace{id: 2, scope: defn.NonLocal}
	dispatch.AddFace(1, local)
	dispatch.AddFace(2, remote)
	root, _ := enc.NameFromStr("/")
	table.FibStrategyTable.InsertNextHopEnc(root, 2, 0)

	mk := func(name string, nonce uint32) *defn.Pkt {
		n, _ := enc.NameFromStr(name)
		lt := 4 * time.Second
		return &defn.Pkt{Name: n, IncomingFaceID: utils.IdPtr(uint64(1)),
			L3: &spec.Packet{Interest: &spec.Interest{NameV: n, NonceV: utils.IdPtr(nonce), InterestLifetimeV: &lt}}}
	}
	th.processIncomingInterest(mk("/localhost/nfd/status", 1))
	fmt.Println("PROBE default route: packets sent on the NON-LOCAL face:", remote.sent)
	remote.sent = nil
	p := mk("/localhost/nfd/other", 2)
	p.NextHopFaceID = utils.IdPtr(uint64(2))
	th.processIncomingInterest(p)
	fmt.Println("PROBE NextHopFaceId: packets sent on the NON-LOCAL face:", remote.sent)
}
