// Package directory: std/engine/face (in-package test; demonstrates the NOTE of H11, not a C11 violation:
// the stream below is not a sequence of well-formed blocks no larger than the maximum packet size).
package face

import (
	"net"
	"testing"
	"time"

	enc "github.com/named-data/ndnd/std/encoding"
)

func h11RunWith(t *testing.T, stream []byte) (panicked any, ended bool) {
	c1, c2 := net.Pipe()
	f := NewStreamFace("tcp", "x", false)
	f.conn = c1
	f.running.Store(true)
	f.SetCallback(func(r enc.ParseReader) error { return nil }, func(err error) error { return err })
	done := make(chan any, 1)
	go func() {
		defer func() { done <- recover() }()
		f.Run()
	}()
	go func() { c2.Write(stream); c2.Close() }()
	select {
	case r := <-done:
		return r, true
	case <-time.After(3 * time.Second):
		return nil, false
	}
}

// T = 6, L = 2^64-1 (9-byte form): int(l) == -1, len(buf) == 1+9-1 == 9, l.EncodeInto(buf[1:]) needs 9 bytes.
func TestH11LengthAllOnes(t *testing.T) {
	p, ended := h11RunWith(t, []byte{0x06, 0xff, 0xff, 0xff, 0xff, 0xff, 0xff, 0xff, 0xff, 0xff})
	t.Logf("ended=%v panic=%v", ended, p)
	if p != nil {
		t.Errorf("Run panicked on a peer-chosen TLV-LENGTH: %v", p)
	}
}

// T = 6, L = 2^63 (9-byte form): int(l) == MinInt64, l0+l1+int(l) is negative: makeslice: len out of range.
func TestH11LengthNegative(t *testing.T) {
	p, ended := h11RunWith(t, []byte{0x06, 0xff, 0x80, 0, 0, 0, 0, 0, 0, 0})
	t.Logf("ended=%v panic=%v", ended, p)
	if p != nil {
		t.Errorf("Run panicked on a peer-chosen TLV-LENGTH: %v", p)
	}
}
