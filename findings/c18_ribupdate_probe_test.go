package dv

// Demonstrations on the REAL code of two defects in (*Router).ribUpdate (dv/dv/table_algo.go), found while
// writing the contract "cost = adv+1, skip >= 16" for C18. Run (from the repository root):
//   go test -overlay ov.json -vet=off -count=1 -run TestH1 ./dv/dv/
// with ov.json = {"Replace": {"<repo>/dv/dv/zz_h1_ribupdate_defects_test.go": "<this file>"}}

import (
	"math"
	"runtime"
	"testing"

	"github.com/named-data/ndnd/dv/config"
	"github.com/named-data/ndnd/dv/table"
	"github.com/named-data/ndnd/dv/tlv"
	enc "github.com/named-data/ndnd/std/encoding"
)

func h1Router(t *testing.T) (*Router, *table.NeighborState) {
	cfg := config.DefaultConfig()
	cfg.Network = "/net"
	cfg.Router = "/net/me"
	if err := cfg.Parse(); err != nil {
		t.Fatal(err)
	}
	dv := &Router{config: cfg, rib: table.NewRib(cfg), neighbors: table.NewNeighborTable(cfg, nil)}
	nbr, _ := enc.NameFromStr("/net/nbr")
	ns := dv.neighbors.Add(nbr)
	return dv, ns
}

// Defect 1: uint64 wrap-around in `cost := entry.Cost + localCost`. An advertisement entry with
// Cost = 2^64-1 yields cost 0, passes the `cost >= CostInfinity` filter and is installed as the best route
// (cost 0) - "no advertisement ever lists a destination at or above infinity" / "cost is the hop distance" broken.
func TestH1RibUpdateCostWrapAround(t *testing.T) {
	runtime.GOMAXPROCS(1) // keep the goroutine spawned by ribUpdate from running before we take the lock below
	dv, ns := h1Router(t)
	dest, _ := enc.NameFromStr("/net/far")
	other, _ := enc.NameFromStr("/net/other")
	ns.Advert = &tlv.Advertisement{Entries: []*tlv.AdvEntry{{
		Destination: &tlv.Destination{Name: dest},
		NextHop:     &tlv.Destination{Name: other},
		Cost:        math.MaxUint64, // "unreachable" as far as any sane metric is concerned
		OtherCost:   math.MaxUint64,
	}}}
	dv.ribUpdate(ns)
	dv.mutex.Lock() // never released: the `go func(){ dv.fibUpdate() ... }` of ribUpdate blocks instead of touching nil tables
	if !dv.rib.Has(dest) {
		t.Log("destination not installed (no defect)")
		return
	}
	for _, e := range dv.rib.Advert().Entries {
		if e.Destination.Name.Equal(dest) {
			t.Fatalf("DEFECT: advertised cost 2^64-1 installed as reachable with cost %d (< CostInfinity=%d)", e.Cost, config.CostInfinity)
		}
	}
}

// Defect 2: an AdvEntry without NextHop (or Destination) TLV is parsed with a nil pointer (the generated parser
// leaves absent struct fields nil and does not reject the packet); ribUpdate dereferences entry.NextHop.Name.
func TestH1RibUpdateNilNextHop(t *testing.T) {
	dv, ns := h1Router(t)
	dest, _ := enc.NameFromStr("/net/far")
	wire := (&tlv.Advertisement{Entries: []*tlv.AdvEntry{{Destination: &tlv.Destination{Name: dest}, Cost: 1, OtherCost: 2}}}).Encode()
	adv, err := tlv.ParseAdvertisement(enc.NewWireReader(wire), false)
	if err != nil {
		t.Skipf("parser rejects the packet: %v", err)
	}
	ns.Advert = adv
	defer func() {
		if r := recover(); r != nil {
			t.Fatalf("DEFECT: ribUpdate panics on a received advertisement without NextHop: %v", r)
		}
	}()
	dv.ribUpdate(ns)
}
