package basic

// Demonstrations, on the real NameTrie code, of the contract clauses of Delete / DeleteIf that gcv cannot
// discharge (property C20: "Delete/DeleteIf remove the node's own value and NO OTHER value anywhere in the trie").
// Each test FAILS on the current code.

import (
	"testing"

	enc "github.com/named-data/ndnd/std/encoding"
)

func vname(t *testing.T, s string) enc.Name {
	n, err := enc.NameFromStr(s)
	if err != nil {
		t.Fatal(err)
	}
	return n
}

// D1a  [kids-kept]/[unlinked-empty]: DeleteIf on /a/b (its own value is empty) drops the pending value on /a/b/c.
// This is engine.onData's call: Data /a/b satisfies the Interest on /a/b; the Interest on /a/b/c is lost.
func TestVerifDeleteIfDropsSubtree(t *testing.T) {
	root := NewNameTrie[int]()
	root.MatchAlways(vname(t, "/a/b")).SetValue(0) // value already consumed: "empty"
	root.MatchAlways(vname(t, "/a/b/c")).SetValue(7)
	root.ExactMatch(vname(t, "/a/b")).DeleteIf(func(v int) bool { return v == 0 })
	if n := root.ExactMatch(vname(t, "/a/b/c")); n == nil || n.Value() != 7 {
		t.Fatalf("value stored on /a/b/c was lost by DeleteIf on /a/b (node=%v)", n)
	}
}

// D1b  the same for Delete (engine.onNack on /a/b, engine.DetachHandler(/a/b)).
func TestVerifDeleteDropsSubtree(t *testing.T) {
	root := NewNameTrie[int]()
	root.MatchAlways(vname(t, "/a/b")).SetValue(1)
	root.MatchAlways(vname(t, "/a/b/c")).SetValue(7)
	root.ExactMatch(vname(t, "/a/b")).Delete()
	if n := root.ExactMatch(vname(t, "/a/b/c")); n == nil || n.Value() != 7 {
		t.Fatalf("value stored on /a/b/c was lost by Delete on /a/b (node=%v)", n)
	}
}

// D1c  Delete on the root replaces the root's children map: every value in the trie is lost.
func TestVerifDeleteRootDropsEverything(t *testing.T) {
	root := NewNameTrie[int]()
	root.MatchAlways(vname(t, "/a")).SetValue(7)
	root.Delete()
	if n := root.ExactMatch(vname(t, "/a")); n == nil || n.Value() != 7 {
		t.Fatalf("value stored on /a was lost by Delete on the root (node=%v)", n)
	}
}

// D2  [others-kept]: Delete on the leaf /a/b also unlinks its parent /a although /a carries a value.
func TestVerifDeleteRemovesValueHoldingParent(t *testing.T) {
	root := NewNameTrie[int]()
	root.MatchAlways(vname(t, "/a")).SetValue(5)
	root.MatchAlways(vname(t, "/a/b")).SetValue(7)
	root.ExactMatch(vname(t, "/a/b")).Delete()
	if n := root.ExactMatch(vname(t, "/a")); n == nil || n.Value() != 5 {
		t.Fatalf("value stored on /a was lost by Delete on /a/b (node=%v)", n)
	}
}

// D3  [own-value-root]: Delete on the root does not remove the root's own value.
func TestVerifDeleteRootKeepsOwnValue(t *testing.T) {
	root := NewNameTrie[int]()
	root.SetValue(5)
	root.Delete()
	if root.Value() != 0 {
		t.Fatalf("root still carries value %d after Delete", root.Value())
	}
}

// D4  precondition specAttached(n): DeleteIf (and Delete) through a stale node reference - a node that has already
// been removed - unlinks the node that has replaced it under the same name. engine.Express keeps such references
// in its timeout closures (two Interests with the same name: the first timeout empties and removes the node, a third
// Interest re-creates it, the second timeout then removes the new node with its pending Interest).
func TestVerifDeleteIfThroughStaleNode(t *testing.T) {
	root := NewNameTrie[int]()
	stale := root.MatchAlways(vname(t, "/a"))
	stale.DeleteIf(func(v int) bool { return v == 0 }) // node removed (empty)
	root.MatchAlways(vname(t, "/a")).SetValue(7)       // a new node for the same name
	stale.DeleteIf(func(v int) bool { return v == 0 }) // e.g. a second timeout closure
	if n := root.ExactMatch(vname(t, "/a")); n == nil || n.Value() != 7 {
		t.Fatalf("value stored on the new /a node was lost by DeleteIf through a stale reference (node=%v)", n)
	}
}
