package face

import (
	"bytes"
	"io"
	"testing"
	"testing/iotest"
)

// C11: "none lost". io.Reader allows Read to return n > 0 together with io.EOF ("callers should always process the
// n > 0 bytes returned before considering the error"). readTlvStream looked at the error first and returned, so the
// blocks completed by the last read were never handed to onFrame.

// c11Block builds a TLV block of type 0x06 with a value of n bytes (1- or 3-byte length form).
func c11Block(n int, fill byte) []byte {
	b := []byte{0x06}
	if n < 253 {
		b = append(b, byte(n))
	} else {
		b = append(b, 0xfd, byte(n>>8), byte(n))
	}
	for i := 0; i < n; i++ {
		b = append(b, fill)
	}
	return b
}

func c11Run(t *testing.T, r io.Reader) [][]byte {
	var got [][]byte
	err := readTlvStream(r, func(b []byte) { got = append(got, append([]byte{}, b...)) }, nil)
	if err != nil {
		t.Fatalf("readTlvStream returned %v", err)
	}
	return got
}

func c11Check(t *testing.T, got, want [][]byte) {
	t.Helper()
	if len(got) != len(want) {
		t.Errorf("C11 violated: %d blocks sent, %d blocks delivered", len(want), len(got))
	}
	for i := range got {
		if i < len(want) && !bytes.Equal(got[i], want[i]) {
			t.Errorf("block %d differs", i)
		}
	}
}

// The whole stream arrives in one read that also reports the end of the stream.
func TestC11_DataWithEOF_SingleRead(t *testing.T) {
	want := [][]byte{c11Block(3, 1), c11Block(300, 2), c11Block(0, 3)}
	stream := bytes.Join(want, nil)
	got := c11Run(t, iotest.DataErrReader(bytes.NewReader(stream)))
	c11Check(t, got, want)
}

// Reads of 7 bytes; the last chunk comes together with io.EOF: only the blocks completed by the last chunk are lost.
func TestC11_DataWithEOF_Chunked(t *testing.T) {
	want := [][]byte{c11Block(3, 1), c11Block(300, 2), c11Block(5, 3), c11Block(1, 4)}
	stream := bytes.Join(want, nil)
	got := c11Run(t, iotest.DataErrReader(&c11Chunk{data: stream, n: 7}))
	c11Check(t, got, want)
}

// Control: the same streams with the end of the stream reported by a separate (0, io.EOF) read are delivered in full.
func TestC11_SeparateEOF_Control(t *testing.T) {
	want := [][]byte{c11Block(3, 1), c11Block(300, 2), c11Block(5, 3), c11Block(1, 4)}
	stream := bytes.Join(want, nil)
	c11Check(t, c11Run(t, bytes.NewReader(stream)), want)
	c11Check(t, c11Run(t, &c11Chunk{data: stream, n: 7}), want)
	c11Check(t, c11Run(t, iotest.OneByteReader(bytes.NewReader(stream))), want)
}

type c11Chunk struct {
	data []byte
	n    int
}

func (c *c11Chunk) Read(p []byte) (int, error) {
	if len(c.data) == 0 {
		return 0, io.EOF
	}
	k := c.n
	if k > len(c.data) {
		k = len(c.data)
	}
	if k > len(p) {
		k = len(p)
	}
	copy(p, c.data[:k])
	c.data = c.data[k:]
	return k, nil
}
