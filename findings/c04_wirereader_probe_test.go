package encoding

import (
	"fmt"
	"testing"
)

func probe(name string, f func()) {
	defer func() {
		if r := recover(); r != nil {
			fmt.Println("PROBE", name, "PANIC:", r)
		} else {
			fmt.Println("PROBE", name, "ok")
		}
	}()
	f()
}

func TestVerifProbeWireReader(t *testing.T) {
	probe("Range(0,0) on empty wire", func() { NewWireReader(Wire{}).Range(0, 0) })
	probe("ReadByte over two empty segments", func() { NewWireReader(Wire{{}, {}, {1}}).ReadByte() })
	probe("Skip(0) after EOF", func() {
		r := NewWireReader(Wire{{1}})
		r.ReadByte()
		r.ReadByte()
		r.Skip(0)
	})
	probe("ReadBuf(0) at end (component 08 00 last)", func() {
		r := NewWireReader(Wire{{0x08, 0x00}})
		_, err := ReadComponent(r)
		fmt.Println("   err:", err)
	})
	probe("ReadName of /a/<empty> split in two segments", func() {
		r := NewWireReader(Wire{{0x08, 0x01, 0x61}, {0x08, 0x00}})
		_, err := ReadName(r)
		fmt.Println("   err:", err)
	})
	probe("ReadBuf negative", func() { NewWireReader(Wire{{1, 2, 3}}).ReadBuf(-1) })
	probe("ReadBuf huge", func() { NewWireReader(Wire{{1, 2, 3}}).ReadBuf(1 << 62) })
	probe("ReadWire negative", func() { NewWireReader(Wire{{1, 2, 3}}).ReadWire(-1) })
	probe("Delegate huge", func() { NewWireReader(Wire{{1, 2, 3}, {4}}).Delegate(1 << 62) })
	probe("Skip huge", func() { NewWireReader(Wire{{1, 2, 3}, {4}}).Skip(1<<63 - 1) })
	probe("Read into empty after end", func() {
		r := NewWireReader(Wire{{1}})
		r.ReadByte()
		r.Read(nil)
	})
}
