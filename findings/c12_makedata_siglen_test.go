package spec_2022_test

import (
	"crypto/rand"
	"crypto/rsa"
	"testing"
	"time"

	enc "github.com/named-data/ndnd/std/encoding"
	"github.com/named-data/ndnd/std/ndn"
	spec "github.com/named-data/ndnd/std/ndn/spec_2022"
	sec "github.com/named-data/ndnd/std/security"
)

// A signer whose estimate is est bytes and whose signature is n bytes (n <= est is allowed by MakeData).
type h6Signer struct{ est, n int }

func (s h6Signer) SigInfo() (*ndn.SigConfig, error) {
	name, _ := enc.NameFromStr("/key")
	return &ndn.SigConfig{Type: ndn.SignatureSha256WithRsa, KeyName: name}, nil
}
func (s h6Signer) EstimateSize() uint { return uint(s.est) }
func (s h6Signer) ComputeSigValue(enc.Wire) ([]byte, error) {
	return make([]byte, s.n), nil
}

func h6MakeAndRead(t *testing.T, signer ndn.Signer, label string) {
	name, _ := enc.NameFromStr("/a/b")
	d, err := spec.Spec{}.MakeData(name, &ndn.DataConfig{}, enc.Wire{[]byte("hello")}, signer)
	if err != nil {
		t.Errorf("%s: MakeData error %v", label, err)
		return
	}
	buf := d.Wire.Join()
	got, _, err := spec.Spec{}.ReadData(enc.NewBufferReader(buf))
	if err != nil {
		t.Errorf("%s: C03 violated: MakeData succeeded but ReadData(MakeData(..)) fails: %v", label, err)
		return
	}
	want, _ := signer.ComputeSigValue(d.SigCovered)
	if len(got.Signature().SigValue()) != len(want) {
		t.Errorf("%s: C03 violated: signature value length decoded %d, signed %d", label, len(got.Signature().SigValue()), len(want))
		return
	}
	t.Logf("%s: ok (%d bytes)", label, len(buf))
}

func TestH6MakeDataSignatureLength(t *testing.T) {
	h6MakeAndRead(t, h6Signer{est: 72, n: 70}, "est=72 sig=70 (ECDSA-like)")
	h6MakeAndRead(t, h6Signer{est: 256, n: 256}, "est=256 sig=256")
	h6MakeAndRead(t, h6Signer{est: 256, n: 255}, "est=256 sig=255")
	h6MakeAndRead(t, h6Signer{est: 600, n: 256}, "est=600 sig=256")
	h6MakeAndRead(t, h6Signer{est: 253, n: 252}, "est=253 sig=252")
	key, _ := rsa.GenerateKey(rand.Reader, 2048)
	kn, _ := enc.NameFromStr("/key")
	h6MakeAndRead(t, sec.NewRsaSigner(false, false, time.Hour, key, kn), "shipped RSA-2048 signer")
}
