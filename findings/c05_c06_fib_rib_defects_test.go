package table

// Demonstrations (on the real, unmodified code) of the defects found while verifying C05 / C06.
// Each test FAILS on the defective code and passes once the corresponding fix-<n>.diff is applied.
// Run (from the repository root, file copied to fw/table/):
//   go test -vet=off -count=1 -run 'TestH3' -v ./fw/table/

import (
	"sort"
	"testing"

	enc "github.com/named-data/ndnd/std/encoding"
)

func h3name(s string) enc.Name { n, _ := enc.NameFromStr(s); return n }

func h3faces(hops []*FibNextHopEntry) []uint64 {
	var fs []uint64
	for _, h := range hops {
		fs = append(fs, h.Nexthop)
	}
	sort.Slice(fs, func(i, j int) bool { return fs[i] < fs[j] })
	return fs
}

func h3eq(a []uint64, b ...uint64) bool {
	if len(a) != len(b) {
		return false
	}
	for i := range a {
		if a[i] != b[i] {
			return false
		}
	}
	return true
}

func h3freshRib() *RibTable {
	return &RibTable{RibEntry: RibEntry{children: map[*RibEntry]bool{}}}
}

// fix-1: UnSetStrategyEnc("/") must not remove the root strategy (name tree).
func TestH3_Tree_UnsetRootStrategy(t *testing.T) {
	newFibStrategyTableTree()
	FibStrategyTable.UnSetStrategyEnc(h3name("/"))
	if s := FibStrategyTable.FindStrategyEnc(h3name("/a/b")); s == nil {
		t.Fatalf("C05 [root-strategy]: after UnSetStrategyEnc(/) FindStrategyEnc(/a/b) = nil")
	}
}

// fix-2: UnSetStrategyEnc("/") must not remove the root strategy (hash table).
func TestH3_HashTable_UnsetRootStrategy(t *testing.T) {
	for m := uint16(1); m <= 3; m++ {
		newFibStrategyTableHashTable(m)
		FibStrategyTable.UnSetStrategyEnc(h3name("/"))
		if s := FibStrategyTable.FindStrategyEnc(h3name("/a/b")); s == nil {
			t.Fatalf("C05 [root-strategy] m=%d: after UnSetStrategyEnc(/) FindStrategyEnc(/a/b) = nil", m)
		}
	}
}

// fix-3: pruneIfEmpty must unlink every childless, entry-less ancestor, not only the leaf.
func TestH3_Tree_PruneAncestors(t *testing.T) {
	newFibStrategyTableTree()
	f := FibStrategyTable.(*FibStrategyTree)
	f.InsertNextHopEnc(h3name("/a/b/c"), 1, 10)
	f.RemoveNextHopEnc(h3name("/a/b/c"), 1)
	if n := len(f.root.children); n != 0 {
		t.Fatalf("C05 [ancestors-pruned]: after removing the only next hop of /a/b/c the root still has %d child(ren); /a/b still linked: %v",
			n, f.root.findExactMatchEntryEnc(h3name("/a/b")) != nil)
	}
}

// fix-4: ClearNextHopsEnc must prune the emptied node (and forget it in fibPrefixes), like RemoveNextHopEnc does.
func TestH3_Tree_ClearPrunes(t *testing.T) {
	newFibStrategyTableTree()
	f := FibStrategyTable.(*FibStrategyTree)
	f.InsertNextHopEnc(h3name("/x/y"), 1, 10)
	f.ClearNextHopsEnc(h3name("/x/y"))
	if f.root.findExactMatchEntryEnc(h3name("/x/y")) != nil {
		t.Fatalf("C05 [pruned]: after ClearNextHopsEnc(/x/y) the empty node /x/y is still in the tree")
	}
	if _, ok := f.fibPrefixes[h3name("/x/y").Hash()]; ok {
		t.Fatalf("C05 [pruned]: after ClearNextHopsEnc(/x/y) fibPrefixes still lists /x/y")
	}
}

func h3bothFibs(t *testing.T, f func(t *testing.T, kind string)) {
	newFibStrategyTableTree()
	f(t, "nametree")
	newFibStrategyTableHashTable(2)
	f(t, "hashtable(m=2)")
}

// fix-5: inheritance stops at (and includes) the nearest ancestor holding a capture route.
func TestH3_Rib_CaptureStopsInheritance(t *testing.T) {
	h3bothFibs(t, func(t *testing.T, kind string) {
		rib := h3freshRib()
		rib.AddEncRoute(h3name("/a"), &Route{FaceID: 1, Cost: 10, Flags: RouteFlagChildInherit})
		rib.AddEncRoute(h3name("/a/b"), &Route{FaceID: 2, Cost: 10, Flags: RouteFlagCapture | RouteFlagChildInherit})
		rib.AddEncRoute(h3name("/a/b/c"), &Route{FaceID: 3, Cost: 10})
		got := h3faces(FibStrategyTable.FindNextHopsEnc(h3name("/a/b/c")))
		if !h3eq(got, 2, 3) {
			t.Errorf("C06 [capture-stops] %s: /a/b/c forwards to faces %v, want [2 3] (face 1 of /a is behind the capture route of /a/b)", kind, got)
		}
	})
}

// fix-6: a name-less filler node must not write into the root FIB entry.
func TestH3_Rib_FillerDoesNotWriteRoot(t *testing.T) {
	h3bothFibs(t, func(t *testing.T, kind string) {
		rib := h3freshRib()
		rib.AddEncRoute(h3name("/x/y/z"), &Route{FaceID: 9, Cost: 10})
		rib.AddEncRoute(h3name("/x"), &Route{FaceID: 7, Cost: 10, Flags: RouteFlagChildInherit})
		got := h3faces(FibStrategyTable.FindNextHopsEnc(h3name("/q")))
		if len(got) != 0 {
			t.Errorf("C06 [filler-silent] %s: /q (never registered, nothing registered on /) forwards to faces %v", kind, got)
		}
	})
}

// fix-7: the FIB entry of a prefix must not survive the removal of its last route.
func TestH3_Rib_EntryDroppedWithLastRoute(t *testing.T) {
	h3bothFibs(t, func(t *testing.T, kind string) {
		rib := h3freshRib()
		rib.AddEncRoute(h3name("/a"), &Route{FaceID: 1, Cost: 10, Flags: RouteFlagChildInherit})
		rib.AddEncRoute(h3name("/a/b"), &Route{FaceID: 2, Cost: 10})
		rib.RemoveRouteEnc(h3name("/a/b"), 2, 0)
		rib.RemoveRouteEnc(h3name("/a"), 1, 0)
		got := h3faces(FibStrategyTable.FindNextHopsEnc(h3name("/a/b/x")))
		if len(got) != 0 {
			t.Errorf("C06 [no-routes-no-entry] %s: every route is unregistered, yet /a/b/x forwards to faces %v", kind, got)
		}
	})
}

// fix-8: CleanUpFace removes every route of the face, not only the first one per entry.
func TestH3_Rib_CleanUpFaceRemovesAll(t *testing.T) {
	h3bothFibs(t, func(t *testing.T, kind string) {
		rib := h3freshRib()
		rib.AddEncRoute(h3name("/m"), &Route{FaceID: 5, Origin: RouteOriginApp, Cost: 10})
		rib.AddEncRoute(h3name("/m"), &Route{FaceID: 5, Origin: RouteOriginClient, Cost: 20})
		rib.CleanUpFace(5)
		got := h3faces(FibStrategyTable.FindNextHopsEnc(h3name("/m")))
		if len(got) != 0 {
			t.Errorf("C06 [face-gone] %s: face 5 was destroyed, yet /m forwards to faces %v", kind, got)
		}
	})
}
