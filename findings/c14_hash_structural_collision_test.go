package encoding

import "testing"

// Observation (not a violation of C14's text): Name.Hash absorbs, per component, the type as 8 big-endian bytes and then the
// value bytes, WITHOUT the value length. Two different names can therefore feed the same byte string to the hasher:
// /a/b  and the one-component name whose value is "a" || 00 00 00 00 00 00 00 08 || "b".
func TestHashStructuralCollision(t *testing.T) {
	n1 := Name{NewBytesComponent(TypeGenericNameComponent, []byte("a")), NewBytesComponent(TypeGenericNameComponent, []byte("b"))}
	n2 := Name{NewBytesComponent(TypeGenericNameComponent, []byte{'a', 0, 0, 0, 0, 0, 0, 0, 8, 'b'})}
	if n1.Equal(n2) {
		t.Fatal("names must differ")
	}
	if n1.Hash() != n2.Hash() {
		t.Skip("no structural collision")
	}
	t.Logf("different names, same hash %x: %s vs %s", n1.Hash(), n1, n2)
	if n1.PrefixHash()[2] != n2.PrefixHash()[1] {
		t.Fatal("prefix hashes disagree with Hash")
	}
}
