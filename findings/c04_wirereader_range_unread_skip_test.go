package encoding

import (
	"bytes"
	"testing"
)

// H8 defect probes for the segmented reader (in-package: they look at seg/pos).
// Run: go test -vet=off -count=1 -run 'TestH8' ./std/encoding/

func h8Wire() Wire {
	return Wire{Buffer{0, 1}, Buffer{2, 3}, Buffer{4, 5}, Buffer{6, 7}, Buffer{8, 9}}
}

// Range(a,b) must return the logical bytes [a,b). With the range starting in segment 1 and spanning
// three or more segments the middle pieces are stored at ret[i] instead of ret[i-startSeg].
func TestH8RangeStartSeg1WrongBytes(t *testing.T) {
	r := NewWireReader(h8Wire())
	got := r.Range(3, 8) // logical bytes 3,4,5,6,7: segments 1..3
	want := []byte{3, 4, 5, 6, 7}
	if !bytes.Equal(got.Join(), want) {
		t.Fatalf("Range(3,8) = %v (pieces %v), want %v", got.Join(), got, want)
	}
}

// With the range starting in segment 2 or later the misplaced index is out of range: panic.
func TestH8RangeStartSeg2Panics(t *testing.T) {
	defer func() {
		if e := recover(); e != nil {
			t.Fatalf("Range(5,10) panicked: %v", e)
		}
	}()
	r := NewWireReader(h8Wire())
	got := r.Range(5, 10) // segments 2..4
	want := []byte{5, 6, 7, 8, 9}
	if !bytes.Equal(got.Join(), want) {
		t.Fatalf("Range(5,10) = %v, want %v", got.Join(), want)
	}
}

// UnreadByte after an empty segment leaves pos == -1; the next ReadByte indexes wire[seg][-1].
func TestH8UnreadByteAfterEmptySegment(t *testing.T) {
	defer func() {
		if e := recover(); e != nil {
			t.Fatalf("panic after UnreadByte: %v", e)
		}
	}()
	r := NewWireReader(Wire{Buffer{7}, Buffer{}, Buffer{9}})
	if b, err := r.ReadByte(); err != nil || b != 7 {
		t.Fatalf("first ReadByte: %v %v", b, err)
	}
	if b, err := r.ReadByte(); err != nil || b != 9 { // crosses the empty segment: seg=2,pos=1
		t.Fatalf("second ReadByte: %v %v", b, err)
	}
	_ = r.UnreadByte() // seg=2,pos=0
	if err := r.UnreadByte(); err != nil { // seg=1 (empty): pos = len-1 = -1
		t.Fatalf("UnreadByte at logical position 1 failed: %v", err)
	}
	if r.pos < 0 {
		t.Errorf("cursor invariant broken: seg=%d pos=%d (Pos()=%d, want 0)", r.seg, r.pos, r.Pos())
	}
	if b, err := r.ReadByte(); err != nil || b != 7 {
		t.Fatalf("ReadByte after two UnreadByte = %v, %v; want 7", b, err)
	}
}

// Skip beyond the end returns an error but moves the position to the end (BufferReader.Skip and every
// other failing WireReader operation leave the position unchanged).
func TestH8SkipErrorMovesPosition(t *testing.T) {
	r := NewWireReader(h8Wire())
	_ = r.Skip(3)
	if err := r.Skip(100); err == nil {
		t.Fatalf("Skip(100) succeeded")
	}
	if r.Pos() != 3 {
		t.Errorf("failed Skip moved the position: Pos()=%d, want 3", r.Pos())
	}
	b := NewBufferReader(Buffer{0, 1, 2, 3, 4, 5, 6, 7, 8, 9})
	_ = b.Skip(3)
	_ = b.Skip(100)
	if b.Pos() != 3 {
		t.Errorf("BufferReader: Pos()=%d", b.Pos())
	}
}
