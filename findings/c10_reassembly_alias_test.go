package face

import (
	"bytes"
	"testing"

	defn "github.com/named-data/ndnd/fw/defn"
	"github.com/named-data/ndnd/fw/dispatch"
	"github.com/named-data/ndnd/fw/fw"
	enc "github.com/named-data/ndnd/std/encoding"
	spec "github.com/named-data/ndnd/std/ndn/spec_2022"
)

type seedCapTransport struct {
	transportBase
	frames [][]byte
}

func (t *seedCapTransport) String() string                  { return "seed-capture-transport" }
func (t *seedCapTransport) SetPersistency(Persistency) bool { return true }
func (t *seedCapTransport) GetSendQueueSize() uint64        { return 0 }
func (t *seedCapTransport) sendFrame(f []byte) {
	t.frames = append(t.frames, append([]byte(nil), f...))
}
func (t *seedCapTransport) runReceive() {}
func (t *seedCapTransport) Close()      {}

type seedSink struct{ got []*defn.Pkt }

func (s *seedSink) String() string            { return "seed-sink" }
func (s *seedSink) QueueData(p *defn.Pkt)     { s.got = append(s.got, p) }
func (s *seedSink) QueueInterest(p *defn.Pkt) { s.got = append(s.got, p) }
func (s *seedSink) GetNumPitEntries() int     { return 0 }
func (s *seedSink) GetNumCsEntries() int      { return 0 }

func seedNewLink(mtu int, opts NDNLPLinkServiceOptions) (*NDNLPLinkService, *seedCapTransport) {
	tr := &seedCapTransport{}
	tr.makeTransportBase(defn.MakeNullFaceURI(), defn.MakeNullFaceURI(),
		PersistencyPermanent, defn.NonLocal, defn.PointToPoint, mtu)
	return MakeNDNLPLinkService(tr, opts), tr
}

// seedData builds a well-formed Data packet of exactly `size` bytes (size >= 16).
func seedData(size int, fill byte) []byte {
	for k := 1; k <= 8; k++ {
		name := append([]byte{0x07, byte(2 + k), 0x08, byte(k)}, bytes.Repeat([]byte{'a'}, k)...)
		for c := 0; c <= size; c++ {
			inner := len(name) + 1 + enc.TLNum(c).EncodingLength() + c
			total := 1 + enc.TLNum(inner).EncodingLength() + inner
			if total != size {
				continue
			}
			b := []byte{0x06}
			lb := make([]byte, enc.TLNum(inner).EncodingLength())
			enc.TLNum(inner).EncodeInto(lb)
			b = append(b, lb...)
			b = append(b, name...)
			b = append(b, 0x15)
			lb = make([]byte, enc.TLNum(c).EncodingLength())
			enc.TLNum(c).EncodeInto(lb)
			b = append(b, lb...)
			for i := 0; i < c; i++ {
				b = append(b, fill+byte(i%251))
			}
			return b
		}
	}
	return nil // 255 and 256 are not the size of any TLV
}

func seedSend(l *NDNLPLinkService, raw []byte, token []byte, mark *uint64, inFace *uint64) {
	l3, _, err := spec.ReadPacket(enc.NewBufferReader(raw))
	if err != nil {
		panic(err)
	}
	sendPacket(l, dispatch.OutPkt{
		Pkt:      &defn.Pkt{Raw: raw, L3: l3, CongestionMark: mark},
		PitToken: token,
		InFace:   inFace,
	})
}

func seedSetupSink() *seedSink {
	sink := &seedSink{}
	fw.Threads = make([]*fw.Thread, 1)
	dispatch.InitializeFWThreads([]dispatch.FWThread{sink})
	return sink
}


// C10 defect (found by the loop invariant [source-intact] of handleIncomingFrame): after reassembly the pieces of the
// packet include the payload of the frame that completed the message, which lives in the frame copy `wire`;
// handleIncomingFrame then concatenated the pieces INTO wire[:0], overwriting that payload before it was read whenever the
// completing fragment was not fragment 0. In-order delivery of a fragmented packet was corrupted.
func TestC10ReassemblyInOrderDeliversOriginalBytes(t *testing.T) {
	sink := seedSetupSink()
	for _, mtu := range []int{128, 300, 1500} {
		for _, size := range []int{131, 140, 150, 700, 2000, 4000} {
			raw := seedData(size, 0x31)
			if raw == nil {
				continue
			}
			tx, wire := seedNewLink(mtu, MakeNDNLPLinkServiceOptions())
			mark := uint64(5)
			seedSend(tx, raw, []byte{0, 0, 0, 0, 0, 9}, &mark, nil)
			if len(wire.frames) < 2 {
				continue
			}
			rx, _ := seedNewLink(mtu, MakeNDNLPLinkServiceOptions())
			sink.got = nil
			for _, f := range wire.frames { // fragment 0 first: the natural order on a FIFO link
				rx.handleIncomingFrame(f)
			}
			if len(sink.got) != 1 {
				t.Errorf("mtu %d size %d: %d packets delivered for one packet sent in %d frames", mtu, size, len(sink.got), len(wire.frames))
				continue
			}
			if !bytes.Equal(sink.got[0].Raw, raw) {
				d := 0
				for d < len(raw) && d < len(sink.got[0].Raw) && raw[d] == sink.got[0].Raw[d] {
					d++
				}
				t.Errorf("DEFECT mtu %d size %d: delivered bytes differ from the packet sent (first difference at offset %d of %d)", mtu, size, d, len(raw))
			}
		}
	}
}
