package table

import (
	"testing"

	enc "github.com/named-data/ndnd/std/encoding"
)

func h4Name(t *testing.T, s string) enc.Name {
	n, err := enc.NameFromStr(s)
	if err != nil {
		t.Fatal(err)
	}
	return n
}

// countNodes counts the nodes of the PIT-CS name tree below (and including) n.
func h4CountNodes(n *pitCsTreeNode) int {
	c := 1
	for _, ch := range n.children {
		c += h4CountNodes(ch)
	}
	return c
}

// Defect 1 (C08): CS eviction leaves the emptied name-tree branch behind.
// Contract violated: (*PitCsTree).eraseCsDataFromReplacementStrategy  ensures [no-dead-branch].
func TestH4EvictionLeavesDeadBranch(t *testing.T) {
	csReplacementPolicy = "lru"
	old := csCapacity
	defer func() { csCapacity = old }()
	csCapacity = 1
	p := NewPitCS(func(PitEntry) {})
	p.InsertData(makeData(h4Name(t, "/c/d/e/f"), enc.Wire{}), VALID_DATA_1)
	p.InsertData(makeData(h4Name(t, "/x"), enc.Wire{}), VALID_DATA_2) // evicts /c/d/e/f
	if p.CsSize() != 1 {
		t.Fatalf("CsSize = %d, want 1", p.CsSize())
	}
	// live content: root + /x  => 2 nodes
	if got := h4CountNodes(p.root); got != 2 {
		t.Errorf("name tree holds %d nodes after eviction, want 2 (root and /x): the branch /c/d/e/f was not pruned", got)
	}
}

// Defect 2 (C08): CS eviction forgets to delete the key of the evicted entry from CsLRU.locations.
// Contract violated: (*CsLRU).EvictEntries  invariant lruInv (queue.len == len(locations), every location is a live queue element).
func TestH4EvictionLeavesStaleLocation(t *testing.T) {
	csReplacementPolicy = "lru"
	old := csCapacity
	defer func() { csCapacity = old }()
	csCapacity = 1
	p := NewPitCS(func(PitEntry) {})
	names := []string{"/a/1", "/a/2", "/a/3", "/a/4", "/a/5"}
	for _, s := range names {
		p.InsertData(makeData(h4Name(t, s), enc.Wire{}), VALID_DATA_1)
	}
	lru := p.csReplacement.(*CsLRU)
	if lru.queue.Len() != 1 || p.CsSize() != 1 {
		t.Fatalf("queue %d, CsSize %d, want 1/1", lru.queue.Len(), p.CsSize())
	}
	if len(lru.locations) != lru.queue.Len() {
		t.Errorf("CsLRU.locations holds %d keys for a queue of %d elements: keys of evicted entries are never forgotten", len(lru.locations), lru.queue.Len())
	}
}

// Defect 3 (C07): a negative capacity (management sets int(uint64) >= 2^63, see fw/mgmt/cs.go) makes the next insertion
// dereference Front() == nil. Contract violated: (*CsLRU).EvictEntries  #nil:l.queue.Front().Value.
func TestH4NegativeCapacityPanics(t *testing.T) {
	csReplacementPolicy = "lru"
	old := csCapacity
	defer func() { csCapacity = old }()
	p := NewPitCS(func(PitEntry) {})
	var fromMgmt uint64 = 1 << 63
	SetCsCapacity(int(fromMgmt))
	defer func() {
		if r := recover(); r != nil {
			t.Errorf("InsertData panicked with capacity %d: %v", CsCapacity(), r)
		}
	}()
	p.InsertData(makeData(h4Name(t, "/a"), enc.Wire{}), VALID_DATA_1)
	if p.CsSize() != 0 {
		t.Errorf("CsSize = %d, want 0 (= max(capacity, 0))", p.CsSize())
	}
}
