#!/usr/bin/env python3
"""Regenerate /verif/MANIFEST.json from props/*.json, not_applicable.json and the hook commits in /repo."""
import json, glob, os, subprocess
V = '/verif'
ids = [json.loads(l)['id'] for l in open(f'{V}/properties.jsonl')]
props = {}
for f in sorted(glob.glob(f'{V}/props/C*.json')):
    p = json.load(open(f)); props[p['id']] = p
na = {x['property_id']: x['reason'] for x in json.load(open(f'{V}/not_applicable.json'))}
hooks = subprocess.run(['git', '-C', '/repo', 'log', '--format=%H %s'], capture_output=True, text=True).stdout.splitlines()
hook_commits = [l.split()[0] for l in hooks if l.split(' ', 1)[1].startswith('verif:')]
checks = []
for i in ids:
    if i not in props or props[i].get('claimed', True) is False:
        continue
    p = props[i]
    tech = p.get('technique', 'contract-based deductive verification: WP/VC generation over go/ssa of the real code, contracts in guarded zz_verif_contracts.go files, obligations discharged by z3/cvc5')
    note = p['level_note']
    bd = p.get('bounded') or []
    if bd:
        tech += '; plus bounded stand-ins (labelled bounded, never counted as proved) for clauses the solvers do not decide: exhaustive enumeration of the real code through go test -overlay against an oracle written from the property statement (' + ', '.join(b['name'] for b in bd) + ')'
        note += ' BOUNDED stand-ins (not proofs; bound stated per harness in the evidence file under coverage.bounded): ' + '; '.join(f"{b['name']}: {b['stands_for']} [bound: {b['bound']}]" for b in bd)
    checks.append({
        'property_id': i,
        'quick_cmd': f'./check {i} quick',
        'thorough_cmd': f'./check {i} thorough',
        'evidence_file': f'/verif/evidence/{i}.json',
        'replay_cmd_template': './check-replay {path}',
        'engine': 'gcv',
        'level_claimed': {'category': p.get('level', 'proof'), 'text': p['level_text'], 'design_ref': f'DESIGN.md section 7 ({i})'},
        'level_note': note,
        'technique': tech,
    })
not_app = []
for i in ids:
    if i in [c['property_id'] for c in checks]:
        continue
    not_app.append({'property_id': i, 'reason': na.get(i, 'check not built yet (work in progress; see DESIGN.md section 7)')})
m = {
 'version': 1,
 'setup_cmd': 'cd /verif/gcv && GOFLAGS=-mod=mod GOPROXY=off GOSUMDB=off GOTOOLCHAIN=local GOCACHE=/var/tmp/verif-gocache go build -o /verif/bin/gcv .',
 'hooks': {'guard': 'verif',
           'enable': 'go build/test -tags verif (the contract and ghost files zz_verif_contracts.go carry //go:build verif; gcv loads packages with that tag)',
           'baseline_off_cmd': 'cd /repo && GOFLAGS=-mod=mod GOPROXY=off GOSUMDB=off GOTOOLCHAIN=local go test -vet=off -count=1 ./...',
           'source_commits': hook_commits, 'add_only': True},
 'engines': [{'name': 'gcv', 'path': '/verif/gcv', 'serves_properties': [c['property_id'] for c in checks],
              'kind_free_text': 'own contract verifier for Go: go/packages + go/ssa (x/tools v0.29.0) -> weakest-precondition style VCs (Burstall heap, wrap-around integers, loop invariants, modular calls) -> SMT-LIB -> z3 5.1.0 / z3 4.8.12 / cvc5 1.0.3; counterexamples replayed on the real code through go test -overlay'}],
 'checks': checks,
 'not_applicable': not_app,
 'notes': 'Every check regenerates its obligations from /repo\'s working tree on each run. Exit 2 + TOOL-ERROR means the check could not run (tree does not build, contract no longer resolves); it is not a violation report.',
}
json.dump(m, open(f'{V}/MANIFEST.json', 'w'), indent=1)
print('checks:', [c['property_id'] for c in checks], 'n/a:', len(not_app))
