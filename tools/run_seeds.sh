#!/bin/bash
# usage: run_seeds.sh [seed ids...]   (default: every /verif/seeded/*/ whose meta.json says keep=true)
# For each seeded change: apply it to /repo's working tree, run the quick check of its property (and any extra property
# given in meta.json "also"), record exit code and VIOLATION lines in /verif/seeded/<id>/result.json, undo the change.
# PROP=<id> overrides the property whose check is run (a change seeded for one property may be caught by another's check).
# Never commits anything. Refuses to run if /repo has uncommitted changes to tracked files.
cd /verif || exit 2
if [ -n "$(git -C /repo status --porcelain --untracked-files=no)" ]; then echo "refusing: /repo has uncommitted changes"; exit 2; fi
ids="$@"; [ -z "$ids" ] && ids=$(ls /verif/seeded)
for id in $ids; do
  d=/verif/seeded/$id
  [ -f $d/patch.diff ] || continue
  prop=${PROP:-${id%%-*}}; prop_hit=
  if ! git -C /repo apply --check $d/patch.diff 2>/dev/null; then
    echo "$id: patch does not apply to the current tree (code changed since it was made)"; 
    python3 - $d <<'PY'
import json,sys
json.dump({"applies":False},open(sys.argv[1]+'/result.json','w'),indent=1)
PY
    continue
  fi
  git -C /repo apply $d/patch.diff
  cp evidence/$prop.json /var/tmp/evidence_$prop.keep 2>/dev/null   # the run on the changed tree must not leave its evidence behind
  out=$(./check $prop quick 2>&1); rc=$?
  # extra properties whose check also covers the changed code (meta.json "also"): the change counts as caught if any of them reports it
  if [ $rc -ne 1 ] && [ -z "$PROP" ]; then
    for p2 in $(python3 -c "import json,sys; print(' '.join(json.load(open('$d/meta.json')).get('also',[])))" 2>/dev/null); do
      cp evidence/$p2.json /var/tmp/evidence_$p2.keep 2>/dev/null
      out2=$(./check $p2 quick 2>&1); rc2=$?
      [ -f /var/tmp/evidence_$p2.keep ] && mv /var/tmp/evidence_$p2.keep evidence/$p2.json
      if [ $rc2 -eq 1 ]; then out="$out2"; rc=1; prop_hit=$p2; break; fi
    done
  fi
  git -C /repo checkout -- . 
  [ -f /var/tmp/evidence_$prop.keep ] && mv /var/tmp/evidence_$prop.keep evidence/$prop.json
  viol=$(echo "$out" | grep "^VIOLATION" | head -5)
  echo "$id: exit=$rc $(echo "$viol" | head -1 | cut -c1-160)"
  PROP_HIT=$prop_hit python3 - $d $rc "$viol" "$(echo "$out" | tail -3)" <<'PY'
import json,sys
d,rc,viol,tail=sys.argv[1:5]
import os
r={"applies":True,"check_exit":int(rc),"caught":int(rc)==1,"violations":[v for v in viol.split('\n') if v],"tail":tail,"checked_property":os.environ.get("PROP","") or os.environ.get("PROP_HIT","")}
json.dump(r,open(d+'/result.json','w'),indent=1)
PY
done
