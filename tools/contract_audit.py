#!/usr/bin/env python3
"""contract_audit.py: which contracts of repository functions are APPLIED at call sites of verified functions but have
their own body verified by NO registered check?  Reads /verif/evidence/*.json (written by the checks themselves).
Such a contract is an assumption that is not listed anywhere; the answer should be the empty list (or every entry must be
explained in DESIGN.md 11.6)."""
import json,glob,sys
verified={}; used={}
for f in sorted(glob.glob('/verif/evidence/*.json')):
    e=json.load(open(f)); pid=e['property_id']; c=e['coverage']
    for fn in c.get('functions_under_contract',[]): verified.setdefault(fn,[]).append(pid)
    for fn in c.get('callee_contracts_not_verified_here',[]) or []: used.setdefault(fn,[]).append(pid)
gap={fn:ps for fn,ps in used.items() if fn not in verified}
for fn,ps in sorted(gap.items()): print("NOT VERIFIED ANYWHERE:",fn,"used by",",".join(ps))
print(f"{len(used)} callee contracts used across checks, {len(gap)} verified by no check")
sys.exit(1 if gap else 0)
