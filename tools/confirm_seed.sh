#!/bin/bash
# usage: confirm_seed.sh <seed dir under /verif/seeded> <property id> <scratch worktree>
# Confirms a seeded change independently: applies, builds, full suite passes, demo fails with / passes without. Writes meta.json.
export GOFLAGS=-mod=mod GOPROXY=off GOSUMDB=off GOTOOLCHAIN=local
d="$1"; prop="$2"; wt="$3"
cd "$wt" || exit 2
git checkout -q -- . ; git clean -fdq
pkgdir=$(head -1 "$d/demo_test.go" | grep -oE '[a-z][a-z_0-9]*(/[a-z_0-9]+)+' | head -1)
[ -d "$wt/$pkgdir" ] || { echo "cannot find package dir in first line of demo ($pkgdir)"; exit 2; }
cp "$d/demo_test.go" "$wt/$pkgdir/zz_seed_demo_test.go"
base_demo=$(go test -vet=off -count=1 -timeout 120s "./$pkgdir/" -run . 2>&1 | tail -3 | tr '\n' ' ')
base_ok=$?; go test -vet=off -count=1 -timeout 120s "./$pkgdir/" >/dev/null 2>&1; base_ok=$?
rm -f "$wt/$pkgdir/zz_seed_demo_test.go"
git apply "$d/patch.diff" || { echo "patch does not apply"; exit 2; }
go build ./... >/dev/null 2>&1; build=$?
suite=$(go test -vet=off -count=1 -timeout 25m ./... 2>&1 | grep -c "^FAIL"); 
cp "$d/demo_test.go" "$wt/$pkgdir/zz_seed_demo_test.go"
go test -vet=off -count=1 -timeout 120s "./$pkgdir/" >/dev/null 2>&1; mut_ok=$?
rm -f "$wt/$pkgdir/zz_seed_demo_test.go"
git checkout -q -- . ; git clean -fdq
python3 - "$d" "$prop" "$pkgdir" "$base_ok" "$build" "$suite" "$mut_ok" <<'PY'
import json,sys,os
d,prop,pkg,base_ok,build,suite,mut_ok=sys.argv[1:]
notes=open(os.path.join(d,'notes.md')).read() if os.path.exists(os.path.join(d,'notes.md')) else ''
meta={"property":prop,"demo_package":pkg,
 "confirmed":{"patch_applies":True,"builds":build=="0","existing_suite_failures_with_change":int(suite),
              "demo_passes_without_change":base_ok=="0","demo_fails_with_change":mut_ok!="0"},
 "ran":["git apply patch.diff","go build ./...","go test -vet=off -count=1 ./...  (whole suite, with the change)",
        "go test -vet=off -count=1 ./"+pkg+"/  (with demo_test.go copied in; once without and once with the change)"],
 "needs_to_manifest": notes[:1500]}
meta["keep"]= meta["confirmed"]["builds"] and meta["confirmed"]["existing_suite_failures_with_change"]==0 and meta["confirmed"]["demo_passes_without_change"] and meta["confirmed"]["demo_fails_with_change"]
json.dump(meta,open(os.path.join(d,'meta.json'),'w'),indent=1)
print(d, "keep=",meta["keep"], meta["confirmed"])
PY
