#!/bin/bash
# usage: mkhelper.sh <name>   -> /var/tmp/<name>/repo (detached worktree of /repo HEAD) and /var/tmp/<name>/verif (copy of /verif with its own gcv build)
# Helpers write contracts there; nothing they do touches /repo or /verif. Remove with rmhelper.sh <name>.
set -e
n=$1; d=/var/tmp/$n
[ -e $d ] && { echo "$d exists"; exit 1; }
mkdir -p $d/out
git -C /repo worktree add --detach $d/repo HEAD >/dev/null 2>&1
rsync -a --exclude .git --exclude replay /verif/ $d/verif/
cat > $d/env.sh <<EOS
export GOFLAGS=-mod=mod GOPROXY=off GOSUMDB=off GOTOOLCHAIN=local GOCACHE=/var/tmp/verif-gocache
export GCV_VERIF_DIR=$d/verif GCV_DEPS=$d/verif/gcv/deps
export H=$d
gcvb() { (cd $d/verif/gcv && go build -o $d/verif/bin/gcv .); }
gcvf() { $d/verif/bin/gcv funcs -repo $d/repo "\$@"; }
gcvc() { $d/verif/bin/gcv check -repo $d/repo -prop "\$@"; }
EOS
echo $d
