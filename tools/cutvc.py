#!/usr/bin/env python3
"""cutvc.py <dump.smt2> <substring of goal line or index> -> prints a script with only that obligation (debug aid)"""
import sys
lines=open(sys.argv[1]).read().split('\n')
first=next(i for i,l in enumerate(lines) if l.startswith('(push 1)'))
hdr=lines[:first]
blocks=[];cur=[]
for l in lines[first:]:
    cur.append(l)
    if l.startswith('(pop 1)'):
        blocks.append(cur);cur=[]
key=sys.argv[2]
if key.isdigit():
    b=blocks[int(key)]
else:
    b=next(b for b in blocks if any(key in l for l in b))
to=sys.argv[3] if len(sys.argv)>3 else '20000'
b=[('(set-option :timeout %s)'%to if l.startswith('(set-option :timeout') else l) for l in b]
print('\n'.join(hdr+b))
