#!/bin/bash
# usage: run_seeds_par.sh <workers> [seed ids...]   (default: every seed with keep=true)
# Same as run_seeds.sh, but in parallel: each worker owns a scratch worktree of /repo's HEAD under /var/tmp (identical tree,
# contracts included) and the seeds of a disjoint set of properties, applies a seeded change THERE, runs the property's quick
# check against that worktree (gcv check -repo <worktree>; evidence to a scratch directory, so the committed evidence is not
# touched), records exit code and VIOLATION lines in /verif/seeded/<id>/result.json and undoes the change. Nothing is ever
# applied to /repo and nothing is committed. Worktrees are removed at the end.
export GOFLAGS=-mod=mod GOPROXY=off GOSUMDB=off GOTOOLCHAIN=local GOCACHE=${GOCACHE:-/var/tmp/verif-gocache}
cd /verif || exit 2
W=$1; shift
ids="$@"; [ -z "$ids" ] && ids=$(for d in /verif/seeded/*/; do python3 -c "import json,sys; m=json.load(open('$d/meta.json')); print('$(basename $d)') if m.get('keep') else None" 2>/dev/null; done | grep -v None)
props=$(for i in $ids; do echo ${i%%-*}; done | sort -u)
k=0; declare -A bucket
for p in $props; do bucket[$((k % W))]+=" $p"; k=$((k+1)); done
worker() {
  w=$1; shift; wt=/var/tmp/sw-$w; ev=/var/tmp/sw-ev-$w
  git -C /repo worktree remove --force $wt >/dev/null 2>&1; rm -rf $wt $ev; mkdir -p $ev
  git -C /repo worktree add --detach $wt HEAD >/dev/null 2>&1 || { echo "worker $w: cannot create worktree"; return; }
  for p in "$@"; do
    for id in $ids; do
      [ "${id%%-*}" = "$p" ] || continue
      d=/verif/seeded/$id
      if ! git -C $wt apply --check $d/patch.diff 2>/dev/null; then
        echo "$id: patch does not apply to the current tree"; echo '{"applies": false}' > $d/result.json; continue
      fi
      git -C $wt apply $d/patch.diff
      hit=; rc=0; out=
      for q in $p $(python3 -c "import json; print(' '.join(json.load(open('$d/meta.json')).get('also',[])))" 2>/dev/null); do
        # a check of another property may only run here if no other worker owns that property right now: 'also' checks are
        # serialised through a lock per property
        ( flock 9; /verif/bin/gcv check -prop $q -tier quick -repo $wt -evidence $ev ) 9>/var/tmp/sw-lock-$q > $ev/out.txt 2>&1; rc=$?
        out=$(cat $ev/out.txt)
        if [ $rc -eq 1 ]; then hit=$q; break; fi
      done
      git -C $wt checkout -q -- . ; git -C $wt clean -fdq
      viol=$(echo "$out" | grep "^VIOLATION" | head -6)
      echo "$id: exit=$rc ${hit:+[$hit]} $(echo "$viol" | head -1 | sed 's/.*replay=//' | cut -c1-150)"
      python3 - "$d" "$rc" "$viol" "$(echo "$out" | tail -2)" "$hit" <<'PY'
import json,sys
d,rc,viol,tail,hit=sys.argv[1:6]
json.dump({"applies":True,"check_exit":int(rc),"caught":int(rc)==1,"violations":[v for v in viol.split('\n') if v],"tail":tail,"checked_property":hit,"how":"scratch worktree of /repo HEAD (tools/run_seeds_par.sh)"},open(d+'/result.json','w'),indent=1)
PY
    done
  done
  git -C /repo worktree remove --force $wt >/dev/null 2>&1; rm -rf $wt $ev
}
for w in $(seq 0 $((W-1))); do worker $w ${bucket[$w]} & done
wait
git -C /repo worktree prune
