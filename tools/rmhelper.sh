#!/bin/bash
# usage: rmhelper.sh <name>  (keeps /var/tmp/<name>/out)
n=$1; d=/var/tmp/$n
git -C /repo worktree remove --force $d/repo 2>/dev/null
rm -rf $d/verif $d/repo
git -C /repo worktree prune
