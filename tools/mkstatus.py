#!/usr/bin/env python3
"""Print the as-built status tables (per property; seeded changes) as markdown, from props/, evidence/, not_claimed.json, seeded/*/."""
import json,glob,os,re
V='/verif'
props={json.loads(l)['id']:json.loads(l) for l in open(f'{V}/properties.jsonl')}
man=json.load(open(f'{V}/MANIFEST.json'))
claimed={c['property_id'] for c in man['checks']}
nc=json.load(open(f'{V}/not_claimed.json'))
kf=json.load(open(f'{V}/known_findings.json'))
print('| id | claimed | functions under contract | obligations discharged (quick) | not claimed (listed) | open findings | seeds caught |')
print('|---|---|---|---|---|---|---|')
seeds={}
for d in sorted(glob.glob(f'{V}/seeded/*/')):
    sid=os.path.basename(d.rstrip('/')); p=sid.split('-')[0]
    r=json.load(open(d+'result.json')) if os.path.exists(d+'result.json') else None
    meta=json.load(open(d+'meta.json')) if os.path.exists(d+'meta.json') else {}
    if meta.get('stale'):
        r={'applies':False,'stale':meta['stale']}
    seeds.setdefault(p,[]).append((sid,r))
for i in sorted(props):
    ev=None
    if os.path.exists(f'{V}/evidence/{i}.json'):
        ev=json.load(open(f'{V}/evidence/{i}.json'))
    if i in claimed and ev:
        cov=ev['coverage']
        nfun=len(cov.get('functions_under_contract',[])); dis=cov.get('discharged'); 
        ncl=len(cov.get('not_claimed') or [])
        op=len([k for k in kf if k['property']==i and k['status']=='open'])
        ss=seeds.get(i,[])
        caught=sum(1 for s,r in ss if r and r.get('caught'))
        tot=sum(1 for s,r in ss if r and r.get('applies'))
        print(f"| {i} | yes | {nfun} | {dis} | {ncl} | {op} | {caught}/{tot} |")
    else:
        na=[x['reason'] for x in man['not_applicable'] if x['property_id']==i]
        print(f"| {i} | no | | | | | | ")
print()
print('| seeded change | what it does | caught by | how |')
print('|---|---|---|---|')
for p in sorted(seeds):
    for sid,r in seeds[p]:
        notes=''
        nf=f'{V}/seeded/{sid}/notes.md'
        if os.path.exists(nf):
            t=open(nf).read().strip().split('\n')
            t=[x for x in t if x.strip() and not x.startswith('#')]
            notes=(t[0] if t else '')[:160].replace('|','\\|')
        if not r: res='not run'; how=''
        elif r.get('stale'): res='stale'; how=r['stale'][:150].replace('|','\\|')
        elif not r.get('applies'): res='n/a'; how='patch no longer applies (the code it changed was repaired since)'
        elif r.get('caught'):
            res=r.get('checked_property') or p; v=r['violations'][0] if r['violations'] else ''
            m=re.search(r'replay=\S*/([^/ ]+)\.json',v); how=(m.group(1) if m else '')[:90]
        else: res='MISSED'; how=''
        print(f"| {sid} | {notes} | {res} | {how} |")

# ---- per-property claims, from props/*.json (mode: python3 tools/mkstatus.py claims) ----
import sys
if len(sys.argv) > 1 and sys.argv[1] == 'claims':
    print()
    for i in sorted(props):
        f=f'{V}/props/{i}.json'
        if i in claimed and os.path.exists(f):
            p=json.load(open(f))
            print(f"#### {i} — {props[i]['title']}\n")
            print("*Claimed (level: %s).* %s\n" % (p.get('level','proof'), p['level_text']))
            print("*Limits and assumptions.* %s\n" % p['level_note'])
            if p.get('undecided_clauses'):
                print("*Clauses of the property left undecided:* " + "; ".join(p['undecided_clauses']) + ".\n")
            ncs=[e for e in nc if e['property']==i]
            if ncs:
                print("*Obligations under contract but not claimed:*")
                for e in ncs:
                    print("  * `%s` — %s" % (e['re'].replace('\\\\','\\'), e['reason']))
                print()
        else:
            na=[x['reason'] for x in man['not_applicable'] if x['property_id']==i]
            print(f"#### {i} — {props[i]['title']}\n")
            print("*Not claimed.* %s\n" % (na[0] if na else ''))
