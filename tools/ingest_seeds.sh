#!/bin/bash
# usage: ingest_seeds.sh <out dir of a seeding round> <scratch worktree at main> <first free ordinal per property, e.g. 6> [prop ids...]
# Copies <out>/<P>-a, <P>-b ... to /verif/seeded/<P>-<n>, confirms each independently (tools/confirm_seed.sh: applies, builds,
# whole suite passes with the change, demo passes without / fails with the change) and keeps only confirmed ones.
out="$1"; wt="$2"; n0="$3"; shift 3
for src in $(ls -d $out/*-[a-z] 2>/dev/null | sort); do
  b=$(basename $src); p=${b%%-*}
  if [ $# -gt 0 ] && ! echo " $* " | grep -q " $p "; then continue; fi
  [ -f $src/patch.diff ] && [ -f $src/demo_test.go ] || { echo "$b: incomplete, skipped"; continue; }
  [ -f $src/.ingested ] && continue
  n=$n0; while [ -e /verif/seeded/$p-$n ]; do n=$((n+1)); done
  d=/verif/seeded/$p-$n
  mkdir -p $d; cp $src/patch.diff $src/demo_test.go $d/; cp $src/notes.md $d/ 2>/dev/null
  /verif/tools/confirm_seed.sh $d $p $wt
  if python3 -c "import json,sys; sys.exit(0 if json.load(open('$d/meta.json')).get('keep') else 1)"; then touch $src/.ingested; else echo "$b: NOT confirmed, removed"; rm -rf $d; touch $src/.ingested; fi
done
