#!/bin/bash
# usage: regress.sh [ids...]  — runs the quick check of every registered property (or the given ones) on /repo as it is and
# prints one summary line each; evidence files are rewritten by the checks themselves.
cd /verif || exit 2
ids="$@"; [ -z "$ids" ] && ids=$(jq -r '.checks[].property_id' MANIFEST.json)
for p in $ids; do
  out=$(./check $p quick 2>&1); rc=$?
  echo "$p exit=$rc $(echo "$out" | tail -1)"
  echo "$out" | grep -E '^(VIOLATION|TOOL-ERROR|KNOWN-FINDING)' | cut -c1-300 | sed 's/^/    /'
done
