#!/bin/bash
# usage: mkseeder.sh <name>  -> /var/tmp/<name>/repo: detached worktree of /repo HEAD WITHOUT the zz_verif_* contract files (sparse checkout),
# so that a seeding session sees nothing of what the checks cover. Output expected in /var/tmp/<name>/out/<P>-a, <P>-b …
set -e
n=$1; d=/var/tmp/$n
[ -e $d ] && { echo "$d exists"; exit 1; }
mkdir -p $d/out
git -C /repo worktree add --detach $d/repo HEAD >/dev/null 2>&1
git -C $d/repo sparse-checkout set --no-cone '/*' '!zz_verif_*' >/dev/null 2>&1
[ -z "$(find $d/repo -name 'zz_verif_*')" ] || { echo "contract files still present"; exit 1; }
echo $d
