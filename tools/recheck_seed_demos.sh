#!/bin/bash
# usage: recheck_seed_demos.sh <scratch worktree of /repo at main> [seed ids...]
# Re-confirms, on the CURRENT tree, that each kept seeded change still manifests: its demonstration passes without the
# change and fails with it. (A later fix: commit can make a seeded change harmless; such seeds are marked stale by hand.)
export GOFLAGS=-mod=mod GOPROXY=off GOSUMDB=off GOTOOLCHAIN=local
wt="$1"; shift
ids="$@"; [ -z "$ids" ] && ids=$(ls /verif/seeded)
cd "$wt" || exit 2
for id in $ids; do
  d=/verif/seeded/$id
  [ -f $d/patch.diff ] || continue
  git checkout -q -- . ; git clean -fdq
  pkgdir=$(head -1 "$d/demo_test.go" | grep -oE '[a-z][a-z_0-9]*(/[a-z_0-9]+)+' | head -1)
  [ -d "$wt/$pkgdir" ] || { echo "$id: cannot find package dir ($pkgdir)"; continue; }
  cp "$d/demo_test.go" "$wt/$pkgdir/zz_seed_demo_test.go"
  nice go test -vet=off -count=1 -timeout 180s "./$pkgdir/" >/dev/null 2>&1; base=$?
  if ! git apply "$d/patch.diff" 2>/dev/null; then echo "$id: patch does not apply"; rm -f "$wt/$pkgdir/zz_seed_demo_test.go"; continue; fi
  nice go test -vet=off -count=1 -timeout 180s "./$pkgdir/" >/dev/null 2>&1; mut=$?
  rm -f "$wt/$pkgdir/zz_seed_demo_test.go"
  git checkout -q -- . ; git clean -fdq
  st=ok; [ $base -ne 0 ] && st="DEMO-FAILS-ON-CLEAN-TREE"; [ $base -eq 0 ] && [ $mut -eq 0 ] && st="STALE(demo passes with the change)"
  echo "$id: $st"
done
