package main

import (
	"fmt"
	"os"
	"go/ast"
	"go/types"
	"sort"
	"strings"

	"golang.org/x/tools/go/ssa"
)

// FuncVC is the result of VC generation for one function.
type FuncVC struct {
	Fn          *ssa.Function
	Name        string
	Obligs      []*Oblig
	Lines       []string
	Notes       []string
	Unsupported string // non-empty: function left the subset (reason)
	ContractErr string // non-empty: contract does not resolve against the code (drift)
	HasContract bool
	NumLoops    int
	noPush      bool // render single-obligation scripts without push/pop (non-incremental solver pipeline)
	tactic      bool // `option tactic-solve`: every query of the incremental session runs through z3's preprocessing tactics
	vc          *VC
	entry       *State
	params      []Val
	sent        int
}

type VerifyOpts struct {
	AllocBound  string // if non-empty, a contract expression (over params) bounding every make()
	NoFrame     bool
	SafetyOnly  bool // ignore functional clauses (sweep mode)
	ParamInvs   map[string]string // parameter type string -> invariant expression over `$p` (assumed at entry, kept as loop invariant)
	NoAssume    func(name, kind string) bool // obligations not claimed by the running check: never assumed afterwards
	NoSafety    bool   // generate no safety (panic-freedom) obligations and assume nothing from them: functional clauses only
	CtxPkg      string // H11: verify the function against the contract that THIS package declares for it (its environment model), see GenVC
}

func (e *Engine) GenVC(fn *ssa.Function, opts VerifyOpts) (res *FuncVC) {
	res = &FuncVC{Fn: fn, Name: shortFuncName(fn)}
	e.setCtx(fn)
	if opts.CtxPkg != "" && opts.CtxPkg != e.ctxPkg {
		// H11: a second contract for a function in ANOTHER package's contract file is that package's environment model of
		// the function (assumed while verifying that package). Verifying the function in that package's context proves
		// the model of the function's body instead of assuming it: every contract lookup (the function's own contract
		// included) is made as seen from CtxPkg. The next GenVC resets the context (setCtx).
		if m := e.CtxContracts[fn.String()]; m == nil || m[opts.CtxPkg] == nil {
			res.ContractErr = "package " + opts.CtxPkg + " declares no contract for " + fn.String()
			return res
		}
		e.ctxPkg = opts.CtxPkg
		allocMemo = map[*ssa.Function]*allocInfo{}
		ghostMemo = map[*ssa.Function]*ghostInfo{}
		allocVisits, ghostVisits = 0, 0
	}
	vc := NewVC(e, fn)
	vc.closures = map[string]*closureInfo{}
	vc.callCount = map[string]int{}
	vc.noFrame = opts.NoFrame
	vc.paramInvs = opts.ParamInvs
	vc.noAssume = opts.NoAssume
	vc.noSafety = opts.NoSafety
	res.vc = vc
	defer func() {
		if r := recover(); r != nil {
			switch x := r.(type) {
			case unsupported:
				res.Unsupported = string(x)
			case contractError:
				res.ContractErr = string(x)
			case error:
				if os.Getenv("GCV_DEBUG") != "" {
					panic(r)
				}
				res.Unsupported = "engine limitation: " + x.Error()
			default:
				panic(r)
			}
		}
		res.Lines = vc.lines
		for n := range vc.notes {
			res.Notes = append(res.Notes, n)
		}
		sort.Strings(res.Notes)
	}()
	if fn.Blocks == nil {
		panic(unsupported("function has no body"))
	}
	fr := vc.newFrame(fn, 0)
	fr.top = true
	if len(opts.ParamInvs) > 0 {
		fr.contract = synthContract(e, fn, fr, opts.ParamInvs)
	}
	if fr.contract != nil && len(fr.contract.ParamInv) > 0 {
		// `invariant` clauses are loop invariants of every loop of the function
		ct := *fr.contract
		ct.Loops = map[int]*LoopSpec{}
		for k, v := range fr.contract.Loops {
			cp := *v
			ct.Loops[k] = &cp
		}
		for _, ord := range fr.loopOrd {
			ls := ct.Loops[ord]
			if ls == nil {
				ls = &LoopSpec{}
				ct.Loops[ord] = ls
			}
			ls.Inv = append(append([]Clause{}, fr.contract.ParamInv...), ls.Inv...)
		}
		fr.contract = &ct
	}
	res.HasContract = fr.contract != nil
	res.NumLoops = len(fr.loopOrd)
	fr.initTrack()
	vc.opaque = map[string]bool{}
	vc.binderTyping = fr.contract != nil && fr.contract.Options["binder-typing"]
	if fr.contract != nil && fr.contract.Options["relative-index"] {
		vc.noRebase = true
	}
	vc.binderRange = fr.contract != nil && fr.contract.Options["binder-range"]
	vc.specRange = fr.contract != nil && fr.contract.Options["spec-range"]
	vc.nilBaseUnwritten = fr.contract != nil && fr.contract.Options["nil-base-unwritten"]
	vc.closedMapSlices = fr.contract != nil && fr.contract.Options["closed-map-slices"]
	if fr.contract != nil && fr.contract.Options["heap-closedness"] {
		vc.closedness = true
	}
	vc.specRanges = fr.contract != nil && fr.contract.Options["spec-ranges"]
	// `option tactic-solve`: in the incremental session (one solver process for all obligations of the function, push/pop
	// per obligation) each query is decided by (then simplify propagate-values solve-eqs smt) instead of the incremental
	// core: the definitional equalities of a long straight-line function (named sums, loads) are eliminated before search.
	res.tactic = fr.contract != nil && fr.contract.Options["tactic-solve"]
	if fr.contract != nil {
		for _, n := range fr.contract.Opaque {
			vc.opaque[e.qualifySpecName(fn, n)] = true
		}
	}
	st := &State{reach: "true", heaps: map[string]string{}}
	alloc0 := vc.allocOf(st)
	var entryFacts []string
	for _, p := range fn.Params {
		v := vc.freshVal("p_"+p.Name(), p.Type())
		fr.vals[p] = v
		i := 0
		ts := flatT(p.Type(), v)
		for _, l := range leaves(p.Type()) {
			if l.Sort == "Int" && (l.Typ == nil || isRefType(l.Typ)) {
				vc.assert(lt(ts[i], alloc0))
			}
			i++
		}
	}
	for _, fv := range fn.FreeVars {
		v := vc.freshVal("fv_"+fv.Name(), fv.Type())
		fr.vals[fv] = v
		ts := flatT(fv.Type(), v)
		for i := range ts {
			if leaves(fv.Type())[i].Sort == "Int" {
				vc.assert(lt(ts[i], alloc0))
			}
		}
		if p, ok := v.(Ptr); ok {
			entryFacts = append(entryFacts, lt("0", p.Base))
		}
	}
	// receivers are non-nil unless declared nullable
	if fn.Signature.Recv() != nil && len(fn.Params) > 0 {
		if p, ok := fr.vals[fn.Params[0]].(Ptr); ok {
			if fr.contract == nil || !fr.contract.Nullable[fn.Params[0].Name()] {
				entryFacts = append(entryFacts, lt("0", p.Base))
			}
		}
	}
	// ghost globals (ghostXxx variables of contract files) exist from the start, so that every call havocs them (applyMods)
	for _, g := range e.ghostGlobals() {
		vc.declareLeafHeaps(st, "G|"+g.Pkg.Pkg.Path()+"."+g.Name(), "", g.Type().(*types.Pointer).Elem())
	}
	fr.entry = st.clone()
	res.entry = fr.entry
	for _, p := range fn.Params {
		res.params = append(res.params, fr.vals[p])
	}
	env := fr.baseEnv(st)
	env.old = nil
	if fr.contract != nil {
		for _, c := range fr.contract.Requires {
			entryFacts = append(entryFacts, fr.evalClause(env, c))
		}
		for _, c := range fr.contract.Assumes {
			entryFacts = append(entryFacts, fr.evalClause(env, c))
			vc.note("assume in contract of " + res.Name + ": " + c.Text)
		}
		fr.modLocs = fr.evalModifies(env, fr.contract)
		for _, m := range fr.modLocs {
			_ = m
		}
	}
	if fr.contract != nil {
		for _, ln := range fr.contract.Uses {
			fr.assumeLemma(ln, fr.entry)
		}
	}
	// The synthetic package initialiser runs once: the Go runtime enters it with its guard variable false. (Without this
	// the path "already initialised, return at once" would make every postcondition about the initialised globals unprovable.)
	if fn.Synthetic != "" && fn.Name() == "init" && fn.Pkg != nil {
		if g, ok := fn.Pkg.Members["init$guard"].(*ssa.Global); ok {
			if gv, ok := vc.load(st, vc.globalPtr(g), types.Typ[types.Bool]).(Scalar); ok {
				entryFacts = append(entryFacts, not(gv.T))
				vc.note("package initialiser verified from its first (and only) activation: init$guard is false at entry (Go runtime)")
			}
		}
	}
	if opts.AllocBound != "" {
		ex, err := parseExprString(rewriteImplies(opts.AllocBound))
		if err != nil {
			panic(contractError("bad alloc bound: " + err.Error()))
		}
		func() {
			defer func() {
				if r := recover(); r != nil {
					if _, ok := r.(contractError); ok {
						vc.note("allocation bound not applicable to " + res.Name + " (it has no parameter the bound expression refers to)")
						return
					}
					panic(r)
				}
			}()
			vc.allocBound = allocBoundTerm(env, ex)
		}()
	}
	st.reach = vc.define("r", "Bool", and(entryFacts...))
	fr.entryReach = st.reach
	fr.entry.reach = st.reach
	results, out := fr.run(st)
	fname := res.Name
	if out != nil && fr.contract != nil && fr.contract.Options["uses-at-exit"] {
		// `option uses-at-exit`: the lemmas of the `uses` clause are also made available over the heap of the exit state.
		// (A lemma is proved for an arbitrary heap; by default it is instantiated over the entry heap only, which is of no
		// use for a postcondition about memory the function itself has written.)
		for _, ln := range fr.contract.Uses {
			fr.assumeLemma(ln, out)
		}
	}
	exitReach := ""
	if out != nil && fr.contract != nil && !opts.SafetyOnly {
		penv := fr.baseEnv(out)
		penv.old = fr.entry
		rs := fn.Signature.Results()
		for i := 0; i < rs.Len(); i++ {
			tv := TV{results[i], rs.At(i).Type()}
			if n := rs.At(i).Name(); n != "" && n != "_" {
				penv.names[n] = tv
			}
			penv.names[fmt.Sprintf("result%d", i)] = tv
			if rs.Len() == 1 {
				penv.names["result"] = tv
			}
		}
		exitReach = out.reach
		for i, c := range fr.contract.Ensures {
			goal := fr.evalClause(penv, c)
			label := fmt.Sprintf("%d", i+1)
			if c.Name != "" {
				label = c.Name
			}
			on := fmt.Sprintf("%s#post:%s", fname, label)
			vc.addOblig("post", on, out, goal, fn.Pos(), c.Text)
			// `option chain-ensures`: the postconditions are proved in the order written, each under the ones before it
			// (like consecutive `assert before` cuts: A, then B under A, proves A && B). A postcondition that the running
			// check does not claim is not assumed (11.10).
			if fr.contract.Options["chain-ensures"] && !(vc.noAssume != nil && vc.noAssume(on, "post")) {
				out.reach = vc.define("r", "Bool", and(out.reach, goal))
			}
		}
	}
	// vacuity guard: the exit must be reachable under the assumptions made
	if out != nil {
		if exitReach == "" {
			exitReach = out.reach
		}
		vc.obligs = append(vc.obligs, &Oblig{Name: fname + "#cover:exit", Kind: "cover", Reach: exitReach, Goal: "false", IsCover: true, Func: fn.String(), Text: "some execution reaches a return"})
	}
	if fr.contract != nil && fr.trk != nil {
		for i, lc := range fr.contract.AtLine {
			if !fr.trk.cutDone[i] {
				an := fmt.Sprintf("%s#assert:line%d.%d", fname, lc.Line, i+1)
				vc.obligs = append(vc.obligs, &Oblig{Name: an, Kind: "assert", Reach: "true", Goal: "false", Pos: fn.Pos(), Func: fn.String(),
					Text: fmt.Sprintf("ANCHOR MISSING: no statement of the function starts on line %d any more, the cut cannot be generated (clause: %s)", lc.Line, lc.C.Text)})
			}
		}
	}
	// an `assert before <callee>@k` clause that never met its call site no longer describes the code: contract drift
	if fr.contract != nil {
		for i, h := range fr.contract.Hints {
			if !fr.hintApplied[i] {
				// The cut is attached to a call site that the code no longer has. The claimed obligation cannot be generated,
				// so it cannot be discharged: it is reported as an undischarged obligation of this function (the verifier did not
				// accept it), not as a tool error - a change that removes the guarded operation must not turn the check silent.
				an := fmt.Sprintf("%s#assert:%s@%d.%d", fname, h.Callee, h.K, i+1)
				vc.obligs = append(vc.obligs, &Oblig{Name: an, Kind: "assert", Reach: "true", Goal: "false", Pos: fn.Pos(), Func: fn.String(),
					Text: fmt.Sprintf("ANCHOR MISSING: the function has no call %s@%d any more, the cut cannot be generated (clause: %s)", h.Callee, h.K, h.C.Text)})
			}
		}
	}
	res.Obligs = vc.obligs
	return res
}

func allocBoundTerm(env *Env, ex ast.Expr) string {
	return env.eval(ex).term()
}

// ScriptOne renders one obligation without push/pop: z3 then runs its full (non-incremental) pipeline, whose
// preprocessing and pattern inference decide goals the incremental core leaves unknown.
func (f *FuncVC) ScriptOne(o *Oblig, timeoutMs int) string {
	g := *f
	g.noPush = true
	return g.Script([]*Oblig{o}, timeoutMs, false)
}

// Script renders the SMT-LIB script for the given obligations (all if nil).
func (f *FuncVC) Script(obs []*Oblig, timeoutMs int, models bool) string {
	var body strings.Builder
	lines := f.Lines
	if f.noPush && len(obs) == 1 && !obs[0].IsCover {
		lines = sliceLines(lines, obs[0].Reach+" "+obs[0].Goal)
	}
	for _, l := range lines {
		body.WriteString(l)
		body.WriteByte('\n')
	}
	if obs == nil {
		obs = f.Obligs
	}
	var sb strings.Builder
	bs := body.String()
	all := bs
	for _, o := range obs {
		all += o.Reach + o.Goal
	}
	sb.WriteString(preludeBase)
	sb.WriteByte('\n')
	if strings.Contains(all, "Str") || strings.Contains(all, "(slen ") || strings.Contains(all, "(sbyte ") {
		sb.WriteString(preludeStr)
	}
	if strings.Contains(all, "(bor ") || strings.Contains(all, "(band ") || strings.Contains(all, "(bxor ") || strings.Contains(all, "(bshl ") || strings.Contains(all, "(bshr ") {
		sb.WriteString(preludeBits)
	}
	if strings.Contains(all, "(eptr") || strings.Contains(all, "(sub ") {
		sb.WriteString(preludePtr)
	}
	sb.WriteString(bs)
	single := len(obs) == 1 && f.noPush
	for _, o := range obs {
		if !single {
			sb.WriteString("(push 1)\n")
		}
		if o.IsCover {
			sb.WriteString("(set-option :timeout 1000)\n")
		} else if timeoutMs > 0 {
			sb.WriteString(fmt.Sprintf("(set-option :timeout %d)\n", timeoutMs))
		}
		sb.WriteString("(assert " + and(o.Reach, not(o.Goal)) + ")\n")
		if f.tactic && !single && !o.IsCover && timeoutMs > 0 {
			sb.WriteString(fmt.Sprintf("(check-sat-using (try-for (then simplify propagate-values solve-eqs smt) %d))\n", timeoutMs))
		} else {
			sb.WriteString("(check-sat)\n")
		}
		if models {
			sb.WriteString("(get-model)\n")
		}
		if !single {
			sb.WriteString("(pop 1)\n")
		}
	}
	return sb.String()
}

var _ = types.Typ


// assumeLemma makes the contract of a ghost lemma function available as a fact quantified over its parameters,
// with the heap fixed to state st (lemmas are proved for an arbitrary heap, so any state may be used).
func (fr *Frame) assumeLemma(name string, st *State) {
	vc := fr.vc
	key := vc.eng.qualifySpecName(fr.fn, name)
	lf := vc.eng.FindFunc(key)
	ct := vc.eng.Contracts[key]
	if lf == nil || ct == nil {
		panic(contractError("uses: unknown lemma " + name))
	}
	if lf.Signature.Results().Len() != 0 {
		panic(contractError("uses: lemma " + name + " must not return values"))
	}
	if ct.Trusted {
		vc.note("trusted lemma (axiom) used: " + key)
	} else {
		vc.note("lemma used (proved separately as a ghost function): " + key)
	}
	env := &Env{vc: vc, pkg: vc.eng.Pkgs[ct.PkgPath], names: map[string]TV{}, st: st, old: st, inQuant: 1}
	var vars [][2]string
	guard := []string{}
	vc.enterBinder()
	for _, p := range lf.Params {
		var ts []string
		for _, l := range leaves(p.Type()) {
			bv := vc.freshName("q_" + p.Name())
			vars = append(vars, [2]string{bv, l.Sort})
			ts = append(ts, bv)
		}
		v := build(p.Type(), &ts)
		env.names[p.Name()] = TV{v, p.Type()}
		guard = append(guard, vc.wfVal(p.Type(), v))
	}
	var req, ens []string
	for _, c := range ct.Requires {
		req = append(req, fr.evalClause(env, c))
	}
	for _, c := range ct.Ensures {
		ens = append(ens, fr.evalClause(env, c))
	}
	guard = append(guard, vc.exitBinder()...)
	body := implies(and(append(guard, req...)...), and(ens...))
	pats := specAppTerms(and(ens...), vars)
	if fr.contract != nil && fr.contract.Options["lemma-patterns"] {
		// `option lemma-patterns`: use the applications of spec functions in the lemma's conclusion as a multi-pattern.
		// (specAppTerms looks for "(|spec|", but sym() prints spec function symbols as |spec!...|, so by default no lemma
		// gets an explicit pattern and instantiation is left to the solver's own choice; changing that for every existing
		// contract would change the behaviour of all checks, hence the option.)
		pats = specAppTermsPrefix(and(ens...), vars, "(|spec!")
	}
	q := ""
	if len(pats) > 0 && len(vars) > 0 {
		q = forall(vars, "(! "+body+" :pattern ("+strings.Join(pats, " ")+"))")
	} else if len(vars) > 0 {
		q = forall(vars, body)
	} else {
		q = body
	}
	vc.assert(q)
}

// specAppTerms extracts the uninterpreted spec-function applications in t that mention at least one bound variable
// and together cover all of them (used as a multi-pattern).
func specAppTerms(t string, vars [][2]string) []string {
	return specAppTermsPrefix(t, vars, "(|spec|")
}

func specAppTermsPrefix(t string, vars [][2]string, prefix string) []string {
	var out []string
	seen := map[string]bool{}
	for i := 0; i < len(t); i++ {
		if strings.HasPrefix(t[i:], prefix) {
			d := 0
			for j := i; j < len(t); j++ {
				if t[j] == '(' {
					d++
				} else if t[j] == ')' {
					d--
					if d == 0 {
						term := t[i : j+1]
						mentions := false
						for _, v := range vars {
							if strings.Contains(term, v[0]) {
								mentions = true
							}
						}
						if mentions && !seen[term] {
							seen[term] = true
							out = append(out, term)
						}
						break
					}
				}
			}
		}
	}
	// every bound variable must occur in the multi-pattern
	for _, v := range vars {
		found := false
		for _, o := range out {
			if strings.Contains(o, v[0]) {
				found = true
			}
		}
		if !found {
			return nil
		}
	}
	return out
}


// synthContract builds the implicit contract of a swept function: type invariants of its parameters are assumed at
// entry and must be maintained by every loop (checked like written invariants).
func synthContract(e *Engine, fn *ssa.Function, fr *Frame, invs map[string]string) *Contract {
	ct := &Contract{Key: fn.String(), Loops: map[int]*LoopSpec{}, Nullable: map[string]bool{}, Dyn: map[string][]string{}}
	if fn.Pkg != nil {
		ct.PkgPath = fn.Pkg.Pkg.Path()
	}
	if old := fr.contract; old != nil {
		*ct = *old
		ct.Loops = map[int]*LoopSpec{}
		for k, v := range old.Loops {
			cp := *v
			ct.Loops[k] = &cp
		}
	}
	for _, p := range fn.Params {
		tmpl, ok := invs[types.TypeString(types.Unalias(p.Type()), nil)]
		if !ok || p.Name() == "" || p.Name() == "_" {
			continue
		}
		text := strings.ReplaceAll(tmpl, "$p", p.Name())
		c, err := parseClause(text, "<sweep type invariant>", 0)
		if err != nil {
			panic(contractError(err.Error()))
		}
		ct.Requires = append(ct.Requires, c)
		for _, ord := range fr.loopOrd {
			ls := ct.Loops[ord]
			if ls == nil {
				ls = &LoopSpec{}
				ct.Loops[ord] = ls
			}
			ls.Inv = append(ls.Inv, c)
		}
	}
	return ct
}


// GenRefinementVC checks that the contract of a concrete method refines the contract of an interface method:
// under the interface precondition the concrete precondition holds, the concrete frame is within the interface frame,
// and the concrete postcondition implies the interface postcondition. No code is involved (the concrete method is
// verified against its own contract separately).
func (e *Engine) GenRefinementVC(ikey string, ict *Contract, m *ssa.Function, ifaceT types.Type) (res *FuncVC) {
	res = &FuncVC{Fn: m, Name: shortFuncName(m) + "~" + strings.ReplaceAll(ikey, repoModule+"/", "")}
	e.setCtx(m)
	vc := NewVC(e, m)
	vc.closures = map[string]*closureInfo{}
	vc.callCount = map[string]int{}
	res.vc = vc
	defer func() {
		if r := recover(); r != nil {
			switch x := r.(type) {
			case unsupported:
				res.Unsupported = string(x)
			case contractError:
				res.ContractErr = string(x)
			case error:
				if os.Getenv("GCV_DEBUG") != "" {
					panic(r)
				}
				res.Unsupported = "engine limitation: " + x.Error()
			default:
				panic(r)
			}
		}
		res.Lines = vc.lines
		for n := range vc.notes {
			res.Notes = append(res.Notes, n)
		}
		sort.Strings(res.Notes)
	}()
	cct := e.contractFor(m)
	if cct == nil {
		panic(contractError("refinement: " + m.String() + " has no contract"))
	}
	if e.RefineDrop != nil {
		// a postcondition of the concrete contract that the running check does not claim (not_claimed.json, open known
		// finding) is not proved of the body: the refinement must not rest on it, so it is not assumed here
		cp := *cct
		cp.Ensures = nil
		short := shortFuncName(m)
		for i, c := range cct.Ensures {
			label := fmt.Sprintf("%d", i+1)
			if c.Name != "" {
				label = c.Name
			}
			if e.RefineDrop(short + "#post:" + label) {
				vc.note("refinement: unclaimed concrete postcondition not assumed: " + short + "#post:" + label)
				continue
			}
			cp.Ensures = append(cp.Ensures, c)
		}
		cct = &cp
	}
	fr := vc.newFrame(m, 0)
	fr.top = true
	fr.contract = ict
	st := &State{reach: "true", heaps: map[string]string{}}
	alloc0 := vc.allocOf(st)
	var args []Val
	var argTypes []types.Type
	for _, p := range m.Params {
		v := vc.freshVal("p_"+p.Name(), p.Type())
		fr.vals[p] = v
		args = append(args, v)
		argTypes = append(argTypes, p.Type())
		ts := flatT(p.Type(), v)
		for i, l := range leaves(p.Type()) {
			if l.Sort == "Int" && (l.Typ == nil || isRefType(l.Typ)) {
				vc.assert(lt(ts[i], alloc0))
			}
		}
	}
	res.params = args
	recvT := m.Params[0].Type()
	var entryFacts []string
	if p, ok := args[0].(Ptr); ok {
		entryFacts = append(entryFacts, lt("0", p.Base))
	}
	fr.entry = st.clone()
	res.entry = fr.entry
	self := fr.makeInterface(st, recvT, args[0])
	env := &Env{vc: vc, pkg: e.Pkgs[ict.PkgPath], names: map[string]TV{}, st: st}
	env.names["self"] = TV{self, ifaceT}
	// interface method parameter names
	var isig *types.Signature
	if it, ok := under(ifaceT).(*types.Interface); ok {
		for i := 0; i < it.NumMethods(); i++ {
			if it.Method(i).Name() == m.Name() {
				isig = it.Method(i).Type().(*types.Signature)
			}
		}
	}
	if isig == nil {
		panic(contractError("refinement: interface has no method " + m.Name()))
	}
	for i := 0; i < isig.Params().Len(); i++ {
		n := isig.Params().At(i).Name()
		if n == "" {
			n = fmt.Sprintf("arg%d", i)
		}
		env.names[n] = TV{args[i+1], isig.Params().At(i).Type()}
	}
	for _, c := range ict.Requires {
		entryFacts = append(entryFacts, fr.evalClause(env, c))
	}
	fr.modLocs = fr.evalModifies(env, ict)
	st.reach = vc.define("r", "Bool", and(entryFacts...))
	fr.entry.reach = st.reach
	pre := st.clone()
	rv := fr.applyContract(m, cct, args, argTypes, m.Pos(), st)
	// interface postconditions
	penv := &Env{vc: vc, pkg: env.pkg, names: map[string]TV{}, st: st, old: pre}
	for k, v := range env.names {
		penv.names[k] = v
	}
	rs := isig.Results()
	var results []Val
	if rs.Len() == 1 {
		results = []Val{rv}
	} else if rs.Len() > 1 {
		results = rv.(*StructV).F
	}
	for i := 0; i < rs.Len(); i++ {
		tv := TV{results[i], rs.At(i).Type()}
		if n := rs.At(i).Name(); n != "" && n != "_" {
			penv.names[n] = tv
		}
		penv.names[fmt.Sprintf("result%d", i)] = tv
		if rs.Len() == 1 {
			penv.names["result"] = tv
		}
	}
	for i, c := range ict.Ensures {
		goal := fr.evalClause(penv, c)
		vc.addOblig("refine", fmt.Sprintf("%s#refines:%d", res.Name, i+1), st, goal, m.Pos(), c.Text)
	}
	vc.obligs = append(vc.obligs, &Oblig{Name: res.Name + "#cover:exit", Kind: "cover", Reach: st.reach, Goal: "false", IsCover: true, Func: m.String(), Text: "interface precondition and concrete postcondition are consistent"})
	res.Obligs = vc.obligs
	res.HasContract = true
	return res
}


// qualifySpecName turns "name" or "alias.name" (as written in a contract of fn) into "pkgpath.name".
func (e *Engine) qualifySpecName(fn *ssa.Function, name string) string {
	pkgPath := ""
	if fn.Pkg != nil {
		pkgPath = fn.Pkg.Pkg.Path()
	}
	k := strings.LastIndex(name, ".")
	if k < 0 {
		return pkgPath + "." + name
	}
	if strings.Contains(name, "/") {
		return name
	}
	env := &Env{vc: &VC{eng: e}, pkg: e.Pkgs[pkgPath]}
	if p := env.importedPkg(name[:k]); p != nil {
		return p.Path() + "." + name[k+1:]
	}
	return name
}

// setCtx selects the verification context (package of the function under verification) for contract lookups, and
// drops analysis results that depend on it.
func (e *Engine) setCtx(fn *ssa.Function) {
	p := ""
	f := fn
	if f != nil && f.Pkg == nil && f.Origin() != nil {
		f = f.Origin()
	}
	if f != nil && f.Pkg != nil {
		p = f.Pkg.Pkg.Path()
	}
	// the visit budgets of the allocation / ghost analyses are per function under verification (they used to be per
	// engine run, which made the answer for a callee depend on which functions had been verified before)
	allocVisits, ghostVisits = 0, 0
	if p != e.ctxPkg {
		e.ctxPkg = p
		if len(e.CtxContracts) > 0 {
			// the allocation / ghost analyses consult contracts: their memo tables are per context
			allocMemo = map[*ssa.Function]*allocInfo{}
			ghostMemo = map[*ssa.Function]*ghostInfo{}
			allocVisits, ghostVisits = 0, 0
		}
	}
}
