package main

import (
	"fmt"
	"os"
	"go/ast"
	"go/types"
	"sort"
	"strings"

	"golang.org/x/tools/go/ssa"
)

// FuncVC is the result of VC generation for one function.
type FuncVC struct {
	Fn          *ssa.Function
	Name        string
	Obligs      []*Oblig
	Lines       []string
	Notes       []string
	Unsupported string // non-empty: function left the subset (reason)
	ContractErr string // non-empty: contract does not resolve against the code (drift)
	HasContract bool
	NumLoops    int
	vc          *VC
	entry       *State
	params      []Val
	sent        int
}

type VerifyOpts struct {
	AllocBound  string // if non-empty, a contract expression (over params) bounding every make()
	NoFrame     bool
	SafetyOnly  bool // ignore functional clauses (sweep mode)
}

func (e *Engine) GenVC(fn *ssa.Function, opts VerifyOpts) (res *FuncVC) {
	res = &FuncVC{Fn: fn, Name: shortFuncName(fn)}
	vc := NewVC(e, fn)
	vc.closures = map[string]*closureInfo{}
	vc.callCount = map[string]int{}
	vc.noFrame = opts.NoFrame
	res.vc = vc
	defer func() {
		if r := recover(); r != nil {
			switch x := r.(type) {
			case unsupported:
				res.Unsupported = string(x)
			case contractError:
				res.ContractErr = string(x)
			case error:
				if os.Getenv("GCV_DEBUG") != "" {
					panic(r)
				}
				res.Unsupported = "engine limitation: " + x.Error()
			default:
				panic(r)
			}
		}
		res.Lines = vc.lines
		for n := range vc.notes {
			res.Notes = append(res.Notes, n)
		}
		sort.Strings(res.Notes)
	}()
	if fn.Blocks == nil {
		panic(unsupported("function has no body"))
	}
	fr := vc.newFrame(fn, 0)
	fr.top = true
	res.HasContract = fr.contract != nil
	res.NumLoops = len(fr.loopOrd)
	st := &State{reach: "true", heaps: map[string]string{}}
	alloc0 := vc.allocOf(st)
	var entryFacts []string
	for _, p := range fn.Params {
		v := vc.freshVal("p_"+p.Name(), p.Type())
		fr.vals[p] = v
		i := 0
		ts := flatT(p.Type(), v)
		for _, l := range leaves(p.Type()) {
			if l.Sort == "Int" && (l.Typ == nil || isRefType(l.Typ)) {
				vc.assert(lt(ts[i], alloc0))
			}
			i++
		}
	}
	for _, fv := range fn.FreeVars {
		v := vc.freshVal("fv_"+fv.Name(), fv.Type())
		fr.vals[fv] = v
		ts := flatT(fv.Type(), v)
		for i := range ts {
			if leaves(fv.Type())[i].Sort == "Int" {
				vc.assert(lt(ts[i], alloc0))
			}
		}
		if p, ok := v.(Ptr); ok {
			entryFacts = append(entryFacts, lt("0", p.Base))
		}
	}
	// receivers are non-nil unless declared nullable
	if fn.Signature.Recv() != nil && len(fn.Params) > 0 {
		if p, ok := fr.vals[fn.Params[0]].(Ptr); ok {
			if fr.contract == nil || !fr.contract.Nullable[fn.Params[0].Name()] {
				entryFacts = append(entryFacts, lt("0", p.Base))
			}
		}
	}
	fr.entry = st.clone()
	res.entry = fr.entry
	for _, p := range fn.Params {
		res.params = append(res.params, fr.vals[p])
	}
	env := fr.baseEnv(st)
	env.old = nil
	if fr.contract != nil {
		for _, c := range fr.contract.Requires {
			entryFacts = append(entryFacts, fr.evalClause(env, c))
		}
		for _, c := range fr.contract.Assumes {
			entryFacts = append(entryFacts, fr.evalClause(env, c))
			vc.note("assume in contract of " + res.Name + ": " + c.Text)
		}
		fr.modLocs = fr.evalModifies(env, fr.contract)
		for _, m := range fr.modLocs {
			_ = m
		}
	}
	if opts.AllocBound != "" {
		ex, err := parseExprString(rewriteImplies(opts.AllocBound))
		if err != nil {
			panic(contractError("bad alloc bound: " + err.Error()))
		}
		vc.allocBound = allocBoundTerm(env, ex)
	}
	st.reach = vc.define("r", "Bool", and(entryFacts...))
	fr.entry.reach = st.reach
	results, out := fr.run(st)
	fname := res.Name
	if out != nil && fr.contract != nil && !opts.SafetyOnly {
		penv := fr.baseEnv(out)
		penv.old = fr.entry
		rs := fn.Signature.Results()
		for i := 0; i < rs.Len(); i++ {
			tv := TV{results[i], rs.At(i).Type()}
			if n := rs.At(i).Name(); n != "" && n != "_" {
				penv.names[n] = tv
			}
			penv.names[fmt.Sprintf("result%d", i)] = tv
			if rs.Len() == 1 {
				penv.names["result"] = tv
			}
		}
		for i, c := range fr.contract.Ensures {
			goal := fr.evalClause(penv, c)
			label := fmt.Sprintf("%d", i+1)
			if c.Name != "" {
				label = c.Name
			}
			vc.addOblig("post", fmt.Sprintf("%s#post:%s", fname, label), out, goal, fn.Pos(), c.Text)
		}
	}
	// vacuity guard: the exit must be reachable under the assumptions made
	if out != nil {
		vc.obligs = append(vc.obligs, &Oblig{Name: fname + "#cover:exit", Kind: "cover", Reach: out.reach, Goal: "false", IsCover: true, Func: fn.String(), Text: "some execution reaches a return"})
	}
	res.Obligs = vc.obligs
	return res
}

func allocBoundTerm(env *Env, ex ast.Expr) string {
	return env.eval(ex).term()
}

// Script renders the SMT-LIB script for the given obligations (all if nil).
func (f *FuncVC) Script(obs []*Oblig, timeoutMs int, models bool) string {
	var body strings.Builder
	for _, l := range f.Lines {
		body.WriteString(l)
		body.WriteByte('\n')
	}
	if obs == nil {
		obs = f.Obligs
	}
	var sb strings.Builder
	bs := body.String()
	all := bs
	for _, o := range obs {
		all += o.Reach + o.Goal
	}
	sb.WriteString(preludeBase)
	sb.WriteByte('\n')
	if strings.Contains(all, "Str") || strings.Contains(all, "(slen ") || strings.Contains(all, "(sbyte ") {
		sb.WriteString(preludeStr)
	}
	if strings.Contains(all, "(bor ") || strings.Contains(all, "(band ") || strings.Contains(all, "(bxor ") || strings.Contains(all, "(bshl ") || strings.Contains(all, "(bshr ") {
		sb.WriteString(preludeBits)
	}
	sb.WriteString(bs)
	for _, o := range obs {
		sb.WriteString("(push 1)\n")
		if o.IsCover {
			sb.WriteString("(set-option :timeout 1000)\n")
		} else if timeoutMs > 0 {
			sb.WriteString(fmt.Sprintf("(set-option :timeout %d)\n", timeoutMs))
		}
		sb.WriteString("(assert " + and(o.Reach, not(o.Goal)) + ")\n")
		sb.WriteString("(check-sat)\n")
		if models {
			sb.WriteString("(get-model)\n")
		}
		sb.WriteString("(pop 1)\n")
	}
	return sb.String()
}

var _ = types.Typ
