package main

import (
	"runtime"
	"encoding/json"
	"go/types"
	"flag"
	"fmt"
	"os"
	"path/filepath"
	"regexp"
	"sort"
	"strings"
	"sync"
	"time"

	"golang.org/x/tools/go/ssa"
)

// PropConfig is /verif/props/<id>.json: which functions carry the property's obligations.
type PropConfig struct {
	ID          string        `json:"id"`
	Level       string        `json:"level"` // "proof" or "other"
	Packages    []string      `json:"packages"`
	Functions   []FuncSel     `json:"functions"`
	Explanation string        `json:"explanation"`
	Undecided   []string      `json:"undecided_clauses"`
	Assumptions []string      `json:"assumptions"`
	Bounded     []BoundedSpec `json:"bounded"`
	Clauses     map[string]string `json:"clauses"` // obligation-name regexp -> sentence of the property statement it carries
	TimeoutMs   int           `json:"timeout_ms"` // quick-tier solver timeout per obligation (default 5000; retries use 2x and 3x)
	LevelText   string        `json:"level_text"`
	LevelNote   string        `json:"level_note"`
}

type FuncSel struct {
	Re         string `json:"re"`          // regexp on the canonical function name
	Mode       string `json:"mode"`        // "contract" (default): functions with a contract; "sweep": all matching functions, safety only
	Alloc      string `json:"alloc"`       // sweep: bound for every make() as a contract expression, e.g. "64*len(buf)+4096"
	Exclude    string `json:"exclude"`     // regexp of functions to leave out
	ParamInvs  map[string]string `json:"param_invs"` // sweep: parameter type -> invariant over $p
	Kinds      string `json:"kinds"`       // regexp on obligation kinds claimed for this selection (default: all)
	NoFrame    bool   `json:"no_frame"`    // do not check the modifies frame (schematic contracts of generated code)
	NoSafety   bool   `json:"no_safety"`   // do not generate the panic-freedom obligations of these functions (they belong to another property's check); nothing is assumed from them either
	Ctx        string `json:"ctx"`         // verify against the contract that this package (import path) declares for the function (its environment model)
	Why        string `json:"why"`
}

type BoundedSpec struct {
	Name  string `json:"name"`
	Pkg   string `json:"pkg"`   // package dir relative to repo
	File  string `json:"file"`  // test source under /verif/bounded
	Run   string `json:"run"`   // -run regexp
	Bound string `json:"bound"` // stated bound
	Tier  string `json:"tier"`  // "quick" or "thorough"
	StandsFor string `json:"stands_for"`
}

type KnownFinding struct {
	Property   string `json:"property"`
	Obligation string `json:"obligation"` // exact obligation name
	Status     string `json:"status"`     // "open" | "fixed"
	Commit     string `json:"commit,omitempty"`
	What       string `json:"what"`
}

type NotClaimed struct {
	Property string `json:"property"`
	Re       string `json:"re"` // regexp on obligation names
	Reason   string `json:"reason"`
	// Assumed: the obligation is believed true but cannot be proved here; it is not counted as discharged, it IS assumed
	// for what follows (an explicit assumption, listed in the evidence). Without it nothing is assumed from the obligation.
	Assumed bool `json:"assumed,omitempty"`
}

type obRec struct {
	Name   string `json:"name"`
	Kind   string `json:"kind"`
	Func   string `json:"func"`
	Status string `json:"status"`
	Solver string `json:"solver"`
	Ms     int64  `json:"ms"`
	Where  string `json:"where,omitempty"`
	Text   string `json:"text,omitempty"`
}

func readJSON(path string, v interface{}) error {
	b, err := os.ReadFile(path)
	if err != nil {
		return err
	}
	return json.Unmarshal(b, v)
}

var verifDir = func() string { if d := os.Getenv("GCV_VERIF_DIR"); d != "" { return d }; return "/verif" }()

func cmdCheck(args []string) {
	fs := flag.NewFlagSet("check", flag.ExitOnError)
	prop := fs.String("prop", "", "property id")
	tier := fs.String("tier", "quick", "quick|thorough")
	repo := fs.String("repo", "/repo", "repository")
	evdir := fs.String("evidence", filepath.Join(verifDir, "evidence"), "evidence directory")
	verbose := fs.Bool("v", false, "verbose")
	fs.Parse(args)
	os.Exit(runCheck(*prop, *tier, *repo, *evdir, *verbose))
}

func runCheck(prop, tier, repo, evdir string, verbose bool) int {
	t0 := time.Now()
	seed := 0
	fmt.Sscanf(os.Getenv("VERIF_SEED"), "%d", &seed)
	var cfg PropConfig
	if err := readJSON(filepath.Join(verifDir, "props", prop+".json"), &cfg); err != nil {
		fmt.Println("TOOL-ERROR cannot read property config:", err)
		return 2
	}
	var known []KnownFinding
	readJSON(filepath.Join(verifDir, "known_findings.json"), &known)
	var notClaimed []NotClaimed
	readJSON(filepath.Join(verifDir, "not_claimed.json"), &notClaimed)
	mnc := func(name string) *NotClaimed {
		ncMu.RLock()
		l := notClaimed
		ncMu.RUnlock()
		return matchNotClaimed(l, prop, name)
	}

	eng, err := LoadEngine(repo, cfg.Packages, filepath.Join(verifDir, "gcv", "deps"))
	if err != nil {
		fmt.Println("TOOL-ERROR cannot load packages (does the tree build with -tags verif?):", err)
		return 2
	}
	// every contract must resolve to a function (a renamed/deleted function must not silently drop its contract)
	for key, c := range eng.Contracts {
		if c.Trusted && c.PkgPath == "" {
			continue
		}
		if eng.FindFunc(key) == nil && !strings.Contains(key, ").") && strings.Contains(key, "/") {
			// a second contract (environment view) for a function of ANOTHER package that this check did not load: nothing
			// to resolve here; the check that selects it (with "ctx") loads that package and reports drift there
			if k := strings.LastIndex(key, "."); k > 0 && c.PkgPath != key[:k] && eng.SPkgs[key[:k]] == nil {
				continue
			}
		}
		if eng.FindFunc(key) == nil && !strings.Contains(key, ").") {
			fmt.Printf("TOOL-ERROR CONTRACT-DRIFT contract for unknown function %s (%s:%d)\n", key, c.File, c.Line)
			return 2
		}
		if eng.FindFunc(key) == nil && !isIfaceKey(eng, key) {
			fmt.Printf("TOOL-ERROR CONTRACT-DRIFT contract for unknown function %s (%s:%d)\n", key, c.File, c.Line)
			return 2
		}
	}
	// select functions
	type job struct {
		fn   *ssa.Function
		sel  FuncSel
		ikey string // refinement job: interface contract key
		ict  *Contract
		ifT  types.Type
	}
	var jobs []job
	seen := map[string]bool{}
	var names []string
	for n := range eng.AllFuncs {
		names = append(names, n)
	}
	sort.Strings(names)
	for _, sel := range cfg.Functions {
		rx, err := regexp.Compile(sel.Re)
		if err != nil {
			fmt.Println("TOOL-ERROR bad regexp in property config:", err)
			return 2
		}
		var ex *regexp.Regexp
		if sel.Exclude != "" {
			ex = regexp.MustCompile(sel.Exclude)
		}
		matched := 0
		if sel.Mode == "refine" {
			var ikeys []string
			for k := range eng.Contracts {
				if isIfaceKey(eng, k) && rx.MatchString(k) {
					ikeys = append(ikeys, k)
				}
			}
			sort.Strings(ikeys)
			for _, k := range ikeys {
				j := strings.Index(k, ")")
				ifT := eng.resolveQualifiedType(k[1:j])
				if ifT == nil {
					continue
				}
				mname := k[j+2:]
				impls := eng.IfaceImpls[k[1:j]]
				if len(impls) == 0 {
					impls = eng.discoverImpls(ifT) // H4c: refinement jobs for every repository type that implements the interface
				}
				for _, tn := range impls {
					ct := eng.resolveQualifiedType(tn)
					if ct == nil {
						continue
					}
					var mpkg *types.Package // H4c: unexported interface methods are looked up in the package of the type
					if pt, ok := ct.(*types.Pointer); ok {
						if nt, ok := types.Unalias(pt.Elem()).(*types.Named); ok {
							mpkg = nt.Obj().Pkg()
						}
					} else if nt, ok := types.Unalias(ct).(*types.Named); ok {
						mpkg = nt.Obj().Pkg()
					}
					m := eng.Prog.LookupMethod(ct, mpkg, mname)
					if m == nil {
						continue
					}
					matched++
					jobs = append(jobs, job{fn: m, sel: sel, ikey: k, ict: eng.Contracts[k], ifT: ifT})
				}
			}
			if matched == 0 {
				fmt.Printf("TOOL-ERROR CONTRACT-DRIFT no interface contract matches %q any more\n", sel.Re)
				return 2
			}
			continue
		}
		// every top-level alternative of the selection must select something: an alternative that matches no function
		// (a typo, a renamed method) would otherwise hide behind the others and silently shrink the claim
		for _, alt := range splitTopAlt(sel.Re) {
			ax, err := regexp.Compile(alt)
			if err != nil {
				continue
			}
			hit := false
			for _, n := range names {
				fn := eng.AllFuncs[n]
				if eng.inRepo(fn) && fn.Blocks != nil && ax.MatchString(n) && (sel.Mode == "sweep" || eng.contractForCtx(fn, sel.Ctx) != nil) {
					hit = true
					break
				}
			}
			if !hit {
				fmt.Printf("TOOL-ERROR CONTRACT-DRIFT alternative %q of selection %q matches no function under contract\n", alt, sel.Re)
				return 2
			}
		}
		for _, n := range names {
			fn := eng.AllFuncs[n]
			if !eng.inRepo(fn) || !rx.MatchString(n) || (ex != nil && ex.MatchString(n)) || fn.Blocks == nil {
				continue
			}
			if sel.Mode != "sweep" && eng.contractForCtx(fn, sel.Ctx) == nil {
				continue
			}
			if ct := eng.contractForCtx(fn, sel.Ctx); ct != nil && ct.Trusted {
				continue // assumed, listed as assumption wherever it is used
			}
			if fn.Synthetic != "" && !strings.Contains(fn.Synthetic, "instance") && !(fn.Name() == "init" && eng.contractForCtx(fn, sel.Ctx) != nil) {
				continue // wrappers, thunks, bound methods: not source code (the package initialiser is, when it has a contract)
			}
			// the same function may be verified once per verification context (its own contract, and the environment model
			// another package declares for it: selections with "ctx")
			if seen[n+"@"+sel.Ctx] {
				continue
			}
			seen[n+"@"+sel.Ctx] = true
			matched++
			jobs = append(jobs, job{fn: fn, sel: sel})
		}
		if matched == 0 {
			fmt.Printf("TOOL-ERROR CONTRACT-DRIFT no function under contract matches %q any more\n", sel.Re)
			return 2
		}
	}
	work, _ := os.MkdirTemp("/var/tmp", "gcv-work-")
	defer os.RemoveAll(work)
	busyAtStart := machineBusy()
	// bounded stand-ins run beside the solving (they are go test processes); their replay files are written into a directory
	// of their own first, because the replay directory of the property is recreated after the solving
	boundedReplay, _ := os.MkdirTemp("/var/tmp", "gcv-bounded-")
	defer os.RemoveAll(boundedReplay)
	var boundedRuns []chan boundedResult
	for _, b := range cfg.Bounded {
		if b.Tier == "thorough" && tier != "thorough" {
			continue
		}
		ch := make(chan boundedResult, 1)
		boundedRuns = append(boundedRuns, ch)
		go func(b BoundedSpec) { ch <- runBounded(b, repo, boundedReplay) }(b)
	}
	timeout := 5000
	if cfg.TimeoutMs > 0 {
		timeout = cfg.TimeoutMs
	}
	if cfg.Explanation == "" {
		cfg.Explanation = strings.TrimSpace(cfg.LevelText + " " + cfg.LevelNote)
	}
	if tier == "thorough" {
		timeout = 30000
	}
	type result struct {
		f  *FuncVC
		vs []*Verdict
	}
	results := make([]result, len(jobs))
	// VC generation is sequential (shared caches); solving is parallel.
	var wg sync.WaitGroup
	sem := make(chan struct{}, 12)
	for i, j := range jobs {
		if j.ikey != "" {
			eng.RefineDrop = func(n string) bool { return mnc(n) != nil || matchKnown(known, prop, n) != nil }
			f := eng.GenRefinementVC(j.ikey, j.ict, j.fn, j.ifT)
			eng.RefineDrop = nil
			results[i].f = f
			if f.Unsupported != "" || f.ContractErr != "" {
				continue
			}
			wg.Add(1)
			go func(i int, f *FuncVC) {
				defer wg.Done()
				sem <- struct{}{}
				defer func() { <-sem }()
				results[i].vs = Solve(f, SolveOpts{TimeoutMs: timeout, WorkDir: work, Cross: tier == "thorough"})
			}(i, f)
			continue
		}
		var kindsRe *regexp.Regexp
		if j.sel.Kinds != "" {
			kindsRe, _ = regexp.Compile(j.sel.Kinds)
		}
		f := eng.GenVC(j.fn, VerifyOpts{SafetyOnly: j.sel.Mode == "sweep", AllocBound: j.sel.Alloc, NoFrame: j.sel.Mode == "sweep" || j.sel.NoFrame, ParamInvs: j.sel.ParamInvs, CtxPkg: j.sel.Ctx, NoSafety: j.sel.NoSafety,
			NoAssume: func(name, kind string) bool {
				// what this check does not claim is not assumed either: listed as not claimed, or of a kind outside the selection
				if kindsRe != nil && !kindsRe.MatchString(kind) {
					return true
				}
				if nc := mnc(name); nc != nil {
					return !nc.Assumed
				}
				return matchKnown(known, prop, name) != nil
			}})
		results[i].f = f
		if f.Unsupported != "" || f.ContractErr != "" {
			continue
		}
		if j.sel.Kinds != "" {
			// only obligations of the listed kinds are claimed for this selection; the others are generated, attempted
			// once and listed as not claimed (the vacuity guard stays)
			kr, err := regexp.Compile(j.sel.Kinds)
			if err != nil {
				fmt.Println("TOOL-ERROR bad kinds regexp in property config:", err)
				return 2
			}
			for _, o := range f.Obligs {
				if !o.IsCover && !kr.MatchString(o.Kind) {
					ncMu.Lock()
					notClaimed = append(notClaimed, NotClaimed{Property: prop, Re: "^" + regexp.QuoteMeta(o.Name) + "$",
						Reason: "outside the obligation kinds claimed for this function (" + j.sel.Kinds + "): " + j.sel.Why})
					ncMu.Unlock()
				}
			}
		}
		wg.Add(1)
		go func(i int, f *FuncVC) {
			defer wg.Done()
			sem <- struct{}{}
			defer func() { <-sem }()
			t1 := time.Now()
			results[i].vs = Solve(f, SolveOpts{TimeoutMs: timeout, WorkDir: work, Cross: tier == "thorough", NoRetry: func(n string) bool {
				return matchKnown(known, prop, n) != nil || mnc(n) != nil
			}})
			if os.Getenv("GCV_TIMING") != "" {
				fmt.Printf("timing %6.1fs %s (%d obligations)\n", time.Since(t1).Seconds(), f.Name, len(f.Obligs))
			}
		}(i, f)
	}
	wg.Wait()
	// obligations still undischarged get one more attempt on an otherwise idle machine with a longer limit
	// (a timeout under load must not become an alarm)
	{
		var wg2 sync.WaitGroup
		sem2 := make(chan struct{}, 4)
		for i := range results {
			f := results[i].f
			if f == nil || results[i].vs == nil {
				continue
			}
			for k, v := range results[i].vs {
				if v == nil || v.Oblig.IsCover || v.Status == "unsat" || v.Status == "trivial" || v.Status == "sat" || v.Status == "error" {
					continue
				}
				if matchKnown(known, prop, v.Oblig.Name) != nil || mnc(v.Oblig.Name) != nil {
					continue
				}
				wg2.Add(1)
				go func(i, k int, f *FuncVC, v *Verdict) {
					defer wg2.Done()
					sem2 <- struct{}{}
					defer func() { <-sem2 }()
					nv := raceOne(f, v.Oblig, v, SolveOpts{TimeoutMs: timeout * 3, WorkDir: work})
					if nv.Status == "unsat" || nv.Status == "sat" {
						results[i].vs[k] = nv
					}
				}(i, k, f, v)
			}
		}
		wg2.Wait()
	}
	// Last pass, only when the machine is busy with other work (1-minute load above 3/4 of the processors now or at the
	// start of the run): an obligation that is still undecided (never one with a counterexample) is tried once more under
	// a limit on the PROCESSOR time the solver receives (RLIMIT_CPU = four quick timeouts, at least 30 s) with a wall-clock backstop
	// six times as long. Wall-clock timeouts measure the machine, not the obligation; a timeout must not become an alarm.
	if busyAtStart || machineBusy() {
		var wg3 sync.WaitGroup
		sem3 := make(chan struct{}, 3)
		cpu := timeout * 4 / 1000
		if cpu < 30 {
			cpu = 30
		}
		for i := range results {
			f := results[i].f
			if f == nil || results[i].vs == nil {
				continue
			}
			for k, v := range results[i].vs {
				if v == nil || v.Oblig.IsCover || v.Status == "unsat" || v.Status == "trivial" || v.Status == "sat" || v.Status == "error" {
					continue
				}
				if matchKnown(known, prop, v.Oblig.Name) != nil || mnc(v.Oblig.Name) != nil {
					continue
				}
				wg3.Add(1)
				go func(i, k int, f *FuncVC, v *Verdict) {
					defer wg3.Done()
					sem3 <- struct{}{}
					defer func() { <-sem3 }()
					nv := raceOne(f, v.Oblig, v, SolveOpts{TimeoutMs: cpu * 1000 * 6, CPUSecs: cpu, WorkDir: work})
					if nv.Status == "unsat" || nv.Status == "sat" {
						results[i].vs[k] = nv
					}
				}(i, k, f, v)
			}
		}
		wg3.Wait()
	}

	// verdicts
	replayDir := filepath.Join(verifDir, "replay", prop)
	os.RemoveAll(replayDir)
	os.MkdirAll(replayDir, 0o755)
	var obs []obRec
	var funcs []string
	assume := map[string]bool{}
	nOb, nDis := 0, 0
	var solverMs int64
	violations := 0
	var knownHit []string
	var notClaimedHit []string
	var assumedObs []string
	var lines []string
	usedCallee := map[string]bool{} // contracts of repository functions applied at call sites of the functions verified here
	drift := false
	for _, r := range results {
		f := r.f
		funcs = append(funcs, f.Name)
		for _, n := range f.Notes {
			if strings.HasPrefix(n, "callee contract used: ") {
				usedCallee[strings.TrimPrefix(n, "callee contract used: ")] = true
				continue
			}
			assume[n] = true
		}
		if f.ContractErr != "" {
			// A contract clause of a claimed function no longer resolves against the code of the current tree (a variable,
			// field or call it mentions is gone): the obligations of this function cannot be generated, hence not discharged.
			// The verifier does not accept the function; that is reported like any other undischarged obligation. (A contract
			// whose FUNCTION is gone, or a tree that does not build, is a TOOL-ERROR: see above.)
			name := f.Name + "#contract"
			if kf := matchKnown(known, prop, name); kf != nil {
				knownHit = append(knownHit, fmt.Sprintf("KNOWN-FINDING: property=%s %s", prop, kf.What))
				continue
			}
			fmt.Printf("CONTRACT-DRIFT %s: %s\n", f.Name, f.ContractErr)
			p := writeReplay(replayDir, name, map[string]interface{}{"obligation": name, "function": f.Name,
				"reason": "the contract of this function does not resolve against the current source, so its obligations cannot be generated or discharged: " + f.ContractErr})
			lines = append(lines, fmt.Sprintf("VIOLATION property=%s replay=%s no-failing-input-found", prop, p))
			violations++
			nOb++
			obs = append(obs, obRec{Name: name, Kind: "contract", Func: f.Name, Status: "undecided", Text: f.ContractErr})
			continue
		}
		if f.Unsupported != "" {
			name := f.Name + "#subset"
			if kf := matchKnown(known, prop, name); kf != nil {
				knownHit = append(knownHit, fmt.Sprintf("KNOWN-FINDING: property=%s %s", prop, kf.What))
				continue
			}
			if nc := mnc(name); nc != nil {
				notClaimedHit = append(notClaimedHit, name+" — "+nc.Reason)
				continue
			}
			p := writeReplay(replayDir, name, map[string]interface{}{"obligation": name, "function": f.Name,
				"reason": "the function left the verifiable subset, so its obligations cannot be generated: " + f.Unsupported})
			lines = append(lines, fmt.Sprintf("VIOLATION property=%s replay=%s no-failing-input-found", prop, p))
			violations++
			nOb++
			obs = append(obs, obRec{Name: name, Kind: "subset", Func: f.Name, Status: "undecided", Text: f.Unsupported})
			continue
		}
		for _, v := range r.vs {
			if v != nil && v.Status == "error" {
				fmt.Printf("TOOL-ERROR solver rejected the script generated for %s: %s\n", f.Name, v.Output)
				return 2
			}
		}
		for _, v := range r.vs {
			o := v.Oblig
			solverMs += v.Ms
			good := v.Status == "unsat" || v.Status == "trivial"
			if o.IsCover {
				good = v.Status != "unsat"
			}
			rec := obRec{Name: o.Name, Kind: o.Kind, Func: f.Name, Status: v.Status, Solver: v.Solver, Ms: v.Ms, Where: eng.posString(o.Pos), Text: o.Text}
			if nc := mnc(o.Name); nc != nil {
				rec.Status = "not-claimed(" + v.Status + ")"
				obs = append(obs, rec)
				if nc.Assumed {
					notClaimedHit = append(notClaimedHit, o.Name+" — ASSUMED (not proved; what follows it in the function is proved relative to it): "+nc.Reason)
					assumedObs = append(assumedObs, "unproved obligation used as an assumption: "+o.Name+" ("+nc.Reason+")")
				} else {
					notClaimedHit = append(notClaimedHit, o.Name+" — "+nc.Reason)
				}
				continue
			}
			nOb++
			if good {
				nDis++
				obs = append(obs, rec)
				continue
			}
			obs = append(obs, rec)
			if kf := matchKnown(known, prop, o.Name); kf != nil {
				knownHit = append(knownHit, fmt.Sprintf("KNOWN-FINDING: property=%s %s [%s]", prop, kf.What, o.Name))
				nOb-- // a recorded finding is reported, not counted as an obligation of the proof
				continue
			}
			// try to replay a counterexample on the real code
			rp := tryReplay(eng, f, o, v, replayDir, repo, timeout)
			if rp.Confirmed {
				lines = append(lines, fmt.Sprintf("VIOLATION property=%s replay=%s", prop, rp.Path))
			} else {
				lines = append(lines, fmt.Sprintf("VIOLATION property=%s replay=%s no-failing-input-found", prop, rp.Path))
			}
			violations++
		}
	}
	if drift {
		for _, l := range lines {
			if strings.HasPrefix(l, "TOOL-ERROR") {
				fmt.Println(l)
			}
		}
		return 2
	}
	// bounded stand-ins (started before the solving, collected here)
	var boundedOut []map[string]interface{}
	boundedToolError := false
	for _, bch := range boundedRuns {
		res := <-bch
		boundedOut = append(boundedOut, res.Summary)
		if te, ok := res.Summary["tool_error"].(string); ok && te != "" {
			fmt.Println("TOOL-ERROR bounded harness", res.Summary["name"], "did not build or run:", te)
			boundedToolError = true
			continue
		}
		for _, fl := range res.Failures {
			if data, err := os.ReadFile(fl.Path); err == nil {
				np := filepath.Join(replayDir, filepath.Base(fl.Path))
				os.WriteFile(np, data, 0o644)
				fl.Path = np
			}
			if kf := matchKnown(known, prop, fl.Name); kf != nil {
				knownHit = append(knownHit, fmt.Sprintf("KNOWN-FINDING: property=%s %s [%s]", prop, kf.What, fl.Name))
				continue
			}
			lines = append(lines, fmt.Sprintf("VIOLATION property=%s replay=%s", prop, fl.Path))
			violations++
		}
	}
	sort.Strings(knownHit)
	knownHit = uniq(knownHit)
	for _, l := range knownHit {
		fmt.Println(l)
	}
	for _, l := range lines {
		fmt.Println(l)
	}
	// evidence
	var as []string
	for a := range assume {
		as = append(as, a)
	}
	as = append(as, cfg.Assumptions...)
	var elsewhere []string
	{
		sel := map[string]bool{}
		for _, fn := range funcs {
			sel[fn] = true
		}
		for c := range usedCallee {
			if !sel[c] {
				elsewhere = append(elsewhere, c)
			}
		}
		sort.Strings(elsewhere)
	}
	as = append(as, uniq(assumedObs)...)
	sort.Strings(as)
	sort.Strings(funcs)
	var samples []interface{}
	for _, r := range results {
		if len(samples) >= 3 || r.f == nil || len(r.f.Obligs) == 0 {
			continue
		}
		for _, o := range r.f.Obligs {
			if o.Kind == "post" || o.Kind == "inv-keep" || len(r.f.Obligs) < 3 {
				samples = append(samples, map[string]string{"obligation": o.Name, "clause": o.Text, "smt_goal": truncate("(assert (and "+o.Reach+" (not "+o.Goal+")))", 600)})
				break
			}
		}
	}
	if len(samples) == 0 && len(obs) > 0 {
		samples = append(samples, obs[0])
	}
	level := cfg.Level
	if level == "" {
		level = "proof"
	}
	cov := map[string]interface{}{
		"obligations": nOb, "discharged": nDis,
		"checker_cmd":  fmt.Sprintf("/verif/bin/gcv check -prop %s -tier %s (go/ssa -> SMT-LIB; z3-new 5.1.0 first, then z3 4.8.12 / cvc5 1.0.3 raced per undischarged obligation)", prop, tier),
		"trusted_base": []string{"T-ENGINE gcv (SSA->SMT translation, memory model, loop cutting, frame check) — unverified, guarded by cover queries, must-fail selftest corpus and replay",
			"T-SSA golang.org/x/tools/go/ssa v0.29.0 builds SSA faithful to the Go spec", "T-SOLVER unsat answers of z3 5.1.0 / z3 4.8.12 / cvc5 1.0.3 are correct"},
		"functions_under_contract": funcs,
		"callee_contracts_not_verified_here": elsewhere, // applied at call sites, bodies verified by another registered check (tools/contract_audit.py lists any that no check verifies)
		"obligation_list":          obs,
		"solver_time_s":            float64(solverMs) / 1000.0,
		"not_claimed":              uniq(notClaimedHit),
		"bounded":                  boundedOut,
		"undecided_clauses":        cfg.Undecided,
		"known_findings":           knownHit,
		"samples":                  samples,
		"explanation":              cfg.Explanation,
		"clause_map":               cfg.Clauses,
		"evaluations":              nOb,
		"distinct_nontrivial":      countNontrivial(obs),
		"rule":                     "one case = one proof obligation generated from the current source of a function under contract; non-trivial = needed a solver (not discharged syntactically)",
	}
	ev := map[string]interface{}{"property_id": prop, "tier": tier, "seed": seed, "level": level, "coverage": cov,
		"assumptions": as, "wall_s": time.Since(t0).Seconds(), "violations": violations}
	os.MkdirAll(evdir, 0o755)
	b, _ := json.MarshalIndent(ev, "", " ")
	os.WriteFile(filepath.Join(evdir, prop+".json"), b, 0o644)
	if verbose || violations > 0 {
		for _, o := range obs {
			if o.Status != "unsat" && o.Status != "trivial" && !(o.Kind == "cover") {
				fmt.Printf("  undischarged: %-8s %s  %s [%s]\n", o.Status, o.Name, o.Where, o.Text)
			}
		}
	}
	fmt.Printf("%s %s: %d/%d obligations discharged over %d functions, %d violations, %d known findings, %.1fs\n", prop, tier, nDis, nOb, len(funcs), violations, len(knownHit), time.Since(t0).Seconds())
	if violations > 0 {
		return 1
	}
	if boundedToolError {
		return 2
	}
	return 0
}

func isIfaceKey(eng *Engine, key string) bool {
	// "(pkg.Iface).Method" for interface contracts
	return strings.HasPrefix(key, "(") && !strings.HasPrefix(key, "(*") && func() bool {
		j := strings.Index(key, ")")
		tn := key[1:j]
		k := strings.LastIndex(tn, ".")
		if k < 0 {
			return false
		}
		p, ok := eng.Pkgs[tn[:k]]
		if !ok {
			return false
		}
		o := p.Types.Scope().Lookup(tn[k+1:])
		if o == nil {
			return false
		}
		_, isI := o.Type().Underlying().(interface{ NumMethods() int })
		return isI
	}()
}

func countNontrivial(obs []obRec) int {
	seen := map[string]bool{}
	for _, o := range obs {
		if o.Status != "trivial" {
			seen[o.Func+"|"+o.Name] = true
		}
	}
	return len(seen)
}

func truncate(s string, n int) string {
	if len(s) > n {
		return s[:n] + "…"
	}
	return s
}

func uniq(xs []string) []string {
	sort.Strings(xs)
	var out []string
	for i, x := range xs {
		if i == 0 || x != xs[i-1] {
			out = append(out, x)
		}
	}
	if out == nil {
		out = []string{}
	}
	return out
}

func matchKnown(known []KnownFinding, prop, name string) *KnownFinding {
	for i := range known {
		k := &known[i]
		if k.Property == prop && k.Status == "open" && k.Obligation == name {
			return k
		}
	}
	return nil
}

var ncMu sync.RWMutex

func matchNotClaimed(ncs []NotClaimed, prop, name string) *NotClaimed {
	for i := range ncs {
		n := &ncs[i]
		if n.Property != prop && n.Property != "*" {
			continue
		}
		if ok, _ := regexp.MatchString(n.Re, name); ok {
			return n
		}
	}
	return nil
}

func writeReplay(dir, name string, content map[string]interface{}) string {
	p := filepath.Join(dir, sanitizeFile(name)+".json")
	b, _ := json.MarshalIndent(content, "", " ")
	os.WriteFile(p, b, 0o644)
	return p
}

// discoverImpls (H4c): the named types of the loaded repository packages whose pointer (or value) method set implements
// the interface; used only to create refinement jobs (it does not make interface CALLS closed-world).
func (e *Engine) discoverImpls(ifT types.Type) []string {
	iface, ok := ifT.Underlying().(*types.Interface)
	if !ok {
		return nil
	}
	var out []string
	var paths []string
	for p := range e.Pkgs {
		paths = append(paths, p)
	}
	sort.Strings(paths)
	for _, pp := range paths {
		p := e.Pkgs[pp]
		if p.Types == nil || !strings.HasPrefix(pp, repoModule) {
			continue
		}
		sc := p.Types.Scope()
		for _, n := range sc.Names() {
			tn, ok := sc.Lookup(n).(*types.TypeName)
			if !ok || tn.IsAlias() {
				continue
			}
			if _, isI := tn.Type().Underlying().(*types.Interface); isI {
				continue
			}
			if types.Implements(tn.Type(), iface) {
				out = append(out, pp+"."+n)
			} else if types.Implements(types.NewPointer(tn.Type()), iface) {
				out = append(out, "*"+pp+"."+n)
			}
		}
	}
	return out
}

// splitTopAlt splits a regular expression at its top-level '|' (outside groups, classes and escapes).
func splitTopAlt(re string) []string {
	var out []string
	depth, inClass, start := 0, false, 0
	for i := 0; i < len(re); i++ {
		switch c := re[i]; {
		case c == '\\':
			i++
		case inClass:
			if c == ']' {
				inClass = false
			}
		case c == '[':
			inClass = true
		case c == '(':
			depth++
		case c == ')':
			depth--
		case c == '|' && depth == 0:
			out = append(out, re[start:i])
			start = i + 1
		}
	}
	return append(out, re[start:])
}

// machineBusy: the 1-minute load average exceeds three quarters of the processors.
func machineBusy() bool {
	b, err := os.ReadFile("/proc/loadavg")
	if err != nil {
		return false
	}
	var l1 float64
	fmt.Sscanf(string(b), "%f", &l1)
	return l1 > 0.75*float64(runtime.NumCPU())
}
