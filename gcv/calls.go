package main

import (
	"fmt"
	"go/ast"
	"go/token"
	"go/types"
	"os"
	"strconv"
	"strings"

	"golang.org/x/tools/go/ssa"
)

type closureInfo struct {
	fn       *ssa.Function
	bindings []Val
}

// modLoc is one evaluated `modifies` location.
type modLoc struct {
	root  string // heap root, e.g. "H|pkg.T", "E|uint8", "C|uint64"
	path  string // leaf path prefix
	base  string
	whole bool   // all objects (type-level)
	guard string // "" or a condition under which the location is modified (dynamic type test)
	idx   string // element locations (E| roots): the index inside the backing array `base` ("" = every element of it)
}

func (m modLoc) covers(p Ptr) bool {
	if m.root != p.Root {
		return false
	}
	if m.path == "" || m.path == p.Path || strings.HasPrefix(p.Path, m.path+".") || strings.HasPrefix(p.Path, m.path+"#") {
		return true
	}
	return false
}

// evalModifies evaluates a contract's modifies clauses in env (state = pre-state).
func (fr *Frame) evalModifies(env *Env, c *Contract) []modLoc {
	var out []modLoc
	for _, cl := range c.Modifies {
		out = append(out, fr.evalModLoc(env, cl)...)
	}
	return out
}

// guardOf finds a type assertion at the root of a location expression: x.(T).f is modified only if x has dynamic type T.
func guardOf(env *Env, x ast.Expr) string {
	for {
		switch y := x.(type) {
		case *ast.SelectorExpr:
			x = y.X
		case *ast.ParenExpr:
			x = y.X
		case *ast.StarExpr:
			x = y.X
		case *ast.IndexExpr:
			x = y.X
		case *ast.SliceExpr:
			x = y.X
		case *ast.TypeAssertExpr:
			base := env.eval(y.X)
			t := env.resolveType(y.Type)
			if t == nil {
				env.fail(y, "unknown type in type assertion")
			}
			env.vc.declIface()
			return eq(app("itag", base.term()), env.vc.typeTag(t))
		default:
			return ""
		}
	}
}

func (fr *Frame) evalModLoc(env *Env, cl Clause) (out []modLoc) {
	if strings.HasSuffix(cl.File, ".schema") {
		defer func() {
			if r := recover(); r != nil {
				if _, ok := r.(contractError); ok {
					out = nil
					return
				}
				panic(r)
			}
		}()
	}
	defer func() {
		if g := guardOf2(env, cl.Expr); g != "" {
			for i := range out {
				out[i].guard = g
			}
		}
	}()
	defer func() {
		if r := recover(); r != nil {
			if ce, ok := r.(contractError); ok {
				panic(contractError(fmt.Sprintf("%s:%d: modifies `%s`: %s", cl.File, cl.Line, cl.Text, string(ce))))
			}
			panic(r)
		}
	}()
	x := cl.Expr
	switch x := x.(type) {
	case *ast.SliceExpr:
		// s[:]  -> all elements of the backing array of s
		tv := env.eval(x.X)
		if mt, isMap := under(tv.T).(*types.Map); isMap {
			// m[*] : the whole content of the map value m (any expression of map type)
			return []modLoc{{root: "M|" + canon(mt), base: tv.term()}}
		}
		sl, ok := under(tv.T).(*types.Slice)
		if !ok {
			env.fail(x, "modifies x[*] needs a slice or a map")
		}
		ml := modLoc{root: "E|" + canon(sl.Elem()), base: tv.V.(*SliceV).Arr}
		// p.f[*] with p == nil denotes no memory (the slice header itself does not exist)
		if sel, ok := x.X.(*ast.SelectorExpr); ok {
			func() {
				defer func() { recover() }()
				if pp, ok := env.evalAddr(sel).V.(Ptr); ok && pp.Base != "" {
					ml.guard = not(eq(pp.Base, "0"))
				}
			}()
		}
		return []modLoc{ml}
	case *ast.StarExpr:
		tv := env.eval(x.X)
		p := tv.V.(Ptr)
		return []modLoc{{root: p.Root, path: p.Path, base: p.Base, idx: elemIdx(p)}}
	case *ast.CallExpr:
		if id, ok := x.Fun.(*ast.Ident); ok && id.Name == "deep" {
			// deep(p): every leaf of the struct p points to, including structs embedded by value
			tv := env.eval(x.Args[0])
			pt, ok := under(tv.T).(*types.Pointer)
			if !ok {
				env.fail(x, "deep() needs a pointer")
			}
			p := tv.V.(Ptr)
			var locs []modLoc
			seen := map[string]bool{}
			for _, l := range leaves(pt.Elem()) {
				name, q := leafLoc(p, l.Path)
				_ = name
				lp := l.Path
				if _, rest := resolveLeaf(p, l.Path); rest != "" {
					lp = rest
				}
				k := q.Root + "|" + lp + "|" + q.Base
				if seen[k] {
					continue
				}
				seen[k] = true
				if rt := rootTypes[q.Root]; rt != nil {
					fr.vc.declareLeafHeaps(env.st, q.Root, "", rt)
				}
				locs = append(locs, modLoc{root: q.Root, path: strings.SplitN(lp, "#", 2)[0], base: q.Base, idx: elemIdx(q)})
			}
			return locs
		}
		if id, ok := x.Fun.(*ast.Ident); ok && id.Name == "all" {
			// all(T.f) : field f of every object of type T ; all(T) : every field
			if wt := env.resolveType(x.Args[0]); wt != nil {
				if m, ok := under(wt).(*types.Map); ok {
					return []modLoc{{root: "M|" + canon(m), whole: true}}
				}
				if s, ok := under(wt).(*types.Slice); ok {
					return []modLoc{{root: "E|" + canon(s.Elem()), whole: true}}
				}
				return []modLoc{{root: ptrRoot(wt), whole: true}}
			}
			switch a := x.Args[0].(type) {
			case *ast.SelectorExpr:
				t := env.resolveType(a.X)
				if t == nil {
					env.fail(x, "unknown type in all()")
				}
				return []modLoc{{root: ptrRoot(t), path: a.Sel.Name, whole: true}}
			default:
				t := env.resolveType(a)
				if t == nil {
					env.fail(x, "unknown type in all()")
				}
				if m, ok := under(t).(*types.Map); ok {
					return []modLoc{{root: "M|" + canon(m), whole: true}}
				}
				if s, ok := under(t).(*types.Slice); ok {
					return []modLoc{{root: "E|" + canon(s.Elem()), whole: true}}
				}
				return []modLoc{{root: ptrRoot(t), whole: true}}
			}
		}
	case *ast.SelectorExpr:
		// pkg.Global : a (ghost) global variable of another package
		if id, ok := x.X.(*ast.Ident); ok {
			if _, isName := env.names[id.Name]; !isName && env.lookupPkgObj(id.Name) == nil {
				if ip := env.importedPkg(id.Name); ip != nil {
					if o, ok := ip.Scope().Lookup(x.Sel.Name).(*types.Var); ok {
						for _, l := range leaves(o.Type()) {
							name := "G|" + o.Pkg().Path() + "." + o.Name() + "|" + l.Path
							fr.vc.heap(env.st, name, fr.vc.heapSortFor(name, l.Sort))
						}
						return []modLoc{{root: "G|" + o.Pkg().Path() + "." + o.Name(), base: "0"}}
					}
				}
			}
		}
		tv := env.evalAddr(x)
		p := tv.V.(Ptr)
		return []modLoc{{root: p.Root, path: p.Path, base: p.Base, idx: elemIdx(p)}}
	case *ast.IndexExpr:
		// m[*] for maps is written m[:]; single element s[i]
		tv := env.evalAddr(x)
		p := tv.V.(Ptr)
		return []modLoc{{root: p.Root, path: p.Path, base: p.Base, idx: elemIdx(p)}}
	case *ast.Ident:
		if _, isName := env.names[x.Name]; !isName {
			if o, ok := env.lookupPkgObj(x.Name).(*types.Var); ok && o.Pkg() != nil && o.Parent() == o.Pkg().Scope() {
				for _, l := range leaves(o.Type()) {
					name := "G|" + o.Pkg().Path() + "." + o.Name() + "|" + l.Path
					fr.vc.heap(env.st, name, fr.vc.heapSortFor(name, l.Sort))
				}
				return []modLoc{{root: "G|" + o.Pkg().Path() + "." + o.Name(), base: "0"}}
			}
		}
		tv := env.eval(x)
		switch u := under(tv.T).(type) {
		case *types.Pointer:
			p := tv.V.(Ptr)
			return []modLoc{{root: p.Root, path: p.Path, base: p.Base}}
		case *types.Map:
			return []modLoc{{root: "M|" + canon(u), base: tv.term()}}
		}
	}
	env.fail(x, "unsupported modifies location")
	return nil
}

// elemIdx: a location inside ONE element of a backing array (pointer to / into a slice element): the element's index.
// A callee whose frame is stated over such a pointer (modifies deep(encoder), encoder.length, *p) writes that element
// only; havocing the whole backing array (as before) is sound but loses what is known about the other elements.
func elemIdx(p Ptr) string {
	if p.isElem() {
		return p.Idx
	}
	return ""
}

func guardOf2(env *Env, x ast.Expr) (g string) {
	defer func() {
		if r := recover(); r != nil {
			g = ""
		}
	}()
	return guardOf(env, x)
}

// heapsUnder lists the known heap names covered by a modLoc.
func (vc *VC) heapsUnder(m modLoc) []string {
	var out []string
	if strings.HasPrefix(m.root, "M|") {
		c := strings.TrimPrefix(m.root, "M|")
		for h := range vc.heapSorts {
			if h == "Md|"+c || h == "Ml|"+c || strings.HasPrefix(h, "Mv|"+c+"|") {
				out = append(out, h)
			}
		}
		return out
	}
	for h := range vc.heapSorts {
		if !strings.HasPrefix(h, m.root+"|") {
			continue
		}
		rest := h[len(m.root)+1:]
		if m.path == "" || rest == m.path || strings.HasPrefix(rest, m.path+".") || strings.HasPrefix(rest, m.path+"#") {
			out = append(out, h)
		}
	}
	return out
}

// declareLeafHeaps makes sure the heaps for all leaves of type t under root exist in heapSorts.
func (vc *VC) declareLeafHeaps(st *State, root, path string, t types.Type) {
	for _, l := range leaves(t) {
		name := root + "|" + joinPath(path, l.Path)
		vc.heap(st, name, vc.heapSortFor(name, l.Sort))
	}
}

// frameCheck: a store through p must be allowed by the function's modifies clause (or target a fresh object).
func (fr *Frame) frameCheck(st *State, p Ptr, pos token.Pos) {
	if !fr.top || fr.contract == nil || fr.vc.dry > 0 || fr.vc.noFrame {
		return
	}
	if strings.HasPrefix(p.Root, "G|") {
		for _, m := range fr.modLocs {
			if m.root == p.Root {
				return
			}
		}
		fr.safety("frame", st, "false", pos, "")
		return
	}
	goal := fr.frameGoal(p.Root, p.Path, p.Base)
	fr.safety("frame", st, goal, pos, "")
}

// outerBase strips (sub X id) wrappers: the object that physically contains an embedded struct.
func outerBase(t string) string {
	for strings.HasPrefix(t, "(sub ") {
		inner := t[5 : len(t)-1]
		k := strings.LastIndex(inner, " ")
		if k < 0 {
			break
		}
		t = inner[:k]
	}
	return t
}

func (fr *Frame) frameGoal(root, path, base string) string {
	vc := fr.vc
	if vc.freshRefs[base] || vc.freshRefs[outerBase(base)] {
		return "true"
	}
	alts := []string{le(vc.allocOf(fr.entry), outerBase(base))}
	for _, m := range fr.modLocs {
		if m.covers(Ptr{Root: root, Path: path}) {
			if m.whole {
				return "true"
			}
			alts = append(alts, and(m.guard, eq(base, m.base)))
		}
	}
	return or(alts...)
}

// ---- calls ----

// hintName: the name under which a call is referred to by `assert before` clauses.
func hintName(c *ssa.CallCommon) string {
	if f := c.StaticCallee(); f != nil {
		if o := f.Origin(); o != nil {
			return o.Name() // instance of a generic function: the name without the type arguments
		}
		return f.Name()
	}
	if c.IsInvoke() {
		// interface value loaded from a struct field (l.transport.sendFrame(...)): refer to it by the field name,
		// the SSA register name is not stable under code changes
		if u, ok := c.Value.(*ssa.UnOp); ok {
			if g, ok := u.X.(*ssa.Global); ok {
				// interface value loaded from a package-level variable (table.FibStrategyTable.SetStrategyEnc(...))
				return g.Name() + "." + c.Method.Name()
			}
			if fa, ok := u.X.(*ssa.FieldAddr); ok {
				if pt, ok := fa.X.Type().Underlying().(*types.Pointer); ok {
					if stt, ok := pt.Elem().Underlying().(*types.Struct); ok {
						return stt.Field(fa.Field).Name() + "." + c.Method.Name()
					}
				}
			}
		}
		return c.Value.Name() + "." + c.Method.Name()
	}
	if p, ok := c.Value.(*ssa.Parameter); ok {
		return p.Name()
	}
	if n := funcFieldName(c.Value); n != "" {
		return n
	}
	if b, ok := c.Value.(*ssa.Builtin); ok {
		return b.Name()
	}
	return ""
}

// funcFieldName: v is a function value loaded from a field of a struct (x.f where f has a function type): the field name.
func funcFieldName(v ssa.Value) string {
	u, ok := v.(*ssa.UnOp)
	if !ok || u.Op != token.MUL {
		return ""
	}
	if _, isFunc := u.Type().Underlying().(*types.Signature); !isFunc {
		return ""
	}
	fa, ok := u.X.(*ssa.FieldAddr)
	if !ok {
		return ""
	}
	pt, ok := fa.X.Type().Underlying().(*types.Pointer)
	if !ok {
		return ""
	}
	stt, ok := pt.Elem().Underlying().(*types.Struct)
	if !ok {
		return ""
	}
	return stt.Field(fa.Field).Name()
}

func (fr *Frame) applyHints(c *ssa.CallCommon, pos token.Pos, st *State, instr *ssa.Call) {
	if !fr.top || fr.contract == nil || len(fr.contract.Hints) == 0 || instr == nil {
		return
	}
	vc := fr.vc
	hn := hintName(c)
	if hn == "" {
		return
	}
	if fr.hintCount == nil {
		fr.hintCount = map[string]int{}
	}
	if vc.dry == 0 {
		fr.hintCount[hn]++
	}
	k := fr.hintCount[hn]
	if vc.dry > 0 {
		k = fr.hintCount[hn] + 1
	}
	for i, h := range fr.contract.Hints {
		if h.Callee != hn || (h.K != k && h.K != -1) {
			continue
		}
		env := fr.baseEnv(st)
		blk := instr.Block()
		env.lookup = func(name string) (TV, bool) {
			if tv, ok := fr.rangeSlice(name); ok {
				return tv, true
			}
			// rangeindex<k> inside the body of range loop k (or of a loop nested in it): the header phi, i.e. the index
			// of the last element processed BEFORE the current iteration (current element = rangeindex<k>+1)
			if strings.HasPrefix(name, "rangeindex") && len(name) > len("rangeindex") {
				if k, err := strconv.Atoi(name[len("rangeindex"):]); err == nil {
					for hb, ord := range fr.loopOrd {
						if ord != k || !(hb == blk || hb.Dominates(blk)) {
							continue
						}
						for _, p := range headerPhis(hb) {
							if p.Comment == "rangeindex" {
								if v, ok := fr.vals[p]; ok {
									return TV{v, p.Type()}, true
								}
							}
						}
					}
				}
			}
			return fr.resolveNameAt(name, blk, st)
		}
		for _, ln := range h.Uses {
			if strings.Contains(ln, "(") {
				st.reach = vc.define("r", "Bool", and(st.reach, fr.applyLemma(env, ln, h.C)))
			} else if vc.dry == 0 {
				fr.assumeLemma(ln, st)
			}
		}
		goal := fr.evalClause(env, h.C)
		if fr.hintApplied == nil {
			fr.hintApplied = map[int]bool{}
		}
		fr.hintApplied[i] = true
		an := fmt.Sprintf("%s#assert:%s@%d.%d", shortFuncName(vc.fn), hn, k, i+1)
		vc.addOblig("assert", an, st, goal, pos, h.C.Text)
		if vc.noAssume != nil && vc.dry == 0 && vc.noAssume(an, "assert") {
			continue // a cut that is not claimed is not assumed either
		}
		st.reach = vc.define("r", "Bool", and(st.reach, goal))
	}
}

func (fr *Frame) execCall(c *ssa.CallCommon, pos token.Pos, st *State, instr *ssa.Call) Val {
	vc := fr.vc
	fr.applyHints(c, pos, st, instr)
	if b, ok := c.Value.(*ssa.Builtin); ok {
		return fr.execBuiltin(b, c, pos, st)
	}
	var args []Val
	var argTypes []types.Type
	if c.IsInvoke() {
		return fr.execInvoke(c, pos, st)
	}
	for _, a := range c.Args {
		args = append(args, fr.val(a))
		argTypes = append(argTypes, a.Type())
	}
	callee := c.StaticCallee()
	if callee == nil {
		// dynamic call of a function value
		if fr.top && fr.contract != nil && fr.contract.Calls != nil {
			if p, ok := c.Value.(*ssa.Parameter); ok {
				if sub := fr.contract.Calls[p.Name()]; sub != nil {
					return fr.applySigContract(sub, c, nil, args, pos, st, fr.baseEnv(st).names)
				}
			}
			// H11: a function value loaded from a struct field (f.onPkt(...)) is addressed by the field name, like
			// interface values loaded from a field in `assert before`
			if n := funcFieldName(c.Value); n != "" {
				if sub := fr.contract.Calls[n]; sub != nil {
					return fr.applySigContract(sub, c, nil, args, pos, st, fr.baseEnv(st).names)
				}
			}
		}
		if s, ok := fr.val(c.Value).(Scalar); ok {
			if ci := vc.closures[s.T]; ci != nil {
				return fr.inlineCall(ci.fn, args, ci.bindings, pos, st)
			}
		}
		return fr.externalCall("dynamic call through function value at "+vc.eng.posString(pos), c.Signature().Results(), st)
	}
	if mc, ok := c.Value.(*ssa.MakeClosure); ok {
		var binds []Val
		for _, b := range mc.Bindings {
			binds = append(binds, fr.val(b))
		}
		// `option modular-closure` on the closure's own contract: the direct call of the closure is replaced by its
		// contract (requires proved here, modifies havoced, ensures assumed) instead of inlining its body. The contract
		// is verified separately for arbitrary values of the captured variables, which are bound here to the values
		// captured at this MakeClosure (ordinary modular reasoning; the captured cells are just further arguments).
		if ct := vc.eng.contractFor(callee); ct != nil && ct.Options["modular-closure"] && len(binds) == len(callee.FreeVars) {
			fr.closureBinds = map[string]TV{}
			for i, fv := range callee.FreeVars {
				fr.closureBinds[fv.Name()] = TV{binds[i], fv.Type()}
			}
			return fr.applyContract(callee, ct, args, argTypes, pos, st)
		}
		return fr.inlineCall(callee, args, binds, pos, st)
	}
	name := callee.String()
	if isLockCall(name) {
		return &StructV{}
	}
	// H4 patch: an explicit contract for time.Now (ghost clock) takes precedence over the native "arbitrary value" model
	// (likewise strconv.FormatUint: with a dependency contract its result is the decimal string of its argument, not an arbitrary string)
	if !((name == "time.Now" || name == "strconv.FormatUint") && vc.eng.contractFor(callee) != nil) {
		if v, ok := fr.nativeModel(name, callee, c, args, pos, st); ok {
			return v
		}
	}
	if ct := vc.eng.contractFor(callee); ct != nil {
		if ct.Pure && callee.Signature.Results().Len() == 1 {
			return fr.applyPure(ct, callee.String(), callee.Signature, nil, args, argTypes, pos, st, callee.Params)
		}
		return fr.applyContract(callee, ct, args, argTypes, pos, st)
	}
	if fr.canInline(callee) {
		return fr.inlineCall(callee, args, nil, pos, st)
	}
	if vc.eng.inRepo(callee) && len(vc.paramInvs) > 0 {
		// the callee is verified separately under the type invariants of its parameters: establish them here
		for i, p := range callee.Params {
			tmpl, ok := vc.paramInvs[types.TypeString(types.Unalias(p.Type()), nil)]
			if !ok {
				continue
			}
			c, err := parseClause(strings.ReplaceAll(tmpl, "$p", "zzarg"), "<sweep type invariant>", 0)
			if err != nil {
				panic(contractError(err.Error()))
			}
			env := fr.baseEnv(st)
			env.names["zzarg"] = TV{args[i], p.Type()}
			short := shortFuncName(callee)
			vc.callCount[short]++
			vc.addOblig("pre", fmt.Sprintf("%s#pre:%s@%d.inv(%s)", shortFuncName(vc.fn), short, vc.callCount[short], p.Name()), st, fr.evalClause(env, c), pos,
				"type invariant of argument "+p.Name())
		}
	}
	return fr.externalCall(name, callee.Signature.Results(), st)
}

func tupleVal(vals []Val) Val {
	if len(vals) == 1 {
		return vals[0]
	}
	return &StructV{F: vals}
}

func (fr *Frame) externalCall(name string, results *types.Tuple, st *State) Val {
	vc := fr.vc
	if strings.HasPrefix(name, repoModule) || strings.HasPrefix(name, "("+repoModule) || strings.HasPrefix(name, "(*"+repoModule) {
		vc.note("uncontracted repository function treated as effect-free with arbitrary result: " + name)
	} else {
		vc.note("external call treated as effect-free with arbitrary result: " + name)
	}
	var vals []Val
	for i := 0; i < results.Len(); i++ {
		v := vc.freshVal("ext", results.At(i).Type())
		vals = append(vals, v)
		fr.assumeBelowAlloc(st, results.At(i).Type(), v)
	}
	if len(vals) == 0 {
		return &StructV{}
	}
	return tupleVal(vals)
}

func (fr *Frame) assumeBelowAlloc(st *State, t types.Type, v Val) {
	vc := fr.vc
	i := 0
	ts := flatT(t, v)
	for _, l := range leaves(t) {
		if l.Sort == "Int" && (l.Typ == nil || isRefType(l.Typ)) {
			vc.assert(lt(ts[i], vc.allocOf(st)))
		}
		i++
	}
	if f := vc.typedRefFact(st, t, v); f != "true" {
		vc.assert(f)
	}
}

func countInstrs(fn *ssa.Function) int {
	n := 0
	for _, b := range fn.Blocks {
		for _, in := range b.Instrs {
			if _, ok := in.(*ssa.DebugRef); !ok {
				n++
			}
		}
	}
	return n
}

func hasLoop(fn *ssa.Function) bool {
	for _, b := range fn.Blocks {
		for _, s := range b.Succs {
			if s.Dominates(b) {
				return true
			}
		}
	}
	return false
}

func (fr *Frame) canInline(fn *ssa.Function) bool {
	inlineMax := 80
	if v, err := strconv.Atoi(os.Getenv("GCV_INLINE_MAX")); err == nil && v > 0 {
		// experiment (C13): whole-composition check Init;Encode;EncodeInto of loop-free generated encoders
		inlineMax = v
	}
	if fn.Blocks == nil || fr.depth >= 4 || hasLoop(fn) || countInstrs(fn) > inlineMax {
		return false
	}
	if fn.Recover != nil {
		return false
	}
	for f := fr; f != nil; f = f.parent {
		if f.fn == fn {
			return false
		}
	}
	for _, b := range fn.Blocks {
		for _, in := range b.Instrs {
			switch in.(type) {
			case *ssa.Go, *ssa.Select, *ssa.Send:
				return false
			}
		}
	}
	if !fr.vc.eng.inRepo(fn) {
		// library functions: only tiny ones
		if countInstrs(fn) > 25 {
			return false
		}
		p := ""
		if fn.Pkg != nil {
			p = fn.Pkg.Pkg.Path()
		}
		switch p {
		case "runtime", "sync", "sync/atomic", "fmt", "reflect", "os", "log", "unsafe", "syscall":
			return false
		}
	}
	return true
}

func (fr *Frame) inlineCall(fn *ssa.Function, args []Val, binds []Val, pos token.Pos, st *State) Val {
	vc := fr.vc
	if fn.Blocks == nil || hasLoop(fn) || fr.depth >= 6 {
		return fr.externalCall(fn.String(), fn.Signature.Results(), st)
	}
	sub := vc.newFrame(fn, fr.depth+1)
	sub.parent = fr
	sub.prefix = fr.prefix + fn.Name() + ">"
	for i, p := range fn.Params {
		sub.vals[p] = args[i]
	}
	for i, fv := range fn.FreeVars {
		if i < len(binds) {
			sub.vals[fv] = binds[i]
		}
	}
	var res []Val
	var out *State
	if !vc.eng.inRepo(fn) {
		// library code may leave the subset (unsafe, runtime internals): fall back to an external call
		failed := false
		saveObl, saveLines := len(vc.obligs), len(vc.lines)
		vc.note("library function inlined; its own safety obligations are not generated (A-DEP: the Go standard library does not panic on these calls): " + fn.String())
		vc.dry++
		func() {
			defer func() { vc.dry-- }()
			defer func() {
				if r := recover(); r != nil {
					if _, ok := r.(unsupported); ok {
						failed = true
						return
					}
					if _, ok := r.(error); ok {
						failed = true
						return
					}
					panic(r)
				}
			}()
			res, out = sub.run(st.clone())
		}()
		if failed {
			vc.obligs = vc.obligs[:saveObl]
			_ = saveLines
			return fr.externalCall(fn.String(), fn.Signature.Results(), st)
		}
	} else {
		res, out = sub.run(st.clone())
	}
	if out == nil {
		st.reach = "false"
		var vals []Val
		for i := 0; i < fn.Signature.Results().Len(); i++ {
			vals = append(vals, zeroValSafe(fn.Signature.Results().At(i).Type()))
		}
		if len(vals) == 0 {
			return &StructV{}
		}
		return tupleVal(vals)
	}
	st.reach = out.reach
	st.heaps = out.heaps
	if len(res) == 0 {
		return &StructV{}
	}
	return tupleVal(res)
}

func zeroValSafe(t types.Type) (v Val) {
	defer func() {
		if recover() != nil {
			v = Scalar{"0", "Int"}
		}
	}()
	return zeroVal(t)
}

// applyContract uses the callee's contract at a call site.
func (fr *Frame) applyContract(callee *ssa.Function, ct *Contract, args []Val, argTypes []types.Type, pos token.Pos, st *State) Val {
	vc := fr.vc
	env := &Env{vc: vc, names: map[string]TV{}, st: st}
	pkgPath := ct.PkgPath
	if pkgPath == "" && callee.Pkg != nil {
		pkgPath = callee.Pkg.Pkg.Path()
	}
	env.pkg = vc.eng.Pkgs[pkgPath]
	for i, p := range callee.Params {
		env.names[p.Name()] = TV{args[i], p.Type()}
	}
	for n, tv := range fr.closureBinds { // captured variables of a closure called modularly (see execCall)
		env.names[n] = tv
	}
	fr.closureBinds = nil
	short := shortFuncName(callee)
	vc.callCount[short]++
	k := vc.callCount[short]
	// implicit: pointer receiver non-nil
	if callee.Signature.Recv() != nil && len(callee.Params) > 0 {
		if p, ok := args[0].(Ptr); ok && !ct.Nullable[callee.Params[0].Name()] {
			fr.nilCheck(st, p, pos, nil2(callee.Params[0]))
		}
	}
	var unclaimedPre []string // preconditions whose obligations are not claimed: the postconditions hold only under them
	for i, c := range ct.Requires {
		goal := fr.evalClause(env, c)
		on := fmt.Sprintf("%s#pre:%s@%d.%d", shortFuncName(vc.fn), short, k, i+1)
		vc.addOblig("pre", on, st, goal, pos, c.Text)
		if vc.noAssume != nil && vc.dry == 0 && vc.noAssume(on, "pre") {
			unclaimedPre = append(unclaimedPre, goal)
		}
	}
	if ct.Trusted {
		vc.note("trusted contract used: " + ct.Key)
	} else if callee != vc.fn && callee.Blocks != nil && !ct.Pure {
		vc.note("callee contract used: " + short) // check.go: must be verified by some registered check, or it is an assumption
	}
	if callee == vc.fn && fr.top {
		// recursion: the measure must decrease and be bounded below
		if len(ct.Decreases) == 0 {
			if strings.HasPrefix(callee.Name(), "lemma") {
				panic(contractError("recursive lemma " + callee.Name() + " needs a decreases clause"))
			}
			vc.note("termination of recursive function " + short + " is not proved (no decreases clause); partial correctness only")
		}
		eenv := fr.baseEnv(fr.entry)
		for i, c := range ct.Decreases {
			newV := env.eval(c.Expr).term()
			oldV := eenv.eval(c.Expr).term()
			vc.addOblig("dec", fmt.Sprintf("%s#dec:rec@%d.%d", shortFuncName(vc.fn), k, i+1), st, and(le("0", oldV), lt(newV, oldV)), pos, c.Text)
		}
	}
	pre := st.clone()
	// effects
	mods := fr.evalModifies(env, ct)
	fr.ghostSet, fr.ghostKnown = vc.eng.ghostMods(callee)
	fr.applyMods(st, pre, mods, pos)
	fr.ghostSet, fr.ghostKnown = nil, false
	// H4 patch: `option no-alloc` on a trusted contract: the callee allocates no object (part of what is trusted), so the
	// allocation pointer does not move and `forall(func(x *T) ...)` facts of the caller survive the call.
	if ct.Trusted && ct.Options["no-alloc"] {
		st.heaps["$alloc"] = vc.allocOf(pre)
	} else if set, known := vc.eng.allocSet(callee); known {
		if len(set) == 0 {
			st.heaps["$alloc"] = vc.allocOf(pre)
		} else {
			vc.regionAfterCall(st, vc.allocOf(pre), vc.allocOf(st), set)
		}
	}
	// results
	res := callee.Signature.Results()
	var vals []Val
	penv := &Env{vc: vc, pkg: env.pkg, names: map[string]TV{}, st: st, old: pre}
	for k2, v := range env.names {
		penv.names[k2] = v
	}
	for i := 0; i < res.Len(); i++ {
		v := vc.freshVal("res", res.At(i).Type())
		vals = append(vals, v)
		fr.assumeBelowAlloc(st, res.At(i).Type(), v)
		tv := TV{v, res.At(i).Type()}
		if n := res.At(i).Name(); n != "" && n != "_" {
			penv.names[n] = tv
		}
		penv.names[fmt.Sprintf("result%d", i)] = tv
		if res.Len() == 1 {
			penv.names["result"] = tv
		}
	}
	var facts []string
	for _, c := range ct.Ensures {
		f := fr.evalClause(penv, c)
		if len(unclaimedPre) > 0 {
			// a callee's postcondition is worth nothing when its precondition did not hold: where the precondition is an
			// obligation that is not claimed (it may be false), the postcondition is assumed only under it
			f = implies(and(unclaimedPre...), f)
		}
		facts = append(facts, f)
	}
	st.reach = vc.define("r", "Bool", and(append([]string{st.reach}, facts...)...))
	if len(vals) == 0 {
		return &StructV{}
	}
	return tupleVal(vals)
}

func nil2(p *ssa.Parameter) ssa.Value { return p }

// applyMods havocs the locations in mods (evaluated in pre) and checks them against the caller's frame.
func (fr *Frame) applyMods(st, pre *State, mods []modLoc, pos token.Pos) {
	vc := fr.vc
	mi := map[string]*modInfo{}
	for _, m := range mods {
		// frame: the caller must itself be allowed to modify what the callee modifies
		// H4 patch: ghost globals (ghostXxx variables of a zz_verif file, e.g. the clock-reading counter) are not subject to
		// the frame check: ghost state may advance in any function without every contract having to list it.
		isGhostGlobal := vc.eng.isGhostRoot(m.root)
		// the synthetic package initialiser writes every package global by definition and is nobody's callee (Go forbids
		// calling it), so no caller relies on its frame: callee effects on globals are not checked against it
		if strings.HasPrefix(m.root, "G|") && vc.fn != nil && vc.fn.Synthetic != "" && vc.fn.Name() == "init" {
			isGhostGlobal = true
		}
		if fr.top && fr.contract != nil && vc.dry == 0 && !vc.noFrame && !isGhostGlobal {
			if m.whole {
				ok := false
				for _, fm := range fr.modLocs {
					if fm.whole && fm.covers(Ptr{Root: m.root, Path: m.path}) {
						ok = true
					}
				}
				if !ok {
					fr.safety("frame", st, "false", pos, "")
				}
			} else {
				// a location whose base object is nil denotes no memory at all (the callee cannot write it)
				g := m.guard
				// (globals have the pseudo-base "0": the exemption must not apply to them, or a callee's effect on a
				// global - e.g. a verif* ghost trace - is never checked against the caller's own modifies clause)
				if m.base != "" && !strings.HasPrefix(m.root, "G|") {
					nz := not(eq(m.base, "0"))
					if g == "" {
						g = nz
					} else {
						g = and(g, nz)
					}
				}
				fr.safety("frame", st, implies(g, fr.frameGoal(m.root, m.path, m.base)), pos, "")
			}
		}
		for _, h := range vc.heapsUnder(m) {
			x := mi[h]
			if x == nil {
				x = &modInfo{}
				mi[h] = x
			}
			if m.whole {
				x.whole = true
			} else {
				x.targets = append(x.targets, m.base)
				g := m.guard
				// `option nil-base-unwritten` (on the caller): a location whose base object is nil denotes no memory at
				// all (the frame check above takes the same view), so the call leaves the heap at reference 0 alone. Without
				// it `modifies s[*]` for a nil slice s havocs the (fictitious) elements of array 0, and facts about slices
				// that are not yet known to be non-nil are lost.
				if vc.nilBaseUnwritten && m.base != "" {
					nz := not(eq(m.base, "0"))
					if g == "" {
						g = nz
					} else {
						g = and(g, nz)
					}
				}
				x.guards = append(x.guards, g)
				x.idxs = append(x.idxs, m.idx)
			}
		}
	}
	// ghost globals are outside the frame discipline: a call may have changed those that its target can reach through
	// some contract (static analysis ghostMods; all of them if the target is unknown)
	for _, g := range vc.eng.ghostGlobals() {
		root := "G|" + g.Pkg.Pkg.Path() + "." + g.Name()
		if fr.ghostKnown && !fr.ghostSet[root] {
			continue
		}
		for _, h := range vc.heapsUnder(modLoc{root: root, whole: true}) {
			x := mi[h]
			if x == nil {
				x = &modInfo{}
				mi[h] = x
			}
			x.whole = true
		}
	}
	fr.havoc(st, pre, mi)
}

// ---- interface method calls ----

func (fr *Frame) execInvoke(c *ssa.CallCommon, pos token.Pos, st *State) Val {
	vc := fr.vc
	recv := fr.val(c.Value)
	box := recv.(Scalar).T
	vc.declIface()
	fr.safety("nil", st, not(eq(box, "0")), pos, "")
	var args []Val
	var argTypes []types.Type
	for _, a := range c.Args {
		args = append(args, fr.val(a))
		argTypes = append(argTypes, a.Type())
	}
	// 1. dyn split declared in the contract of the function under verification
	var dynTypes []string
	if fr.contract != nil {
		if p, ok := c.Value.(*ssa.Parameter); ok {
			dynTypes = fr.contract.Dyn[p.Name()]
		}
	}
	if fr.top && fr.contract != nil && fr.contract.Calls != nil {
		if p, ok := c.Value.(*ssa.Parameter); ok {
			if sub := fr.contract.Calls[p.Name()+"."+c.Method.Name()]; sub != nil {
				return fr.applySigContract(sub, c, recv, args, pos, st, fr.baseEnv(st).names)
			}
		}
	}
	dynFromContract := dynTypes != nil
	if dynTypes == nil {
		dynTypes = vc.eng.IfaceImpls[ifaceKey(c.Value.Type(), c.Method.Name())]
	}
	if dynTypes == nil {
		dynTypes = vc.eng.IfaceImpls[ifaceKey(c.Value.Type(), "")]
	}
	// 2. contract on the interface method itself (preferred over the default closed-world split)
	ikey := "(" + types.TypeString(types.Unalias(c.Value.Type()), nil) + ")." + c.Method.Name()
	if ct := vc.eng.lookupContract(ikey); ct != nil && !dynFromContract {
		if ct.Pure && c.Signature().Results().Len() == 1 {
			return fr.applyPure(ct, ikey, c.Signature(), recv, args, argTypes, pos, st, nil)
		}
		return fr.applyIfaceContract(ct, c, recv, args, pos, st)
	}
	if dynTypes != nil {
		penv := fr.baseEnv(st)
		type branch struct {
			cond string
			st   *State
			val  Val
		}
		var brs []branch
		var conds []string
		for _, tn := range dynTypes {
			t := vc.eng.resolveQualifiedType(tn)
			if t == nil {
				tx, err := parseExprString(tn)
				if err != nil {
					panic(contractError("bad dyn type " + tn))
				}
				t = penv.resolveType(tx)
			}
			if t == nil {
				panic(contractError("unknown dyn type " + tn))
			}
			m := vc.eng.Prog.LookupMethod(t, c.Method.Pkg(), c.Method.Name())
			if m == nil {
				panic(contractError("type " + tn + " has no method " + c.Method.Name()))
			}
			cond := eq(app("itag", box), vc.typeTag(t))
			conds = append(conds, cond)
			bst := st.clone()
			bst.reach = vc.define("r", "Bool", and(st.reach, cond))
			rv := vc.unbox(box, t)
			vc.assert(implies(cond, vc.wfVal(t, rv)))
			if p, ok := rv.(Ptr); ok {
				vc.assert(implies(cond, and(lt("0", p.Base), lt(p.Base, vc.allocOf(st)))))
			}
			cargs := append([]Val{rv}, args...)
			ctypes := append([]types.Type{t}, argTypes...)
			var v Val
			if ct := vc.eng.contractFor(m); ct != nil {
				v = fr.applyContract(m, ct, cargs, ctypes, pos, bst)
			} else if fr.canInline(m) {
				v = fr.inlineCall(m, cargs, nil, pos, bst)
			} else {
				v = fr.externalCall(m.String(), m.Signature.Results(), bst)
			}
			brs = append(brs, branch{cond, bst, v})
		}
		if dynFromContract {
			// the case split must be exhaustive: provable from the function's precondition
			vc.callCount["dyn:"+c.Method.Name()]++
			vc.addOblig("dyn", fmt.Sprintf("%s#dyn:%s@%d", shortFuncName(vc.fn), c.Method.Name(), vc.callCount["dyn:"+c.Method.Name()]), st, or(conds...), pos,
				"dynamic type of "+c.Value.Name()+" is one of {"+strings.Join(dynTypes, ", ")+"}")
		} else {
			vc.note("dynamic type of " + c.Value.Type().String() + " values assumed to be one of {" + strings.Join(dynTypes, ", ") + "} (closed world: the implementations in this repository)")
		}
		// closed world: assume one of the listed types
		var sts []*State
		var vals []Val
		for _, b := range brs {
			sts = append(sts, b.st)
			vals = append(vals, b.val)
		}
		out := fr.mergeStates(sts)
		st.reach, st.heaps = out.reach, out.heaps
		return fr.mergeVals(sts, vals)
	}
	return fr.externalCall("invoke "+ikey, c.Signature().Results(), st)
}

func ifaceKey(t types.Type, method string) string {
	s := types.TypeString(types.Unalias(t), nil)
	if method == "" {
		return s
	}
	return s + "." + method
}

func (fr *Frame) applyIfaceContract(ct *Contract, c *ssa.CallCommon, recv Val, args []Val, pos token.Pos, st *State) Val {
	return fr.applySigContract(ct, c, recv, args, pos, st, nil)
}

// applySigContract applies a contract given on a signature (interface method, or a function-typed / interface-typed
// parameter of the function under verification). base, if non-nil, supplies the enclosing function's names.
func (fr *Frame) applySigContract(ct *Contract, c *ssa.CallCommon, recv Val, args []Val, pos token.Pos, st *State, base map[string]TV) Val {
	vc := fr.vc
	// find parameter names from the interface method's signature
	sig := c.Signature()
	env := &Env{vc: vc, names: map[string]TV{}, st: st}
	env.pkg = vc.eng.Pkgs[ct.PkgPath]
	for k, v := range base {
		env.names[k] = v
	}
	if base != nil {
		env.old = fr.entry
	}
	if recv != nil {
		env.names["self"] = TV{recv, c.Value.Type()}
	}
	for i := 0; i < sig.Params().Len(); i++ {
		n := sig.Params().At(i).Name()
		if n == "" {
			n = fmt.Sprintf("arg%d", i)
		}
		env.names[n] = TV{args[i], sig.Params().At(i).Type()}
	}
	short := strings.ReplaceAll(ct.Key, repoModule+"/", "")
	if j := strings.Index(short, "$"); j >= 0 {
		short = "call:" + short[j+1:]
	}
	vc.callCount[short]++
	k := vc.callCount[short]
	var unclaimedPre []string
	for i, cl := range ct.Requires {
		goal := fr.evalClause(env, cl)
		on := fmt.Sprintf("%s#pre:%s@%d.%d", shortFuncName(vc.fn), short, k, i+1)
		vc.addOblig("pre", on, st, goal, pos, cl.Text)
		if vc.noAssume != nil && vc.dry == 0 && vc.noAssume(on, "pre") {
			unclaimedPre = append(unclaimedPre, goal)
		}
	}
	if base != nil {
		vc.note("environment contract (assumed behaviour of a parameter of " + shortFuncName(vc.fn) + "): " + short)
	} else if ct.Trusted {
		vc.note("trusted contract used: " + ct.Key)
	} else {
		vc.note("interface contract used (implementations checked separately): " + ct.Key)
	}
	pre := st.clone()
	mods := fr.evalModifies(env, ct)
	if c.IsInvoke() {
		fr.ghostSet, fr.ghostKnown = vc.eng.ghostModsInvoke(c)
		if fr.ghostKnown {
			// the contract being applied (possibly a `call` sub-contract of the enclosing function) counts too
			vc.eng.contractGhostMods(ct, fr.ghostSet)
		}
	}
	fr.applyMods(st, pre, mods, pos)
	fr.ghostSet, fr.ghostKnown = nil, false
	// H4 patch (allocset.go): interface call: what the implementations may allocate
	if c.IsInvoke() {
		if set, known := vc.eng.allocSetInvoke(c); known {
			if len(set) == 0 {
				st.heaps["$alloc"] = vc.allocOf(pre)
			} else {
				vc.regionAfterCall(st, vc.allocOf(pre), vc.allocOf(st), set)
			}
		}
	}
	res := sig.Results()
	var vals []Val
	penv := &Env{vc: vc, pkg: env.pkg, names: map[string]TV{}, st: st, old: pre}
	for k2, v := range env.names {
		penv.names[k2] = v
	}
	for i := 0; i < res.Len(); i++ {
		v := vc.freshVal("res", res.At(i).Type())
		vals = append(vals, v)
		fr.assumeBelowAlloc(st, res.At(i).Type(), v)
		tv := TV{v, res.At(i).Type()}
		if n := res.At(i).Name(); n != "" && n != "_" {
			penv.names[n] = tv
		}
		penv.names[fmt.Sprintf("result%d", i)] = tv
		if res.Len() == 1 {
			penv.names["result"] = tv
		}
	}
	var facts []string
	for _, cl := range ct.Ensures {
		f := fr.evalClause(penv, cl)
		if len(unclaimedPre) > 0 {
			f = implies(and(unclaimedPre...), f) // see applyContract
		}
		facts = append(facts, f)
	}
	st.reach = vc.define("r", "Bool", and(append([]string{st.reach}, facts...)...))
	if len(vals) == 0 {
		return &StructV{}
	}
	return tupleVal(vals)
}

// ---- builtins ----

func (fr *Frame) execBuiltin(b *ssa.Builtin, c *ssa.CallCommon, pos token.Pos, st *State) Val {
	vc := fr.vc
	switch b.Name() {
	case "len":
		switch u := under(c.Args[0].Type()).(type) {
		case *types.Slice:
			return Scalar{fr.val(c.Args[0]).(*SliceV).Len, "Int"}
		case *types.Basic:
			return Scalar{app("slen", fr.val(c.Args[0]).(Scalar).T), "Int"}
		case *types.Map:
			return Scalar{vc.mapLen(st, fr.val(c.Args[0]).(Scalar).T, u), "Int"}
		case *types.Array:
			return Scalar{num(u.Len()), "Int"}
		case *types.Pointer:
			return Scalar{num(under(u.Elem()).(*types.Array).Len()), "Int"}
		case *types.Chan:
			n := vc.fresh("chanlen", "Int")
			vc.assert(le("0", n))
			return Scalar{n, "Int"}
		}
	case "cap":
		switch u := under(c.Args[0].Type()).(type) {
		case *types.Slice:
			return Scalar{fr.val(c.Args[0]).(*SliceV).Cap, "Int"}
		case *types.Array:
			return Scalar{num(u.Len()), "Int"}
		}
	case "copy":
		return fr.builtinCopy(c, pos, st)
	case "append":
		return fr.builtinAppend(c, pos, st)
	case "delete":
		mt := under(c.Args[0].Type()).(*types.Map)
		fr.frameCheck(st, Ptr{Root: "M|" + canon(mt), Base: fr.val(c.Args[0]).(Scalar).T}, pos)
		vc.mapDelete(st, fr.val(c.Args[0]).(Scalar).T, mt, fr.val(c.Args[1]))
		return &StructV{}
	case "min", "max":
		v := fr.val(c.Args[0]).(Scalar).T
		for _, a := range c.Args[1:] {
			w := fr.val(a).(Scalar).T
			if b.Name() == "min" {
				v = ite(le(v, w), v, w)
			} else {
				v = ite(le(w, v), v, w)
			}
		}
		return Scalar{vc.define("mm", "Int", v), "Int"}
	case "print", "println":
		return &StructV{}
	case "recover":
		return Scalar{"0", "Int"}
	case "close":
		return &StructV{}
	case "clear":
		if mt, ok := under(c.Args[0].Type()).(*types.Map); ok {
			// clear(m): no key is left, len(m) == 0 (a write to the whole map: frame-checked like delete)
			ref := fr.val(c.Args[0]).(Scalar).T
			fr.frameCheck(st, Ptr{Root: "M|" + canon(mt), Base: ref}, pos)
			vc.mapClear(st, ref, mt)
			return &StructV{}
		}
		panic(unsupported("clear builtin on slices"))
	}
	panic(unsupported("builtin " + b.Name() + " on " + c.Args[0].Type().String()))
}

// builtinCopy: memmove semantics on the element heaps.
func (fr *Frame) builtinCopy(c *ssa.CallCommon, pos token.Pos, st *State) Val {
	vc := fr.vc
	dst := fr.val(c.Args[0]).(*SliceV)
	et := under(c.Args[0].Type()).(*types.Slice).Elem()
	var srcArr, srcOff, srcLen string
	srcIsStr := false
	var srcStr string
	if sb, ok := under(c.Args[1].Type()).(*types.Basic); ok && sb.Info()&types.IsString != 0 {
		srcIsStr = true
		srcStr = fr.val(c.Args[1]).(Scalar).T
		srcLen = app("slen", srcStr)
	} else {
		s := fr.val(c.Args[1]).(*SliceV)
		srcArr, srcOff, srcLen = s.Arr, s.Off, s.Len
	}
	n := vc.define("cpn", "Int", ite(le(dst.Len, srcLen), dst.Len, srcLen))
	fr.frameCheck(st, Ptr{Root: "E|" + canon(et), Base: dst.Arr, Idx: "0"}, pos)
	for _, l := range leaves(et) {
		name := "E|" + canon(et) + "|" + l.Path
		sort := vc.heapSortFor(name, l.Sort)
		h := vc.heap(st, name, sort)
		na := vc.fresh("cp", arraySort("Int", l.Sort))
		i := vc.freshName("q_i")
		inRange := and(le(dst.Off, i), lt(i, plus(dst.Off, n)))
		var srcv string
		if srcIsStr {
			srcv = app("sbyte", srcStr, minus(i, dst.Off))
		} else {
			srcv = sel2(h, srcArr, plus(srcOff, minus(i, dst.Off)))
		}
		body := eq(sel(na, i), ite(inRange, srcv, sel2(h, dst.Arr, i)))
		vc.assert(forall([][2]string{{i, "Int"}}, "(! "+body+" :pattern ("+sel(na, i)+"))"))
		vc.setHeap(st, name, sort, sto(h, dst.Arr, na))
		if vc.logStores {
			vc.storeLog = append(vc.storeLog, storeRec{heap: name, base: dst.Arr})
		}
	}
	return Scalar{n, "Int"}
}

// builtinAppend: in place when capacity allows, otherwise a fresh array.
func (fr *Frame) builtinAppend(c *ssa.CallCommon, pos token.Pos, st *State) Val {
	vc := fr.vc
	s := fr.val(c.Args[0]).(*SliceV)
	et := under(c.Args[0].Type()).(*types.Slice).Elem()
	var addLen string
	var addArr, addOff string
	addIsStr := false
	var addStr string
	if sb, ok := under(c.Args[1].Type()).(*types.Basic); ok && sb.Info()&types.IsString != 0 {
		addIsStr = true
		addStr = fr.val(c.Args[1]).(Scalar).T
		addLen = app("slen", addStr)
	} else {
		a := fr.val(c.Args[1]).(*SliceV)
		addArr, addOff, addLen = a.Arr, a.Off, a.Len
	}
	newLen := vc.define("apl", "Int", plus(s.Len, addLen))
	inPlace := vc.define("apin", "Bool", le(newLen, s.Cap))
	freshArr := vc.newRef(st)
	newCap := vc.fresh("apcap", "Int")
	vc.assert(and(le(newLen, newCap), le(newCap, "281474976710656")))
	resArr := vc.define("apa", "Int", ite(inPlace, s.Arr, freshArr))
	resOff := ite(inPlace, s.Off, "0")
	// writing in place into existing storage is a store for frame purposes only when it hits caller-visible memory;
	// (Go semantics: bytes beyond len but within cap are overwritten)
	for _, l := range leaves(et) {
		name := "E|" + canon(et) + "|" + l.Path
		sort := vc.heapSortFor(name, l.Sort)
		h := vc.heap(st, name, sort)
		na := vc.fresh("ap", arraySort("Int", l.Sort))
		i := vc.freshName("q_i")
		// new content of the result array, at absolute index i
		rel := minus(i, resOff)
		var addv string
		if addIsStr {
			addv = app("sbyte", addStr, minus(rel, s.Len))
		} else {
			addv = sel2(h, addArr, plus(addOff, minus(rel, s.Len)))
		}
		oldv := ite(inPlace, sel2(h, s.Arr, i), ite(and(le("0", rel), lt(rel, s.Len)), sel2(h, s.Arr, plus(s.Off, rel)), zeroTerm(l)))
		body := eq(sel(na, i), ite(and(le(s.Len, rel), lt(rel, newLen)), addv, oldv))
		vc.assert(forall([][2]string{{i, "Int"}}, "(! "+body+" :pattern ("+sel(na, i)+"))"))
		vc.setHeap(st, name, sort, sto(h, resArr, na))
		if vc.logStores {
			vc.storeLog = append(vc.storeLog, storeRec{heap: name, base: resArr})
		}
	}
	return &SliceV{Arr: resArr, Off: resOff, Len: newLen, Cap: vc.define("apc", "Int", ite(inPlace, s.Cap, newCap))}
}

// pureCall evaluates a method call inside a contract by inlining the loop-free SSA body on a scratch state.
func (vc *VC) pureCall(st *State, recv TV, name string, args []TV) (Val, types.Type, error) {
	t := recv.T
	var pkg *types.Package
	if n, ok := types.Unalias(t).(*types.Named); ok {
		pkg = n.Obj().Pkg()
	} else if p, ok := types.Unalias(t).(*types.Pointer); ok {
		if n, ok := types.Unalias(p.Elem()).(*types.Named); ok {
			pkg = n.Obj().Pkg()
		}
	}
	m := vc.eng.Prog.LookupMethod(t, pkg, name)
	if m == nil {
		return nil, nil, fmt.Errorf("no method %s on %s", name, t)
	}
	// H4 patch: a concrete method with a `pure` contract is the same uninterpreted function in contracts as at call sites
	if ct := vc.eng.contractFor(m); ct != nil && ct.Pure && m.Signature.Results().Len() == 1 && len(m.Params) == len(args)+1 {
		avs := []Val{recv.V}
		ats := []types.Type{m.Params[0].Type()}
		for i, a := range args {
			avs = append(avs, a.V)
			ats = append(ats, m.Params[i+1].Type())
		}
		rt := m.Signature.Results().At(0).Type()
		return vc.pureApp(m.String(), rt, nil, nil, avs, ats), rt, nil
	}
	if m.Blocks == nil || hasLoop(m) {
		return nil, nil, fmt.Errorf("method %s is not loop-free; cannot be used in a contract", name)
	}
	vc.dry++
	defer func() { vc.dry-- }()
	sub := vc.newFrame(m, 1)
	sub.vals[m.Params[0]] = recv.V
	for i, a := range args {
		sub.vals[m.Params[i+1]] = a.V
	}
	res, out := sub.run(st.clone())
	if out == nil || len(res) != 1 {
		return nil, nil, fmt.Errorf("method %s does not return exactly one value", name)
	}
	return res[0], m.Signature.Results().At(0).Type(), nil
}

// applyLemma instantiates a lemma at explicit arguments: returns (requires => ensures) as a ground fact in env's state.
func (fr *Frame) applyLemma(env *Env, app string, at Clause) string {
	vc := fr.vc
	x, err := parseExprString(rewriteImplies(app))
	if err != nil {
		panic(contractError("bad lemma application " + app))
	}
	call, ok := x.(*ast.CallExpr)
	if !ok {
		panic(contractError("bad lemma application " + app))
	}
	name := types.ExprString(call.Fun)
	key := vc.eng.qualifySpecName(fr.fn, name)
	lf := vc.eng.FindFunc(key)
	ct := vc.eng.Contracts[key]
	if lf == nil || ct == nil || len(lf.Params) != len(call.Args) {
		panic(contractError("unknown lemma or wrong argument count: " + app))
	}
	if ct.Trusted {
		vc.note("trusted lemma (axiom) used: " + key)
	} else {
		vc.note("lemma used (proved separately as a ghost function): " + key)
	}
	lenv := &Env{vc: vc, pkg: vc.eng.Pkgs[ct.PkgPath], names: map[string]TV{}, st: env.st, old: env.st}
	for i, p := range lf.Params {
		tv := env.eval(call.Args[i])
		if isUntyped(tv.T) {
			tv = env.coerce(tv, p.Type())
		}
		lenv.names[p.Name()] = tv
	}
	var req, ens []string
	for _, c := range ct.Requires {
		req = append(req, fr.evalClause(lenv, c))
	}
	for _, c := range ct.Ensures {
		ens = append(ens, fr.evalClause(lenv, c))
	}
	return implies(and(req...), and(ens...))
}

// pureApp builds the uninterpreted application that stands for the result of a `pure` function or interface method:
// a function of the receiver and arguments only (heap-independent: immutable attributes, A-SEQ for tables).
func (vc *VC) pureApp(key string, rt types.Type, recv Val, recvT types.Type, args []Val, argTypes []types.Type) Val {
	var terms, sorts []string
	if recv != nil {
		for i, l := range leaves(recvT) {
			terms = append(terms, flatT(recvT, recv)[i])
			sorts = append(sorts, l.Sort)
		}
	}
	for k, a := range args {
		ts := flatT(argTypes[k], a)
		for i, l := range leaves(argTypes[k]) {
			terms = append(terms, ts[i])
			sorts = append(sorts, l.Sort)
		}
	}
	var outs []string
	for _, l := range leaves(rt) {
		f := sym("pure|" + key + "|" + l.Path)
		if !vc.ufDecl[f] {
			vc.ufDecl[f] = true
			vc.emit(fmt.Sprintf("(declare-fun %s (%s) %s)", f, strings.Join(sorts, " "), l.Sort))
		}
		if len(terms) == 0 {
			outs = append(outs, "("+f+")")
			outs[len(outs)-1] = f
		} else {
			outs = append(outs, app(f, terms...))
		}
	}
	v := build(rt, &outs)
	if vc.inBinder == 0 {
		vc.assert(vc.wfVal(rt, v))
	}
	return v
}

func (fr *Frame) applyPure(ct *Contract, key string, sig *types.Signature, recv Val, args []Val, argTypes []types.Type, pos token.Pos, st *State, params []*ssa.Parameter) Val {
	vc := fr.vc
	rt := sig.Results().At(0).Type()
	var recvT types.Type
	if recv != nil {
		recvT = types.NewInterfaceType(nil, nil)
	}
	res := vc.pureApp(key, rt, recv, recvT, args, argTypes)
	vc.note("pure function/method modelled as an uninterpreted function of its arguments (immutable attribute; A-SEQ): " + key)
	fr.assumeBelowAlloc(st, rt, res)
	env := &Env{vc: vc, pkg: vc.eng.Pkgs[ct.PkgPath], names: map[string]TV{}, st: st, old: st}
	if recv != nil {
		env.names["self"] = TV{recv, recvT}
		for i := 0; i < sig.Params().Len(); i++ {
			n := sig.Params().At(i).Name()
			if n == "" {
				n = fmt.Sprintf("arg%d", i)
			}
			env.names[n] = TV{args[i], sig.Params().At(i).Type()}
		}
	} else {
		for i, p := range params {
			env.names[p.Name()] = TV{args[i], p.Type()}
		}
	}
	short := strings.ReplaceAll(key, repoModule+"/", "")
	vc.callCount[short]++
	k := vc.callCount[short]
	for i, c := range ct.Requires {
		vc.addOblig("pre", fmt.Sprintf("%s#pre:%s@%d.%d", shortFuncName(vc.fn), short, k, i+1), st, fr.evalClause(env, c), pos, c.Text)
	}
	tv := TV{res, rt}
	env.names["result"] = tv
	env.names["result0"] = tv
	if n := sig.Results().At(0).Name(); n != "" && n != "_" {
		env.names[n] = tv
	}
	var facts []string
	for _, c := range ct.Ensures {
		facts = append(facts, fr.evalClause(env, c))
	}
	st.reach = vc.define("r", "Bool", and(append([]string{st.reach}, facts...)...))
	return res
}

// isGhostRoot: the heap root names a ghost global (a ghost*/Ghost* variable declared in a contract file).
func (e *Engine) isGhostRoot(root string) bool {
	if !strings.HasPrefix(root, "G|") {
		return false
	}
	for _, g := range e.ghostGlobals() {
		if root == "G|"+g.Pkg.Pkg.Path()+"."+g.Name() {
			return true
		}
	}
	return false
}
