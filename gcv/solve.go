package main

import (
	"syscall"
	"bytes"
	"context"
	"fmt"
	"os"
	"os/exec"
	"path/filepath"
	"strings"
	"sync"
	"time"
)

type Verdict struct {
	Oblig   *Oblig
	Status  string // "unsat" (discharged), "sat", "unknown", "trivial"
	Solver  string
	Ms      int64
	Model   string
	Output  string
}

type SolveOpts struct {
	TimeoutMs int
	WorkDir   string
	Cross     bool // thorough: cross-check every obligation on all solvers
	NoRetry   func(name string) bool // obligations that are not claimed / recorded findings: one attempt only
	CPUSecs   int  // > 0: the limit is CPU time of the solver process (RLIMIT_CPU), not wall-clock time; TimeoutMs is then only the wall-clock backstop
}

func runSolver(ctx context.Context, solver string, file string, timeoutMs int) (string, error) {
	return runSolverCPU(ctx, solver, file, timeoutMs, 0)
}

// runSolverCPU: with cpuSecs > 0 the solver runs under `prlimit --cpu`, so that what bounds it is the processor time it
// received, not the time that went by: on a machine shared with other work a wall-clock timeout says nothing about the
// obligation (the process may have been scheduled for a fraction of it), and a timeout must never become an alarm.
func runSolverCPU(ctx context.Context, solver string, file string, timeoutMs int, cpuSecs int) (string, error) {
	var cmd *exec.Cmd
	secs := timeoutMs/1000 + 2
	if cpuSecs > 0 {
		var args []string
		switch solver {
		case "z3-new", "z3":
			args = []string{fmt.Sprintf("--cpu=%d", cpuSecs), solver, fmt.Sprintf("-T:%d", secs), fmt.Sprintf("-t:%d", timeoutMs), file}
		case "cvc5":
			args = []string{fmt.Sprintf("--cpu=%d", cpuSecs), "cvc5", "--incremental", fmt.Sprintf("--tlimit-per=%d", timeoutMs), fmt.Sprintf("--tlimit=%d", timeoutMs+2000), file}
		}
		cmd = exec.CommandContext(ctx, "prlimit", args...)
		cmd.SysProcAttr = &syscall.SysProcAttr{Pdeathsig: syscall.SIGKILL}
		var out bytes.Buffer
		cmd.Stdout = &out
		cmd.Stderr = &out
		err := cmd.Run()
		return out.String(), err
	}
	switch solver {
	case "z3-new":
		cmd = exec.CommandContext(ctx, "z3-new", fmt.Sprintf("-T:%d", secs), fmt.Sprintf("-t:%d", timeoutMs), file)
	case "z3":
		cmd = exec.CommandContext(ctx, "z3", fmt.Sprintf("-T:%d", secs), fmt.Sprintf("-t:%d", timeoutMs), file)
	case "cvc5":
		cmd = exec.CommandContext(ctx, "cvc5", "--incremental", fmt.Sprintf("--tlimit-per=%d", timeoutMs), fmt.Sprintf("--tlimit=%d", timeoutMs+2000), file)
	}
	// solvers must not outlive this process (an interrupted check would otherwise leave them spinning)
	cmd.SysProcAttr = &syscall.SysProcAttr{Pdeathsig: syscall.SIGKILL}
	var out bytes.Buffer
	cmd.Stdout = &out
	cmd.Stderr = &out
	err := cmd.Run()
	return out.String(), err
}

// parseChecks extracts the sequence of check-sat answers.
func parseChecks(out string) []string {
	var res []string
	for _, ln := range strings.Split(out, "\n") {
		ln = strings.TrimSpace(ln)
		switch ln {
		case "sat", "unsat", "unknown", "timeout":
			if ln == "timeout" {
				ln = "unknown"
			}
			res = append(res, ln)
		}
	}
	return res
}

var scriptSeq int
var scriptMu sync.Mutex

func writeScript(dir, tag, content string) string {
	scriptMu.Lock()
	scriptSeq++
	n := scriptSeq
	scriptMu.Unlock()
	p := filepath.Join(dir, fmt.Sprintf("%s_%d.smt2", tag, n))
	os.WriteFile(p, []byte(content), 0o644)
	return p
}

// Solve discharges the obligations of one function.
func Solve(f *FuncVC, opts SolveOpts) []*Verdict {
	verdicts := make([]*Verdict, len(f.Obligs))
	var pending []int
	for i, o := range f.Obligs {
		if o.Goal == "true" && !o.IsCover {
			verdicts[i] = &Verdict{Oblig: o, Status: "trivial", Solver: "syntactic"}
			continue
		}
		pending = append(pending, i)
	}
	if len(pending) == 0 {
		return verdicts
	}
	tag := sanitizeFile(f.Name)
	// phase 1: one incremental z3-new run over all pending obligations
	var obs []*Oblig
	maxEpoch := 0
	for _, i := range pending {
		obs = append(obs, f.Obligs[i])
		if f.Obligs[i].Epoch > maxEpoch {
			maxEpoch = f.Obligs[i].Epoch
		}
	}
	t0 := time.Now()
	var out string
	if maxEpoch > 0 {
		// The function has forgetting cuts (`option cut-forget`): the obligations generated between two cuts depend only on
		// the entry facts and on what was generated since the last cut. One incremental session per segment, each over the
		// cone of influence of its own queries (dropping global assertions is sound for `unsat`, see slice.go); the vacuity
		// guard is never sliced. The answers are concatenated in obligation order.
		outs := make([]string, len(obs))
		groups := map[int][]int{}
		for k, o := range obs {
			e := o.Epoch
			if o.IsCover {
				e = -1
			}
			groups[e] = append(groups[e], k)
		}
		var gwg sync.WaitGroup
		gsem := make(chan struct{}, 3)
		for e, ks := range groups {
			gwg.Add(1)
			go func(e int, ks []int) {
				defer gwg.Done()
				gsem <- struct{}{}
				defer func() { <-gsem }()
				var gobs []*Oblig
				for _, k := range ks {
					gobs = append(gobs, obs[k])
				}
				g := *f
				if e >= 0 {
					q := ""
					for _, o := range gobs {
						q += " " + o.Reach + " " + o.Goal
					}
					g.Lines = sliceLines(f.Lines, q)
				}
				gfile := writeScript(opts.WorkDir, fmt.Sprintf("%s_seg%d", tag, e+1), g.Script(gobs, opts.TimeoutMs, false))
				gctx, gcancel := context.WithTimeout(context.Background(), time.Duration(opts.TimeoutMs*(len(gobs)+1))*time.Millisecond+5*time.Second)
				gout, _ := runSolver(gctx, "z3-new", gfile, opts.TimeoutMs)
				gcancel()
				if kd := os.Getenv("GCV_KEEP"); kd != "" {
					os.Rename(gfile, filepath.Join(kd, filepath.Base(gfile)))
				}
				os.Remove(gfile)
				if strings.Contains(gout, "(error") {
					outs[ks[0]] = gout
					return
				}
				ans := parseChecks(gout)
				for j, k := range ks {
					if j < len(ans) {
						outs[k] = ans[j]
					} else {
						outs[k] = "unknown"
					}
				}
			}(e, ks)
		}
		gwg.Wait()
		out = strings.Join(outs, "\n")
	} else {
		script := f.Script(obs, opts.TimeoutMs, false)
		file := writeScript(opts.WorkDir, tag, script)
		ctx, cancel := context.WithTimeout(context.Background(), time.Duration(opts.TimeoutMs*(len(obs)+1))*time.Millisecond+5*time.Second)
		out, _ = runSolver(ctx, "z3-new", file, opts.TimeoutMs)
		cancel()
		os.Remove(file)
	}
	el := time.Since(t0).Milliseconds()
	answers := parseChecks(out)
	if strings.Contains(out, "(error") {
		// a malformed script is an engine bug: nothing may be concluded from this run
		msg := out
		if k := strings.Index(out, "(error"); k >= 0 {
			msg = out[k:]
			if j := strings.Index(msg, "\n"); j > 0 {
				msg = msg[:j]
			}
		}
		for _, i := range pending {
			verdicts[i] = &Verdict{Oblig: f.Obligs[i], Status: "error", Solver: "z3-new", Output: msg}
		}
		return verdicts
	}
	var retry []int
	for k, i := range pending {
		st := "unknown"
		if k < len(answers) {
			st = answers[k]
		}
		v := &Verdict{Oblig: f.Obligs[i], Status: st, Solver: "z3-new", Ms: el / int64(len(pending))}
		if k >= len(answers) {
			v.Output = out
		}
		verdicts[i] = v
		if f.Obligs[i].IsCover {
			// vacuity guard: fails only if the exit is provably unreachable
			continue
		}
		if opts.NoRetry != nil && opts.NoRetry(f.Obligs[i].Name) {
			continue
		}
		if st != "unsat" || opts.Cross {
			retry = append(retry, i)
		}
	}
	// phase 2: individual queries raced on all solvers
	var wg sync.WaitGroup
	sem := make(chan struct{}, 5)
	for _, i := range retry {
		wg.Add(1)
		go func(i int) {
			defer wg.Done()
			sem <- struct{}{}
			defer func() { <-sem }()
			verdicts[i] = raceOne(f, f.Obligs[i], verdicts[i], opts)
			if verdicts[i].Status == "unknown" && !f.Obligs[i].IsCover {
				if v := splitByPaths(f, f.Obligs[i], opts); v != nil {
					verdicts[i] = v
				}
			}
		}(i)
	}
	wg.Wait()
	return verdicts
}

func raceOne(f *FuncVC, o *Oblig, first *Verdict, opts SolveOpts) *Verdict {
	script := f.ScriptOne(o, opts.TimeoutMs*2)
	file := writeScript(opts.WorkDir, sanitizeFile(f.Name)+"_one", script)
	defer os.Remove(file)
	if kd := os.Getenv("GCV_KEEP"); kd != "" {
		os.WriteFile(kd+"/"+sanitizeFile(o.Name)+keepSuffix(f, o)+".smt2", []byte(script), 0o644)
	}
	type res struct {
		solver string
		status string
		ms     int64
		out    string
	}
	solvers := []string{"z3-new", "z3", "cvc5"}
	ch := make(chan res, len(solvers))
	ctx, cancel := context.WithCancel(context.Background())
	defer cancel()
	for _, s := range solvers {
		go func(s string) {
			t0 := time.Now()
			out, _ := runSolverCPU(ctx, s, file, opts.TimeoutMs*2, opts.CPUSecs)
			a := parseChecks(out)
			st := "unknown"
			if len(a) > 0 {
				st = a[0]
			}
			ch <- res{s, st, time.Since(t0).Milliseconds(), out}
		}(s)
	}
	want := "unsat"
	if o.IsCover {
		want = "sat"
	}
	best := &Verdict{Oblig: o, Status: "unknown", Solver: "all", Output: ""}
	var sawSat *res
	for range solvers {
		r := <-ch
		if opts.Cross {
			// all solvers must agree or be unknown; a definite opposite answer is recorded
			if r.status == want && best.Status != want {
				best = &Verdict{Oblig: o, Status: r.status, Solver: r.solver, Ms: r.ms}
			}
			if r.status != want && r.status != "unknown" {
				rr := r
				sawSat = &rr
			}
			continue
		}
		if r.status == want {
			return &Verdict{Oblig: o, Status: r.status, Solver: r.solver, Ms: r.ms}
		}
		if r.status != "unknown" {
			rr := r
			sawSat = &rr
		} else if best.Output == "" {
			best.Output = r.out
		}
	}
	if sawSat != nil {
		return &Verdict{Oblig: o, Status: sawSat.status, Solver: sawSat.solver, Ms: sawSat.ms, Output: sawSat.out}
	}
	return best
}

func sanitizeFile(s string) string {
	return strings.Map(func(r rune) rune {
		if r >= 'a' && r <= 'z' || r >= 'A' && r <= 'Z' || r >= '0' && r <= '9' {
			return r
		}
		return '_'
	}, s)
}

// reachDisjuncts: if the reach condition of o is a symbol defined as a top-level disjunction of path conditions
// (the merged exit of a function with several returns, a join point), its disjuncts.
func reachDisjuncts(f *FuncVC, o *Oblig) []string {
	sym := strings.TrimSpace(o.Reach)
	if sym == "" || strings.ContainsAny(sym, " ()") {
		return nil
	}
	prefix := "(define-fun " + sym + " () Bool (or "
	for _, l := range f.Lines {
		t := strings.TrimSpace(l)
		if !strings.HasPrefix(t, prefix) || !strings.HasSuffix(t, "))") {
			continue
		}
		body := t[len(prefix) : len(t)-2]
		var out []string
		depth, start, inBar := 0, 0, false
		for i := 0; i <= len(body); i++ {
			if i == len(body) || (body[i] == ' ' && depth == 0 && !inBar) {
				if i > start {
					out = append(out, body[start:i])
				}
				start = i + 1
				continue
			}
			switch {
			case body[i] == '|':
				inBar = !inBar
			case inBar:
			case body[i] == '(':
				depth++
			case body[i] == ')':
				depth--
			}
		}
		if depth != 0 || inBar || len(out) < 2 {
			return nil
		}
		return out
	}
	return nil
}

// splitByPaths proves "reach => goal" by cases over the disjuncts of reach (reach is by definition EQUAL to their
// disjunction, so the obligation holds iff it holds under every disjunct). Used only after the merged query came back
// unknown; a definite `sat` under one disjunct is a counterexample of the original query as well.
func splitByPaths(f *FuncVC, o *Oblig, opts SolveOpts) *Verdict {
	ds := reachDisjuncts(f, o)
	if ds == nil {
		return nil
	}
	var total int64
	for _, d := range ds {
		o2 := *o
		o2.Reach = d
		v := raceOne(f, &o2, nil, opts)
		total += v.Ms
		if v.Status == "unsat" {
			continue
		}
		if v.Status == "sat" {
			return &Verdict{Oblig: o, Status: "sat", Solver: v.Solver + "/path-split", Ms: total, Output: v.Output}
		}
		return nil
	}
	return &Verdict{Oblig: o, Status: "unsat", Solver: "path-split", Ms: total}
}

// keepSuffix distinguishes the kept scripts of obligations that share a name (one per path through a loop body):
// the position of the obligation in the function's list (debugging aid for GCV_KEEP only).
func keepSuffix(f *FuncVC, o *Oblig) string {
	for i, p := range f.Obligs {
		if p == o {
			return fmt.Sprintf("_%d", i)
		}
	}
	return ""
}
