package main

import (
	"flag"
	"fmt"
	"os"
	"regexp"
	"sort"
	"strings"
	"time"
)

func main() {
	if len(os.Args) < 2 {
		fmt.Fprintln(os.Stderr, "usage: gcv <funcs|check|replay> ...")
		os.Exit(2)
	}
	switch os.Args[1] {
	case "funcs":
		cmdFuncs(os.Args[2:])
	case "check":
		cmdCheck(os.Args[2:])
	case "ssa":
		cmdSSA(os.Args[2:])
	case "c13gen":
		cmdC13Gen(os.Args[2:])
	default:
		fmt.Fprintln(os.Stderr, "unknown command", os.Args[1])
		os.Exit(2)
	}
}

// cmdFuncs: development command — verify functions matching a regexp and print every obligation.
func cmdFuncs(args []string) {
	fs := flag.NewFlagSet("funcs", flag.ExitOnError)
	repo := fs.String("repo", "/repo", "repository")
	pkgs := fs.String("pkgs", "./std/encoding", "package patterns (comma separated)")
	re := fs.String("re", ".", "regexp on canonical function names")
	timeout := fs.Int("t", 5000, "per-obligation timeout ms")
	dump := fs.String("dump", "", "write the SMT script of matching functions to this directory")
	safety := fs.Bool("safety", false, "safety only")
	noContract := fs.Bool("all", false, "include functions without contract")
	alloc := fs.String("alloc", "", "alloc bound expression")
	verbose := fs.Bool("v", false, "print discharged obligations too")
	pinv := fs.String("pinv", "", "param invariant: <type string>=<expr over $p>")
	ctx := fs.String("ctx", "", "verify against the contract that this package (import path) declares for the function: its environment model")
	fs.Parse(args)
	t0 := time.Now()
	depsDir := "/verif/gcv/deps"
	if d := os.Getenv("GCV_DEPS"); d != "" {
		depsDir = d
	}
	eng, err := LoadEngine(*repo, strings.Split(*pkgs, ","), depsDir)
	if err != nil {
		fmt.Println("TOOL-ERROR load:", err)
		os.Exit(2)
	}
	fmt.Printf("loaded in %.1fs, %d contracts\n", time.Since(t0).Seconds(), len(eng.Contracts))
	rx := regexp.MustCompile(*re)
	var names []string
	for n, fn := range eng.AllFuncs {
		if !eng.inRepo(fn) || !rx.MatchString(n) {
			continue
		}
		if !*noContract && eng.contractForCtx(fn, *ctx) == nil {
			continue
		}
		names = append(names, n)
	}
	sort.Strings(names)
	work, _ := os.MkdirTemp("/var/tmp", "gcv-work-")
	defer os.RemoveAll(work)
	tot, ok := 0, 0
	for _, n := range names {
		fn := eng.AllFuncs[n]
		t1 := time.Now()
		vo := VerifyOpts{SafetyOnly: *safety, AllocBound: *alloc, NoFrame: *safety, CtxPkg: *ctx}
		if *pinv != "" {
			kv := strings.SplitN(*pinv, "=", 2)
			vo.ParamInvs = map[string]string{kv[0]: kv[1]}
		}
		f := eng.GenVC(fn, vo)
		gen := time.Since(t1)
		if f.Unsupported != "" {
			fmt.Printf("== %s: OUTSIDE SUBSET: %s\n", f.Name, f.Unsupported)
			continue
		}
		if f.ContractErr != "" {
			fmt.Printf("== %s: CONTRACT-DRIFT: %s\n", f.Name, f.ContractErr)
			continue
		}
		if *dump != "" {
			os.MkdirAll(*dump, 0o755)
			os.WriteFile(*dump+"/"+sanitizeFile(f.Name)+".smt2", []byte(f.Script(nil, *timeout, false)), 0o644)
		}
		vs := Solve(f, SolveOpts{TimeoutMs: *timeout, WorkDir: work})
		fmt.Printf("== %s: %d obligations (gen %.2fs, solve %.2fs, script %d lines)\n", f.Name, len(vs), gen.Seconds(), time.Since(t1).Seconds()-gen.Seconds(), len(f.Lines))
		for _, v := range vs {
			tot++
			good := v.Status == "unsat" || v.Status == "trivial"
			if v.Oblig.IsCover {
				good = v.Status != "unsat" && v.Status != "error"
			}
			if v.Status == "error" {
				fmt.Println("   SOLVER ERROR:", v.Output)
			}
			if good {
				ok++
			}
			if !good || *verbose {
				mark := "ok  "
				if !good {
					mark = "FAIL"
				}
				fmt.Printf("   %s %-8s %-7s %-60s %s   [%s]\n", mark, v.Status, v.Solver, v.Oblig.Name, eng.posString(v.Oblig.Pos), v.Oblig.Text)
			}
		}
		for _, nt := range f.Notes {
			if *verbose {
				fmt.Println("   note:", nt)
			}
		}
	}
	fmt.Printf("TOTAL %d/%d discharged in %.1fs\n", ok, tot, time.Since(t0).Seconds())
}

