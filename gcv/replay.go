package main

import (
	"bufio"
	"context"
	"encoding/json"
	"fmt"
	"go/ast"
	"go/format"
	"go/token"
	"go/types"
	"io"
	"os"
	"os/exec"
	"path/filepath"
	"regexp"
	"sort"
	"strconv"
	"strings"
	"time"
)

type ReplayResult struct {
	Path      string
	Confirmed bool
}

// ---- interactive solver session (for get-value) ----

type session struct {
	cmd *exec.Cmd
	in  io.WriteCloser
	out *bufio.Reader
	cancel context.CancelFunc
}

func startSession(solver string, script string, timeoutMs int) (*session, string, error) {
	ctx, cancel := context.WithTimeout(context.Background(), time.Duration(timeoutMs+20000)*time.Millisecond)
	cmd := exec.CommandContext(ctx, solver, "-in", fmt.Sprintf("-t:%d", timeoutMs))
	in, _ := cmd.StdinPipe()
	outp, _ := cmd.StdoutPipe()
	cmd.Stderr = nil
	if err := cmd.Start(); err != nil {
		cancel()
		return nil, "", err
	}
	s := &session{cmd: cmd, in: in, out: bufio.NewReader(outp), cancel: cancel}
	io.WriteString(in, script)
	io.WriteString(in, "\n(check-sat)\n")
	line, err := s.readLine()
	if err != nil {
		s.close()
		return nil, "", err
	}
	return s, strings.TrimSpace(line), nil
}

func (s *session) readLine() (string, error) {
	for {
		l, err := s.out.ReadString('\n')
		if err != nil {
			return l, err
		}
		if strings.TrimSpace(l) != "" {
			return l, nil
		}
	}
}

func (s *session) close() {
	s.in.Close()
	s.cancel()
	s.cmd.Wait()
}

// readSexpr reads one balanced s-expression from the solver.
func (s *session) readSexpr() (string, error) {
	var sb strings.Builder
	depth := 0
	started := false
	for {
		r, _, err := s.out.ReadRune()
		if err != nil {
			return sb.String(), err
		}
		if !started {
			if r == ' ' || r == '\n' || r == '\t' || r == '\r' {
				continue
			}
			started = true
			if r != '(' {
				// atom
				sb.WriteRune(r)
				rest, _ := s.out.ReadString('\n')
				sb.WriteString(rest)
				return strings.TrimSpace(sb.String()), nil
			}
		}
		sb.WriteRune(r)
		if r == '(' {
			depth++
		} else if r == ')' {
			depth--
			if depth == 0 {
				return sb.String(), nil
			}
		}
	}
}

// getValues returns the model values (as SMT text) of the given terms.
func (s *session) getValues(terms []string) ([]string, error) {
	if len(terms) == 0 {
		return nil, nil
	}
	io.WriteString(s.in, "(get-value ("+strings.Join(terms, " ")+"))\n")
	resp, err := s.readSexpr()
	if err != nil {
		return nil, err
	}
	if strings.HasPrefix(resp, "(error") {
		return nil, fmt.Errorf("solver: %s", resp)
	}
	items := splitSexprList(resp)
	if len(items) != len(terms) {
		return nil, fmt.Errorf("get-value: expected %d items, got %d in %s", len(terms), len(items), truncate(resp, 200))
	}
	var vals []string
	for _, it := range items {
		pr := splitSexprList(it)
		if len(pr) != 2 {
			return nil, fmt.Errorf("get-value: bad pair %s", it)
		}
		vals = append(vals, pr[1])
	}
	return vals, nil
}

// splitSexprList splits "(a (b c) d)" into ["a","(b c)","d"].
func splitSexprList(s string) []string {
	s = strings.TrimSpace(s)
	if !strings.HasPrefix(s, "(") {
		return []string{s}
	}
	s = s[1 : len(s)-1]
	var out []string
	depth := 0
	start := -1
	inBar := false
	for i := 0; i < len(s); i++ {
		c := s[i]
		if inBar {
			if c == '|' {
				inBar = false
			}
			continue
		}
		switch c {
		case '|':
			inBar = true
			if start < 0 {
				start = i
			}
		case '(':
			if depth == 0 && start < 0 {
				start = i
			}
			depth++
		case ')':
			depth--
			if depth == 0 {
				out = append(out, s[start:i+1])
				start = -1
			}
		case ' ', '\n', '\t', '\r':
			if depth == 0 && start >= 0 {
				out = append(out, s[start:i])
				start = -1
			}
		default:
			if start < 0 {
				start = i
			}
		}
	}
	if start >= 0 {
		out = append(out, s[start:])
	}
	return out
}

func smtInt(v string) (int64, bool) {
	v = strings.TrimSpace(v)
	neg := false
	if strings.HasPrefix(v, "(-") {
		neg = true
		v = strings.TrimSpace(strings.TrimSuffix(strings.TrimPrefix(v, "(-"), ")"))
	}
	n, err := strconv.ParseInt(v, 10, 64)
	if err != nil {
		u, err2 := strconv.ParseUint(v, 10, 64)
		if err2 != nil {
			return 0, false
		}
		n = int64(u)
	}
	if neg {
		n = -n
	}
	return n, true
}

func smtBig(v string) (string, bool) {
	v = strings.TrimSpace(v)
	neg := false
	if strings.HasPrefix(v, "(-") {
		neg = true
		v = strings.TrimSpace(strings.TrimSuffix(strings.TrimPrefix(v, "(-"), ")"))
	}
	for _, c := range v {
		if c < '0' || c > '9' {
			return "", false
		}
	}
	if neg {
		return "-" + v, true
	}
	return v, true
}

// ---- model -> Go values ----

type modelCtx struct {
	s       *session
	f       *FuncVC
	imports map[string]string // path -> name
	pkgPath string
	budget  int
}

func (m *modelCtx) values(terms []string) ([]string, error) {
	m.flushDecls()
	return m.s.getValues(terms)
}

func (m *modelCtx) val1(term string) (string, error) {
	m.flushDecls()
	vs, err := m.s.getValues([]string{term})
	if err != nil {
		return "", err
	}
	return vs[0], nil
}

func (m *modelCtx) typeName(t types.Type) string {
	return types.TypeString(t, func(p *types.Package) string {
		if p.Path() == m.pkgPath {
			return ""
		}
		m.imports[p.Path()] = p.Name()
		return p.Name()
	})
}

func (m *modelCtx) goExpr(v Val, t types.Type, depth int) (string, error) {
	vc := m.f.vc
	st := m.f.entry
	if depth > 6 {
		return "", fmt.Errorf("model too deep")
	}
	m.budget--
	if m.budget < 0 {
		return "", fmt.Errorf("model too large")
	}
	switch u := under(t).(type) {
	case *types.Basic:
		x, err := m.val1(v.(Scalar).T)
		if err != nil {
			return "", err
		}
		switch {
		case u.Info()&types.IsBoolean != 0:
			return x, nil
		case u.Info()&types.IsInteger != 0:
			b, ok := smtBig(x)
			if !ok {
				return "", fmt.Errorf("non-numeric model value %s", x)
			}
			return fmt.Sprintf("%s(%s)", m.typeName(t), b), nil
		case u.Info()&types.IsString != 0:
			ls, err := m.val1(app("slen", v.(Scalar).T))
			if err != nil {
				return "", err
			}
			n, ok := smtInt(ls)
			if !ok || n < 0 || n > 1<<16 {
				return "", fmt.Errorf("string length %s not replayable", ls)
			}
			var terms []string
			for i := int64(0); i < n; i++ {
				terms = append(terms, app("sbyte", v.(Scalar).T, num(i)))
			}
			bs, err := m.values(terms)
			if err != nil {
				return "", err
			}
			buf := make([]byte, n)
			for i, b := range bs {
				x, _ := smtInt(b)
				buf[i] = byte(x)
			}
			return fmt.Sprintf("%s(%s)", m.typeName(t), strconv.Quote(string(buf))), nil
		}
	case *types.Slice:
		s := v.(*SliceV)
		vs, err := m.values([]string{s.Arr, s.Off, s.Len, s.Cap})
		if err != nil {
			return "", err
		}
		arr, _ := smtInt(vs[0])
		n, ok := smtInt(vs[2])
		if arr == 0 {
			return fmt.Sprintf("%s(nil)", m.typeName(t)), nil
		}
		if !ok || n < 0 || n > 1<<17 {
			return "", fmt.Errorf("slice length %s not replayable", vs[2])
		}
		capn, _ := smtInt(vs[3])
		if capn < n || capn > 1<<18 {
			capn = n
		}
		if eb, ok := under(u.Elem()).(*types.Basic); ok && eb.Kind() == types.Uint8 {
			h := vc.byteHeap(st)
			var terms []string
			for i := int64(0); i < n; i++ {
				terms = append(terms, sel2(h, s.Arr, plus(s.Off, num(i))))
			}
			var bs []string
			for len(terms) > 0 {
				k := len(terms)
				if k > 512 {
					k = 512
				}
				part, err := m.values(terms[:k])
				if err != nil {
					return "", err
				}
				bs = append(bs, part...)
				terms = terms[k:]
			}
			var sb strings.Builder
			fmt.Fprintf(&sb, "func() %s { b := make([]byte, %d, %d); ", m.typeName(t), n, capn)
			for i, b := range bs {
				x, _ := smtInt(b)
				if x != 0 {
					fmt.Fprintf(&sb, "b[%d]=%d; ", i, byte(x))
				}
			}
			sb.WriteString("return b }()")
			return sb.String(), nil
		}
		if n > 64 {
			return "", fmt.Errorf("slice of %d composite elements not replayable", n)
		}
		var els []string
		for i := int64(0); i < n; i++ {
			p := Ptr{Root: "E|" + canon(u.Elem()), Base: s.Arr, Idx: plus(s.Off, num(i))}
			ev := vc.load(st, p, u.Elem())
			m.flushDecls()
			e, err := m.goExpr(ev, u.Elem(), depth+1)
			if err != nil {
				return "", err
			}
			els = append(els, e)
		}
		return fmt.Sprintf("%s{%s}", m.typeName(t), strings.Join(els, ", ")), nil
	case *types.Struct:
		sv := v.(*StructV)
		var fs []string
		for i := 0; i < u.NumFields(); i++ {
			if u.Field(i).Name() == "_" {
				continue
			}
			if !u.Field(i).Exported() && u.Field(i).Pkg() != nil && u.Field(i).Pkg().Path() != m.pkgPath {
				continue
			}
			e, err := m.goExpr(sv.F[i], u.Field(i).Type(), depth+1)
			if err != nil {
				return "", err
			}
			fs = append(fs, u.Field(i).Name()+": "+e)
		}
		return fmt.Sprintf("%s{%s}", m.typeName(t), strings.Join(fs, ", ")), nil
	case *types.Pointer:
		p := v.(Ptr)
		if p.Path != "" || p.isElem() {
			return "", fmt.Errorf("interior pointer not replayable")
		}
		x, err := m.val1(p.Base)
		if err != nil {
			return "", err
		}
		r, _ := smtInt(x)
		if r == 0 {
			return "nil", nil
		}
		if _, isStruct := under(u.Elem()).(*types.Struct); !isStruct {
			ev := vc.load(st, p, u.Elem())
			m.flushDecls()
			e, err := m.goExpr(ev, u.Elem(), depth+1)
			if err != nil {
				return "", err
			}
			return fmt.Sprintf("func() %s { x := %s; return &x }()", m.typeName(t), e), nil
		}
		ev := vc.load(st, p, u.Elem())
		m.flushDecls()
		e, err := m.goExpr(ev, u.Elem(), depth+1)
		if err != nil {
			return "", err
		}
		return "&" + e, nil
	case *types.Interface:
		box := v.(Scalar).T
		x, err := m.val1(box)
		if err != nil {
			return "", err
		}
		b, _ := smtInt(x)
		if b == 0 {
			return "nil", nil
		}
		if !vc.declared["itag"] {
			return "", fmt.Errorf("interface value with unknown dynamic type")
		}
		tg, err := m.val1(app("itag", box))
		if err != nil {
			return "", err
		}
		tag, _ := smtInt(tg)
		for k, n := range vc.typeTags {
			if int64(n) == tag {
				dt := vc.tagTypes[k]
				if dt == nil {
					break
				}
				dv := vc.unbox(box, dt)
				m.flushDecls()
				return m.goExpr(dv, dt, depth+1)
			}
		}
		return "", fmt.Errorf("interface value with unmodelled dynamic type (tag %d)", tag)
	}
	return "", fmt.Errorf("type %s not replayable", t)
}

// flushDecls sends declarations made after the session started (loads create define-funs).
func (m *modelCtx) flushDecls() {
	vc := m.f.vc
	for ; m.f.sent < len(vc.lines); m.f.sent++ {
		l := vc.lines[m.f.sent]
		if strings.HasPrefix(l, "(assert") {
			continue // facts about model values must not change the model
		}
		io.WriteString(m.s.in, l+"\n")
	}
}

// ---- replay of one refuted obligation ----

var oldCallRe = regexp.MustCompile(`\bold\(`)

func tryReplay(eng *Engine, f *FuncVC, o *Oblig, v *Verdict, dir, repo string, timeoutMs int) ReplayResult {
	rec := map[string]interface{}{
		"obligation": o.Name, "kind": o.Kind, "function": f.Name, "where": eng.posString(o.Pos), "clause": o.Text,
		"solver": v.Solver, "solver_status": v.Status, "solver_output": truncate(v.Output, 4000),
		"smt_goal": truncate("(assert (and "+o.Reach+" (not "+o.Goal+")))", 4000),
	}
	path := filepath.Join(dir, sanitizeFile(o.Name)+".json")
	finish := func(confirmed bool, note string) ReplayResult {
		rec["replay_note"] = note
		rec["confirmed_on_real_code"] = confirmed
		b, _ := json.MarshalIndent(rec, "", " ")
		os.WriteFile(path, b, 0o644)
		return ReplayResult{Path: path, Confirmed: confirmed}
	}
	relaxed := false
	if v.Status != "sat" {
		// no model from the full query (quantified context): look for a candidate input in the quantifier-free relaxation;
		// the candidate counts only if it reproduces on the real code
		relaxed = true
	}
	switch o.Kind {
	case "idx", "slice", "nil", "div", "assert", "makelen", "panic", "post", "shift", "alloc":
	default:
		return finish(false, "obligation kind "+o.Kind+" refers to an intermediate state; no whole-function input is derived for it")
	}
	src, args, err := buildReplayTest(eng, f, o, timeoutMs, relaxed)
	if err != nil {
		if relaxed {
			return finish(false, "no model: the solvers answered "+v.Status+" on the full query and no candidate input came out of its quantifier-free relaxation ("+err.Error()+")")
		}
		return finish(false, "no replayable input derived: "+err.Error())
	}
	rec["model_args"] = args
	rec["go_test"] = src
	testFile := filepath.Join(dir, sanitizeFile(o.Name)+"_test.go")
	os.WriteFile(testFile, []byte(src), 0o644)
	out, ok := runOverlayTest(repo, f.Fn.Pkg.Pkg.Path(), testFile, "^TestVerifReplay$", 60)
	rec["go_test_output"] = truncate(out, 4000)
	if ok && strings.Contains(out, "REPLAY-CONFIRMED") {
		return finish(true, "the counterexample reproduces on the real code")
	}
	if o.Kind == "alloc" || o.Kind == "makelen" {
		if strings.Contains(out, "out of memory") || strings.Contains(out, "len out of range") || strings.Contains(out, "cap out of range") || strings.Contains(out, "cannot allocate memory") {
			rec["go_test_output"] = truncate(out, 1500)
			return finish(true, "the counterexample makes the real code request an allocation the runtime refuses (fatal out-of-memory / makeslice out of range)")
		}
	}
	return finish(false, "the derived input did not reproduce the failure on the real code")
}

// runOverlayTest injects testFile into the package directory through -overlay and runs it.
func runOverlayTest(repo, pkgPath, testFile, run string, timeoutS int) (string, bool) {
	rel := strings.TrimPrefix(pkgPath, repoModule)
	pkgDir := filepath.Join(repo, rel)
	ov := map[string]map[string]string{"Replace": {filepath.Join(pkgDir, "zz_verif_replay_test.go"): testFile}}
	ovb, _ := json.Marshal(ov)
	ovFile := testFile + ".overlay.json"
	os.WriteFile(ovFile, ovb, 0o644)
	defer os.Remove(ovFile)
	ctx, cancel := context.WithTimeout(context.Background(), time.Duration(timeoutS+30)*time.Second)
	defer cancel()
	cmd := exec.CommandContext(ctx, "bash", "-c", fmt.Sprintf("ulimit -v 8388608; cd %q && go test -tags verif -overlay %q -vet=off -count=1 -timeout %ds -run %q -v .", pkgDir, ovFile, timeoutS, run))
	cmd.Env = append(os.Environ(), "GOFLAGS=-mod=mod", "GOPROXY=off", "GOSUMDB=off", "GOTOOLCHAIN=local")
	out, err := cmd.CombinedOutput()
	return string(out), err == nil || strings.Contains(string(out), "REPLAY-")
}

func stripQuantified(script string) string {
	var out []string
	for _, l := range strings.Split(script, "\n") {
		if strings.HasPrefix(l, "(assert") && (strings.Contains(l, "(forall ") || strings.Contains(l, "(exists ")) {
			continue
		}
		out = append(out, l)
	}
	return strings.Join(out, "\n")
}

func buildReplayTest(eng *Engine, f *FuncVC, o *Oblig, timeoutMs int, relaxed bool) (string, map[string]string, error) {
	fn := f.Fn
	if fn.Pkg == nil || fn.Signature.TypeParams() != nil || len(fn.TypeArgs()) > 0 {
		return "", nil, fmt.Errorf("generic or synthetic function")
	}
	// script: declarations + the negated obligation, first with small-input side constraints
	base := f.Script([]*Oblig{}, timeoutMs, false)
	goal := "(assert " + and(o.Reach, not(o.Goal)) + ")\n"
	if relaxed {
		base = stripQuantified(base)
		if strings.Contains(goal, "(forall ") || strings.Contains(goal, "(exists ") {
			return "", nil, fmt.Errorf("the obligation itself is quantified")
		}
	}
	var small []string
	for i, p := range fn.Params {
		for j, l := range leaves(p.Type()) {
			ts := flatT(p.Type(), f.params[i])
			if strings.HasSuffix(l.Path, "#len") || strings.HasSuffix(l.Path, "#cap") {
				small = append(small, le(ts[j], "4096"))
			}
			if l.Sort == "Str" {
				small = append(small, le(app("slen", ts[j]), "256"))
			}
		}
	}
	for _, lt := range f.vc.lenTerms {
		small = append(small, le(lt, "4096"))
	}
	var s *session
	var status string
	var err error
	for _, solver := range []string{"z3-new", "z3"} {
		for _, extra := range []string{"(assert " + and(small...) + ")\n", ""} {
			s, status, err = startSession(solver, base+goal+extra, timeoutMs)
			if err == nil && status == "sat" {
				break
			}
			if s != nil {
				s.close()
				s = nil
			}
		}
		if s != nil {
			break
		}
	}
	if s == nil {
		return "", nil, fmt.Errorf("no solver produced a model interactively (%s)", status)
	}
	defer s.close()
	f.sent = len(f.vc.lines)
	m := &modelCtx{s: s, f: f, imports: map[string]string{}, pkgPath: fn.Pkg.Pkg.Path(), budget: 4000}
	args := map[string]string{}
	var argExprs []string
	var decls []string
	for i, p := range fn.Params {
		e, err := m.goExpr(f.params[i], p.Type(), 0)
		if err != nil {
			return "", nil, fmt.Errorf("parameter %s: %v", p.Name(), err)
		}
		name := p.Name()
		if name == "" || name == "_" {
			name = fmt.Sprintf("arg%d", i)
		}
		args[name] = truncate(e, 400)
		decls = append(decls, fmt.Sprintf("\t%s := %s\n\t_ = %s\n", name, e, name))
		argExprs = append(argExprs, name)
	}
	// call expression
	var call string
	if fn.Signature.Recv() != nil {
		call = fmt.Sprintf("%s.%s(%s)", argExprs[0], fn.Name(), strings.Join(argExprs[1:], ", "))
	} else {
		call = fmt.Sprintf("%s(%s)", fn.Name(), strings.Join(argExprs, ", "))
	}
	if fn.Signature.Variadic() {
		call = strings.TrimSuffix(call, ")") + "...)"
	}
	res := fn.Signature.Results()
	var resNames []string
	for i := 0; i < res.Len(); i++ {
		n := res.At(i).Name()
		if n == "" || n == "_" {
			n = fmt.Sprintf("result%d", i)
			if res.Len() == 1 {
				n = "result"
			}
		}
		resNames = append(resNames, n)
	}
	var body strings.Builder
	body.WriteString("\tdefer func() {\n\t\tif r := recover(); r != nil {\n")
	if o.Kind == "post" {
		body.WriteString("\t\t\tfmt.Println(\"REPLAY-PANIC\", r)\n")
	} else {
		body.WriteString("\t\t\tfmt.Println(\"REPLAY-CONFIRMED panic:\", r)\n")
	}
	body.WriteString("\t\t}\n\t}()\n")
	for _, d := range decls {
		body.WriteString(d)
	}
	if o.Kind == "post" {
		ct := eng.contractFor(fn)
		var clause *Clause
		for i := range ct.Ensures {
			if ct.Ensures[i].Text == o.Text {
				clause = &ct.Ensures[i]
			}
		}
		if clause == nil {
			return "", nil, fmt.Errorf("clause not found")
		}
		pre, expr, err := clauseToGo(clause.Expr)
		if err != nil {
			return "", nil, err
		}
		body.WriteString(pre)
		if len(resNames) > 0 {
			body.WriteString("\t" + strings.Join(resNames, ", ") + " := " + call + "\n")
			for _, n := range resNames {
				body.WriteString("\t_ = " + n + "\n")
			}
		} else {
			body.WriteString("\t" + call + "\n")
		}
		body.WriteString("\tif !(" + expr + ") {\n\t\tfmt.Println(\"REPLAY-CONFIRMED clause is false:\", " + strconv.Quote(o.Text) + ")\n\t} else {\n\t\tfmt.Println(\"REPLAY-NOT-CONFIRMED\")\n\t}\n")
	} else if o.Kind == "alloc" {
		body.WriteString("\tvar zzm0, zzm1 runtime.MemStats\n\truntime.GC()\n\truntime.ReadMemStats(&zzm0)\n")
		body.WriteString("\t" + call + "\n")
		body.WriteString("\truntime.ReadMemStats(&zzm1)\n\tzzInput := " + fmt.Sprintf("%d", 0) + "\n\t_ = zzInput\n")
		body.WriteString("\tif zzm1.TotalAlloc-zzm0.TotalAlloc > 1<<20 {\n\t\tfmt.Println(\"REPLAY-CONFIRMED allocated bytes:\", zzm1.TotalAlloc-zzm0.TotalAlloc)\n\t} else {\n\t\tfmt.Println(\"REPLAY-NOT-CONFIRMED allocated bytes:\", zzm1.TotalAlloc-zzm0.TotalAlloc)\n\t}\n")
		m.imports["runtime"] = "runtime"
	} else {
		body.WriteString("\t" + call + "\n\tfmt.Println(\"REPLAY-NOT-CONFIRMED (no panic)\")\n")
	}
	var src strings.Builder
	src.WriteString("package " + fn.Pkg.Pkg.Name() + "\n\nimport (\n\t\"fmt\"\n\t\"testing\"\n")
	var ips []string
	for p := range m.imports {
		ips = append(ips, p)
	}
	sort.Strings(ips)
	for _, p := range ips {
		if p != "fmt" && p != "testing" {
			src.WriteString("\t" + strconv.Quote(p) + "\n")
		}
	}
	src.WriteString(")\n\n")
	src.WriteString("// generated by gcv: replay of obligation " + o.Name + "\n")
	src.WriteString("func TestVerifReplay(t *testing.T) {\n" + body.String() + "}\n\n")
	src.WriteString(replayHelpers)
	out, err := format.Source([]byte(src.String()))
	if err != nil {
		return src.String(), args, nil
	}
	return string(out), args, nil
}

const replayHelpers = `func zzImplies(a, b bool) bool { return !a || b }

func zzForallIn(lo, hi int, f func(int) bool) bool {
	for i := lo; i < hi; i++ {
		if !f(i) {
			return false
		}
	}
	return true
}

func zzExistsIn(lo, hi int, f func(int) bool) bool {
	for i := lo; i < hi; i++ {
		if f(i) {
			return true
		}
	}
	return false
}

func zzUnchangedExcept(s, old []byte, lo, hi int) bool {
	s = s[:cap(s)]
	for i := range s {
		if (i < lo || i >= hi) && s[i] != old[i] {
			return false
		}
	}
	return true
}
`

// clauseToGo rewrites a contract clause into executable Go: old(e) -> snapshot variable, pseudo-builtins -> helpers.
func clauseToGo(e ast.Expr) (pre string, expr string, err error) {
	var snaps []string
	k := 0
	var rw func(n ast.Expr) ast.Expr
	rw = func(n ast.Expr) ast.Expr {
		switch x := n.(type) {
		case *ast.CallExpr:
			if id, ok := x.Fun.(*ast.Ident); ok {
				switch id.Name {
				case "old":
					k++
					name := fmt.Sprintf("zzold%d", k)
					snaps = append(snaps, fmt.Sprintf("\t%s := %s\n", name, types.ExprString(x.Args[0])))
					return ast.NewIdent(name)
				case "implies":
					return &ast.CallExpr{Fun: ast.NewIdent("zzImplies"), Args: []ast.Expr{rw(x.Args[0]), rw(x.Args[1])}}
				case "forallIn":
					return &ast.CallExpr{Fun: ast.NewIdent("zzForallIn"), Args: []ast.Expr{rw(x.Args[0]), rw(x.Args[1]), rwFuncLit(x.Args[2], rw)}}
				case "existsIn":
					return &ast.CallExpr{Fun: ast.NewIdent("zzExistsIn"), Args: []ast.Expr{rw(x.Args[0]), rw(x.Args[1]), rwFuncLit(x.Args[2], rw)}}
				case "unchangedExcept":
					k++
					name := fmt.Sprintf("zzold%d", k)
					s := types.ExprString(x.Args[0])
					snaps = append(snaps, fmt.Sprintf("\t%s := append([]byte(nil), %s[:cap(%s)]...)\n", name, s, s))
					return &ast.CallExpr{Fun: ast.NewIdent("zzUnchangedExcept"), Args: []ast.Expr{x.Args[0], ast.NewIdent(name), rw(x.Args[1]), rw(x.Args[2])}}
				case "fresh", "typeIs", "sameSlice", "forall", "exists":
					err = fmt.Errorf("clause uses %s(), which has no executable counterpart", id.Name)
					return n
				}
			}
			args := make([]ast.Expr, len(x.Args))
			for i, a := range x.Args {
				args[i] = rw(a)
			}
			return &ast.CallExpr{Fun: x.Fun, Args: args, Ellipsis: x.Ellipsis}
		case *ast.BinaryExpr:
			return &ast.BinaryExpr{X: rw(x.X), Op: x.Op, Y: rw(x.Y)}
		case *ast.UnaryExpr:
			return &ast.UnaryExpr{Op: x.Op, X: rw(x.X)}
		case *ast.ParenExpr:
			return &ast.ParenExpr{X: rw(x.X)}
		case *ast.IndexExpr:
			return &ast.IndexExpr{X: rw(x.X), Index: rw(x.Index)}
		case *ast.SelectorExpr:
			return &ast.SelectorExpr{X: rw(x.X), Sel: x.Sel}
		}
		return n
	}
	out := rw(e)
	if err != nil {
		return "", "", err
	}
	return strings.Join(snaps, ""), types.ExprString(out), nil
}

func rwFuncLit(n ast.Expr, rw func(ast.Expr) ast.Expr) ast.Expr {
	fl, ok := n.(*ast.FuncLit)
	if !ok {
		return n
	}
	nb := &ast.BlockStmt{}
	for _, s := range fl.Body.List {
		if r, ok := s.(*ast.ReturnStmt); ok && len(r.Results) == 1 {
			nb.List = append(nb.List, &ast.ReturnStmt{Results: []ast.Expr{rw(r.Results[0])}})
		} else {
			nb.List = append(nb.List, s)
		}
	}
	return &ast.FuncLit{Type: fl.Type, Body: nb}
}

// ---- bounded stand-ins ----

type boundedFailure struct {
	Name string
	Path string
}

type boundedResult struct {
	Summary  map[string]interface{}
	Failures []boundedFailure
}

// runBounded runs an in-package enumeration harness (from /verif/bounded) through -overlay.
// Protocol: the test prints `BOUNDED-CASES <n>` and, for every violated contract, `BOUNDED-FAIL <obligation> <detail>`.
func runBounded(b BoundedSpec, repo, replayDir string) boundedResult {
	testFile := filepath.Join(verifDir, "bounded", b.File)
	t0 := time.Now()
	out, _ := runOverlayTest(repo, repoModule+"/"+strings.TrimPrefix(b.Pkg, "./"), testFile, b.Run, 600)
	res := boundedResult{Summary: map[string]interface{}{"name": b.Name, "bound": b.Bound, "stands_for": b.StandsFor, "label": "bounded (not counted as proved)"}}
	cases := 0
	seen := map[string]bool{}
	for _, ln := range strings.Split(out, "\n") {
		ln = strings.TrimSpace(ln)
		if strings.HasPrefix(ln, "BOUNDED-CASES ") {
			var n int
			fmt.Sscanf(ln, "BOUNDED-CASES %d", &n)
			cases += n
		}
		if strings.HasPrefix(ln, "BOUNDED-FAIL ") {
			parts := strings.SplitN(ln, " ", 3)
			name := parts[1]
			if seen[name] {
				continue
			}
			seen[name] = true
			detail := ""
			if len(parts) > 2 {
				detail = parts[2]
			}
			p := writeReplay(replayDir, "bounded_"+name, map[string]interface{}{"obligation": name, "bounded_check": b.Name, "bound": b.Bound,
				"failing_case": detail, "test_file": testFile, "run": b.Run, "confirmed_on_real_code": true})
			res.Failures = append(res.Failures, boundedFailure{Name: name, Path: p})
		}
	}
	if cases == 0 && len(res.Failures) == 0 && (strings.Contains(out, "[build failed]") || strings.Contains(out, "[setup failed]")) {
		// the harness does not compile against this tree (an identifier it uses was renamed or removed): that is not a verdict
		res.Summary["tool_error"] = truncate(out, 1500)
		res.Summary["cases"] = 0
		res.Summary["failures"] = 0
		res.Summary["wall_s"] = time.Since(t0).Seconds()
		return res
	}
	if cases == 0 && len(res.Failures) == 0 {
		// harness did not run: report as a failure of the bounded check itself
		p := writeReplay(replayDir, "bounded_"+b.Name+"_norun", map[string]interface{}{"obligation": "bounded:" + b.Name + "#ran", "output": truncate(out, 4000)})
		res.Failures = append(res.Failures, boundedFailure{Name: "bounded:" + b.Name + "#ran", Path: p})
	}
	res.Summary["cases"] = cases
	res.Summary["failures"] = len(res.Failures)
	res.Summary["wall_s"] = time.Since(t0).Seconds()
	return res
}

var _ = token.NoPos
