package main

import (
	"fmt"
	"go/ast"
	"go/constant"
	"go/token"
	"go/types"
	"math/big"
	"sort"
	"strconv"
	"strings"

	"golang.org/x/tools/go/packages"
)

// TV is a symbolic value with its Go type (nil type = untyped constant).
type TV struct {
	V Val
	T types.Type
}

// Env is the evaluation environment for contract expressions.
type Env struct {
	vc      *VC
	pkg     *packages.Package
	names   map[string]TV
	lookup  func(name string) (TV, bool) // lazy resolver (loop variables)
	st      *State                       // current state
	old     *State                       // state for old(...)
	oldNames map[string]TV               // names as they were in the old state (params are same)
	stack   []string                     // spec function call stack
	inQuant int
	callStates map[string]*State
	visited func(st *State, k TV) string // membership in the ghost visited set of the enclosing map-range loop
}

func (e *Env) clone() *Env {
	n := *e
	n.names = map[string]TV{}
	for k, v := range e.names {
		n.names[k] = v
	}
	return &n
}

func (e *Env) fail(n ast.Node, format string, args ...interface{}) {
	panic(contractError(fmt.Sprintf(format, args...)))
}

type contractError string

func (c contractError) Error() string { return string(c) }

func boolTV(t string) TV  { return TV{Scalar{t, "Bool"}, types.Typ[types.Bool]} }
func intTV(t string) TV   { return TV{Scalar{t, "Int"}, types.Typ[types.Int]} }
func (tv TV) term() string {
	switch v := tv.V.(type) {
	case Scalar:
		return v.T
	case Ptr:
		return flat(v)[0]
	}
	panic(contractError(fmt.Sprintf("expected scalar value, got %T", tv.V)))
}

func (e *Env) evalBool(x ast.Expr) string {
	tv := e.eval(x)
	s, ok := tv.V.(Scalar)
	if !ok || s.S != "Bool" {
		e.fail(x, "expression is not boolean")
	}
	return s.T
}

func (e *Env) lookupPkgObj(name string) types.Object {
	if e.pkg != nil {
		if o := e.pkg.Types.Scope().Lookup(name); o != nil {
			return o
		}
	}
	return types.Universe.Lookup(name)
}

func (e *Env) importedPkg(name string) *types.Package {
	if e.pkg == nil {
		return nil
	}
	for _, ip := range e.pkg.Types.Imports() {
		if ip.Name() == name {
			return ip
		}
	}
	// aliases used in the repo
	alias := map[string]string{"enc": "github.com/named-data/ndnd/std/encoding", "spec": "github.com/named-data/ndnd/std/ndn/spec_2022",
		"defn": "github.com/named-data/ndnd/fw/defn", "mgmt": "github.com/named-data/ndnd/std/ndn/mgmt_2022"}
	if p, ok := alias[name]; ok {
		for _, ip := range e.pkg.Types.Imports() {
			if ip.Path() == p {
				return ip
			}
		}
		if pk, ok := e.vc.eng.Pkgs[p]; ok {
			return pk.Types
		}
	}
	for _, pk := range e.vc.eng.Pkgs {
		if pk.Types != nil && pk.Types.Name() == name && strings.HasPrefix(pk.PkgPath, repoModule) {
			return pk.Types
		}
	}
	for _, pk := range e.vc.eng.Pkgs {
		if pk.Types != nil && pk.Types.Name() == name {
			return pk.Types
		}
	}
	return nil
}

// resolveType resolves a type expression.
func (e *Env) resolveType(x ast.Expr) types.Type {
	switch x := x.(type) {
	case *ast.Ident:
		if o := e.lookupPkgObj(x.Name); o != nil {
			if tn, ok := o.(*types.TypeName); ok {
				return tn.Type()
			}
		}
	case *ast.SelectorExpr:
		if id, ok := x.X.(*ast.Ident); ok {
			if p := e.importedPkg(id.Name); p != nil {
				if tn, ok := p.Scope().Lookup(x.Sel.Name).(*types.TypeName); ok {
					return tn.Type()
				}
			}
		}
	case *ast.StarExpr:
		if t := e.resolveType(x.X); t != nil {
			return types.NewPointer(t)
		}
	case *ast.ArrayType:
		if x.Len == nil {
			if t := e.resolveType(x.Elt); t != nil {
				return types.NewSlice(t)
			}
		}
	case *ast.ParenExpr:
		return e.resolveType(x.X)
	case *ast.IndexExpr:
		return e.instantiateType(x.X, []ast.Expr{x.Index})
	case *ast.IndexListExpr:
		return e.instantiateType(x.X, x.Indices)
	}
	return nil
}

// instantiateType resolves G[A, B] in a contract of a generic function: a type argument that is the name of a type
// parameter of the function under verification stands for the corresponding type argument of this instance.
func (e *Env) instantiateType(g ast.Expr, args []ast.Expr) types.Type {
	gt, _ := e.resolveType(g).(*types.Named)
	if gt == nil || gt.TypeParams() == nil || gt.TypeParams().Len() != len(args) {
		return nil
	}
	var targs []types.Type
	for _, a := range args {
		var t types.Type
		if id, ok := a.(*ast.Ident); ok && e.vc != nil && e.vc.fn != nil {
			fn := e.vc.fn
			var tps *types.TypeParamList
			if o := fn.Origin(); o != nil {
				tps = o.TypeParams()
			}
			if tps == nil {
				tps = fn.TypeParams()
			}
			if tps != nil {
				for i := 0; i < tps.Len(); i++ {
					if tps.At(i).Obj().Name() == id.Name && i < len(fn.TypeArgs()) {
						t = fn.TypeArgs()[i]
					}
				}
			}
		}
		if t == nil {
			t = e.resolveType(a)
		}
		if t == nil {
			return nil
		}
		targs = append(targs, t)
	}
	inst, err := types.Instantiate(nil, gt.Origin(), targs, false)
	if err != nil {
		return nil
	}
	return inst
}


func constTV(c constant.Value, t types.Type) TV {
	switch c.Kind() {
	case constant.Bool:
		if constant.BoolVal(c) {
			return TV{Scalar{"true", "Bool"}, t}
		}
		return TV{Scalar{"false", "Bool"}, t}
	case constant.Int:
		bi, _ := new(big.Int).SetString(c.ExactString(), 10)
		return TV{Scalar{bignum(bi), "Int"}, t}
	}
	panic(contractError("unsupported constant kind " + c.String()))
}

func isUntyped(t types.Type) bool {
	if t == nil {
		return true
	}
	b, ok := t.(*types.Basic)
	return ok && b.Info()&types.IsUntyped != 0
}

func (e *Env) eval(x ast.Expr) TV {
	switch x := x.(type) {
	case *ast.ParenExpr:
		return e.eval(x.X)
	case *ast.BasicLit:
		switch x.Kind {
		case token.INT:
			bi, ok := new(big.Int).SetString(x.Value, 0)
			if !ok {
				e.fail(x, "bad int literal")
			}
			return TV{Scalar{bignum(bi), "Int"}, nil}
		case token.CHAR:
			r, _, _, err := strconv.UnquoteChar(x.Value[1:len(x.Value)-1], '\'')
			if err != nil {
				e.fail(x, "bad char literal")
			}
			return TV{Scalar{num(int64(r)), "Int"}, nil}
		case token.STRING:
			s, err := strconv.Unquote(x.Value)
			if err != nil {
				e.fail(x, "bad string literal")
			}
			return TV{Scalar{e.vc.strLit(s), "Str"}, types.Typ[types.String]}
		}
		e.fail(x, "unsupported literal %s", x.Value)
	case *ast.Ident:
		return e.evalIdent(x)
	case *ast.SelectorExpr:
		return e.evalSelector(x)
	case *ast.StarExpr:
		tv := e.eval(x.X)
		p, ok := tv.V.(Ptr)
		if !ok {
			e.fail(x, "dereference of non-pointer")
		}
		et := under(tv.T).(*types.Pointer).Elem()
		return TV{e.vc.load(e.st, p, et), et}
	case *ast.UnaryExpr:
		switch x.Op {
		case token.NOT:
			return boolTV(not(e.evalBool(x.X)))
		case token.SUB:
			tv := e.eval(x.X)
			t := tv.term()
			return TV{Scalar{e.vc.wrapArith(app("-", t), tv.T, true), "Int"}, tv.T}
		case token.ADD:
			return e.eval(x.X)
		case token.AND:
			// &x.f : address
			return e.evalAddr(x.X)
		}
		e.fail(x, "unsupported unary operator %s", x.Op)
	case *ast.BinaryExpr:
		return e.evalBinary(x)
	case *ast.IndexExpr:
		return e.evalIndex(x)
	case *ast.SliceExpr:
		return e.evalSliceExpr(x)
	case *ast.CallExpr:
		return e.evalCall(x)
	case *ast.CompositeLit:
		t := e.resolveType(x.Type)
		if t == nil {
			e.fail(x, "unknown composite literal type")
		}
		if st, ok := under(t).(*types.Struct); ok {
			sv := zeroVal(t).(*StructV)
			for i, el := range x.Elts {
				if kv, ok := el.(*ast.KeyValueExpr); ok {
					name := kv.Key.(*ast.Ident).Name
					found := false
					for j := 0; j < st.NumFields(); j++ {
						if st.Field(j).Name() == name {
							sv.F[j] = e.coerce(e.eval(kv.Value), st.Field(j).Type()).V
							found = true
						}
					}
					if !found {
						e.fail(x, "no field %s", name)
					}
				} else {
					sv.F[i] = e.coerce(e.eval(el), st.Field(i).Type()).V
				}
			}
			return TV{sv, t}
		}
		e.fail(x, "unsupported composite literal")
	case *ast.TypeAssertExpr:
		base := e.eval(x.X)
		t := e.resolveType(x.Type)
		if t == nil {
			e.fail(x, "unknown type in type assertion")
		}
		if base.T != nil {
			if _, isIface := under(base.T).(*types.Interface); !isIface && types.Identical(base.T, t) {
				// ghostField(x, "f").(T): the operand already has the static type T (see ghostField): the assertion is the identity
				return base
			}
		}
		e.vc.declIface()
		return TV{e.vc.unbox(base.term(), t), t}
	case *ast.FuncLit:
		e.fail(x, "function literal outside quantifier")
	}
	e.fail(x, "unsupported expression form %T", x)
	return TV{}
}

// coerce gives an untyped constant the target type.
func (e *Env) coerce(tv TV, t types.Type) TV {
	if isUntyped(tv.T) {
		if s, ok := tv.V.(Scalar); ok && s.T == "nil" {
			return TV{zeroVal(t), t}
		}
		return TV{tv.V, t}
	}
	return tv
}

func (e *Env) evalIdent(x *ast.Ident) TV {
	switch x.Name {
	case "true":
		return boolTV("true")
	case "false":
		return boolTV("false")
	case "nil":
		return TV{Scalar{"nil", "Nil"}, nil}
	}
	if tv, ok := e.names[x.Name]; ok {
		return tv
	}
	if e.lookup != nil {
		if tv, ok := e.lookup(x.Name); ok {
			return tv
		}
	}
	o := e.lookupPkgObj(x.Name)
	return e.evalObj(x, o)
}

func (e *Env) evalObj(x ast.Node, o types.Object) TV {
	switch o := o.(type) {
	case *types.Const:
		t := o.Type()
		if isUntyped(t) {
			t = nil
		}
		if o.Val().Kind() == constant.String {
			return TV{Scalar{e.vc.strLit(constant.StringVal(o.Val())), "Str"}, o.Type()}
		}
		return constTV(o.Val(), t)
	case *types.Var:
		// package-level variable
		g := e.vc.globalFor(o)
		if g == nil {
			e.fail(x, "cannot resolve global %s", o.Name())
		}
		return TV{e.vc.loadGlobal(e.st, g), o.Type()}
	}
	name := ""
	if id, ok := x.(*ast.Ident); ok {
		name = id.Name
	}
	e.fail(x, "cannot resolve identifier %q", name)
	return TV{}
}

func fieldIndex(st *types.Struct, name string) int {
	for i := 0; i < st.NumFields(); i++ {
		if st.Field(i).Name() == name {
			return i
		}
	}
	return -1
}

// findField finds a (possibly promoted) field; returns the index path.
func findField(t types.Type, name string) ([]int, types.Type) {
	st, ok := under(t).(*types.Struct)
	if !ok {
		return nil, nil
	}
	if i := fieldIndex(st, name); i >= 0 {
		return []int{i}, st.Field(i).Type()
	}
	for i := 0; i < st.NumFields(); i++ {
		f := st.Field(i)
		if !f.Embedded() {
			continue
		}
		ft := f.Type()
		if p, ok := under(ft).(*types.Pointer); ok {
			_ = p
			continue // promoted through pointer embedding: not supported here
		}
		if path, rt := findField(ft, name); path != nil {
			return append([]int{i}, path...), rt
		}
	}
	return nil, nil
}

func (e *Env) evalSelector(x *ast.SelectorExpr) TV {
	if id, ok := x.X.(*ast.Ident); ok {
		_, isName := e.names[id.Name]
		if !isName && e.lookup != nil {
			_, isName = e.lookup(id.Name)
		}
		if !isName && e.lookupPkgObj(id.Name) == nil {
			if p := e.importedPkg(id.Name); p != nil {
				o := p.Scope().Lookup(x.Sel.Name)
				if o == nil {
					e.fail(x, "%s.%s not found", id.Name, x.Sel.Name)
				}
				return e.evalObj(x, o)
			}
		}
	}
	base := e.eval(x.X)
	return e.selectField(x, base, x.Sel.Name)
}

func (e *Env) selectField(x ast.Node, base TV, name string) TV {
	t := base.T
	if t == nil {
		e.fail(x, "selector on untyped value")
	}
	if p, ok := under(t).(*types.Pointer); ok {
		ptr := base.V.(Ptr)
		path, ft := findField(p.Elem(), name)
		if path == nil {
			e.fail(x, "type %s has no field %s", p.Elem(), name)
		}
		fp := e.vc.fieldPtr(ptr, p.Elem(), path)
		return TV{e.vc.load(e.st, fp, ft), ft}
	}
	path, ft := findField(t, name)
	if path == nil {
		e.fail(x, "type %s has no field %s", t, name)
	}
	v := base.V
	for _, i := range path {
		v = v.(*StructV).F[i]
	}
	return TV{v, ft}
}

// evalAddr evaluates &expr to a Ptr.
func (e *Env) evalAddr(x ast.Expr) TV {
	switch x := x.(type) {
	case *ast.ParenExpr:
		return e.evalAddr(x.X)
	case *ast.SelectorExpr:
		base := e.eval(x.X)
		if p, ok := under(base.T).(*types.Pointer); ok {
			path, ft := findField(p.Elem(), x.Sel.Name)
			if path == nil {
				e.fail(x, "no field %s", x.Sel.Name)
			}
			return TV{e.vc.fieldPtr(base.V.(Ptr), p.Elem(), path), types.NewPointer(ft)}
		}
		if _, isStruct := under(base.T).(*types.Struct); isStruct {
			// field of a struct that is itself stored in memory: &(a.b).c
			inner := e.evalAddr(x.X)
			pt := under(inner.T).(*types.Pointer)
			path, ft := findField(pt.Elem(), x.Sel.Name)
			if path == nil {
				e.fail(x, "no field %s", x.Sel.Name)
			}
			return TV{e.vc.fieldPtr(inner.V.(Ptr), pt.Elem(), path), types.NewPointer(ft)}
		}
	case *ast.IndexExpr:
		base := e.eval(x.X)
		if sl, ok := under(base.T).(*types.Slice); ok {
			s := base.V.(*SliceV)
			idx := e.eval(x.Index).term()
			return TV{Ptr{Root: "E|" + canon(sl.Elem()), Base: s.Arr, Idx: plus(s.Off, idx)}, types.NewPointer(sl.Elem())}
		}
	}
	e.fail(x, "cannot take address of this expression")
	return TV{}
}

func (e *Env) evalIndex(x *ast.IndexExpr) TV {
	base := e.eval(x.X)
	switch u := under(base.T).(type) {
	case *types.Slice:
		s := base.V.(*SliceV)
		idx := e.eval(x.Index).term()
		p := Ptr{Root: "E|" + canon(u.Elem()), Base: s.Arr, Idx: plus(s.Off, idx)}
		return TV{e.vc.load(e.st, p, u.Elem()), u.Elem()}
	case *types.Basic:
		if u.Info()&types.IsString != 0 {
			idx := e.eval(x.Index).term()
			return TV{Scalar{app("sbyte", base.term(), idx), "Int"}, types.Typ[types.Uint8]}
		}
	case *types.Map:
		k := e.coerce(e.eval(x.Index), u.Key())
		v, _ := e.vc.mapLookup(e.st, base.term(), u, k.V)
		return TV{v, u.Elem()}
	case *types.Pointer:
		if a, ok := under(u.Elem()).(*types.Array); ok {
			arr := e.vc.arrayRef(e.st, base.V.(Ptr))
			idx := e.eval(x.Index).term()
			p := Ptr{Root: "E|" + canon(a.Elem()), Base: arr, Idx: idx}
			return TV{e.vc.load(e.st, p, a.Elem()), a.Elem()}
		}
	}
	e.fail(x, "unsupported index expression on %v", base.T)
	return TV{}
}

func (e *Env) evalSliceExpr(x *ast.SliceExpr) TV {
	base := e.eval(x.X)
	lo := "0"
	if x.Low != nil {
		lo = e.eval(x.Low).term()
	}
	switch u := under(base.T).(type) {
	case *types.Slice:
		s := base.V.(*SliceV)
		hi := s.Len
		if x.High != nil {
			hi = e.eval(x.High).term()
		}
		return TV{&SliceV{Arr: s.Arr, Off: plus(s.Off, lo), Len: minus(hi, lo), Cap: minus(s.Cap, lo)}, base.T}
	case *types.Basic:
		if u.Info()&types.IsString != 0 {
			hi := app("slen", base.term())
			if x.High != nil {
				hi = e.eval(x.High).term()
			}
			return TV{Scalar{app("ssub", base.term(), lo, hi), "Str"}, base.T}
		}
	}
	e.fail(x, "unsupported slice expression")
	return TV{}
}

func (e *Env) evalBinary(x *ast.BinaryExpr) TV {
	switch x.Op {
	case token.LAND:
		return boolTV(and(e.evalBool(x.X), e.evalBool(x.Y)))
	case token.LOR:
		return boolTV(or(e.evalBool(x.X), e.evalBool(x.Y)))
	}
	a := e.eval(x.X)
	b := e.eval(x.Y)
	isNil := func(tv TV) bool { s, ok := tv.V.(Scalar); return ok && s.S == "Nil" }
	if isUntyped(a.T) && !isUntyped(b.T) && !isNil(a) {
		a = e.coerce(a, b.T)
	} else if isUntyped(b.T) && !isUntyped(a.T) && !isNil(b) {
		b = e.coerce(b, a.T)
	}
	switch x.Op {
	case token.EQL, token.NEQ:
		r := e.vc.valEq(a, b)
		if x.Op == token.NEQ {
			r = not(r)
		}
		return boolTV(r)
	case token.LSS:
		return boolTV(lt(a.term(), b.term()))
	case token.LEQ:
		return boolTV(le(a.term(), b.term()))
	case token.GTR:
		return boolTV(lt(b.term(), a.term()))
	case token.GEQ:
		return boolTV(le(b.term(), a.term()))
	}
	t := a.T
	if x.Op == token.ADD && t != nil {
		if bt, ok := under(t).(*types.Basic); ok && bt.Info()&types.IsString != 0 {
			return TV{Scalar{app("sconcat", a.term(), b.term()), "Str"}, t}
		}
	}
	r := e.vc.arith(x.Op, a.term(), b.term(), t, nil)
	return TV{Scalar{r, "Int"}, t}
}

func (e *Env) evalCall(x *ast.CallExpr) TV {
	// conversions
	if t := e.resolveType(x.Fun); t != nil && len(x.Args) == 1 {
		if id, ok := x.Fun.(*ast.Ident); !ok || (e.names[id.Name].V == nil) {
			a := e.eval(x.Args[0])
			return e.vc.convert(a, t)
		}
	}
	if id, ok := x.Fun.(*ast.Ident); ok {
		switch id.Name {
		case "old":
			if e.old == nil {
				e.fail(x, "old() not allowed here")
			}
			n := *e
			n.st = e.old
			if e.oldNames != nil {
				n.names = map[string]TV{}
				for k, v := range e.names {
					n.names[k] = v
				}
				for k, v := range e.oldNames {
					n.names[k] = v
				}
			}
			n.old = nil
			return n.eval(x.Args[0])
		case "implies":
			return boolTV(implies(e.evalBool(x.Args[0]), e.evalBool(x.Args[1])))
		case "visited":
			// visited(k): key k has already been produced by the map-range loop this invariant belongs to
			if e.visited == nil || len(x.Args) != 1 {
				e.fail(x, "visited(k) is only allowed in invariants of a `for k, v := range m` loop over a map")
			}
			return boolTV(e.visited(e.st, e.eval(x.Args[0])))
		case "len":
			a := e.eval(x.Args[0])
			switch u := under(a.T).(type) {
			case *types.Slice:
				return intTV(a.V.(*SliceV).Len)
			case *types.Basic:
				return intTV(app("slen", a.term()))
			case *types.Map:
				return intTV(e.vc.mapLen(e.st, a.term(), u))
			case *types.Pointer:
				if ar, ok := under(u.Elem()).(*types.Array); ok {
					return intTV(num(ar.Len()))
				}
			}
			e.fail(x, "len of unsupported type")
		case "cap":
			a := e.eval(x.Args[0])
			if _, ok := under(a.T).(*types.Slice); ok {
				return intTV(a.V.(*SliceV).Cap)
			}
			e.fail(x, "cap of unsupported type")
		case "min", "max":
			a := e.eval(x.Args[0])
			b := e.eval(x.Args[1])
			if isUntyped(a.T) {
				a = e.coerce(a, b.T)
			}
			if isUntyped(b.T) {
				b = e.coerce(b, a.T)
			}
			c := le(a.term(), b.term())
			if id.Name == "max" {
				c = le(b.term(), a.term())
			}
			res := ite(c, a.term(), b.term())
			// interval of min/max from the intervals of the operands (min(x, C) is how a contract caps a value it knows to
			// be small, so that sums built from it need no wrap-around function)
			alo, ahi := e.vc.rangeOf(a.term(), a.T)
			blo, bhi := e.vc.rangeOf(b.term(), a.T)
			if alo != nil && ahi != nil && blo != nil && bhi != nil {
				pick := func(x, y *big.Int, wantMin bool) *big.Int {
					if (x.Cmp(y) <= 0) == wantMin {
						return x
					}
					return y
				}
				e.vc.setRange(res, pick(alo, blo, id.Name == "min"), pick(ahi, bhi, id.Name == "min"))
			}
			return TV{Scalar{res, "Int"}, a.T}
		case "forallIn", "existsIn":
			lo := e.eval(x.Args[0]).term()
			hi := e.eval(x.Args[1]).term()
			fl, ok := x.Args[2].(*ast.FuncLit)
			if !ok || len(fl.Type.Params.List) != 1 || len(fl.Type.Params.List[0].Names) != 1 {
				e.fail(x, "%s needs func(i int) bool literal", id.Name)
			}
			v := fl.Type.Params.List[0].Names[0].Name
			bv := fmt.Sprintf("q_%s_d%d", v, e.inQuant)
			n := e.clone()
			n.names[v] = intTV(bv)
			n.inQuant++
			if e.vc.binderRange {
				// The body is only ever evaluated under lo <= bv < hi, and lo, hi are values of Go type int: inside the
				// body bv lies in [min(lo), max(hi)-1], so bv+1 cannot wrap (and index sums keep their syntactic shape).
				tint := types.Typ[types.Int]
				blo, _ := e.vc.rangeOf(lo, tint)
				_, bhi := e.vc.rangeOf(hi, tint)
				if blo != nil && bhi != nil {
					e.vc.setRange(bv, blo, new(big.Int).Sub(bhi, big.NewInt(1)))
				}
			}
			e.vc.enterBinder()
			body := n.evalBlock(fl.Body.List)
			tf := e.vc.exitBinder()
			bt := body.V.(Scalar).T
			rng := and(append([]string{le(lo, bv), lt(bv, hi)}, tf...)...)
			if id.Name == "forallIn" {
				return boolTV(forall([][2]string{{bv, "Int"}}, e.vc.rebase(bv, implies(rng, bt))))
			}
			return boolTV(exists([][2]string{{bv, "Int"}}, e.vc.rebase(bv, and(rng, bt))))
		case "forall", "exists":
			fl, ok := x.Args[0].(*ast.FuncLit)
			if !ok {
				e.fail(x, "%s needs a func literal", id.Name)
			}
			n := e.clone()
			n.inQuant++
			var vars [][2]string
			guard := "true"
			for _, f := range fl.Type.Params.List {
				t := e.resolveType(f.Type)
				if t == nil {
					e.fail(x, "unknown quantifier variable type")
				}
				for _, nm := range f.Names {
					ls := leaves(t)
					if len(ls) != 1 {
						e.fail(x, "quantifier variable must be scalar")
					}
					bv := fmt.Sprintf("q_%s_d%d", nm.Name, e.inQuant)
					vars = append(vars, [2]string{bv, ls[0].Sort})
					ts := []string{bv}
					n.names[nm.Name] = TV{build(t, &ts), t}
					guard = and(guard, rangeFact(t, bv))
					if _, isPtr := under(t).(*types.Pointer); isPtr {
						// quantification over pointers means: over the objects allocated in the state the clause is evaluated in
						guard = and(guard, lt("0", bv), lt(bv, e.vc.allocOf(e.st)))
						if nf := e.vc.notForeign(e.st, bv, t); nf != "true" { // H4 patch (allocset.go)
							guard = and(guard, nf)
							if e.vc.trackReads {
								e.vc.heapReads["$region!quant"] = true // the range of this quantifier depends on the typed regions
							}
						}
					}
				}
			}
			e.vc.enterBinder()
			body := n.evalBlock(fl.Body.List).V.(Scalar).T
			guard = and(append([]string{guard}, e.vc.exitBinder()...)...)
			if id.Name == "forall" {
				fb := implies(guard, body)
				for _, v := range vars {
					if v[1] == "Int" {
						fb = e.vc.rebase(v[0], fb)
					}
				}
				return boolTV(forall(vars, fb))
			}
			eb := and(guard, body)
			for _, v := range vars {
				if v[1] == "Int" {
					eb = e.vc.rebase(v[0], eb)
				}
			}
			return boolTV(exists(vars, eb))
		case "typeIs":
			// typeIs(x, "T") : dynamic type test on an interface value
			a := e.eval(x.Args[0])
			bl, ok := x.Args[1].(*ast.BasicLit)
			if !ok {
				e.fail(x, "typeIs needs a string literal type")
			}
			tn, _ := strconv.Unquote(bl.Value)
			tx, err := parseTypeExpr(tn)
			if err != nil {
				e.fail(x, "bad type %q", tn)
			}
			t := e.resolveType(tx)
			if t == nil {
				e.fail(x, "unknown type %q", tn)
			}
			e.vc.declIface()
			return boolTV(eq(app("itag", a.term()), e.vc.typeTag(t)))
		case "fresh":
			a := e.eval(x.Args[0])
			var r string
			switch v := a.V.(type) {
			case Ptr:
				r = v.Base
			case *SliceV:
				r = v.Arr
			default:
				r = a.term()
			}
			if e.old == nil {
				e.fail(x, "fresh() needs an old state")
			}
			return boolTV(le(e.vc.allocOf(e.old), r))
		case "allocated":
			// allocated(p): p is below the allocation pointer of the state the clause is evaluated in (so the next object
			// allocated differs from it). Used for "the new object is distinct from those collected so far".
			a := e.eval(x.Args[0])
			var r string
			switch v := a.V.(type) {
			case Ptr:
				r = v.Base
			case *SliceV:
				r = v.Arr
			default:
				r = a.term()
			}
			return boolTV(lt(r, e.vc.allocOf(e.st)))
		case "olderThan":
			// olderThan(p, q): object p was allocated before object q (references are handed out in allocation order: a
			// fresh reference is the allocation pointer, which only grows). Go code cannot observe the order; contracts may
			// use it as a well-founded rank for "children are younger than their parent" (acyclic, tree-shaped structures).
			ref := func(a TV) string {
				switch v := a.V.(type) {
				case Ptr:
					return v.Base
				case *SliceV:
					return v.Arr
				}
				return a.term()
			}
			return boolTV(lt(ref(e.eval(x.Args[0])), ref(e.eval(x.Args[1]))))
		case "unchangedExcept":
			// unchangedExcept(s, lo, hi): the backing array of s is unchanged since old() outside s[lo:hi]
			a := e.eval(x.Args[0])
			sl, ok := under(a.T).(*types.Slice)
			if !ok || e.old == nil {
				e.fail(x, "unchangedExcept needs a slice and an old state")
			}
			sv := a.V.(*SliceV)
			lo := e.eval(x.Args[1]).term()
			hi := e.eval(x.Args[2]).term()
			i := e.vc.freshName("q_i")
			var cs []string
			for _, l := range leaves(sl.Elem()) {
				name := "E|" + canon(sl.Elem()) + "|" + l.Path
				sort := e.vc.heapSortFor(name, l.Sort)
				hn := e.vc.heap(e.st, name, sort)
				ho := e.vc.heap(e.old, name, sort)
				cs = append(cs, eq(sel2(hn, sv.Arr, i), sel2(ho, sv.Arr, i)))
			}
			inside := and(le(plus(sv.Off, lo), i), lt(i, plus(sv.Off, hi)))
			return boolTV(forall([][2]string{{i, "Int"}}, implies(not(inside), and(cs...))))
		case "mapHas":
			// mapHas(m, k): key k is present in map m (the `ok` of `v, ok := m[k]`)
			a := e.eval(x.Args[0])
			mt, ok := under(a.T).(*types.Map)
			if !ok || len(x.Args) != 2 {
				e.fail(x, "mapHas needs a map and a key")
			}
			k := e.coerce(e.eval(x.Args[1]), mt.Key())
			_, dom := e.vc.mapLookup(e.st, a.term(), mt, k.V)
			return boolTV(dom)
		case "bytesAt":
			// bytesAt(buf, o, val): buf[o : o+len(val)] equals val, quantified over the absolute index of buf (pattern-friendly)
			a := e.eval(x.Args[0]).V.(*SliceV)
			o := e.eval(x.Args[1]).term()
			b := e.eval(x.Args[2]).V.(*SliceV)
			h := e.vc.byteHeap(e.st)
			g := e.vc.freshName("q_g")
			lo := plus(a.Off, o)
			inside := and(le(lo, g), lt(g, plus(lo, b.Len)))
			body := eq(sel2(h, a.Arr, g), sel2(h, b.Arr, plus(b.Off, minus(g, lo))))
			return boolTV(forall([][2]string{{g, "Int"}}, "(! "+implies(inside, body)+" :pattern ("+sel2(h, a.Arr, g)+"))"))
		case "sameSlice":
			a := e.eval(x.Args[0]).V.(*SliceV)
			b := e.eval(x.Args[1]).V.(*SliceV)
			return boolTV(and(eq(a.Arr, b.Arr), eq(a.Off, b.Off), eq(a.Len, b.Len)))
		case "sliceArr":
			a := e.eval(x.Args[0]).V.(*SliceV)
			return intTV(a.Arr)
		case "sliceOff":
			a := e.eval(x.Args[0]).V.(*SliceV)
			return intTV(a.Off)
		case "ghostField":
			// ghostField(x, "f"): the field f of x, also when f is an unexported field of another package (contract clauses
			// may name such fields directly; compiled spec functions cannot, so they write ghostField(x, "f").(T), T the
			// field's type). Pure syntax for x.f: nothing is abstracted.
			if len(x.Args) != 2 {
				e.fail(x, "ghostField needs a value and a field name")
			}
			bl, ok := x.Args[1].(*ast.BasicLit)
			if !ok {
				e.fail(x, "ghostField needs a string literal field name")
			}
			fname, _ := strconv.Unquote(bl.Value)
			return e.selectField(x, e.eval(x.Args[0]), fname)
		case "mapRef":
			// mapRef(m): the reference of map m as an integer (identity of the map object; nil map = 0). Go has no map
			// equality, so a compiled spec function cannot write a.m != b.m; mapRef(a.m) != mapRef(b.m) says the same.
			// It is the identity on the reference term, nothing is abstracted.
			a := e.eval(x.Args[0])
			if _, ok := under(a.T).(*types.Map); !ok || len(x.Args) != 1 {
				e.fail(x, "mapRef needs a map")
			}
			return intTV(a.term())
		}
		// spec function in this package
		if _, isName := e.names[id.Name]; !isName {
			pp := ""
			if e.pkg != nil {
				pp = e.pkg.PkgPath
			}
			if sf, ok := e.vc.eng.Specs[pp+"."+id.Name]; ok {
				return e.callSpec(x, sf)
			}
		}
	}
	if sel, ok := x.Fun.(*ast.SelectorExpr); ok {
		if id, ok := sel.X.(*ast.Ident); ok {
			if _, isName := e.names[id.Name]; !isName && e.lookupPkgObj(id.Name) == nil {
				if p := e.importedPkg(id.Name); p != nil {
					if sf, ok := e.vc.eng.Specs[p.Path()+"."+sel.Sel.Name]; ok {
						return e.callSpec(x, sf)
					}
					// functions with a `pure` contract are uninterpreted functions of their arguments
					if fn := e.vc.eng.AllFuncs[p.Path()+"."+sel.Sel.Name]; fn != nil {
						if ct := e.vc.eng.contractFor(fn); ct != nil && ct.Pure && fn.Signature.Results().Len() == 1 {
							var avs []Val
							var ats []types.Type
							for k, a := range x.Args {
								pt := fn.Signature.Params().At(k).Type()
								avs = append(avs, e.coerce(e.eval(a), pt).V)
								ats = append(ats, pt)
							}
							rt := fn.Signature.Results().At(0).Type()
							return TV{e.vc.pureApp(fn.String(), rt, nil, nil, avs, ats), rt}
						}
					}
					// pure library helpers
					full := p.Path() + "." + sel.Sel.Name
					switch full {
					case "bytes.Equal":
						a := e.eval(x.Args[0]).V.(*SliceV)
						b := e.eval(x.Args[1]).V.(*SliceV)
						return boolTV(e.vc.bytesEqual(e.st, a, b))
					}
					e.fail(x, "call to %s not supported in contracts", full)
				}
			}
		}
		// method call on a value: pure getter via SSA inlining
		recv := e.eval(sel.X)
		return e.callMethod(x, recv, sel.Sel.Name)
	}
	e.fail(x, "unsupported call in contract: %s", e.vc.eng.srcTextExpr(x))
	return TV{}
}

func parseTypeExpr(s string) (ast.Expr, error) {
	return parseExprString(s)
}

// callMethod evaluates a pure method call by symbolic inlining of the SSA body in the current state.
func (e *Env) callMethod(x *ast.CallExpr, recv TV, name string) TV {
	if recv.T == nil {
		e.fail(x, "method call on untyped value")
	}
	var args []TV
	for _, a := range x.Args {
		args = append(args, e.eval(a))
	}
	if _, isIface := under(recv.T).(*types.Interface); isIface {
		ikey := "(" + types.TypeString(types.Unalias(recv.T), nil) + ")." + name
		if ct := e.vc.eng.lookupContract(ikey); ct != nil && ct.Pure {
			it := under(recv.T).(*types.Interface)
			for i := 0; i < it.NumMethods(); i++ {
				if it.Method(i).Name() == name {
					sig := it.Method(i).Type().(*types.Signature)
					var avs []Val
					var ats []types.Type
					for k, a := range args {
						avs = append(avs, e.coerce(a, sig.Params().At(k).Type()).V)
						ats = append(ats, sig.Params().At(k).Type())
					}
					rt := sig.Results().At(0).Type()
					return TV{e.vc.pureApp(ikey, rt, recv.V, types.NewInterfaceType(nil, nil), avs, ats), rt}
				}
			}
		}
		e.fail(x, "method %s on interface value needs a `pure` interface contract to be used in a contract", name)
	}
	res, rt, err := e.vc.pureCall(e.st, recv, name, args)
	if err != nil {
		e.fail(x, "%v", err)
	}
	return TV{res, rt}
}

// evalBlock evaluates a restricted statement list (spec function bodies, quantifier bodies) to a value.
func (e *Env) evalBlock(stmts []ast.Stmt) TV {
	if len(stmts) == 0 {
		e.fail(nil, "spec body does not return on all paths")
	}
	s := stmts[0]
	rest := stmts[1:]
	switch s := s.(type) {
	case *ast.ReturnStmt:
		if len(s.Results) != 1 {
			e.fail(s, "spec functions return exactly one value")
		}
		return e.eval(s.Results[0])
	case *ast.AssignStmt:
		if s.Tok != token.DEFINE || len(s.Lhs) != 1 || len(s.Rhs) != 1 {
			e.fail(s, "only single `x := e` allowed in spec bodies")
		}
		n := e.clone()
		v := e.eval(s.Rhs[0])
		if isUntyped(v.T) {
			v = e.coerce(v, types.Typ[types.Int])
		}
		n.names[s.Lhs[0].(*ast.Ident).Name] = v
		return n.evalBlock(rest)
	case *ast.IfStmt:
		if s.Init != nil {
			as, ok := s.Init.(*ast.AssignStmt)
			if !ok || as.Tok != token.DEFINE || len(as.Lhs) != 2 || len(as.Rhs) != 1 {
				e.fail(s, "only `if v, ok := x.(T); ...` init allowed in spec bodies")
			}
			ta, ok := as.Rhs[0].(*ast.TypeAssertExpr)
			if !ok {
				e.fail(s, "only `if v, ok := x.(T); ...` init allowed in spec bodies")
			}
			base := e.eval(ta.X)
			t := e.resolveType(ta.Type)
			if t == nil {
				e.fail(s, "unknown type in type assertion")
			}
			e.vc.declIface()
			n := e.clone()
			n.names[as.Lhs[0].(*ast.Ident).Name] = TV{e.vc.unbox(base.term(), t), t}
			e.vc.declIface()
			n.names[as.Lhs[1].(*ast.Ident).Name] = boolTV(eq(app("itag", base.term()), e.vc.typeTag(t)))
			ns := *s
			ns.Init = nil
			return n.evalBlock(append([]ast.Stmt{&ns}, rest...))
		}
		c := e.evalBool(s.Cond)
		thenStmts := append(append([]ast.Stmt{}, s.Body.List...), rest...)
		var elseStmts []ast.Stmt
		switch el := s.Else.(type) {
		case nil:
			elseStmts = rest
		case *ast.BlockStmt:
			elseStmts = append(append([]ast.Stmt{}, el.List...), rest...)
		case *ast.IfStmt:
			elseStmts = append([]ast.Stmt{el}, rest...)
		}
		a := e.evalBlock(thenStmts)
		b := e.evalBlock(elseStmts)
		return e.iteTV(c, a, b)
	case *ast.SwitchStmt:
		if s.Init != nil {
			e.fail(s, "switch with init not supported in spec bodies")
		}
		var tag *TV
		if s.Tag != nil {
			t := e.eval(s.Tag)
			tag = &t
		}
		// build nested ite from the end
		type cse struct {
			cond string
			body []ast.Stmt
		}
		var cases []cse
		var def []ast.Stmt
		hasDef := false
		for _, cc := range s.Body.List {
			c := cc.(*ast.CaseClause)
			body := append(append([]ast.Stmt{}, c.Body...), rest...)
			if c.List == nil {
				def = body
				hasDef = true
				continue
			}
			var conds []string
			for _, ce := range c.List {
				if tag != nil {
					v := e.eval(ce)
					if isUntyped(v.T) {
						v = e.coerce(v, tag.T)
					}
					conds = append(conds, e.vc.valEq(*tag, v))
				} else {
					conds = append(conds, e.evalBool(ce))
				}
			}
			cases = append(cases, cse{or(conds...), body})
		}
		if !hasDef {
			def = rest
		}
		res := e.evalBlock(def)
		for i := len(cases) - 1; i >= 0; i-- {
			res = e.iteTV(cases[i].cond, e.evalBlock(cases[i].body), res)
		}
		return res
	case *ast.BlockStmt:
		return e.evalBlock(append(append([]ast.Stmt{}, s.List...), rest...))
	}
	e.fail(s, "unsupported statement in spec body: %T", s)
	return TV{}
}

func (e *Env) iteTV(c string, a, b TV) TV {
	t := a.T
	if isUntyped(t) {
		t = b.T
		a = e.coerce(a, t)
	}
	if isUntyped(b.T) {
		b = e.coerce(b, t)
	}
	return TV{e.vc.iteVal(c, a.V, b.V), t}
}

// callSpec inlines a spec function (or emits an uninterpreted application for recursive ones).
func (e *Env) callSpec(x *ast.CallExpr, sf *SpecFunc) TV {
	var args []TV
	for _, a := range x.Args {
		args = append(args, e.eval(a))
	}
	key := sf.PkgPath + "." + sf.Name
	pkg := sf.Pkg
	sig := pkg.TypesInfo.Defs[sf.Decl.Name].(*types.Func).Type().(*types.Signature)
	if sig.Params().Len() != len(args) {
		e.fail(x, "wrong argument count for %s", sf.Name)
	}
	for i := range args {
		args[i] = e.coerce(args[i], sig.Params().At(i).Type())
	}
	depth := 0
	for _, s := range e.stack {
		if s == key {
			depth++
		}
	}
	rt := sig.Results().At(0).Type()
	if isGhostStub(sf) || e.vc.opaque[key] {
		return e.vc.specApp(e, sf, sig, args, rt, false)
	}
	if sf.Decl.Body == nil || depth >= 1 {
		return e.vc.specApp(e, sf, sig, args, rt, depth == 0 && sf.Decl.Body != nil)
	}
	if e.vc.isRecursiveSpec(sf) {
		return e.vc.specApp(e, sf, sig, args, rt, true)
	}
	return e.inlineSpec(sf, sig, args)
}

func (e *Env) inlineSpec(sf *SpecFunc, sig *types.Signature, args []TV) TV {
	n := &Env{vc: e.vc, pkg: sf.Pkg, names: map[string]TV{}, st: e.st, old: e.old, inQuant: e.inQuant}
	n.stack = append(append([]string{}, e.stack...), sf.PkgPath+"."+sf.Name)
	i := 0
	for _, f := range sf.Decl.Type.Params.List {
		for _, nm := range f.Names {
			n.names[nm.Name] = args[i]
			i++
		}
	}
	r := n.evalBlock(sf.Decl.Body.List)
	rt := sig.Results().At(0).Type()
	if e.vc.specRanges && e.inQuant == 0 && e.vc.inBinder == 0 {
		// `option spec-ranges`: the value of an inlined spec function of integer type lies in the range of that type (it is
		// computed with Go arithmetic). Stated as a ground fact: the solver otherwise has to rediscover 0 <= f(..) by case
		// analysis of the (if/switch) body of every summand of a length expression.
		if sc, ok := r.V.(Scalar); ok && sc.S == "Int" {
			if _, isConst := constVal(sc.T); !isConst {
				if f := rangeFact(rt, sc.T); f != "true" && !e.vc.declared["specrange|"+sc.T] {
					e.vc.declared["specrange|"+sc.T] = true
					// the interval computed for the term (sound on every path, see VC.rng) if it is tighter than the type's
					if lo, hi := e.vc.rangeOf(sc.T, nil); lo != nil && hi != nil {
						f = and(le(bignum(lo), sc.T), le(sc.T, bignum(hi)))
					}
					e.vc.assert(f)
				}
			}
		}
	}
	return e.coerce(TV{r.V, r.T}, rt)
}

func sortedKeys(m map[string]string) []string {
	var ks []string
	for k := range m {
		ks = append(ks, k)
	}
	sort.Strings(ks)
	return ks
}


// isGhostStub: a spec function whose body is just panic(...) is an uninterpreted symbol (ghost predicate/function).
func isGhostStub(sf *SpecFunc) bool {
	if sf.Decl.Body == nil {
		return true
	}
	if len(sf.Decl.Body.List) != 1 {
		return false
	}
	es, ok := sf.Decl.Body.List[0].(*ast.ExprStmt)
	if !ok {
		return false
	}
	c, ok := es.X.(*ast.CallExpr)
	if !ok {
		return false
	}
	id, ok := c.Fun.(*ast.Ident)
	return ok && id.Name == "panic"
}

// rebaseIndex: absolute-index form of a quantified slice index. If the bound variable bv occurs in the body as a
// slice index "(+ OFF bv)" (OFF free of bv), the body is rewritten by the bijective substitution bv := bv - OFF, so
// that the element term becomes "(select (select E arr) bv)": the bound variable is then the *absolute* index of the
// backing array, which E-matching can instantiate from any ground element term (z3 normalises sums, so the relative
// form "(+ off i)" is practically never matched). Sound: i -> i - OFF is a bijection on Int.
func rebaseIndex(bv, body string) string {
	isTok := func(s string, i, n int) bool {
		if i > 0 {
			c := s[i-1]
			if c != ' ' && c != '(' {
				return false
			}
		}
		if i+n < len(s) {
			c := s[i+n]
			if c != ' ' && c != ')' {
				return false
			}
		}
		return true
	}
	hasTok := func(s string) bool {
		for i := strings.Index(s, bv); i >= 0; {
			if isTok(s, i, len(bv)) {
				return true
			}
			j := strings.Index(s[i+1:], bv)
			if j < 0 {
				break
			}
			i += 1 + j
		}
		return false
	}
	// find "(+ OFF bv)" occurrences
	counts := map[string]int{}
	var order []string
	for i := 0; i+3 < len(body); i++ {
		if !strings.HasPrefix(body[i:], "(+ ") {
			continue
		}
		j := i + 3
		// parse one s-expression starting at j
		k := j
		if body[k] == '(' {
			d := 0
			for ; k < len(body); k++ {
				if body[k] == '|' {
					k++
					for k < len(body) && body[k] != '|' {
						k++
					}
					continue
				}
				if body[k] == '(' {
					d++
				} else if body[k] == ')' {
					d--
					if d == 0 {
						k++
						break
					}
				}
			}
		} else if body[k] == '|' {
			k++
			for k < len(body) && body[k] != '|' {
				k++
			}
			k++
		} else {
			for k < len(body) && body[k] != ' ' && body[k] != ')' {
				k++
			}
		}
		off := body[j:k]
		rest := " " + bv + ")"
		if strings.HasPrefix(body[k:], rest) && !hasTok(off) && off != "" {
			if counts[off] == 0 {
				order = append(order, off)
			}
			counts[off]++
		}
	}
	if len(order) == 0 {
		return body
	}
	// several slices with different offsets may share the bound variable: the most frequent offset wins (the others'
	// indices become (+ off2 (- i off1)); where that hurts, `option relative-index` switches the rewriting off)
	best := order[0]
	for _, o := range order {
		if counts[o] > counts[best] {
			best = o
		}
	}
	const mark = "\x00ABSIDX\x00"
	out := strings.ReplaceAll(body, "(+ "+best+" "+bv+")", mark)
	// remaining occurrences of the token bv -> (- bv OFF)
	var sb strings.Builder
	for i := 0; i < len(out); {
		if strings.HasPrefix(out[i:], bv) && isTok(out, i, len(bv)) {
			sb.WriteString("(- " + bv + " " + best + ")")
			i += len(bv)
			continue
		}
		sb.WriteByte(out[i])
		i++
	}
	return strings.ReplaceAll(sb.String(), mark, bv)
}

// rebase applies rebaseIndex unless switched off (GCV_REBASE=0 or `option relative-index` on the function).
func (vc *VC) rebase(bv, body string) string {
	if vc.noRebase {
		return body
	}
	return rebaseIndex(bv, body)
}
