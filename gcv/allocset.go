package main

// H4 patch: static "what may this function allocate" analysis.
//
// `forall(func(x *T) ...)` in a contract ranges over every reference below the allocation pointer. After a call that is
// applied through its contract the allocation pointer has moved by an unknown amount and the new references are objects
// of unknown type with arbitrary fields, so every universally quantified fact the caller knew about T objects was lost
// unless the callee's postcondition restated it. allocSet computes, conservatively and syntactically, the set of struct
// types a function may allocate (transitively); references handed out by a callee that cannot allocate a T are then
// excluded from the range of quantifiers over *T (see regionAfterCall and the guard in eval.go).

import (
	"go/types"
	"sort"
	"strings"

	"golang.org/x/tools/go/ssa"
)

const otherAlloc = "#other" // maps, slices, closures, boxed values, arrays: never a struct type T

type allocInfo struct {
	known bool
	set   map[string]bool
}

var allocMemo = map[*ssa.Function]*allocInfo{}
var allocBusy = map[*ssa.Function]int{} // function -> depth on the analysis stack (1-based)
var allocDepth int
var allocTaint = 1 << 30 // smallest stack depth of a function whose in-progress (incomplete) result was used
var allocVisits int

const allocBudget = 20000 // functions visited per engine run before the analysis answers "anything"

func allocTypeKey(t types.Type) string {
	if p, ok := types.Unalias(t).Underlying().(*types.Pointer); ok {
		t = p.Elem()
	}
	if _, ok := types.Unalias(t).Underlying().(*types.Struct); ok {
		return types.TypeString(types.Unalias(t), nil)
	}
	return otherAlloc
}

// allocSet returns the set of type keys fn may allocate; known=false means "anything".
func (e *Engine) allocSet(fn *ssa.Function) (map[string]bool, bool) {
	if fn == nil {
		return nil, false
	}
	if ai, ok := allocMemo[fn]; ok {
		return ai.set, ai.known
	}
	if ct := e.contractFor(fn); ct != nil {
		if ct.Pure || (ct.Trusted && ct.Options["no-alloc"]) {
			allocMemo[fn] = &allocInfo{known: true, set: map[string]bool{}}
			return allocMemo[fn].set, true
		}
		if ct.Trusted && ct.Options["allocs-other"] { // trusted: allocates slices/maps/boxes only, no struct object
			allocMemo[fn] = &allocInfo{known: true, set: map[string]bool{otherAlloc: true}}
			return allocMemo[fn].set, true
		}
	}
	if fn.Blocks == nil {
		allocMemo[fn] = &allocInfo{}
		return nil, false
	}
	if d, busy := allocBusy[fn]; busy {
		if d < allocTaint {
			allocTaint = d
		}
		return map[string]bool{}, true // recursion: the cycle contributes nothing new
	}
	allocVisits++
	if allocVisits > allocBudget {
		return nil, false
	}
	allocDepth++
	myDepth := allocDepth
	allocBusy[fn] = myDepth
	defer func() {
		delete(allocBusy, fn)
		allocDepth--
	}()
	set := map[string]bool{}
	known := true
	add := func(s map[string]bool, k bool) {
		if !k {
			known = false
		}
		for x := range s {
			set[x] = true
		}
	}
	for _, b := range fn.Blocks {
		for _, ins := range b.Instrs {
			switch in := ins.(type) {
			case *ssa.Alloc:
				if in.Heap {
					set[allocTypeKey(in.Type())] = true
				}
			case *ssa.MakeMap, *ssa.MakeSlice, *ssa.MakeChan, *ssa.MakeInterface, *ssa.Slice, *ssa.Convert:
				set[otherAlloc] = true
			case *ssa.MakeClosure:
				set[otherAlloc] = true
			case *ssa.Go:
				known = false
			case *ssa.Call, *ssa.Defer:
				// H3: a deferred call runs within the dynamic extent of fn, so what it allocates is allocated "by fn": it is
				// analysed like a direct call (statically unknown callees still give "unknown"); the defer record is no struct T.
				c := in.(ssa.CallInstruction).Common()
				if _, isDefer := in.(*ssa.Defer); isDefer {
					set[otherAlloc] = true
				}
				if c.IsInvoke() {
					s, k := e.allocSetInvoke(c)
					add(s, k)
					continue
				}
				switch f := c.Value.(type) {
				case *ssa.Builtin:
					if f.Name() == "append" || f.Name() == "print" || f.Name() == "println" {
						set[otherAlloc] = true
					}
				case *ssa.Function:
					if isLogLike(f.String()) || isLockCall(f.String()) {
						continue
					}
					s, k := e.allocSet(f)
					add(s, k)
				default:
					known = false
				}
			}
		}
	}
	if !known {
		set = nil
	}
	// a result is final unless it used the incomplete result of a function that is still on the stack above fn
	if allocTaint >= myDepth && !(allocVisits > allocBudget && !known) { // "unknown" caused by an exhausted budget is not final
		allocMemo[fn] = &allocInfo{known: known, set: set}
		if allocTaint == myDepth {
			allocTaint = 1 << 30
		}
	}
	return set, known
}

// allocSetInvoke: union over the methods of repository and library types that implement the interface method.
func (e *Engine) allocSetInvoke(c *ssa.CallCommon) (map[string]bool, bool) {
	iface, ok := types.Unalias(c.Value.Type()).Underlying().(*types.Interface)
	if !ok {
		return nil, false
	}
	ikey := "(" + types.TypeString(types.Unalias(c.Value.Type()), nil) + ")." + c.Method.Name()
	if ct := e.lookupContract(ikey); ct != nil && (ct.Pure || ct.Options["no-alloc"]) {
		return map[string]bool{}, true
	}
	if !strings.HasPrefix(types.TypeString(types.Unalias(c.Value.Type()), nil), repoModule) {
		return nil, false // a library interface: implementations unknown
	}
	set := map[string]bool{}
	var names []string
	for n := range e.AllFuncs {
		names = append(names, n)
	}
	sort.Strings(names)
	found := false
	for _, n := range names {
		fn := e.AllFuncs[n]
		if fn.Name() != c.Method.Name() || fn.Signature.Recv() == nil || fn.Synthetic != "" {
			continue
		}
		rt := fn.Signature.Recv().Type()
		if !types.Implements(rt, iface) {
			continue
		}
		found = true
		s, k := e.allocSet(fn)
		if !k {
			return nil, false
		}
		for x := range s {
			set[x] = true
		}
	}
	if !found {
		return nil, false
	}
	return set, true
}

// regionAfterCall records that the references in [lo, hi) were handed out by a callee that allocates only `set`.
func (vc *VC) regionAfterCall(st *State, lo, hi string, set map[string]bool) {
	var ks []string
	for k := range set {
		ks = append(ks, k)
	}
	sort.Strings(ks)
	key := strings.Join(ks, ",")
	id, ok := vc.regionIDs[key]
	if !ok {
		if vc.regionIDs == nil {
			vc.regionIDs = map[string]int{}
		}
		id = len(vc.regionIDs) + 1
		vc.regionIDs[key] = id
		vc.regionSets = append(vc.regionSets, set)
	}
	sortR := arraySort("Int", "Int")
	old := vc.heap(st, "$region", sortR)
	nh := vc.fresh("region", sortR)
	q := vc.freshName("q_r")
	vc.assert(forall([][2]string{{q, "Int"}}, eq(sel(nh, q), ite(and(le(lo, q), lt(q, hi)), num(int64(id)), sel(old, q)))))
	vc.heapSorts["$region"] = sortR
	st.heaps["$region"] = nh
	vc.note("allocation typing: references handed out by a callee that cannot allocate a T are not T objects (static allocation analysis)")
}

// notForeign: the guard conjunct for `forall(func(x *T) ...)`: q does not lie in a region whose callee cannot allocate T.
func (vc *VC) notForeign(st *State, q string, t types.Type) string {
	if len(vc.regionSets) == 0 {
		return "true"
	}
	key := allocTypeKey(t)
	var cs []string
	for i, s := range vc.regionSets {
		if !s[key] {
			cs = append(cs, not(eq(sel(vc.heap(st, "$region", arraySort("Int", "Int")), q), num(int64(i+1)))))
		}
	}
	if len(cs) == 0 {
		return "true"
	}
	return and(cs...)
}

// ---------------------------------------------------------------------------------------------------------------
// Which ghost globals may a call change? Ghost globals (ghost*/Ghost* variables of contract files) are written only
// through contracts (a trusted or interface contract lists them in `modifies`), never by code. A function may
// therefore change ghost global G iff its own contract lists G, or its body (transitively) calls something that may.
// Calls whose target is unknown (function values) may change every ghost global.
// ---------------------------------------------------------------------------------------------------------------

type ghostInfo struct {
	known bool
	set   map[string]bool // heap roots "G|pkg.name"
}

var ghostMemo = map[*ssa.Function]*ghostInfo{}
var ghostBusy = map[*ssa.Function]int{}
var ghostDepth int
var ghostTaint = 1 << 30
var ghostVisits int

func (e *Engine) contractGhostMods(ct *Contract, set map[string]bool) {
	if ct == nil {
		return
	}
	for _, m := range ct.Modifies {
		for _, g := range e.ghostGlobals() {
			if strings.Contains(m.Text, g.Name()) {
				set["G|"+g.Pkg.Pkg.Path()+"."+g.Name()] = true
			}
		}
	}
}

// ghostMods returns the ghost globals fn may change; known=false means "any".
func (e *Engine) ghostMods(fn *ssa.Function) (map[string]bool, bool) {
	if fn == nil {
		return nil, false
	}
	if gi, ok := ghostMemo[fn]; ok {
		return gi.set, gi.known
	}
	set := map[string]bool{}
	ct := e.contractFor(fn)
	e.contractGhostMods(ct, set)
	if fn.Blocks == nil || (ct != nil && (ct.Trusted || ct.Pure)) {
		// no body (or a trusted contract that stands for the body): only what the contract lists
		ghostMemo[fn] = &ghostInfo{known: true, set: set}
		return set, true
	}
	if d, busy := ghostBusy[fn]; busy {
		if d < ghostTaint {
			ghostTaint = d
		}
		return set, true
	}
	ghostVisits++
	if ghostVisits > allocBudget {
		return nil, false
	}
	ghostDepth++
	myDepth := ghostDepth
	ghostBusy[fn] = myDepth
	defer func() {
		delete(ghostBusy, fn)
		ghostDepth--
	}()
	known := true
	add := func(s map[string]bool, k bool) {
		if !k {
			known = false
		}
		for x := range s {
			set[x] = true
		}
	}
	for _, b := range fn.Blocks {
		for _, ins := range b.Instrs {
			var c *ssa.CallCommon
			switch in := ins.(type) {
			case *ssa.Call:
				c = in.Common()
			case *ssa.Go:
				c = in.Common()
			case *ssa.Defer:
				c = in.Common()
			default:
				continue
			}
			if c.IsInvoke() {
				s, k := e.ghostModsInvoke(c)
				add(s, k)
				continue
			}
			switch f := c.Value.(type) {
			case *ssa.Builtin:
			case *ssa.Function:
				s, k := e.ghostMods(f)
				add(s, k)
			case *ssa.MakeClosure:
				s, k := e.ghostMods(f.Fn.(*ssa.Function))
				add(s, k)
			default:
				known = false
			}
		}
	}
	if !known {
		set = nil
	}
	if ghostTaint >= myDepth {
		ghostMemo[fn] = &ghostInfo{known: known, set: set}
		if ghostTaint == myDepth {
			ghostTaint = 1 << 30
		}
	}
	return set, known
}

func (e *Engine) ghostModsInvoke(c *ssa.CallCommon) (map[string]bool, bool) {
	set := map[string]bool{}
	ikey := "(" + types.TypeString(types.Unalias(c.Value.Type()), nil) + ")." + c.Method.Name()
	if ct := e.lookupContract(ikey); ct != nil {
		e.contractGhostMods(ct, set)
		if ct.Pure {
			return set, true
		}
		if !strings.HasPrefix(types.TypeString(types.Unalias(c.Value.Type()), nil), repoModule) {
			// a library interface under an assumed contract (hash.Hash, io.Reader): its implementations are not
			// analysed, the contract is all that is known and all that is trusted
			return set, true
		}
	}
	iface, ok := types.Unalias(c.Value.Type()).Underlying().(*types.Interface)
	if !ok {
		return nil, false
	}
	var names []string
	for n := range e.AllFuncs {
		names = append(names, n)
	}
	sort.Strings(names)
	for _, n := range names {
		fn := e.AllFuncs[n]
		if fn.Name() != c.Method.Name() || fn.Signature.Recv() == nil || fn.Synthetic != "" {
			continue
		}
		if !types.Implements(fn.Signature.Recv().Type(), iface) {
			continue
		}
		s, k := e.ghostMods(fn)
		if !k {
			return nil, false
		}
		for x := range s {
			set[x] = true
		}
	}
	// implementations outside the loaded code (library interfaces such as hash.Hash, io.Reader) act only through the
	// interface contract, which was taken into account above
	return set, true
}


// typedRefFact (H3): a value of static type *T (T a struct) is nil or refers to a T object, so it does not lie in a
// region handed out by a callee that cannot allocate a T. Stated for call results and for ground loads of *T-typed
// leaves; without it the result of a callee (or a field read) cannot serve as a witness/instance of a quantifier over *T
// once some other call has created a foreign region. Sound by Go type safety (the subset excludes unsafe): every object
// of a region with allocation set S has a type in S; T not in S => no *T value points into it. nil (0) has region 0.
func (vc *VC) typedRefFact(st *State, t types.Type, v Val) string {
	if len(vc.regionSets) == 0 {
		return "true"
	}
	var cs []string
	ts := flatT(t, v)
	for i, l := range leaves(t) {
		if l.Typ == nil || l.Sort != "Int" || i >= len(ts) {
			continue
		}
		if p, ok := under(l.Typ).(*types.Pointer); ok {
			if _, ok := under(p.Elem()).(*types.Struct); ok {
				if nf := vc.notForeign(st, ts[i], l.Typ); nf != "true" {
					cs = append(cs, nf)
				}
			}
		}
	}
	return and(cs...)
}
