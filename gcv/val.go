package main

import (
	"fmt"
	"go/types"
	"math/big"
	"strings"
)

// ---- flat symbolic values ----

type Val interface{}

// Scalar is a single SMT term.
type Scalar struct {
	T string // term
	S string // sort
}

// SliceV is a Go slice: backing array ref, offset into it, len, cap.
type SliceV struct{ Arr, Off, Len, Cap string }

// StructV is a struct value (fields in declaration order). Tuples use it too.
type StructV struct{ F []Val }

// Ptr is a pointer. Root names the heap family: "H|<canon struct>" (object), "C|<canon type>" (cell),
// "E|<canon elem>" (slice element, then Idx is set), "G|<global>" (global variable, Base "0").
type Ptr struct {
	Root string
	Base string
	Idx  string // only for E roots
	Path string // leaf-path prefix inside the root
}

func (p Ptr) isElem() bool { return strings.HasPrefix(p.Root, "E|") }

// Leaf describes one scalar leaf of a flattened Go type.
type Leaf struct {
	Path string
	Sort string
	Typ  types.Type // Go type of the leaf (basic, pointer, ...); for slice parts: int
}

func joinPath(a, b string) string {
	if a == "" {
		return b
	}
	if b == "" {
		return a
	}
	if strings.HasPrefix(b, "#") {
		return a + b
	}
	return a + "." + b
}

var intType = types.Typ[types.Int]

// canon gives a canonical string for a type, used in heap names.
func canon(t types.Type) string {
	switch t := t.(type) {
	case *types.Named:
		if _, ok := t.Underlying().(*types.Struct); ok {
			s := ""
			if t.Obj().Pkg() != nil {
				s = t.Obj().Pkg().Path() + "."
			}
			s += t.Obj().Name()
			if ta := t.TypeArgs(); ta != nil && ta.Len() > 0 {
				var xs []string
				for i := 0; i < ta.Len(); i++ {
					xs = append(xs, canon(ta.At(i)))
				}
				s += "[" + strings.Join(xs, ",") + "]"
			}
			return s
		}
		return canon(t.Underlying())
	case *types.Alias:
		return canon(types.Unalias(t))
	case *types.Basic:
		switch t.Kind() {
		case types.Uint8:
			return "uint8"
		case types.Int32:
			return "int32"
		case types.UntypedInt:
			return "int"
		case types.UntypedBool:
			return "bool"
		case types.UntypedString:
			return "string"
		case types.UntypedRune:
			return "int32"
		}
		return t.Name()
	case *types.Slice:
		return "[]" + canon(t.Elem())
	case *types.Array:
		return fmt.Sprintf("[%d]%s", t.Len(), canon(t.Elem()))
	case *types.Pointer:
		return "*" + canon(t.Elem())
	case *types.Map:
		return "map[" + canon(t.Key()) + "]" + canon(t.Elem())
	case *types.Interface:
		return "iface"
	case *types.Signature:
		return "func"
	case *types.Chan:
		return "chan"
	case *types.Struct:
		var xs []string
		for i := 0; i < t.NumFields(); i++ {
			xs = append(xs, t.Field(i).Name()+" "+canon(t.Field(i).Type()))
		}
		return "struct{" + strings.Join(xs, ";") + "}"
	case *types.Tuple:
		var xs []string
		for i := 0; i < t.Len(); i++ {
			xs = append(xs, canon(t.At(i).Type()))
		}
		return "(" + strings.Join(xs, ",") + ")"
	case *types.TypeParam:
		return "T#" + t.Obj().Name()
	}
	return t.String()
}

func under(t types.Type) types.Type {
	if t == nil {
		return nil
	}
	return types.Unalias(t).Underlying()
}

func scalarSort(t types.Type) string {
	switch u := under(t).(type) {
	case *types.Basic:
		switch {
		case u.Info()&types.IsBoolean != 0:
			return "Bool"
		case u.Info()&types.IsString != 0:
			return "Str"
		case u.Info()&types.IsFloat != 0:
			return "Real"
		}
		return "Int"
	}
	return "Int"
}

// leaves flattens a Go type to scalar leaves.
func leaves(t types.Type) []Leaf {
	switch u := under(t).(type) {
	case *types.Struct:
		var out []Leaf
		for i := 0; i < u.NumFields(); i++ {
			f := u.Field(i)
			for _, l := range leaves(f.Type()) {
				out = append(out, Leaf{joinPath(f.Name(), l.Path), l.Sort, l.Typ})
			}
		}
		return out
	case *types.Tuple:
		var out []Leaf
		for i := 0; i < u.Len(); i++ {
			for _, l := range leaves(u.At(i).Type()) {
				out = append(out, Leaf{joinPath(fmt.Sprintf("%d", i), l.Path), l.Sort, l.Typ})
			}
		}
		return out
	case *types.Slice:
		return []Leaf{{"#arr", "Int", nil}, {"#off", "Int", intType}, {"#len", "Int", intType}, {"#cap", "Int", intType}}
	case *types.Array:
		// arrays by value are modelled as a reference to backing storage (copy semantics NOT modelled: flagged by callers)
		return []Leaf{{"#arr", "Int", t}}
	}
	return []Leaf{{"", scalarSort(t), t}}
}

// build constructs a Val of Go type t from leaf terms (consumes from *terms).
func build(t types.Type, terms *[]string) Val {
	pop := func() string { x := (*terms)[0]; *terms = (*terms)[1:]; return x }
	switch u := under(t).(type) {
	case *types.Struct:
		sv := &StructV{}
		for i := 0; i < u.NumFields(); i++ {
			sv.F = append(sv.F, build(u.Field(i).Type(), terms))
		}
		return sv
	case *types.Tuple:
		sv := &StructV{}
		for i := 0; i < u.Len(); i++ {
			sv.F = append(sv.F, build(u.At(i).Type(), terms))
		}
		return sv
	case *types.Slice:
		return &SliceV{pop(), pop(), pop(), pop()}
	case *types.Array:
		return &SliceV{pop(), "0", num(u.Len()), num(u.Len())}
	case *types.Pointer:
		return Ptr{Root: ptrRoot(u.Elem()), Base: pop()}
	}
	return Scalar{pop(), scalarSort(t)}
}

// rootTypes remembers the Go type behind each object-heap root (needed to walk nested struct fields).
var rootTypes = map[string]types.Type{}
var subIDs = map[string]int{}

func subID(root, field string) string {
	k := root + "|" + field
	if _, ok := subIDs[k]; !ok {
		subIDs[k] = len(subIDs) + 1
	}
	return fmt.Sprintf("%d", subIDs[k])
}

func ptrRoot(elem types.Type) string {
	if a, ok := under(elem).(*types.Array); ok {
		return "A|" + canon(a.Elem())
	}
	if _, ok := under(elem).(*types.Struct); ok {
		r := "H|" + canon(elem)
		rootTypes[r] = elem
		return r
	}
	return "C|" + canon(elem)
}

// resolveLeaf walks a leaf path of an object pointer through struct-typed (by value) fields: the nested struct lives in
// the heaps of its own type at the derived reference sub(base, id), so interior struct pointers are first-class values.
func resolveLeaf(p Ptr, lp string) (Ptr, string) {
	for strings.HasPrefix(p.Root, "H|") && p.Path == "" {
		t := rootTypes[p.Root]
		if t == nil {
			break
		}
		k := strings.Index(lp, ".")
		if k < 0 {
			break
		}
		first := lp[:k]
		st, ok := under(t).(*types.Struct)
		if !ok {
			break
		}
		var ft types.Type
		for i := 0; i < st.NumFields(); i++ {
			if st.Field(i).Name() == first {
				ft = st.Field(i).Type()
			}
		}
		if ft == nil {
			break
		}
		if _, isStruct := under(ft).(*types.Struct); !isStruct {
			break
		}
		p = Ptr{Root: ptrRoot(ft), Base: app("sub", p.Base, subID(p.Root, first))}
		lp = lp[k+1:]
	}
	return p, lp
}

// flat returns the leaf terms of v in leaves() order.
func flat(v Val) []string {
	switch v := v.(type) {
	case Scalar:
		return []string{v.T}
	case *SliceV:
		return []string{v.Arr, v.Off, v.Len, v.Cap}
	case *StructV:
		var out []string
		for _, f := range v.F {
			out = append(out, flat(f)...)
		}
		return out
	case Ptr:
		if v.isElem() && v.Path == "" {
			// pointer to a slice element as a first-class value: injective pairing (negative, so disjoint from object refs)
			return []string{app("eptr", v.Base, v.Idx)}
		}
		if v.Path != "" || v.isElem() || strings.HasPrefix(v.Root, "G|") {
			panic(unsupported("interior/element/global pointer used as a first-class value: " + v.Root + " " + v.Path))
		}
		return []string{v.Base}
	case nil:
		return nil
	}
	panic(fmt.Sprintf("flat: %T", v))
}

// flatT is flat but for array-typed values returns only the arr leaf.
func flatT(t types.Type, v Val) []string {
	if _, ok := under(t).(*types.Array); ok {
		return []string{v.(*SliceV).Arr}
	}
	if st, ok := under(t).(*types.Struct); ok {
		var out []string
		sv := v.(*StructV)
		for i := 0; i < st.NumFields(); i++ {
			out = append(out, flatT(st.Field(i).Type(), sv.F[i])...)
		}
		return out
	}
	if tt, ok := under(t).(*types.Tuple); ok {
		var out []string
		sv := v.(*StructV)
		for i := 0; i < tt.Len(); i++ {
			out = append(out, flatT(tt.At(i).Type(), sv.F[i])...)
		}
		return out
	}
	return flat(v)
}

type unsupported string

func (u unsupported) Error() string { return string(u) }

// zeroTerms gives the zero value leaf terms for type t.
func zeroTerm(l Leaf) string {
	switch l.Sort {
	case "Bool":
		return "false"
	case "Str":
		return "str_empty"
	case "Real":
		return "0.0"
	}
	return "0"
}

func zeroVal(t types.Type) Val {
	var ts []string
	for _, l := range leaves(t) {
		ts = append(ts, zeroTerm(l))
	}
	if a, ok := under(t).(*types.Array); ok {
		_ = a
		panic(unsupported("zero value of array type by value"))
	}
	return build(t, &ts)
}

// intRange returns (lo, hi, ok) for an integer Go type.
func intRange(t types.Type) (lo, hi *big.Int, ok bool) {
	b, isb := under(t).(*types.Basic)
	if !isb || b.Info()&types.IsInteger == 0 {
		return nil, nil, false
	}
	bits, signed := intBits(b)
	if signed {
		return new(big.Int).Neg(pow2(uint(bits - 1))), new(big.Int).Sub(pow2(uint(bits-1)), big.NewInt(1)), true
	}
	return big.NewInt(0), new(big.Int).Sub(pow2(uint(bits)), big.NewInt(1)), true
}

func intBits(b *types.Basic) (int, bool) {
	switch b.Kind() {
	case types.Int8:
		return 8, true
	case types.Int16:
		return 16, true
	case types.Int32:
		return 32, true
	case types.Int64, types.Int, types.UntypedInt, types.UntypedRune:
		return 64, true
	case types.Uint8:
		return 8, false
	case types.Uint16:
		return 16, false
	case types.Uint32:
		return 32, false
	case types.Uint64, types.Uint, types.Uintptr:
		return 64, false
	}
	return 64, true
}

// rangeFact returns the SMT constraint that term x lies in the range of Go type t ("true" if not an integer).
func rangeFact(t types.Type, x string) string {
	lo, hi, ok := intRange(t)
	if !ok {
		return "true"
	}
	return and(le(bignum(lo), x), le(x, bignum(hi)))
}

// wrapName returns the name of the wrap function for integer type t; one=true selects the single-step version.
func wrapName(t types.Type, one bool) string {
	b, isb := under(t).(*types.Basic)
	if !isb || b.Info()&types.IsInteger == 0 {
		return ""
	}
	bits, signed := intBits(b)
	s := "u"
	if signed {
		s = "s"
	}
	if one {
		return fmt.Sprintf("wrap1%s%d", s, bits)
	}
	return fmt.Sprintf("wrap%s%d", s, bits)
}
