package main

import (
	"math/big"
	"strconv"
	"fmt"
	"go/constant"
	"go/token"
	"go/types"
	"sort"
	"strings"

	"golang.org/x/tools/go/ssa"
)

type modInfo struct {
	whole   bool
	targets []string // loop-invariant base refs
	guards  []string // optional per-target conditions (parallel to targets; may be shorter)
	idxs    []string // optional per-target element index (parallel to targets; may be shorter; "" = the whole backing array)
	fresh   bool     // some targets are objects allocated inside the loop / callee
}

func headerPhis(h *ssa.BasicBlock) []*ssa.Phi {
	var out []*ssa.Phi
	for _, in := range h.Instrs {
		if p, ok := in.(*ssa.Phi); ok {
			out = append(out, p)
		} else {
			break
		}
	}
	return out
}

// baseEnv builds the contract-evaluation environment for this frame's function.
func (fr *Frame) baseEnv(st *State) *Env {
	env := &Env{vc: fr.vc, names: map[string]TV{}, st: st, old: fr.entry}
	if fr.fn.Pkg != nil {
		env.pkg = fr.vc.eng.Pkgs[fr.fn.Pkg.Pkg.Path()]
	} else if o := fr.fn.Origin(); o != nil && o.Pkg != nil {
		env.pkg = fr.vc.eng.Pkgs[o.Pkg.Pkg.Path()]
	} else if p := fr.fn.Parent(); p != nil && p.Pkg != nil {
		env.pkg = fr.vc.eng.Pkgs[p.Pkg.Pkg.Path()]
	}
	for _, p := range fr.fn.Params {
		env.names[p.Name()] = TV{fr.vals[p], p.Type()}
	}
	for _, fv := range fr.fn.FreeVars {
		if v, ok := fr.vals[fv]; ok {
			env.names[fv.Name()] = TV{v, fv.Type()}
		}
	}
	return env
}

// resolveName finds the value of source variable `name` as seen at block `at`.
func (fr *Frame) resolveName(name string, at *ssa.BasicBlock, st *State) (TV, bool) {
	// address-taken locals: Alloc with that comment, dominating `at`
	var bestAlloc *ssa.Alloc
	for _, b := range fr.fn.Blocks {
		if !(b == at || b.Dominates(at)) {
			continue
		}
		for _, in := range b.Instrs {
			if a, ok := in.(*ssa.Alloc); ok && a.Comment == name {
				if _, have := fr.vals[a]; have {
					bestAlloc = a
				}
			}
		}
	}
	// debug refs
	var best ssa.Value
	bestDepth, bestOrder := -1, -1
	order := 0
	for _, b := range fr.fn.Blocks {
		for _, in := range b.Instrs {
			order++
			d, ok := in.(*ssa.DebugRef)
			if !ok || d.IsAddr {
				continue
			}
			id, ok := d.Expr.(interface{ String() string })
			_ = id
			if o := d.Object(); o == nil || o.Name() != name {
				continue
			}
			v := d.X
			var defBlock *ssa.BasicBlock
			switch x := v.(type) {
			case *ssa.Parameter, *ssa.Const, *ssa.FreeVar:
				defBlock = fr.fn.Blocks[0]
			case ssa.Instruction:
				defBlock = x.Block()
			default:
				continue
			}
			if phi, isPhi := v.(*ssa.Phi); isPhi && phi.Block() == at && fr.loopOrd[at] > 0 {
				continue // header phis handled by caller
			}
			if !(defBlock == at && !isInstrAfterPhis(v) || defBlock.Dominates(at) && defBlock != at) && !(defBlock == fr.fn.Blocks[0] && isParamLike(v)) {
				continue
			}
			if _, have := fr.vals[v]; !have {
				if _, isConst := v.(*ssa.Const); !isConst {
					continue
				}
			}
			dep := fr.domDepth[defBlock]
			if dep > bestDepth || (dep == bestDepth && order > bestOrder) {
				best, bestDepth, bestOrder = v, dep, order
			}
		}
	}
	if bestAlloc != nil {
		p := fr.vals[bestAlloc].(Ptr)
		t := bestAlloc.Type().Underlying().(*types.Pointer).Elem()
		return TV{fr.vc.load(st, p, t), t}, true
	}
	if best != nil {
		return TV{fr.val(best), best.Type()}, true
	}
	// non-header phis with that comment that dominate `at`
	var bp *ssa.Phi
	for _, b := range fr.fn.Blocks {
		if !(b.Dominates(at)) || b == at {
			continue
		}
		for _, in := range b.Instrs {
			if p, ok := in.(*ssa.Phi); ok && p.Comment == name {
				if _, have := fr.vals[p]; have {
					if bp == nil || fr.domDepth[b] > fr.domDepth[bp.Block()] {
						bp = p
					}
				}
			}
		}
	}
	if bp != nil {
		return TV{fr.vals[bp], bp.Type()}, true
	}
	return TV{}, false
}

// resolveNameAt resolves a source variable at the current point of block `at` (values of `at` computed so far count).
func (fr *Frame) resolveNameAt(name string, at *ssa.BasicBlock, st *State) (TV, bool) {
	// latest DebugRef in `at` whose value is already computed
	var best ssa.Value
	for _, in := range at.Instrs {
		d, ok := in.(*ssa.DebugRef)
		if !ok || d.IsAddr {
			continue
		}
		if o := d.Object(); o == nil || o.Name() != name {
			continue
		}
		if _, have := fr.vals[d.X]; have {
			best = d.X
		} else if _, isC := d.X.(*ssa.Const); isC {
			best = d.X
		}
	}
	if best != nil {
		return TV{fr.val(best), best.Type()}, true
	}
	for _, p := range headerPhis(at) {
		if p.Comment == name {
			if v, ok := fr.vals[p]; ok {
				return TV{v, p.Type()}, true
			}
		}
	}
	return fr.resolveName(name, at, st)
}

func isParamLike(v ssa.Value) bool {
	switch v.(type) {
	case *ssa.Parameter, *ssa.Const, *ssa.FreeVar:
		return true
	}
	return false
}

func isInstrAfterPhis(v ssa.Value) bool {
	_, isPhi := v.(*ssa.Phi)
	return !isPhi
}

func (fr *Frame) loopEnv(lc *loopCtx, st *State, phiVal func(*ssa.Phi) Val) *Env {
	env := fr.baseEnv(st)
	h := lc.header
	// A parameter that is reassigned inside the loop has a header phi carrying its source name: in the invariants
	// of this loop the name denotes the CURRENT value (like every other loop variable), and old(name) the value at
	// function entry. (Before, the parameter map shadowed the phi and the current value could not be named at all.)
	for _, p := range headerPhis(h) {
		for _, prm := range fr.fn.Params {
			if prm.Name() == p.Comment && types.Identical(prm.Type(), p.Type()) {
				if env.oldNames == nil {
					env.oldNames = map[string]TV{}
				}
				env.oldNames[p.Comment] = env.names[p.Comment]
				env.names[p.Comment] = TV{phiVal(p), p.Type()}
			}
		}
	}
	env.lookup = func(name string) (TV, bool) {
		for _, p := range headerPhis(h) {
			if p.Comment == name {
				return TV{phiVal(p), p.Type()}, true
			}
		}
		if tv, ok := fr.rangeSlice(name); ok {
			return tv, true
		}
		// rangeindex<k>: the hidden index of the range loop with ordinal k (this loop or an enclosing one);
		// plain "rangeindex" always means the innermost loop and shadows the outer ones.
		if strings.HasPrefix(name, "rangeindex") && len(name) > len("rangeindex") {
			if k, err := strconv.Atoi(name[len("rangeindex"):]); err == nil {
				for hb, ord := range fr.loopOrd {
					if ord != k || !(hb == h || hb.Dominates(h)) {
						continue
					}
					for _, p := range headerPhis(hb) {
						if p.Comment == "rangeindex" {
							if hb == h {
								return TV{phiVal(p), p.Type()}, true
							}
							if v, ok := fr.vals[p]; ok {
								return TV{v, p.Type()}, true
							}
						}
					}
				}
			}
		}
		return fr.resolveName(name, h, st)
	}
	// visited(k) for map-range loops: the header block holds the Next of the loop's iterator
	for _, in := range h.Instrs {
		nx, ok := in.(*ssa.Next)
		if !ok {
			continue
		}
		it := fr.iterSt[nx.Iter]
		if it == nil || !it.isMap {
			continue
		}
		env.visited = func(s *State, k TV) string {
			ks := mapKeySort(it.mapType)
			kv := env.coerce(k, it.mapType.Key())
			return sel(fr.vc.heap(s, it.heap, arraySort(ks, "Bool")), flat(kv.V)[0])
		}
		break
	}
	return env
}

func (fr *Frame) enterLoop(h *ssa.BasicBlock, ins []edge, _ *State) *State {
	vc := fr.vc
	if fr.depth > 0 {
		panic(unsupported("loop in inlined function " + fr.fn.String()))
	}
	var sts []*State
	for _, e := range ins {
		sts = append(sts, e.st)
	}
	pre := fr.mergeStates(sts)
	phis := headerPhis(h)
	entryVals := map[*ssa.Phi]Val{}
	for _, p := range phis {
		var vs []Val
		for _, e := range ins {
			vs = append(vs, fr.phiEdgeVal(p, h, e.from))
		}
		entryVals[p] = fr.mergeVals(sts, vs)
	}
	lc := &loopCtx{header: h, ordinal: fr.loopOrd[h], body: fr.loopBody(h), phiVals: map[*ssa.Phi]Val{}}
	if fr.contract != nil && fr.top {
		lc.spec = fr.contract.Loops[lc.ordinal]
	}
	// auto invariants for monotone counters
	for _, p := range phis {
		if _, ok := entryVals[p].(Scalar); !ok {
			continue
		}
		if b, ok := under(p.Type()).(*types.Basic); !ok || b.Info()&types.IsInteger == 0 {
			continue
		}
		dir := 0
		okAll := true
		for i, pr := range h.Preds {
			if !fr.backEdge[[2]int{pr.Index, h.Index}] {
				continue
			}
			d := stepDir(p, p.Edges[i])
			if d == 0 || (dir != 0 && d != dir) {
				okAll = false
			}
			dir = d
		}
		if okAll && dir != 0 {
			op := ">="
			if dir < 0 {
				op = "<="
			}
			ent := entryVals[p].(Scalar).T
			lc.auto = append(lc.auto, autoInv{phi: p, name: p.Comment + op + "entry", mk: func(t string) string { return app(op, t, ent) }})
			if dir > 0 {
				if c, strict, L, ok := fr.headerGuard(lc, p); ok {
					cs := num(c)
					lim := L
					if !strict {
						lim = plus(L, "1")
					}
					lc.auto = append(lc.auto, autoInv{phi: p, name: p.Comment + "<=limit", lim: lim, step: big.NewInt(c), mk: func(t string) string {
						return implies(le(plus(ent, cs), lim), le(plus(t, cs), lim))
					}})
				}
			}
		}
	}
	fname := shortFuncName(fr.fn)
	// inv-init
	if lc.spec != nil {
		env := fr.loopEnv(lc, pre, func(p *ssa.Phi) Val { return entryVals[p] })
		for i, c := range lc.spec.Inv {
			goal := fr.evalClause(env, c)
			vc.addOblig("inv-init", fmt.Sprintf("%s#inv-init:%d.%d", fname, lc.ordinal, i+1), pre, goal, h.Instrs[0].Pos(), c.Text)
		}
	}
	// dry run to learn the loop's write footprint
	mods := fr.dryRunLoop(lc, pre)
	// havoc
	st := pre.clone()
	fr.havoc(st, pre, mods)
	for _, p := range phis {
		v := vc.freshVal("phi_"+p.Comment, p.Type())
		lc.phiVals[p] = v
		fr.vals[p] = v
	}
	var facts []string
	for _, p := range phis {
		// references held in loop-carried variables are below the allocation pointer
		i := 0
		for _, l := range leaves(p.Type()) {
			if l.Sort == "Int" && (l.Typ == nil || isRefType(l.Typ)) {
				facts = append(facts, lt(flatT(p.Type(), lc.phiVals[p])[i], vc.allocOf(st)))
			}
			i++
		}
		// H3: a loop-carried *T is nil or a T object: it lies in no region that cannot contain a T (see typedRefFact)
		if tf := vc.typedRefFact(st, p.Type(), lc.phiVals[p]); tf != "true" {
			facts = append(facts, tf)
		}
	}
	for _, a := range lc.auto {
		t := lc.phiVals[a.phi].(Scalar).T
		facts = append(facts, a.mk(t))
	}
	// The hidden index of a range loop starts at -1 and is incremented only after the test index+1 < limit: with both
	// inferred counter invariants in place (they are obligations of their own) it lies in [-1, MaxInt64-1], so index+1
	// cannot wrap. Recording the interval keeps the wrap function out of every term built from the index.
	{
		cnt := map[*ssa.Phi]int{}
		for _, a := range lc.auto {
			cnt[a.phi]++
		}
		for p, n := range cnt {
			if n == 2 && p.Comment == "rangeindex" {
				if ev, ok := entryVals[p].(Scalar); ok && (ev.T == "(- 1)" || ev.T == "-1") {
					hi := new(big.Int).Sub(new(big.Int).Lsh(big.NewInt(1), 63), big.NewInt(2))
					// `option range-index-limit`: the "<=limit" invariant (an obligation of its own) says index+1 <= limit;
					// when the limit is the length of a slice (interval [0, 2^48], A-MEM) the index is at most 2^48-1, so
					// index+2, which the invariants of the next iteration mention, does not wrap either.
					if fr.contract != nil && fr.contract.Options["range-index-limit"] {
						for _, a := range lc.auto {
							if a.phi != p || a.lim == "" || a.step == nil || a.step.Cmp(big.NewInt(1)) != 0 {
								continue
							}
							if llo, lhi := vc.rangeOf(a.lim, nil); llo != nil && lhi != nil && llo.Sign() >= 0 {
								if h2 := new(big.Int).Sub(lhi, big.NewInt(1)); h2.Cmp(hi) < 0 && h2.Cmp(big.NewInt(-1)) >= 0 {
									hi = h2
								}
							}
						}
					}
					vc.setRange(lc.phiVals[p].(Scalar).T, big.NewInt(-1), hi)
				}
			}
		}
	}
	if lc.spec != nil {
		env := fr.loopEnv(lc, st, func(p *ssa.Phi) Val { return lc.phiVals[p] })
		for _, c := range lc.spec.Inv {
			facts = append(facts, fr.evalClause(env, c))
		}
	}
	base := pre.reach
	if fr.top && fr.contract != nil && fr.contract.Options[fmt.Sprintf("loop-cut-%d", lc.ordinal)] && fr.entryReach != "" {
		// `option loop-cut-<k>`: proof cut at the head of loop k. Inside and after the loop only the function's entry
		// facts (requires, parameter typing) and the loop's invariants are assumed; everything else learned on the way
		// to the loop (path conditions, lemma instances, callee postconditions) is forgotten. Assuming less is sound;
		// what the loop needs from before must be restated as an invariant (inv-init is proved in the full context).
		base = fr.entryReach
	}
	st.reach = vc.define("r", "Bool", and(append([]string{base}, facts...)...))
	lc.head = st.clone()
	fr.loops[h] = lc
	return st
}

// headerGuard recognises a loop header ending in `if p+c < L` (or <=) with L loop-invariant; step must be +1.
func (fr *Frame) headerGuard(lc *loopCtx, p *ssa.Phi) (c int64, strict bool, L string, ok bool) {
	h := lc.header
	for i, pr := range h.Preds {
		if fr.backEdge[[2]int{pr.Index, h.Index}] {
			if stepSize(p, p.Edges[i]) != 1 {
				return 0, false, "", false
			}
		}
	}
	iff, isIf := h.Instrs[len(h.Instrs)-1].(*ssa.If)
	if !isIf {
		return 0, false, "", false
	}
	b, isB := iff.Cond.(*ssa.BinOp)
	if !isB || (b.Op != token.LSS && b.Op != token.LEQ) {
		return 0, false, "", false
	}
	// the true branch must stay in the loop
	if !lc.body[h.Succs[0]] {
		return 0, false, "", false
	}
	x := b.X
	switch {
	case x == ssa.Value(p):
		c = 0
	default:
		bx, isBx := x.(*ssa.BinOp)
		if !isBx || bx.Op != token.ADD || bx.X != ssa.Value(p) {
			return 0, false, "", false
		}
		cv, isC := bx.Y.(*ssa.Const)
		if !isC || cv.Value == nil {
			return 0, false, "", false
		}
		k, okk := constant.Int64Val(cv.Value)
		if !okk || k < 0 || k > 8 {
			return 0, false, "", false
		}
		c = k
	}
	// L must be loop-invariant
	switch y := b.Y.(type) {
	case *ssa.Const:
		L = fr.val(y).(Scalar).T
	case *ssa.Parameter:
		L = fr.val(y).(Scalar).T
	case ssa.Instruction:
		if !lc.body[y.Block()] {
			v, have := fr.vals[b.Y]
			if !have {
				return 0, false, "", false
			}
			L = v.(Scalar).T
		} else if call, isCall := b.Y.(*ssa.Call); isCall {
			bi, isBi := call.Call.Value.(*ssa.Builtin)
			if !isBi || bi.Name() != "len" {
				return 0, false, "", false
			}
			arg := call.Call.Args[0]
			if ai, isInstr := arg.(ssa.Instruction); isInstr && lc.body[ai.Block()] {
				return 0, false, "", false
			}
			av, have := fr.vals[arg]
			if !have {
				if _, isParam := arg.(*ssa.Parameter); !isParam {
					return 0, false, "", false
				}
				av = fr.val(arg)
			}
			switch s := av.(type) {
			case *SliceV:
				L = s.Len
			case Scalar:
				if s.S != "Str" {
					return 0, false, "", false
				}
				L = app("slen", s.T)
			default:
				return 0, false, "", false
			}
		} else {
			return 0, false, "", false
		}
	default:
		return 0, false, "", false
	}
	return c, b.Op == token.LSS, L, true
}

func stepSize(p *ssa.Phi, v ssa.Value) int64 {
	b, ok := v.(*ssa.BinOp)
	if !ok || b.Op != token.ADD || b.X != ssa.Value(p) {
		return 0
	}
	cv, ok := b.Y.(*ssa.Const)
	if !ok || cv.Value == nil {
		return 0
	}
	k, _ := constant.Int64Val(cv.Value)
	return k
}

func stepDir(p *ssa.Phi, v ssa.Value) int {
	for {
		if c, ok := v.(*ssa.Convert); ok {
			v = c.X
			continue
		}
		break
	}
	b, ok := v.(*ssa.BinOp)
	if !ok {
		return 0
	}
	var cv *ssa.Const
	if b.X == ssa.Value(p) {
		cv, _ = b.Y.(*ssa.Const)
	} else if b.Y == ssa.Value(p) && b.Op == token.ADD {
		cv, _ = b.X.(*ssa.Const)
	}
	if cv == nil || cv.Value == nil || cv.Value.Kind() != constant.Int {
		return 0
	}
	k, ok := constant.Int64Val(cv.Value)
	if !ok || k == 0 {
		return 0
	}
	switch b.Op {
	case token.ADD:
		if k > 0 {
			return 1
		}
		return -1
	case token.SUB:
		if k > 0 {
			return -1
		}
		return 1
	}
	return 0
}

func (fr *Frame) evalClause(env *Env, c Clause) (goal string) {
	defer func() {
		if r := recover(); r != nil {
			if ce, ok := r.(contractError); ok {
				if strings.HasSuffix(c.File, ".schema") {
					fr.vc.note("schema clause not applicable here and dropped: " + c.Text + " (" + string(ce) + ")")
					goal = "true"
					return
				}
				panic(contractError(fmt.Sprintf("%s:%d: `%s`: %s", c.File, c.Line, c.Text, string(ce))))
			}
			panic(r)
		}
	}()
	return env.evalBool(c.Expr)
}

func shortFuncName(fn *ssa.Function) string {
	s := fn.String()
	s = strings.ReplaceAll(s, repoModule+"/", "")
	return s
}

// loopBackEdge emits inv-keep / dec obligations for a back edge.
func (fr *Frame) loopBackEdge(lc *loopCtx, e edge) {
	vc := fr.vc
	h := lc.header
	fname := shortFuncName(fr.fn)
	phiVal := func(p *ssa.Phi) Val { return fr.phiEdgeVal(p, h, e.from) }
	for _, a := range lc.auto {
		t := phiVal(a.phi).(Scalar).T
		vc.addOblig("auto-inv", fmt.Sprintf("%s#auto-inv:%d.%s", fname, lc.ordinal, a.name), e.st, a.mk(t), h.Instrs[0].Pos(),
			"inferred counter invariant "+a.name)
	}
	if lc.spec == nil {
		return
	}
	env := fr.loopEnv(lc, e.st, phiVal)
	for i, c := range lc.spec.Inv {
		goal := fr.evalClause(env, c)
		vc.addOblig("inv-keep", fmt.Sprintf("%s#inv-keep:%d.%d", fname, lc.ordinal, i+1), e.st, goal, h.Instrs[0].Pos(), c.Text)
	}
	for i, c := range lc.spec.Dec {
		henv := fr.loopEnv(lc, lc.head, func(p *ssa.Phi) Val { return lc.phiVals[p] })
		oldV := henv.eval(c.Expr).term()
		newV := env.eval(c.Expr).term()
		vc.addOblig("dec", fmt.Sprintf("%s#dec:%d.%d", fname, lc.ordinal, i+1), e.st, and(le("0", oldV), lt(newV, oldV)), h.Instrs[0].Pos(), c.Text)
	}
}

// dryRunLoop executes the loop body once (obligations suppressed) to collect the set of heaps written and their targets.
func (fr *Frame) dryRunLoop(lc *loopCtx, pre *State) map[string]*modInfo {
	vc := fr.vc
	h := lc.header
	vc.dry++
	saveLog, saveLogging := vc.storeLog, vc.logStores
	vc.storeLog, vc.logStores = nil, true
	mark := vc.n
	st := pre.clone()
	a := vc.fresh("alloc", "Int")
	vc.assert(le(vc.allocOf(pre), a))
	st.heaps["$alloc"] = a
	for _, p := range headerPhis(h) {
		fr.vals[p] = vc.freshVal("dphi_"+p.Comment, p.Type())
	}
	var order []*ssa.BasicBlock
	for _, b := range fr.rpo() {
		if lc.body[b] {
			order = append(order, b)
		}
	}
	saveSkip, saveRets, saveDef, saveDry := fr.skipHeader, fr.rets, fr.deferred, fr.dryBack
	fr.skipHeader = h
	fr.dryBack = nil
	fr.runBlocks(order, h, st)
	fr.skipHeader, fr.rets, fr.deferred, fr.dryBack = saveSkip, saveRets, saveDef, saveDry
	log := vc.storeLog
	vc.storeLog, vc.logStores = saveLog, saveLogging
	vc.dry--
	// values computed during the dry run must not be visible to name resolution in the real pass
	for b := range lc.body {
		for _, in := range b.Instrs {
			if v, ok := in.(ssa.Value); ok {
				delete(fr.vals, v)
			}
		}
	}
	mods := classifyMods(vc, log, mark)
	return mods
}

func classifyMods(vc *VC, log []storeRec, mark int) map[string]*modInfo {
	mods := map[string]*modInfo{}
	for _, r := range log {
		m := mods[r.heap]
		if m == nil {
			m = &modInfo{}
			mods[r.heap] = m
		}
		if r.whole {
			m.whole = true
			continue
		}
		if mentionsFreshSince(r.base, mark) {
			if vc.freshRefs[r.base] {
				m.fresh = true
			} else {
				m.whole = true
			}
			continue
		}
		dup := false
		for _, t := range m.targets {
			if t == r.base {
				dup = true
			}
		}
		if !dup {
			m.targets = append(m.targets, r.base)
		}
	}
	return mods
}

// havoc applies a write footprint to st (pre is the state before).
func (fr *Frame) havoc(st, pre *State, mods map[string]*modInfo) {
	vc := fr.vc
	var names []string
	for k := range mods {
		names = append(names, k)
	}
	sort.Strings(names)
	preAlloc := vc.allocOf(pre)
	a := vc.fresh("alloc", "Int")
	vc.assert(le(preAlloc, a))
	st.heaps["$alloc"] = a
	for _, name := range names {
		m := mods[name]
		hs, ok := vc.heapSorts[name]
		if !ok {
			continue
		}
		old := vc.heap(pre, name, hs)
		if strings.HasPrefix(name, "$") {
			st.heaps[name] = vc.fresh("hv", hs)
			if vc.logStores {
				vc.storeLog = append(vc.storeLog, storeRec{heap: name, whole: true})
			}
			continue
		}
		if strings.HasPrefix(name, "G|") {
			st.heaps[name] = vc.fresh("hv", hs)
			if vc.logStores {
				vc.storeLog = append(vc.storeLog, storeRec{heap: name, base: "0"})
			}
			continue
		}
		switch {
		case m.whole:
			st.heaps[name] = vc.fresh("hv", hs)
			vc.nilMapAxioms(name, hs, st.heaps[name]) // H4 patch
			if vc.logStores {
				vc.storeLog = append(vc.storeLog, storeRec{heap: name, whole: true})
			}
		case m.fresh:
			nh := vc.fresh("hv", hs)
			vc.nilMapAxioms(name, hs, nh) // H4 patch
			r := vc.freshName("q_r")
			conds := []string{lt(r, preAlloc)}
			for _, t := range m.targets {
				conds = append(conds, not(eq(r, t)))
			}
			vc.assert(forall([][2]string{{r, "Int"}}, implies(and(conds...), eq(sel(nh, r), sel(old, r)))))
			st.heaps[name] = nh
			if vc.logStores {
				for _, t := range m.targets {
					vc.storeLog = append(vc.storeLog, storeRec{heap: name, base: t})
				}
				// fresh objects written: record with a fresh-ref marker so outer loops see "fresh"
				fr2 := vc.define("ref", "Int", a)
				vc.freshRefs[fr2] = true
				vc.storeLog = append(vc.storeLog, storeRec{heap: name, base: fr2})
			}
		default:
			t := old
			elemSort := innerSort(hs)
			for ti, tg := range m.targets {
				g := ""
				if ti < len(m.guards) {
					g = m.guards[ti]
				}
				ix := ""
				if ti < len(m.idxs) {
					ix = m.idxs[ti]
				}
				if ix != "" && strings.HasPrefix(name, "E|") && strings.HasPrefix(elemSort, "(Array Int ") {
					// one element of a backing array: only that index changes
					ev := vc.fresh("hv", innerSort(elemSort))
					if g != "" {
						ev = ite(g, ev, sel2(t, tg, ix))
					}
					t = sto(t, tg, sto(sel(t, tg), ix, ev))
					if vc.logStores {
						vc.storeLog = append(vc.storeLog, storeRec{heap: name, base: tg})
					}
					continue
				}
				nv := vc.fresh("hv", elemSort)
				if g != "" {
					nv = ite(g, nv, sel(t, tg))
				}
				t = sto(t, tg, nv)
				if vc.logStores {
					vc.storeLog = append(vc.storeLog, storeRec{heap: name, base: tg})
				}
			}
			st.heaps[name] = vc.define("h", hs, t)
		}
	}
}

// innerSort returns X for "(Array Int X)".
func innerSort(s string) string {
	s = strings.TrimPrefix(s, "(Array Int ")
	return strings.TrimSuffix(s, ")")
}

// nilMapAxioms (H4 patch): a havoced map heap still describes the nil map (reference 0) as empty; the entry heaps get
// these facts in VC.heap, a wholesale havoc (loop head or call with `modifies all(maptype)`) used to lose them.
func (vc *VC) nilMapAxioms(name, sort, h string) {
	if strings.HasPrefix(name, "Md|") && strings.HasPrefix(sort, "(Array Int (Array ") && strings.HasSuffix(sort, " Bool))") {
		ks := strings.TrimSuffix(strings.TrimPrefix(sort, "(Array Int (Array "), " Bool))")
		vc.emit(fmt.Sprintf("(assert (forall ((qk %s)) (! (not (select (select %s 0) qk)) :pattern ((select (select %s 0) qk)))))", ks, h, h))
	}
	if strings.HasPrefix(name, "Ml|") {
		vc.emit(fmt.Sprintf("(assert (= (select %s 0) 0))", h))
	}
}

// rangeSlice resolves `rangeslice<k>`: the slice that the range loop with ordinal k iterates over, when it has no
// source name (`for _, x := range f()`). It is the SSA value whose length the loop header compares the hidden index
// with; being an SSA value computed before the loop it denotes the same slice header everywhere it is in scope.
func (fr *Frame) rangeSlice(name string) (TV, bool) {
	if !strings.HasPrefix(name, "rangeslice") || len(name) == len("rangeslice") {
		return TV{}, false
	}
	k, err := strconv.Atoi(name[len("rangeslice"):])
	if err != nil {
		return TV{}, false
	}
	for hb, ord := range fr.loopOrd {
		if ord != k {
			continue
		}
		isIdx := false
		for _, p := range headerPhis(hb) {
			if p.Comment == "rangeindex" {
				isIdx = true
			}
		}
		if !isIdx {
			continue
		}
		for _, in := range hb.Instrs {
			b, ok := in.(*ssa.BinOp)
			if !ok || b.Op != token.LSS {
				continue
			}
			c, ok := b.Y.(*ssa.Call)
			if !ok {
				continue
			}
			bi, ok := c.Call.Value.(*ssa.Builtin)
			if !ok || bi.Name() != "len" || len(c.Call.Args) != 1 {
				continue
			}
			x := c.Call.Args[0]
			if _, isSlice := under(x.Type()).(*types.Slice); !isSlice {
				continue
			}
			if v, ok := fr.vals[x]; ok {
				return TV{v, x.Type()}, true
			}
		}
	}
	return TV{}, false
}
