package main

import (
	"fmt"
	"math/big"
	"strings"
)

// ---- tiny s-expression helpers: terms are strings ----

func app(op string, args ...string) string {
	if len(args) == 0 {
		return op
	}
	return "(" + op + " " + strings.Join(args, " ") + ")"
}

func and(args ...string) string {
	var xs []string
	for _, a := range args {
		if a == "true" || a == "" {
			continue
		}
		if a == "false" {
			return "false"
		}
		xs = append(xs, a)
	}
	switch len(xs) {
	case 0:
		return "true"
	case 1:
		return xs[0]
	}
	return app("and", xs...)
}

func or(args ...string) string {
	var xs []string
	for _, a := range args {
		if a == "false" || a == "" {
			continue
		}
		if a == "true" {
			return "true"
		}
		xs = append(xs, a)
	}
	switch len(xs) {
	case 0:
		return "false"
	case 1:
		return xs[0]
	}
	return app("or", xs...)
}

func not(a string) string {
	switch a {
	case "true":
		return "false"
	case "false":
		return "true"
	}
	if strings.HasPrefix(a, "(not ") && balanced(a[5:len(a)-1]) {
		return a[5 : len(a)-1]
	}
	return app("not", a)
}

func balanced(s string) bool {
	d := 0
	for _, c := range s {
		if c == '(' {
			d++
		} else if c == ')' {
			d--
			if d < 0 {
				return false
			}
		}
	}
	return d == 0
}

func implies(a, b string) string {
	if a == "true" || a == "" {
		return b
	}
	if a == "false" || b == "true" {
		return "true"
	}
	return app("=>", a, b)
}

func ite(c, a, b string) string {
	if c == "true" {
		return a
	}
	if c == "false" {
		return b
	}
	if a == b {
		return a
	}
	return app("ite", c, a, b)
}

func eq(a, b string) string {
	if a == b {
		return "true"
	}
	return app("=", a, b)
}

func num(n int64) string {
	if n < 0 {
		return fmt.Sprintf("(- %d)", -n)
	}
	return fmt.Sprintf("%d", n)
}

func bignum(n *big.Int) string {
	if n.Sign() < 0 {
		return "(- " + new(big.Int).Neg(n).String() + ")"
	}
	return n.String()
}

func pow2(k uint) *big.Int { return new(big.Int).Lsh(big.NewInt(1), k) }

func sel(a, i string) string      { return app("select", a, i) }
func sto(a, i, v string) string   { return app("store", a, i, v) }
func sel2(a, i, j string) string  { return sel(sel(a, i), j) }
func plus(a, b string) string {
	if a == "0" {
		return b
	}
	if b == "0" {
		return a
	}
	return app("+", a, b)
}
func minus(a, b string) string {
	if b == "0" {
		return a
	}
	return app("-", a, b)
}
func le(a, b string) string { return app("<=", a, b) }
func lt(a, b string) string { return app("<", a, b) }

func arraySort(idx, elem string) string { return "(Array " + idx + " " + elem + ")" }

func forall(vars [][2]string, body string) string {
	var vs []string
	for _, v := range vars {
		vs = append(vs, "("+v[0]+" "+v[1]+")")
	}
	return "(forall (" + strings.Join(vs, " ") + ") " + body + ")"
}

func exists(vars [][2]string, body string) string {
	var vs []string
	for _, v := range vars {
		vs = append(vs, "("+v[0]+" "+v[1]+")")
	}
	return "(exists (" + strings.Join(vs, " ") + ") " + body + ")"
}

// sanitize a name for use inside |quoted| SMT symbols
func sym(s string) string {
	s = strings.ReplaceAll(s, "|", "!")
	s = strings.ReplaceAll(s, "\\", "!")
	return "|" + s + "|"
}

const preludeBase = `(set-option :produce-models true)
(set-logic ALL)
(define-fun wrapu8 ((x Int)) Int (mod x 256))
(define-fun wrapu16 ((x Int)) Int (mod x 65536))
(define-fun wrapu32 ((x Int)) Int (mod x 4294967296))
(define-fun wrapu64 ((x Int)) Int (mod x 18446744073709551616))
(define-fun wraps8 ((x Int)) Int (- (mod (+ x 128) 256) 128))
(define-fun wraps16 ((x Int)) Int (- (mod (+ x 32768) 65536) 32768))
(define-fun wraps32 ((x Int)) Int (- (mod (+ x 2147483648) 4294967296) 2147483648))
(define-fun wraps64 ((x Int)) Int (- (mod (+ x 9223372036854775808) 18446744073709551616) 9223372036854775808))
(define-fun wrap1u8 ((x Int)) Int (ite (> x 255) (- x 256) (ite (< x 0) (+ x 256) x)))
(define-fun wrap1u16 ((x Int)) Int (ite (> x 65535) (- x 65536) (ite (< x 0) (+ x 65536) x)))
(define-fun wrap1u32 ((x Int)) Int (ite (> x 4294967295) (- x 4294967296) (ite (< x 0) (+ x 4294967296) x)))
(define-fun wrap1u64 ((x Int)) Int (ite (> x 18446744073709551615) (- x 18446744073709551616) (ite (< x 0) (+ x 18446744073709551616) x)))
(define-fun wrap1s8 ((x Int)) Int (ite (> x 127) (- x 256) (ite (< x (- 128)) (+ x 256) x)))
(define-fun wrap1s16 ((x Int)) Int (ite (> x 32767) (- x 65536) (ite (< x (- 32768)) (+ x 65536) x)))
(define-fun wrap1s32 ((x Int)) Int (ite (> x 2147483647) (- x 4294967296) (ite (< x (- 2147483648)) (+ x 4294967296) x)))
(define-fun wrap1s64 ((x Int)) Int (ite (> x 9223372036854775807) (- x 18446744073709551616) (ite (< x (- 9223372036854775808)) (+ x 18446744073709551616) x)))
(declare-fun tdiv (Int Int) Int)
(declare-fun tmod (Int Int) Int)
(define-fun godiv ((a Int) (b Int)) Int (ite (>= a 0) (div a b) (- (div (- a) b))))
(define-fun gomod ((a Int) (b Int)) Int (- a (* b (godiv a b))))
`

const preludeStr = `(declare-sort Str 0)
(declare-fun slen (Str) Int)
(declare-fun sbyte (Str Int) Int)
(declare-fun ssub (Str Int Int) Str)
(declare-fun sconcat (Str Str) Str)
(declare-const str_empty Str)
(assert (= (slen str_empty) 0))
(assert (forall ((s Str)) (! (>= (slen s) 0) :pattern ((slen s)))))
(assert (forall ((s Str) (i Int)) (! (and (<= 0 (sbyte s i)) (<= (sbyte s i) 255)) :pattern ((sbyte s i)))))
(assert (forall ((s Str) (a Int) (b Int)) (! (=> (and (<= 0 a) (<= a b)) (= (slen (ssub s a b)) (- b a))) :pattern ((ssub s a b)))))
(assert (forall ((s Str) (a Int) (b Int) (i Int)) (! (= (sbyte (ssub s a b) i) (sbyte s (+ a i))) :pattern ((sbyte (ssub s a b) i)))))
(assert (forall ((s Str) (t Str)) (! (= (slen (sconcat s t)) (+ (slen s) (slen t))) :pattern ((sconcat s t)))))
(assert (forall ((s Str) (t Str) (i Int)) (! (= (sbyte (sconcat s t) i) (ite (< i (slen s)) (sbyte s i) (sbyte t (- i (slen s))))) :pattern ((sbyte (sconcat s t) i)))))
`

const preludeBits = `(declare-fun bor (Int Int) Int)
(declare-fun band (Int Int) Int)
(declare-fun bxor (Int Int) Int)
(declare-fun bshl (Int Int) Int)
(declare-fun bshr (Int Int) Int)
(assert (forall ((a Int) (b Int)) (! (=> (and (>= a 0) (>= b 0)) (and (>= (bor a b) a) (>= (bor a b) b) (<= (bor a b) (+ a b)))) :pattern ((bor a b)))))
(assert (forall ((a Int) (b Int)) (! (=> (and (>= a 0) (>= b 0)) (and (>= (band a b) 0) (<= (band a b) a) (<= (band a b) b))) :pattern ((band a b)))))
(assert (forall ((a Int) (b Int)) (! (=> (and (>= a 0) (>= b 0)) (and (>= (bshr a b) 0) (<= (bshr a b) a))) :pattern ((bshr a b)))))
`

const preludePtr = `(declare-fun eptr (Int Int) Int)
(declare-fun eptr_arr (Int) Int)
(declare-fun eptr_idx (Int) Int)
(assert (forall ((a Int) (i Int)) (! (and (= (eptr_arr (eptr a i)) a) (= (eptr_idx (eptr a i)) i) (< (eptr a i) 0)) :pattern ((eptr a i)))))
(declare-fun sub (Int Int) Int)
(declare-fun sub_base (Int) Int)
(declare-fun sub_id (Int) Int)
(assert (forall ((a Int) (i Int)) (! (and (= (sub_base (sub a i)) a) (= (sub_id (sub a i)) i) (< (sub a i) 0)) :pattern ((sub a i)))))
`
