package main

import (
	"os"
	"strings"
	"sync"
)

// Cone-of-influence slicing of the per-obligation script (phase 2 of Solve).
//
// A VC consists of declarations, definitions (define-fun = macros) and global assertions (typing/range facts of loads,
// zero-initialisation of allocated objects, closedness axioms, unfoldings of spec functions ...), followed by one query
// "reach and not goal". Dropping global assertions only removes hypotheses, so any selection is SOUND for proving the
// query unsat (a `sat`/`unknown` answer of a sliced script is not a counterexample: cover obligations are never sliced).
// Kept: every assertion that mentions a non-connector symbol of the query's cone (closed under definitions and under the
// symbols of the assertions kept). Connector symbols (path conditions r!N, allocation pointers, fresh references)
// occur almost everywhere and carry no information by themselves, so they do not make an assertion relevant.
// Switch off with GCV_NOSLICE=1.

func smtSymbols(s string) []string {
	var out []string
	i := 0
	for i < len(s) {
		c := s[i]
		switch {
		case c == '|':
			j := strings.IndexByte(s[i+1:], '|')
			if j < 0 {
				return append(out, s[i:])
			}
			out = append(out, s[i:i+j+2])
			i += j + 2
		case c == '(' || c == ')' || c == ' ' || c == '\t' || c == '\n':
			i++
		case c == '"':
			j := strings.IndexByte(s[i+1:], '"')
			if j < 0 {
				return out
			}
			i += j + 2
		default:
			j := i
			for j < len(s) && s[j] != '(' && s[j] != ')' && s[j] != ' ' && s[j] != '\t' && s[j] != '\n' {
				j++
			}
			out = append(out, s[i:j])
			i = j
		}
	}
	return out
}

func isConnector(sym string) bool {
	for _, p := range []string{"r!", "alloc!", "ref!", "|$alloc@"} {
		if strings.HasPrefix(sym, p) {
			return true
		}
	}
	return false
}

type sliceLine struct {
	kind string // "decl", "def", "assert", "other"
	name string
	syms []string
}

// sliceIndex is the parsed form of a script's lines (computed once per script; slicing a function with many forgetting
// cuts asks for one cone per segment).
type sliceIndex struct {
	n        int
	first    string
	infos    []sliceLine
	defIdx   map[string]int
	declared map[string]bool
	bySym    map[string][]int // non-connector declared symbol -> assert lines mentioning it
	always   []int            // assert lines with only prelude/connector symbols
}

var sliceCache struct {
	idx *sliceIndex
}

func buildSliceIndex(lines []string) *sliceIndex {
	if c := sliceCache.idx; c != nil && c.n == len(lines) && len(lines) > 0 && c.first == lines[len(lines)-1] {
		return c
	}
	ix := &sliceIndex{n: len(lines), infos: make([]sliceLine, len(lines)), defIdx: map[string]int{}, declared: map[string]bool{}, bySym: map[string][]int{}}
	if len(lines) > 0 {
		ix.first = lines[len(lines)-1]
	}
	for i, l := range lines {
		t := strings.TrimSpace(l)
		switch {
		case strings.HasPrefix(t, "(define-fun "):
			sy := smtSymbols(t)
			if len(sy) >= 2 {
				ix.infos[i] = sliceLine{"def", sy[1], sy[2:]}
				ix.defIdx[sy[1]] = i
				ix.declared[sy[1]] = true
			}
		case strings.HasPrefix(t, "(declare-fun ") || strings.HasPrefix(t, "(declare-const "):
			sy := smtSymbols(t)
			if len(sy) >= 2 {
				ix.infos[i] = sliceLine{"decl", sy[1], nil}
				ix.declared[sy[1]] = true
			}
		case strings.HasPrefix(t, "(assert "):
			ix.infos[i] = sliceLine{"assert", "", smtSymbols(t)}
		default:
			ix.infos[i] = sliceLine{kind: "other"}
		}
	}
	for i := range ix.infos {
		if ix.infos[i].kind != "assert" {
			continue
		}
		nonConn := false
		seen := map[string]bool{}
		for _, s := range ix.infos[i].syms {
			if !ix.declared[s] || isConnector(s) || seen[s] {
				continue
			}
			seen[s] = true
			nonConn = true
			ix.bySym[s] = append(ix.bySym[s], i)
		}
		if !nonConn {
			ix.always = append(ix.always, i)
		}
	}
	return ix
}

var sliceMu sync.Mutex

func sliceLines(lines []string, query string) []string {
	if os.Getenv("GCV_NOSLICE") != "" {
		return lines
	}
	sliceMu.Lock()
	ix := buildSliceIndex(lines)
	sliceCache.idx = ix
	sliceMu.Unlock()
	infos, defIdx, declared := ix.infos, ix.defIdx, ix.declared
	cone := map[string]bool{}
	keep := make([]bool, len(lines))
	var work []string
	add := func(s string) {
		if declared[s] && !cone[s] {
			cone[s] = true
			work = append(work, s)
		}
	}
	for _, i := range ix.always {
		keep[i] = true // only prelude/connector symbols: allocation ordering, path facts (cheap, always kept)
		for _, s := range infos[i].syms {
			add(s)
		}
	}
	for _, s := range smtSymbols(query) {
		add(s)
	}
	// closure: definitions of cone symbols, and every assertion that mentions a non-connector cone symbol
	for len(work) > 0 {
		s := work[len(work)-1]
		work = work[:len(work)-1]
		if i, ok := defIdx[s]; ok {
			for _, d := range infos[i].syms {
				add(d)
			}
		}
		if isConnector(s) {
			continue
		}
		for _, i := range ix.bySym[s] {
			if keep[i] {
				continue
			}
			keep[i] = true
			for _, d := range infos[i].syms {
				add(d)
			}
		}
	}
	var out []string
	for i, l := range lines {
		switch infos[i].kind {
		case "def", "decl":
			if cone[infos[i].name] {
				out = append(out, l)
			}
		case "assert":
			if keep[i] {
				out = append(out, l)
			}
		default:
			out = append(out, l)
		}
	}
	return out
}
