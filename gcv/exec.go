package main

import (
	"fmt"
	"go/ast"
	"go/constant"
	"go/token"
	"go/types"
	"math/big"
	"sort"
	"strings"

	"golang.org/x/tools/go/ssa"
)

type edge struct {
	from, to *ssa.BasicBlock
	st       *State // state along the edge (reach includes the branch condition)
}

type loopCtx struct {
	header   *ssa.BasicBlock
	ordinal  int
	spec     *LoopSpec
	head     *State          // state right after assuming the invariant
	phiVals  map[*ssa.Phi]Val // havoced phi values
	auto     []autoInv
	body     map[*ssa.BasicBlock]bool
}

type autoInv struct {
	phi  *ssa.Phi
	name string
	mk   func(t string) string
	lim  string // "<=limit" invariants: the limit term (phi + step <= lim), "" otherwise
	step *big.Int
}

// Frame is one activation (top-level function under verification, or an inlined callee).
type Frame struct {
	closureBinds map[string]TV // captured variables for the next applyContract (modular call of a closure)
	entryReach string // reach right after the requires clauses (used by `option loop-cut-<k>`)
	hintApplied map[int]bool // `assert before` clauses that met their call site
	ghostSet   map[string]bool // ghost globals the call being applied may change (applyMods)
	ghostKnown bool
	vc       *VC
	fn       *ssa.Function
	vals     map[ssa.Value]Val
	entry    *State
	contract *Contract
	top      bool
	depth    int
	loops    map[*ssa.BasicBlock]*loopCtx
	loopOrd  map[*ssa.BasicBlock]int
	backEdge map[[2]int]bool
	rets     []retRec
	domDepth map[*ssa.BasicBlock]int
	iterSt   map[ssa.Value]*iterInfo
	prefix   string
	skipHeader *ssa.BasicBlock
	deferred []*ssa.Defer
	stopAt   map[*ssa.BasicBlock]bool
	parent   *Frame
	hintCount map[string]int
	modLocs  []modLoc
	dryBack  []*State
	trk      *trackState // final values of local variables for `assert return` (track.go)
}

type iterInfo struct {
	isMap   bool
	mapRef  string
	mapType *types.Map
	heap    string // pseudo-heap name of the visited set
	strVal  string
	idxHeap string
}

type retRec struct {
	st   *State
	vals []Val
	pos  token.Pos
}

func (vc *VC) newFrame(fn *ssa.Function, depth int) *Frame {
	fr := &Frame{vc: vc, fn: fn, vals: map[ssa.Value]Val{}, depth: depth, loops: map[*ssa.BasicBlock]*loopCtx{},
		loopOrd: map[*ssa.BasicBlock]int{}, backEdge: map[[2]int]bool{}, domDepth: map[*ssa.BasicBlock]int{}, iterSt: map[ssa.Value]*iterInfo{}}
	fr.contract = vc.eng.contractFor(fn)
	// back edges and loop ordinals
	var headers []*ssa.BasicBlock
	seen := map[*ssa.BasicBlock]bool{}
	for _, b := range fn.Blocks {
		for _, s := range b.Succs {
			if s.Dominates(b) {
				fr.backEdge[[2]int{b.Index, s.Index}] = true
				if !seen[s] {
					seen[s] = true
					headers = append(headers, s)
				}
			}
		}
	}
	sort.Slice(headers, func(i, j int) bool { return headers[i].Index < headers[j].Index })
	for i, h := range headers {
		fr.loopOrd[h] = i + 1
	}
	for _, b := range fn.Blocks {
		d := 0
		for x := b.Idom(); x != nil; x = x.Idom() {
			d++
		}
		fr.domDepth[b] = d
	}
	return fr
}

// rpo computes reverse postorder over forward edges.
func (fr *Frame) rpo() []*ssa.BasicBlock {
	var order []*ssa.BasicBlock
	seen := map[*ssa.BasicBlock]bool{}
	var dfs func(b *ssa.BasicBlock)
	dfs = func(b *ssa.BasicBlock) {
		seen[b] = true
		for _, s := range b.Succs {
			if fr.backEdge[[2]int{b.Index, s.Index}] || seen[s] {
				continue
			}
			dfs(s)
		}
		order = append(order, b)
	}
	if len(fr.fn.Blocks) > 0 {
		dfs(fr.fn.Blocks[0])
	}
	for i, j := 0, len(order)-1; i < j; i, j = i+1, j-1 {
		order[i], order[j] = order[j], order[i]
	}
	return order
}

func (fr *Frame) loopBody(h *ssa.BasicBlock) map[*ssa.BasicBlock]bool {
	body := map[*ssa.BasicBlock]bool{h: true}
	var work []*ssa.BasicBlock
	for _, p := range h.Preds {
		if fr.backEdge[[2]int{p.Index, h.Index}] && !body[p] {
			body[p] = true
			work = append(work, p)
		}
	}
	for len(work) > 0 {
		b := work[len(work)-1]
		work = work[:len(work)-1]
		for _, p := range b.Preds {
			if !body[p] {
				body[p] = true
				work = append(work, p)
			}
		}
	}
	return body
}

// ---- values ----

func (fr *Frame) val(v ssa.Value) Val {
	if x, ok := fr.vals[v]; ok {
		return x
	}
	vc := fr.vc
	switch v := v.(type) {
	case *ssa.Const:
		return vc.constVal(v)
	case *ssa.Global:
		return vc.globalPtr(v)
	case *ssa.Function:
		return Scalar{vc.funcRef(v), "Int"}
	case *ssa.Builtin:
		return Scalar{"0", "Int"}
	}
	panic(unsupported(fmt.Sprintf("value %s (%T) used before definition in %s", v.Name(), v, fr.fn.Name())))
}

func (vc *VC) funcRef(f *ssa.Function) string {
	n := sym("fn|" + f.String())
	if !vc.declared[n] {
		vc.declared[n] = true
		vc.emit(fmt.Sprintf("(declare-const %s Int)", n))
		vc.assert(lt(n, "0")) // function values are never nil and never heap refs
	}
	return n
}

func (vc *VC) constVal(c *ssa.Const) Val {
	t := c.Type()
	if c.Value == nil {
		return zeroVal(t)
	}
	switch c.Value.Kind() {
	case constant.Bool:
		if constant.BoolVal(c.Value) {
			return Scalar{"true", "Bool"}
		}
		return Scalar{"false", "Bool"}
	case constant.Int:
		bi, _ := new(big.Int).SetString(c.Value.ExactString(), 10)
		if b, ok := under(t).(*types.Basic); ok && b.Info()&types.IsFloat != 0 {
			return Scalar{bignum(bi) + ".0", "Real"}
		}
		return Scalar{bignum(bi), "Int"}
	case constant.String:
		return Scalar{vc.strLit(constant.StringVal(c.Value)), "Str"}
	case constant.Float:
		f, _ := constant.Float64Val(c.Value)
		if b, ok := under(t).(*types.Basic); ok && b.Info()&types.IsInteger != 0 {
			return Scalar{fmt.Sprintf("%d", int64(f)), "Int"}
		}
		r := new(big.Rat)
		r.SetFloat64(f)
		return Scalar{fmt.Sprintf("(/ %s.0 %s.0)", r.Num().String(), r.Denom().String()), "Real"}
	}
	panic(unsupported("constant kind " + c.Value.Kind().String()))
}

// ---- obligations ----

func (vc *VC) addOblig(kind, name string, st *State, goal string, pos token.Pos, text string) {
	if vc.dry > 0 {
		return
	}
	if goal == "true" {
		// trivially true obligations are still counted (discharged syntactically)
	}
	vc.obligs = append(vc.obligs, &Oblig{Name: name, Kind: kind, Reach: st.reach, Goal: goal, Pos: pos, Text: text, Func: vc.fn.String(), Epoch: vc.epoch})
}

// safety adds a safety obligation named by the source text of the operation.
func (fr *Frame) safety(kind string, st *State, goal string, pos token.Pos, text string) {
	vc := fr.vc
	if vc.dry > 0 {
		return
	}
	if goal == "true" {
		return
	}
	if vc.noSafety && kind != "frame" {
		return // this selection does not claim panic freedom (another check does): no obligation, and nothing assumed from it
	}
	if text == "" {
		text = fr.opText(pos)
	}
	base := shortFuncName(vc.fn) + "#" + kind + ":" + text
	if fr.depth > 0 {
		base = shortFuncName(vc.fn) + "#" + kind + ":" + fr.prefix + text
	}
	vc.safetyCount[base]++
	name := base
	if k := vc.safetyCount[base]; k > 1 {
		name = fmt.Sprintf("%s@%d", base, k)
	}
	vc.obligs = append(vc.obligs, &Oblig{Name: name, Kind: kind, Reach: st.reach, Goal: goal, Pos: pos, Text: text, Func: vc.fn.String(), Epoch: vc.epoch})
	// after the check, execution continues only if it held. Exceptions: a frame obligation that is syntactically false
	// (the write is simply not allowed: the analysis goes on, the obligation is reported) and obligations that are not
	// claimed for this check (they may be false; assuming them could make what follows vacuous).
	if goal == "false" || (vc.noAssume != nil && vc.noAssume(name, kind)) {
		return
	}
	st.reach = vc.define("r", "Bool", and(st.reach, goal))
}

// opText finds the smallest expression in the source enclosing pos (used to name safety obligations).
func (fr *Frame) opText(pos token.Pos) string {
	if !pos.IsValid() {
		return "?"
	}
	return fr.vc.eng.exprTextAt(fr.fn, pos)
}

// ---- block execution ----

func (fr *Frame) mergeStates(ins []*State) *State {
	vc := fr.vc
	if len(ins) == 1 {
		return ins[0].clone()
	}
	var rs []string
	for _, s := range ins {
		rs = append(rs, s.reach)
	}
	out := &State{reach: vc.define("r", "Bool", or(rs...)), heaps: map[string]string{}}
	names := map[string]bool{}
	for _, s := range ins {
		for k := range s.heaps {
			names[k] = true
		}
	}
	var ks []string
	for k := range names {
		ks = append(ks, k)
	}
	sort.Strings(ks)
	for _, k := range ks {
		sortK := vc.heapSorts[k]
		t := vc.heap(ins[len(ins)-1], k, sortK)
		for i := len(ins) - 2; i >= 0; i-- {
			t = ite(ins[i].reach, vc.heap(ins[i], k, sortK), t)
		}
		out.heaps[k] = vc.define("h", sortK, t)
	}
	return out
}

func (fr *Frame) mergeVals(ins []*State, vals []Val) Val {
	v := vals[len(vals)-1]
	for i := len(vals) - 2; i >= 0; i-- {
		v = fr.vc.iteVal(ins[i].reach, vals[i], v)
	}
	return v
}

// run executes the function body from state st. It returns merged results and the exit state (nil if no return is reachable).
func (fr *Frame) run(st *State) ([]Val, *State) {
	fr.entry = st.clone()
	order := fr.rpo()
	fr.runBlocks(order, fr.fn.Blocks[0], st)
	if len(fr.rets) == 0 {
		return nil, nil
	}
	var ins []*State
	for _, r := range fr.rets {
		ins = append(ins, r.st)
	}
	out := fr.mergeStates(ins)
	nres := fr.fn.Signature.Results().Len()
	var res []Val
	for i := 0; i < nres; i++ {
		var vs []Val
		for _, r := range fr.rets {
			vs = append(vs, r.vals[i])
		}
		res = append(res, fr.mergeVals(ins, vs))
	}
	return res, out
}

// runBlocks executes `order` (a topologically sorted block list) starting from entry with state st.
// Edges leaving the list are dropped (used for loop dry runs).
func (fr *Frame) runBlocks(order []*ssa.BasicBlock, entry *ssa.BasicBlock, st0 *State) {
	vc := fr.vc
	inSet := map[*ssa.BasicBlock]bool{}
	for _, b := range order {
		inSet[b] = true
	}
	incoming := map[*ssa.BasicBlock][]edge{}
	for _, b := range order {
		var st *State
		var ins []edge
		if b == entry {
			st = st0
		} else {
			ins = incoming[b]
			if len(ins) == 0 {
				continue
			}
		}
		isHeader := fr.loopOrd[b] > 0 && fr.skipHeader != b
		if isHeader {
			st = fr.enterLoop(b, ins, st)
		} else {
			if b != entry {
				var sts []*State
				for _, e := range ins {
					sts = append(sts, e.st)
				}
				st = fr.mergeStates(sts)
				// phis
				for _, ins2 := range b.Instrs {
					phi, ok := ins2.(*ssa.Phi)
					if !ok {
						break
					}
					var vs []Val
					for _, e := range ins {
						vs = append(vs, fr.phiEdgeVal(phi, b, e.from))
					}
					fr.vals[phi] = fr.mergeVals(sts, vs)
				}
			} else if fr.skipHeader == b {
				// dry run of a loop body: header phis already bound by caller
			}
		}
		if fr.trk != nil {
			var tsts []*State
			for _, e := range ins {
				tsts = append(tsts, e.st)
			}
			fr.trackEnter(b, b == entry, isHeader, ins, tsts)
		}
		// instructions
		alive := true
		for _, ins2 := range b.Instrs {
			if _, ok := ins2.(*ssa.Phi); ok {
				continue
			}
			if !fr.execInstr(ins2, st) {
				alive = false
				break
			}
		}
		fr.trackLeave(b)
		if !alive {
			continue
		}
		// terminator edges
		last := b.Instrs[len(b.Instrs)-1]
		switch t := last.(type) {
		case *ssa.If:
			c := fr.val(t.Cond).(Scalar).T
			for i, s := range b.Succs {
				cond := c
				if i == 1 {
					cond = not(c)
				}
				es := st.clone()
				es.reach = vc.define("r", "Bool", and(st.reach, cond))
				fr.addEdge(incoming, inSet, edge{b, s, es})
			}
		case *ssa.Jump:
			fr.addEdge(incoming, inSet, edge{b, b.Succs[0], st})
		}
	}
}

func (fr *Frame) addEdge(incoming map[*ssa.BasicBlock][]edge, inSet map[*ssa.BasicBlock]bool, e edge) {
	if fr.backEdge[[2]int{e.from.Index, e.to.Index}] {
		if lc := fr.loops[e.to]; lc != nil && fr.skipHeader != e.to {
			fr.loopBackEdge(lc, e)
		} else if fr.skipHeader == e.to {
			fr.dryBack = append(fr.dryBack, e.st)
		}
		return
	}
	if !inSet[e.to] {
		return
	}
	incoming[e.to] = append(incoming[e.to], e)
}

func (fr *Frame) phiEdgeVal(phi *ssa.Phi, b, from *ssa.BasicBlock) Val {
	for i, p := range b.Preds {
		if p == from {
			return fr.coerceConst(fr.val(phi.Edges[i]), phi.Type())
		}
	}
	panic("phi edge not found")
}

func (fr *Frame) coerceConst(v Val, t types.Type) Val { return v }

// ---- instruction execution; returns false if the block ends (return/panic) ----

func (fr *Frame) execInstr(ins ssa.Instruction, st *State) bool {
	vc := fr.vc
	if p := ins.Pos(); p.IsValid() {
		vc.curPos = p
	}
	if fr.trk != nil {
		fr.atLine(ins, st)
	}
	switch in := ins.(type) {
	case *ssa.DebugRef:
		fr.trackRef(in)
		return true
	case *ssa.If, *ssa.Jump:
		return true
	case *ssa.Return:
		var vals []Val
		for _, r := range in.Results {
			vals = append(vals, fr.val(r))
		}
		fr.atReturn(in, st)
		fr.runDefers(st)
		fr.rets = append(fr.rets, retRec{st: st.clone(), vals: vals, pos: in.Pos()})
		return false
	case *ssa.Panic:
		if fr.contract != nil && fr.contract.MayPanic && fr.top {
			return false
		}
		fr.safety("panic", st, "false", in.Pos(), "panic("+fr.exprText(in.X)+")")
		return false
	case *ssa.RunDefers:
		fr.runDefers(st)
		return true
	case *ssa.Defer:
		fr.deferred = append(fr.deferred, in)
		return true
	case *ssa.Go:
		vc.note("spawn: `go " + callName(&in.Call) + "` in " + fr.fn.String() + " is dropped from the VC (no interference modelled)")
		return true
	case *ssa.Store:
		addr := fr.val(in.Addr)
		p, ok := addr.(Ptr)
		if !ok {
			panic(unsupported("store through non-pointer value"))
		}
		fr.nilCheck(st, p, in.Pos(), in.Addr)
		t := in.Addr.Type().Underlying().(*types.Pointer).Elem()
		fr.frameCheck(st, p, in.Pos())
		vc.store(st, p, t, fr.val(in.Val))
		return true
	case *ssa.MapUpdate:
		m := fr.val(in.Map).(Scalar).T
		mt := in.Map.Type().Underlying().(*types.Map)
		fr.safety("nil", st, not(eq(m, "0")), in.Pos(), "")
		fr.frameCheck(st, Ptr{Root: "M|" + canon(mt), Base: m}, in.Pos())
		vc.mapUpdate(st, m, mt, fr.val(in.Key), fr.val(in.Value))
		return true
	case *ssa.Send, *ssa.Select:
		panic(unsupported("channel operation"))
	case ssa.Value:
		v := fr.execValue(in, st)
		fr.vals[in] = v
		return true
	}
	panic(unsupported(fmt.Sprintf("instruction %T", ins)))
}

func (fr *Frame) runDefers(st *State) {
	for i := len(fr.deferred) - 1; i >= 0; i-- {
		d := fr.deferred[i]
		name := callName(&d.Call)
		if isLockCall(name) {
			continue
		}
		// deferred calls are executed as ordinary calls at function exit
		fr.execCall(&d.Call, d.Pos(), st, nil)
	}
	fr.deferred = nil
}

func isLockCall(name string) bool {
	switch name {
	case "(*sync.Mutex).Lock", "(*sync.Mutex).Unlock", "(*sync.RWMutex).Lock", "(*sync.RWMutex).Unlock",
		"(*sync.RWMutex).RLock", "(*sync.RWMutex).RUnlock":
		return true
	}
	return false
}

func callName(c *ssa.CallCommon) string {
	if f := c.StaticCallee(); f != nil {
		return f.String()
	}
	if c.IsInvoke() {
		return "invoke " + c.Value.Type().String() + "." + c.Method.Name()
	}
	if b, ok := c.Value.(*ssa.Builtin); ok {
		return b.Name()
	}
	return "dynamic call"
}

func (fr *Frame) exprText(v ssa.Value) string {
	if v == nil {
		return ""
	}
	return v.Name()
}

func (fr *Frame) nilCheck(st *State, p Ptr, pos token.Pos, v ssa.Value) {
	if p.isElem() || strings.HasPrefix(p.Root, "G|") {
		return
	}
	if fr.vc.freshRefs[p.Base] {
		return
	}
	if _, isAlloc := v.(*ssa.Alloc); isAlloc {
		return
	}
	if fa, ok := v.(*ssa.FieldAddr); ok {
		_ = fa
	}
	fr.safety("nil", st, not(eq(p.Base, "0")), pos, "")
}

// execValue computes the value of a value-producing instruction.
func (fr *Frame) execValue(in ssa.Value, st *State) Val {
	vc := fr.vc
	switch in := in.(type) {
	case *ssa.Alloc:
		t := in.Type().Underlying().(*types.Pointer).Elem()
		return fr.alloc(st, t)
	case *ssa.BinOp:
		return fr.execBinOp(in, st)
	case *ssa.UnOp:
		switch in.Op {
		case token.MUL: // load
			addr := fr.val(in.X)
			p, ok := addr.(Ptr)
			if !ok {
				panic(unsupported("load through non-pointer"))
			}
			if g, ok := in.X.(*ssa.Global); ok {
				return vc.loadGlobal(st, g)
			}
			fr.nilCheck(st, p, in.Pos(), in.X)
			return vc.load(st, p, in.Type())
		case token.NOT:
			return Scalar{not(fr.val(in.X).(Scalar).T), "Bool"}
		case token.SUB:
			x := fr.val(in.X).(Scalar)
			if x.S == "Real" {
				return Scalar{app("-", x.T), "Real"}
			}
			return Scalar{vc.wrapArith(app("-", x.T), in.Type(), true), "Int"}
		case token.XOR:
			x := fr.val(in.X).(Scalar).T
			lo, _, _ := intRange(in.Type())
			if lo != nil && lo.Sign() == 0 {
				_, hi, _ := intRange(in.Type())
				return Scalar{minus(bignum(hi), x), "Int"}
			}
			return Scalar{minus(app("-", x), "1"), "Int"}
		case token.ARROW:
			panic(unsupported("channel receive"))
		}
	case *ssa.Convert:
		if sl, ok := under(in.X.Type()).(*types.Slice); ok {
			if tb, ok := under(in.Type()).(*types.Basic); ok && tb.Info()&types.IsString != 0 {
				_ = sl
				return fr.bytesToString(st, fr.val(in.X).(*SliceV))
			}
		}
		if fb, ok := under(in.X.Type()).(*types.Basic); ok && fb.Info()&types.IsString != 0 {
			if _, ok := under(in.Type()).(*types.Slice); ok {
				return fr.stringToBytes(st, fr.val(in.X).(Scalar).T, in.Type())
			}
		}
		return vc.convert(TV{fr.val(in.X), in.X.Type()}, in.Type()).V
	case *ssa.ChangeType:
		return vc.convert(TV{fr.val(in.X), in.X.Type()}, in.Type()).V
	case *ssa.ChangeInterface:
		return fr.val(in.X)
	case *ssa.MakeInterface:
		return fr.makeInterface(st, in.X.Type(), fr.val(in.X))
	case *ssa.TypeAssert:
		return fr.typeAssert(st, in)
	case *ssa.Extract:
		return fr.val(in.Tuple).(*StructV).F[in.Index]
	case *ssa.FieldAddr:
		p, ok := fr.val(in.X).(Ptr)
		if !ok {
			panic(unsupported("FieldAddr on non-pointer"))
		}
		fr.nilCheck(st, p, in.Pos(), in.X)
		return vc.fieldPtr(p, in.X.Type().Underlying().(*types.Pointer).Elem(), []int{in.Field})
	case *ssa.Field:
		return fr.val(in.X).(*StructV).F[in.Field]
	case *ssa.IndexAddr:
		idx := fr.val(in.Index).(Scalar).T
		switch xt := under(in.X.Type()).(type) {
		case *types.Slice:
			s := fr.val(in.X).(*SliceV)
			fr.safety("idx", st, and(le("0", idx), lt(idx, s.Len)), in.Pos(), "")
			return Ptr{Root: "E|" + canon(xt.Elem()), Base: s.Arr, Idx: vc.define("ix", "Int", plus(s.Off, idx))}
		case *types.Pointer:
			at := under(xt.Elem()).(*types.Array)
			p := fr.val(in.X).(Ptr)
			fr.nilCheck(st, p, in.Pos(), in.X)
			arr := vc.arrayRef(st, p)
			fr.safety("idx", st, and(le("0", idx), lt(idx, num(at.Len()))), in.Pos(), "")
			return Ptr{Root: "E|" + canon(at.Elem()), Base: arr, Idx: idx}
		}
		panic(unsupported("IndexAddr on " + in.X.Type().String()))
	case *ssa.Index:
		idx := fr.val(in.Index).(Scalar).T
		switch xt := under(in.X.Type()).(type) {
		case *types.Basic: // string
			s := fr.val(in.X).(Scalar).T
			fr.safety("idx", st, and(le("0", idx), lt(idx, app("slen", s))), in.Pos(), "")
			return Scalar{app("sbyte", s, idx), "Int"}
		case *types.Array:
			s := fr.val(in.X).(*SliceV)
			fr.safety("idx", st, and(le("0", idx), lt(idx, num(xt.Len()))), in.Pos(), "")
			return vc.load(st, Ptr{Root: "E|" + canon(xt.Elem()), Base: s.Arr, Idx: idx}, xt.Elem())
		}
		panic(unsupported("Index on " + in.X.Type().String()))
	case *ssa.Slice:
		return fr.execSlice(in, st)
	case *ssa.MakeSlice:
		ln := fr.val(in.Len).(Scalar).T
		cp := fr.val(in.Cap).(Scalar).T
		et := under(in.Type()).(*types.Slice).Elem()
		fr.safety("makelen", st, and(le("0", ln), le(ln, cp), le(cp, "72057594037927936")), in.Pos(), "")
		fr.allocCheck(st, cp, et, in.Pos())
		arr := fr.newArray(st, et)
		return &SliceV{Arr: arr, Off: "0", Len: ln, Cap: cp}
	case *ssa.MakeMap:
		r := vc.newRef(st)
		mt := under(in.Type()).(*types.Map)
		dn, ds := vc.mapHeaps(mt)
		ks := mapKeySort(mt)
		dh := vc.heap(st, dn, ds)
		vc.setHeap(st, dn, ds, sto(dh, r, "((as const "+arraySort(ks, "Bool")+") false)"))
		lh := vc.heap(st, "Ml|"+canon(mt), arraySort("Int", "Int"))
		vc.setHeap(st, "Ml|"+canon(mt), arraySort("Int", "Int"), sto(lh, r, "0"))
		return Scalar{r, "Int"}
	case *ssa.MakeChan:
		return Scalar{vc.newRef(st), "Int"}
	case *ssa.MakeClosure:
		fn := in.Fn.(*ssa.Function)
		r := vc.newRef(st)
		ci := &closureInfo{fn: fn}
		for _, b := range in.Bindings {
			ci.bindings = append(ci.bindings, fr.val(b))
		}
		vc.closures[r] = ci
		return Scalar{r, "Int"}
	case *ssa.Lookup:
		if mt, ok := under(in.X.Type()).(*types.Map); ok {
			m := fr.val(in.X).(Scalar).T
			v, ok2 := vc.mapLookup(st, m, mt, fr.val(in.Index))
			if in.CommaOk {
				return &StructV{F: []Val{v, Scalar{ok2, "Bool"}}}
			}
			return v
		}
		// string index
		s := fr.val(in.X).(Scalar).T
		idx := fr.val(in.Index).(Scalar).T
		fr.safety("idx", st, and(le("0", idx), lt(idx, app("slen", s))), in.Pos(), "")
		return Scalar{app("sbyte", s, idx), "Int"}
	case *ssa.Range:
		return fr.execRange(in, st)
	case *ssa.Next:
		return fr.execNext(in, st)
	case *ssa.Call:
		return fr.execCall(&in.Call, in.Pos(), st, in)
	case *ssa.Phi:
		panic("phi handled elsewhere")
	case *ssa.SliceToArrayPointer:
		s := fr.val(in.X).(*SliceV)
		at := under(in.Type().Underlying().(*types.Pointer).Elem()).(*types.Array)
		fr.safety("slice", st, le(num(at.Len()), s.Len), in.Pos(), "")
		if s.Off != "0" {
			panic(unsupported("slice to array pointer with offset"))
		}
		return Ptr{Root: "A|" + canon(at.Elem()), Base: s.Arr}
	}
	panic(unsupported(fmt.Sprintf("instruction %T (%s)", in, in.String())))
}

func (fr *Frame) alloc(st *State, t types.Type) Val {
	vc := fr.vc
	if at, ok := under(t).(*types.Array); ok {
		arr := fr.newArray(st, at.Elem())
		return Ptr{Root: "A|" + canon(at.Elem()), Base: arr}
	}
	r := vc.newRef(st)
	p := Ptr{Root: ptrRoot(t), Base: r}
	// zero-initialise
	for _, l := range leaves(t) {
		name, q := leafLoc(p, l.Path)
		r := q.Base
		vc.freshRefs[r] = true
		sort := vc.heapSortFor(name, l.Sort)
		h := vc.heap(st, name, sort)
		z := zeroTerm(l)
		if l.Typ != nil {
			if at, ok := under(l.Typ).(*types.Array); ok && l.Path != "" && strings.HasSuffix(l.Path, "#arr") {
				z = fr.newArray(st, at.Elem())
			}
		}
		vc.setHeap(st, name, sort, sto(h, r, z))
	}
	return p
}

// newArray allocates a zeroed backing array for elements of type et and returns its ref.
func (fr *Frame) newArray(st *State, et types.Type) string {
	vc := fr.vc
	r := vc.newRef(st)
	for _, l := range leaves(et) {
		name := "E|" + canon(et) + "|" + l.Path
		sort := vc.heapSortFor(name, l.Sort)
		h := vc.heap(st, name, sort)
		vc.setHeap(st, name, sort, sto(h, r, "((as const "+arraySort("Int", l.Sort)+") "+zeroTerm(l)+")"))
	}
	return r
}

// allocCheck: for functions checked under the "alloc" policy, every make must be bounded by the input size.
func (fr *Frame) allocCheck(st *State, n string, et types.Type, pos token.Pos) {
	vc := fr.vc
	if vc.allocBound == "" {
		return
	}
	fr.safety("alloc", st, le(n, vc.allocBound), pos, "")
}

func (fr *Frame) execBinOp(in *ssa.BinOp, st *State) Val {
	vc := fr.vc
	xt := in.X.Type()
	switch in.Op {
	case token.EQL, token.NEQ:
		r := vc.valEq(TV{fr.val(in.X), xt}, TV{fr.val(in.Y), in.Y.Type()})
		if in.Op == token.NEQ {
			r = not(r)
		}
		return Scalar{r, "Bool"}
	}
	x := fr.val(in.X).(Scalar)
	y := fr.val(in.Y).(Scalar)
	if x.S == "Bool" {
		switch in.Op {
		case token.AND, token.LAND:
			return Scalar{and(x.T, y.T), "Bool"}
		case token.OR, token.LOR:
			return Scalar{or(x.T, y.T), "Bool"}
		}
	}
	if x.S == "Str" {
		switch in.Op {
		case token.ADD:
			return Scalar{app("sconcat", x.T, y.T), "Str"}
		case token.LSS, token.LEQ, token.GTR, token.GEQ:
			r := vc.fresh("strcmp", "Bool")
			return Scalar{r, "Bool"}
		}
	}
	switch in.Op {
	case token.LSS:
		return Scalar{lt(x.T, y.T), "Bool"}
	case token.LEQ:
		return Scalar{le(x.T, y.T), "Bool"}
	case token.GTR:
		return Scalar{lt(y.T, x.T), "Bool"}
	case token.GEQ:
		return Scalar{le(y.T, x.T), "Bool"}
	}
	if x.S == "Real" {
		return Scalar{vc.arith(in.Op, x.T, y.T, in.Type(), nil), "Real"}
	}
	if in.Op == token.QUO || in.Op == token.REM {
		fr.safety("div", st, not(eq(y.T, "0")), in.Pos(), "")
	}
	var hint *orHint
	if in.Op == token.OR {
		hint = fr.orDisjoint(in)
	}
	if in.Op == token.SHL || in.Op == token.SHR {
		// shift count of signed type must be non-negative
		if lo, _, ok := intRange(in.Y.Type()); ok && lo.Sign() < 0 {
			fr.safety("shift", st, le("0", y.T), in.Pos(), "")
		}
		if c, ok := constVal(y.T); ok && c.IsInt64() && c.Int64() >= 64 {
			if in.Op == token.SHL {
				return Scalar{"0", "Int"}
			}
		}
	}
	r := vc.arith(in.Op, x.T, y.T, in.Type(), hint)
	return Scalar{vc.define("a", "Int", r), "Int"}
}

// orDisjoint recognises  (x << k) | y  where y < 2^k by its static type (through conversions from a narrower unsigned type).
func (fr *Frame) orDisjoint(in *ssa.BinOp) *orHint {
	shiftOf := func(v ssa.Value) (int64, bool) {
		for {
			switch x := v.(type) {
			case *ssa.Convert:
				// widening or same-width conversions keep the low zero bits
				v = x.X
				continue
			case *ssa.ChangeType:
				v = x.X
				continue
			case *ssa.BinOp:
				if x.Op == token.SHL {
					if c, ok := x.Y.(*ssa.Const); ok && c.Value != nil {
						if k, ok := constant.Int64Val(constant.ToInt(c.Value)); ok {
							return k, true
						}
					}
				}
			}
			return 0, false
		}
	}
	widthOf := func(v ssa.Value) int {
		for {
			switch x := v.(type) {
			case *ssa.Convert:
				ft, ok1 := under(x.X.Type()).(*types.Basic)
				tt, ok2 := under(x.Type()).(*types.Basic)
				if ok1 && ok2 && ft.Info()&types.IsInteger != 0 && tt.Info()&types.IsInteger != 0 {
					fb, fs := intBits(ft)
					tb, _ := intBits(tt)
					if !fs && fb <= tb {
						v = x.X
						continue
					}
				}
			case *ssa.ChangeType:
				v = x.X
				continue
			}
			break
		}
		if b, ok := under(v.Type()).(*types.Basic); ok && b.Info()&types.IsInteger != 0 {
			bits, signed := intBits(b)
			if !signed {
				return bits
			}
		}
		return 64
	}
	for _, pr := range [][2]ssa.Value{{in.X, in.Y}, {in.Y, in.X}} {
		if k, ok := shiftOf(pr[0]); ok && int64(widthOf(pr[1])) <= k {
			return &orHint{disjoint: true}
		}
	}
	return nil
}

func (fr *Frame) execSlice(in *ssa.Slice, st *State) Val {
	vc := fr.vc
	lo := "0"
	if in.Low != nil {
		lo = fr.val(in.Low).(Scalar).T
	}
	switch xt := under(in.X.Type()).(type) {
	case *types.Slice:
		s := fr.val(in.X).(*SliceV)
		hi := s.Len
		if in.High != nil {
			hi = fr.val(in.High).(Scalar).T
		}
		mx := s.Cap
		if in.Max != nil {
			mx = fr.val(in.Max).(Scalar).T
			fr.safety("slice", st, and(le("0", lo), le(lo, hi), le(hi, mx), le(mx, s.Cap)), in.Pos(), "")
		} else {
			fr.safety("slice", st, and(le("0", lo), le(lo, hi), le(hi, s.Cap)), in.Pos(), "")
		}
		// interval arithmetic for the leaves of the result (sound on every path: sums/differences of recorded intervals)
		ivl := func(term, a, b string, sub bool) {
			alo, ahi := vc.rangeOf(a, nil)
			blo, bhi := vc.rangeOf(b, nil)
			if alo == nil || blo == nil {
				return
			}
			if sub {
				vc.setRange(term, new(big.Int).Sub(alo, bhi), new(big.Int).Sub(ahi, blo))
			} else {
				vc.setRange(term, new(big.Int).Add(alo, blo), new(big.Int).Add(ahi, bhi))
			}
		}
		ivl(plus(s.Off, lo), s.Off, lo, false)
		ivl(minus(hi, lo), hi, lo, true)
		ivl(minus(mx, lo), mx, lo, true)
		return &SliceV{Arr: s.Arr, Off: vc.define("so", "Int", plus(s.Off, lo)), Len: vc.define("sl", "Int", minus(hi, lo)), Cap: vc.define("sc", "Int", minus(mx, lo))}
	case *types.Basic: // string
		s := fr.val(in.X).(Scalar).T
		hi := app("slen", s)
		if in.High != nil {
			hi = fr.val(in.High).(Scalar).T
		}
		fr.safety("slice", st, and(le("0", lo), le(lo, hi), le(hi, app("slen", s))), in.Pos(), "")
		return Scalar{app("ssub", s, lo, hi), "Str"}
	case *types.Pointer:
		at := under(xt.Elem()).(*types.Array)
		p := fr.val(in.X).(Ptr)
		arr := vc.arrayRef(st, p)
		n := num(at.Len())
		hi := n
		if in.High != nil {
			hi = fr.val(in.High).(Scalar).T
		}
		fr.safety("slice", st, and(le("0", lo), le(lo, hi), le(hi, n)), in.Pos(), "")
		return &SliceV{Arr: arr, Off: lo, Len: minus(hi, lo), Cap: minus(n, lo)}
	}
	panic(unsupported("Slice on " + in.X.Type().String()))
}

// ---- interfaces ----

func (fr *Frame) makeInterface(st *State, t types.Type, v Val) Val {
	vc := fr.vc
	if _, ok := under(t).(*types.Interface); ok {
		return v
	}
	vc.declIface()
	box := vc.fresh("box", "Int")
	vc.assert(lt("0", box))
	vc.assert(eq(app("itag", box), vc.typeTag(t)))
	ts := flatT(t, v)
	for i, l := range leaves(t) {
		f := vc.unboxFn(t, l)
		vc.assert(eq(app(f, box), ts[i]))
	}
	return Scalar{box, "Int"}
}

func (vc *VC) declIface() {
	if !vc.declared["itag"] {
		vc.declared["itag"] = true
		vc.emit("(declare-fun itag (Int) Int)")
		vc.assert("(= (itag 0) 0)")
	}
}

func (vc *VC) unboxFn(t types.Type, l Leaf) string {
	vc.declIface()
	f := sym("unbox|" + canonTag(t) + "|" + l.Path)
	if !vc.declared[f] {
		vc.declared[f] = true
		vc.emit(fmt.Sprintf("(declare-fun %s (Int) %s)", f, l.Sort))
		// H4 patch: interface values holding a pointer are equal iff the pointers are (Go: same dynamic type and equal
		// values). Stated for single-leaf pointer payloads only: two boxes with this tag and the same payload are one box.
		if _, isPtr := under(t).(*types.Pointer); isPtr && len(leaves(t)) == 1 && l.Sort == "Int" {
			tag := vc.typeTag(t)
			vc.emit(fmt.Sprintf("(assert (forall ((qa Int) (qb Int)) (! (=> (and (= (itag qa) %s) (= (itag qb) %s) (= (%s qa) (%s qb))) (= qa qb)) :pattern ((%s qa) (%s qb)))))", tag, tag, f, f, f, f))
		}
	}
	return f
}

func (vc *VC) unbox(box string, t types.Type) Val {
	var ts []string
	for _, l := range leaves(t) {
		ts = append(ts, app(vc.unboxFn(t, l), box))
	}
	v := build(t, &ts)
	return v
}

func (fr *Frame) typeAssert(st *State, in *ssa.TypeAssert) Val {
	vc := fr.vc
	vc.declIface()
	x := fr.val(in.X).(Scalar).T
	if _, ok := under(in.AssertedType).(*types.Interface); ok {
		// interface-to-interface assertion: succeeds iff dynamic type implements it; unknown statically
		okv := vc.fresh("iassert", "Bool")
		vc.assert(implies(okv, not(eq(x, "0"))))
		// if the static source type already implements the target, assertion succeeds iff non-nil
		if types.Implements(in.X.Type(), under(in.AssertedType).(*types.Interface)) {
			vc.assert(eq(okv, not(eq(x, "0"))))
		}
		// Go semantics of x.(I): the assertion succeeds iff x is non-nil and its dynamic type implements I. For every
		// concrete type whose tag is known to this VC the answer is static (types.Implements), so it is stated.
		vc.ifaceAsserts = append(vc.ifaceAsserts, ifaceAssert{x: x, ok: okv, iface: under(in.AssertedType).(*types.Interface)})
		var tks []string
		for k := range vc.tagTypes {
			tks = append(tks, k)
		}
		sort.Strings(tks)
		for _, k := range tks {
			vc.ifaceAssertFact(vc.ifaceAsserts[len(vc.ifaceAsserts)-1], vc.typeTags[k], vc.tagTypes[k])
		}
		if in.CommaOk {
			return &StructV{F: []Val{Scalar{ite(okv, x, "0"), "Int"}, Scalar{okv, "Bool"}}}
		}
		fr.safety("assert", st, okv, in.Pos(), "")
		return Scalar{x, "Int"}
	}
	okc := eq(app("itag", x), vc.typeTag(in.AssertedType))
	v := vc.unbox(x, in.AssertedType)
	vc.assert(implies(okc, vc.wfVal(in.AssertedType, v)))
	if in.CommaOk {
		z := zeroVal(in.AssertedType)
		return &StructV{F: []Val{vc.iteVal(okc, v, z), Scalar{okc, "Bool"}}}
	}
	fr.safety("assert", st, okc, in.Pos(), "")
	return v
}

// ---- strings <-> bytes ----

func (fr *Frame) bytesToString(st *State, s *SliceV) Val {
	vc := fr.vc
	n := vc.fresh("b2s", "Str")
	h := vc.byteHeap(st)
	i := vc.freshName("q_i")
	vc.assert(eq(app("slen", n), s.Len))
	vc.assert(forall([][2]string{{i, "Int"}}, implies(and(le("0", i), lt(i, s.Len)), eq(app("sbyte", n, i), sel2(h, s.Arr, plus(s.Off, i))))))
	return Scalar{n, "Str"}
}

func (fr *Frame) stringToBytes(st *State, s string, t types.Type) Val {
	vc := fr.vc
	arr := vc.newRef(st)
	name := "E|uint8|"
	sort := vc.heapSortFor(name, "Int")
	h := vc.heap(st, name, sort)
	a := vc.fresh("s2b", arraySort("Int", "Int"))
	i := vc.freshName("q_i")
	vc.assert(forall([][2]string{{i, "Int"}}, implies(and(le("0", i), lt(i, app("slen", s))), eq(sel(a, i), app("sbyte", s, i)))))
	vc.setHeap(st, name, sort, sto(h, arr, a))
	l := app("slen", s)
	return &SliceV{Arr: arr, Off: "0", Len: l, Cap: l}
}

// ---- range / next ----

func (fr *Frame) execRange(in *ssa.Range, st *State) Val {
	vc := fr.vc
	switch xt := under(in.X.Type()).(type) {
	case *types.Map:
		ks := mapKeySort(xt)
		vc.n++
		hn := fmt.Sprintf("$it|%s|%d", canon(xt), vc.n)
		sort := arraySort(ks, "Bool")
		vc.heapSorts[hn] = sort
		st.heaps[hn] = "((as const " + sort + ") false)"
		fr.iterSt[in] = &iterInfo{isMap: true, mapRef: fr.val(in.X).(Scalar).T, mapType: xt, heap: hn}
		return Scalar{"0", "Int"}
	case *types.Basic:
		vc.n++
		hn := fmt.Sprintf("$its|%d", vc.n)
		vc.heapSorts[hn] = "Int"
		st.heaps[hn] = "0"
		fr.iterSt[in] = &iterInfo{strVal: fr.val(in.X).(Scalar).T, idxHeap: hn}
		return Scalar{"0", "Int"}
	}
	panic(unsupported("range over " + in.X.Type().String()))
}

func (fr *Frame) execNext(in *ssa.Next, st *State) Val {
	vc := fr.vc
	it := fr.iterSt[in.Iter]
	if it == nil {
		panic(unsupported("next on unknown iterator"))
	}
	if it.isMap {
		mt := it.mapType
		ks := mapKeySort(mt)
		sort := arraySort(ks, "Bool")
		visited := vc.heap(st, it.heap, sort)
		k := vc.freshVal("rk", mt.Key())
		kt := flat(k)[0]
		okv := vc.fresh("rok", "Bool")
		dom := vc.mapDom(st, it.mapRef, mt)
		q := vc.freshName("q_k")
		// ok => k in dom \ visited ; !ok => dom subset of visited
		fact := and(implies(okv, and(sel(dom, kt), not(sel(visited, kt)))),
			implies(not(okv), forall([][2]string{{q, ks}}, implies(sel(dom, q), sel(visited, q)))))
		st.reach = vc.define("r", "Bool", and(st.reach, fact))
		v, _ := vc.mapLookup(st, it.mapRef, mt, k)
		vc.setHeap(st, it.heap, sort, ite(okv, sto(visited, kt, "true"), visited))
		if vc.logStores {
			vc.storeLog = append(vc.storeLog, storeRec{heap: it.heap, whole: true})
		}
		return &StructV{F: []Val{Scalar{okv, "Bool"}, k, v}}
	}
	// string iteration: yields (ok, index, rune)
	idx := vc.heap(st, it.idxHeap, "Int")
	s := it.strVal
	okc := lt(idx, app("slen", s))
	r := vc.fresh("rune", "Int")
	w := vc.fresh("runew", "Int")
	b0 := app("sbyte", s, idx)
	vc.assert(and(le("0", r), le(r, "1114111"), le("1", w), le(w, "4")))
	// the hidden byte index of a string range loop starts at 0 and only advances by rune widths that fit:
	// 0 <= idx <= len(s) is an invariant of the iterator itself (the hidden heap is havoced at loop heads).
	st.reach = vc.define("r", "Bool", and(st.reach, le("0", idx), le(idx, app("slen", s))))
	st.reach = vc.define("r", "Bool", and(st.reach, implies(okc, and(le(plus(idx, w), app("slen", s)),
		implies(lt(b0, "128"), and(eq(r, b0), eq(w, "1"))), implies(le("128", b0), le("128", r))))))
	vc.setHeap(st, it.idxHeap, "Int", ite(okc, plus(idx, w), idx))
	if vc.logStores {
		vc.storeLog = append(vc.storeLog, storeRec{heap: it.idxHeap, whole: true})
	}
	return &StructV{F: []Val{Scalar{okc, "Bool"}, Scalar{idx, "Int"}, Scalar{r, "Int"}}}
}

// exprTextAt returns the source text of the smallest expression node that starts at or encloses pos.
func (e *Engine) exprTextAt(fn *ssa.Function, pos token.Pos) string {
	var root ast.Node
	f := fn
	for f != nil && root == nil {
		if s := f.Syntax(); s != nil {
			root = s
		}
		f = f.Parent()
	}
	if root == nil {
		return e.posString(pos)
	}
	var best ast.Node
	ast.Inspect(root, func(n ast.Node) bool {
		if n == nil {
			return false
		}
		if n.Pos() <= pos && pos < n.End() {
			switch n.(type) {
			case *ast.IndexExpr, *ast.SliceExpr, *ast.CallExpr, *ast.StarExpr, *ast.SelectorExpr, *ast.BinaryExpr, *ast.TypeAssertExpr, *ast.UnaryExpr, *ast.CompositeLit:
				// choose the smallest node whose "operator position" is pos, else smallest enclosing
				best = n
			}
			return true
		}
		return false
	})
	// prefer nodes whose characteristic position equals pos
	var exact ast.Node
	ast.Inspect(root, func(n ast.Node) bool {
		if n == nil {
			return false
		}
		if !(n.Pos() <= pos && pos < n.End()) {
			return false
		}
		switch x := n.(type) {
		case *ast.IndexExpr:
			if x.Lbrack == pos {
				exact = n
			}
		case *ast.SliceExpr:
			if x.Lbrack == pos {
				exact = n
			}
		case *ast.CallExpr:
			if x.Lparen == pos {
				exact = n
			}
		case *ast.BinaryExpr:
			if x.OpPos == pos {
				exact = n
			}
		case *ast.StarExpr:
			if x.Star == pos {
				exact = n
			}
		case *ast.SelectorExpr:
			if x.Sel.Pos() == pos {
				exact = n
			}
		case *ast.UnaryExpr:
			if x.OpPos == pos {
				exact = n
			}
		}
		return true
	})
	if exact != nil {
		best = exact
	}
	if best == nil {
		return e.posString(pos)
	}
	t := e.srcText(best)
	if len(t) > 80 {
		t = t[:80]
	}
	return t
}
