package main

import (
	"fmt"
	"go/ast"
	"go/token"
	"go/types"
	"math/big"

	"golang.org/x/tools/go/ssa"
)

// Final values of local variables (`assert return e`).
//
// go/ssa removes the phi of a local variable that is dead after a join (e.g. the write cursor `pos` of a generated
// encoder after its last field), so "the value of pos when the function returns" is in general not an SSA value. It is
// reconstructed here, soundly, from the debug references the SSA builder emits (mode GlobalDebug): a DebugRef of a local
// variable v (as operand or as assignment target) records the SSA value v has AT THAT POINT of the block. Hence
//
//	out(B) = X of the last DebugRef of v in B, or in(B) if B has none;
//	in(B)  = the phi of v in B if go/ssa kept one; otherwise the merge of out(P) over the incoming edges P->B under the
//	         edges' path conditions (exactly the phi go/ssa dropped); at a loop head without a phi, the value on the entry
//	         edges if the loop does not assign v, unknown otherwise.
//
// "Unknown" makes the clause a contract error (reported, never silently dropped). Only obligations are generated from
// these values; nothing else in the VC depends on them.

type trackState struct {
	names  map[string]types.Type                 // tracked local variable names -> type
	ambig  map[string]bool                       // two distinct variables share the name: not trackable
	cur    map[string]Val                        // values at the current point of the block being executed
	reg    map[string]ssa.Value                  // the SSA register that holds the variable at the current point (if any)
	outReg map[*ssa.BasicBlock]map[string]ssa.Value
	out    map[*ssa.BasicBlock]map[string]Val    // values at the end of executed blocks
	nret   int
	cutDone map[int]bool // `assert at` cuts already applied (index into Contract.AtLine)
}

// initTrack: which local variables do the `assert return` clauses mention?
func (fr *Frame) initTrack() {
	if fr.contract == nil || (len(fr.contract.AtReturn) == 0 && len(fr.contract.AtLine) == 0) {
		return
	}
	locals := map[string]types.Object{}
	ambig := map[string]bool{}
	params := map[string]bool{}
	for _, p := range fr.fn.Params {
		params[p.Name()] = true
	}
	for _, b := range fr.fn.Blocks {
		for _, in := range b.Instrs {
			d, ok := in.(*ssa.DebugRef)
			if !ok {
				continue
			}
			o, ok := d.Object().(*types.Var)
			if !ok || o.IsField() || o.Pkg() == nil || o.Parent() == o.Pkg().Scope() || params[o.Name()] {
				continue
			}
			if old, have := locals[o.Name()]; have && old != o {
				ambig[o.Name()] = true
			}
			locals[o.Name()] = o
		}
	}
	ts := &trackState{names: map[string]types.Type{}, ambig: ambig, cur: map[string]Val{}, out: map[*ssa.BasicBlock]map[string]Val{},
		reg: map[string]ssa.Value{}, outReg: map[*ssa.BasicBlock]map[string]ssa.Value{}}
	var clauses []Clause
	clauses = append(clauses, fr.contract.AtReturn...)
	for _, lc := range fr.contract.AtLine {
		clauses = append(clauses, lc.C)
	}
	ts.cutDone = map[int]bool{}
	for _, c := range clauses {
		ast.Inspect(c.Expr, func(n ast.Node) bool {
			if sel, ok := n.(*ast.SelectorExpr); ok {
				ast.Inspect(sel.X, func(m ast.Node) bool {
					if id, ok := m.(*ast.Ident); ok {
						if o, have := locals[id.Name]; have {
							ts.names[id.Name] = o.Type()
						}
					}
					return true
				})
				return false
			}
			if id, ok := n.(*ast.Ident); ok {
				if o, have := locals[id.Name]; have {
					ts.names[id.Name] = o.Type()
				}
			}
			return true
		})
	}
	fr.trk = ts
}

// trackEnter computes in(B) for the tracked variables. ins/sts are the incoming (non-back) edges and their states.
func (fr *Frame) trackEnter(b *ssa.BasicBlock, isEntry, isHeader bool, ins []edge, sts []*State) {
	ts := fr.trk
	if ts == nil {
		return
	}
	ts.cur = map[string]Val{}
	ts.reg = map[string]ssa.Value{}
	if isEntry {
		return
	}
	for name, typ := range ts.names {
		var phi *ssa.Phi
		for _, p := range headerPhis(b) {
			if p.Comment == name && types.Identical(p.Type(), typ) {
				phi = p
			}
		}
		if phi != nil {
			if v, ok := fr.vals[phi]; ok {
				ts.cur[name] = v
				ts.reg[name] = phi
			}
			continue
		}
		if isHeader && fr.assignedInLoop(name, b) {
			continue // unknown
		}
		var vs []Val
		ok := len(ins) > 0
		for _, e := range ins {
			v, have := ts.out[e.from][name]
			if !have {
				ok = false
				break
			}
			vs = append(vs, v)
		}
		if !ok {
			continue
		}
		same := true
		for _, v := range vs[1:] {
			if fmt.Sprint(v) != fmt.Sprint(vs[0]) {
				same = false
			}
		}
		if same {
			ts.cur[name] = vs[0]
			// the same register on every incoming edge: it still holds the variable
			var r0 ssa.Value
			sameReg := true
			for i, e := range ins {
				r := ts.outReg[e.from][name]
				if i == 0 {
					r0 = r
				} else if r != r0 {
					sameReg = false
				}
			}
			if sameReg && r0 != nil {
				ts.reg[name] = r0
			}
		} else {
			ts.cur[name] = fr.mergeVals(sts, vs)
		}
	}
}

// trackRef: a debug reference of a tracked variable fixes its value at this point.
func (fr *Frame) trackRef(d *ssa.DebugRef) {
	ts := fr.trk
	if ts == nil || d.IsAddr || d.X == nil {
		return
	}
	o, ok := d.Object().(*types.Var)
	if !ok || o.IsField() {
		return
	}
	if _, tracked := ts.names[o.Name()]; !tracked {
		return
	}
	if v, have := fr.vals[d.X]; have {
		ts.cur[o.Name()] = v
		ts.reg[o.Name()] = d.X
	} else if c, isC := d.X.(*ssa.Const); isC {
		ts.cur[o.Name()] = fr.vc.constVal(c)
		delete(ts.reg, o.Name())
	}
}

func (fr *Frame) trackLeave(b *ssa.BasicBlock) {
	ts := fr.trk
	if ts == nil {
		return
	}
	m := make(map[string]Val, len(ts.cur))
	for k, v := range ts.cur {
		m[k] = v
	}
	ts.out[b] = m
	r := make(map[string]ssa.Value, len(ts.reg))
	for k, v := range ts.reg {
		r[k] = v
	}
	ts.outReg[b] = r
}

// assignedInLoop: does the loop with header h assign the local variable name? (Then a header without a phi for it means
// go/ssa found the variable dead at the loop head; its value there is not reconstructed.)
func (fr *Frame) assignedInLoop(name string, h *ssa.BasicBlock) bool {
	body := fr.loopBody(h)
	for b := range body {
		for _, in := range b.Instrs {
			switch x := in.(type) {
			case *ssa.Phi:
				if x.Comment == name {
					return true
				}
			case *ssa.DebugRef:
				if o, ok := x.Object().(*types.Var); ok && !o.IsField() && o.Name() == name {
					if xi, isInstr := x.X.(ssa.Instruction); isInstr && body[xi.Block()] {
						return true
					}
				}
			}
		}
	}
	return false
}

// localEnv: contract environment in which tracked local variables denote their current values.
func (fr *Frame) localEnv(st *State, what string) *Env {
	ts := fr.trk
	env := fr.baseEnv(st)
	env.old = fr.entry
	env.lookup = func(name string) (TV, bool) {
		if ts.ambig[name] {
			panic(contractError(what + ": two local variables are called " + name + "; their values are not tracked"))
		}
		typ, tracked := ts.names[name]
		if !tracked {
			return TV{}, false
		}
		v, have := ts.cur[name]
		if !have {
			panic(contractError(what + ": the value of local variable " + name + " at this point is not known (assigned in a loop whose head has no phi for it, or not assigned yet)"))
		}
		return TV{v, typ}, true
	}
	return env
}

// atLine: `assert at <line> e` - a proof cut at the first instruction (in execution order) of the statement that starts on
// that source line: e is proved there and assumed from there on. Only obligations and assumptions PROVED at that very point
// are added, so the cut is sound wherever the anchor lies; the generator anchors cuts at top-level statements.
func (fr *Frame) atLine(ins ssa.Instruction, st *State) {
	if !fr.top || fr.contract == nil || len(fr.contract.AtLine) == 0 || fr.trk == nil || fr.vc.dry > 0 {
		return
	}
	p := ins.Pos()
	if !p.IsValid() {
		return
	}
	line := fr.vc.eng.Fset.Position(p).Line
	vc := fr.vc
	for i, lc := range fr.contract.AtLine {
		if lc.Line != line || fr.trk.cutDone[i] {
			continue
		}
		fr.trk.cutDone[i] = true
		env := fr.localEnv(st, "assert at")
		c := lc.C
		goal := func() (g string) {
			defer func() {
				if r := recover(); r != nil {
					if ce, ok := r.(contractError); ok {
						panic(contractError(fmt.Sprintf("%s:%d: `assert at %d %s`: %s", c.File, c.Line, lc.Line, c.Text, string(ce))))
					}
					panic(r)
				}
			}()
			return env.evalBool(c.Expr)
		}()
		an := fmt.Sprintf("%s#assert:line%d.%d", shortFuncName(vc.fn), lc.Line, i+1)
		vc.addOblig("assert", an, st, goal, p, c.Text)
		if vc.noAssume != nil && vc.noAssume(an, "assert") {
			continue
		}
		if fr.contract.Options["cut-forget"] && fr.entryReach != "" {
			// `option cut-forget`: from the cut on, only the function's entry facts (requires, parameter typing) and the cut
			// itself are assumed; path conditions and safety facts collected on the way are forgotten, and the local
			// variables the cut speaks about are replaced by fresh values of which only the cut is known (like the
			// variables of a loop at its head). Assuming less is sound; what the code after the cut needs must be part of
			// the cut (it was proved for the real values in the full context). The generator anchors such cuts at top-level
			// statements, whose first instruction dominates everything that follows.
			for name, typ := range fr.trk.names {
				reg := fr.trk.reg[name]
				if reg == nil {
					continue
				}
				if _, isConst := reg.(*ssa.Const); isConst {
					continue
				}
				if _, have := fr.vals[reg]; !have {
					continue
				}
				nv := vc.freshVal("cut_"+name, typ)
				fr.vals[reg] = nv
				fr.trk.cur[name] = nv
			}
			// a conjunct `v <= C` of the cut bounds the fresh value of v on every path that follows (all of them assume the cut)
			for _, cj := range conjuncts(c.Expr) {
				be, ok := cj.(*ast.BinaryExpr)
				if !ok || be.Op != token.LEQ {
					continue
				}
				id, ok1 := be.X.(*ast.Ident)
				lit, ok2 := be.Y.(*ast.BasicLit)
				if !ok1 || !ok2 || lit.Kind != token.INT {
					continue
				}
				nv, have := fr.trk.cur[id.Name]
				typ := fr.trk.names[id.Name]
				sc, isScalar := nv.(Scalar)
				if !have || !isScalar || typ == nil {
					continue
				}
				hi, okc := new(big.Int).SetString(lit.Value, 0)
				lo, thi, okr := intRange(typ)
				if okc && okr && hi.Cmp(thi) <= 0 && hi.Cmp(lo) >= 0 {
					vc.setRange(sc.T, lo, hi)
				}
			}
			env2 := fr.localEnv(st, "assert at")
			goal2 := env2.evalBool(c.Expr)
			st.reach = vc.define("r", "Bool", and(fr.entryReach, goal2))
			vc.epoch++ // what follows depends on nothing generated before this point but the entry facts (solve.go groups by it)
			continue
		}
		st.reach = vc.define("r", "Bool", and(st.reach, goal))
	}
}

// conjuncts splits a && b && c (through parentheses).
func conjuncts(x ast.Expr) []ast.Expr {
	switch y := x.(type) {
	case *ast.ParenExpr:
		return conjuncts(y.X)
	case *ast.BinaryExpr:
		if y.Op == token.LAND {
			return append(conjuncts(y.X), conjuncts(y.Y)...)
		}
	}
	return []ast.Expr{x}
}

// atReturn generates the obligations of the `assert return` clauses at a return statement of the top frame.
func (fr *Frame) atReturn(in *ssa.Return, st *State) {
	if !fr.top || fr.contract == nil || len(fr.contract.AtReturn) == 0 || fr.vc.dry > 0 {
		return
	}
	vc := fr.vc
	ts := fr.trk
	ts.nret++
	for i, c := range fr.contract.AtReturn {
		env := fr.baseEnv(st)
		env.old = fr.entry
		env.lookup = func(name string) (TV, bool) {
			if ts.ambig[name] {
				panic(contractError("assert return: two local variables are called " + name + "; their final values are not tracked"))
			}
			typ, tracked := ts.names[name]
			if !tracked {
				return TV{}, false
			}
			v, have := ts.cur[name]
			if !have {
				panic(contractError("assert return: the value of local variable " + name + " at the return is not known (assigned in a loop whose head has no phi for it, or never assigned)"))
			}
			return TV{v, typ}, true
		}
		// never dropped, also when the clause comes from a schema: a clause that does not resolve is contract drift
		goal := func() (g string) {
			defer func() {
				if r := recover(); r != nil {
					if ce, ok := r.(contractError); ok {
						panic(contractError(fmt.Sprintf("%s:%d: `assert return %s`: %s", c.File, c.Line, c.Text, string(ce))))
					}
					panic(r)
				}
			}()
			return env.evalBool(c.Expr)
		}()
		an := fmt.Sprintf("%s#assert:return.%d", shortFuncName(vc.fn), i+1)
		if ts.nret > 1 {
			an = fmt.Sprintf("%s#assert:return@%d.%d", shortFuncName(vc.fn), ts.nret, i+1)
		}
		vc.addOblig("assert", an, st, goal, in.Pos(), c.Text)
	}
}
