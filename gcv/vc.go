package main

import (
	"os"
	"fmt"
	"go/ast"
	"go/parser"
	"go/token"
	"go/types"
	"math/big"
	"regexp"
	"sort"
	"strings"

	"golang.org/x/tools/go/ssa"
)

// Oblig is one proof obligation: under Reach, Goal must hold.
type Oblig struct {
	Name   string
	Kind   string
	Reach  string
	Goal   string
	Pos    token.Pos
	Text   string // source text / clause text
	Func   string
	IsCover bool // a query that must be SAT (vacuity guard)
	Epoch   int  // number of forgetting cuts (`option cut-forget`) passed before this obligation was generated
}

// State is a symbolic program state: path condition + heap versions.
type State struct {
	reach string
	heaps map[string]string
}

func (s *State) clone() *State {
	n := &State{reach: s.reach, heaps: make(map[string]string, len(s.heaps))}
	for k, v := range s.heaps {
		n.heaps[k] = v
	}
	return n
}

type storeRec struct {
	heap  string
	base  string
	whole bool // whole heap havoc
}

// VC accumulates the verification condition of one top-level function.
type VC struct {
	noAssume func(name, kind string) bool // obligations that are not claimed: nothing is assumed from them afterwards
	closedAllocs []*State // states just before own allocations (option heap-closedness)
	noRebase  bool
	binderRange bool // `option binder-range`: forallIn binders carry the interval of their guard
	nameWraps bool
	binderTyping bool
	closedMapSlices bool // option closed-map-slices: entry closedness of Mv|...|#arr heaps
	nilBaseUnwritten bool // option nil-base-unwritten
	specRange    bool // option spec-range: typing axiom for uninterpreted spec functions of integer type
	binderFacts [][]string
	eng       *Engine
	fn        *ssa.Function
	lines     []string
	n         int
	obligs    []*Oblig
	heapSorts map[string]string
	declared  map[string]bool
	notes     map[string]bool // assumptions used (externals, trusted contracts)
	strLits   map[string]string
	typeTags  map[string]int
	freshRefs map[string]bool
	regionIDs  map[string]int    // H4 patch (allocset.go)
	regionSets []map[string]bool // H4 patch (allocset.go)
	ownRefs   []string // references allocated by the function under verification, in order
	ownRefReach []string // path condition at each of those allocations
	storeLog  []storeRec
	logStores bool
	dry       int
	specFoot  map[string][]string
	specDecl  map[string]bool
	recSpec   map[string]bool
	heapReads map[string]bool // footprint tracking
	trackReads bool
	safetyCount map[string]int
	errGlobals []string
	inlineDepth int
	ufDecl    map[string]bool
	curPos    token.Pos
	unfolded  map[string]bool
	ifaceAsserts []ifaceAssert
	closures  map[string]*closureInfo
	callCount map[string]int
	noFrame   bool
	allocBound string
	footBusy  map[string]bool
	rng       map[string][2]*big.Int
	tagTypes  map[string]types.Type
	inBinder  int
	paramInvs map[string]string
	opaque    map[string]bool
	closedness bool
	noSafety  bool // VerifyOpts.NoSafety
	specRanges bool // `option spec-ranges` (eval.go inlineSpec)
	epoch     int  // forgetting cuts passed so far (Oblig.Epoch)
	lenTerms  []string
}

func NewVC(eng *Engine, fn *ssa.Function) *VC {
	return &VC{noRebase: os.Getenv("GCV_REBASE") == "0", nameWraps: os.Getenv("GCV_NAMEWRAPS") != "0", binderTyping: os.Getenv("GCV_BINDERTYPING") != "0", eng: eng, fn: fn, heapSorts: map[string]string{}, declared: map[string]bool{}, notes: map[string]bool{},
		strLits: map[string]string{}, typeTags: map[string]int{}, freshRefs: map[string]bool{}, specFoot: map[string][]string{},
		specDecl: map[string]bool{}, recSpec: map[string]bool{}, safetyCount: map[string]int{}, ufDecl: map[string]bool{}, unfolded: map[string]bool{}}
}

func (vc *VC) emit(s string) {
	vc.lines = append(vc.lines, s)
}

func (vc *VC) note(s string) { vc.notes[s] = true }

// Typing facts of heap reads under a binder (type ranges, slice well-formedness, references below the allocation
// pointer) cannot be asserted globally because they mention the bound variable; they are collected per binder and
// attached to the quantifier body as a guard (forall: facts => body; exists: facts and body). They hold in every
// well-typed state, so the guard changes the meaning of no clause.
func (vc *VC) enterBinder() {
	vc.inBinder++
	vc.binderFacts = append(vc.binderFacts, nil)
}

func (vc *VC) exitBinder() []string {
	vc.inBinder--
	n := len(vc.binderFacts)
	fs := vc.binderFacts[n-1]
	vc.binderFacts = vc.binderFacts[:n-1]
	return fs
}

func (vc *VC) binderFact(f string) {
	if !vc.binderTyping || len(vc.binderFacts) == 0 {
		return
	}
	n := len(vc.binderFacts)
	for _, g := range vc.binderFacts[n-1] {
		if g == f {
			return
		}
	}
	vc.binderFacts[n-1] = append(vc.binderFacts[n-1], f)
}

func (vc *VC) freshName(prefix string) string {
	vc.n++
	prefix = strings.Map(func(r rune) rune {
		if r >= 'a' && r <= 'z' || r >= 'A' && r <= 'Z' || r >= '0' && r <= '9' || r == '_' {
			return r
		}
		return '_'
	}, prefix)
	return fmt.Sprintf("%s!%d", prefix, vc.n)
}

var freshRe = regexp.MustCompile(`!(\d+)`)

// mentionsFreshSince reports whether term mentions a symbol created after mark.
func mentionsFreshSince(term string, mark int) bool {
	for _, m := range freshRe.FindAllStringSubmatch(term, -1) {
		var k int
		fmt.Sscanf(m[1], "%d", &k)
		if k > mark {
			return true
		}
	}
	return false
}

func (vc *VC) fresh(prefix, sort string) string {
	n := vc.freshName(prefix)
	vc.emit(fmt.Sprintf("(declare-const %s %s)", n, sort))
	return n
}

// define names a term (keeps scripts linear in size).
func (vc *VC) define(prefix, sort, term string) string {
	if len(term) < 48 || vc.inBinder > 0 {
		return term
	}
	n := vc.freshName(prefix)
	vc.emit(fmt.Sprintf("(define-fun %s () %s %s)", n, sort, term))
	if r, ok := vc.rng[term]; ok {
		vc.rng[n] = r
	}
	return n
}

func (vc *VC) setRange(term string, lo, hi *big.Int) {
	if vc.rng == nil {
		vc.rng = map[string][2]*big.Int{}
	}
	vc.rng[term] = [2]*big.Int{lo, hi}
}

// rangeOf returns a sound interval for an integer term of Go type t.
func (vc *VC) rangeOf(term string, t types.Type) (*big.Int, *big.Int) {
	if c, ok := constVal(term); ok {
		return c, c
	}
	if r, ok := vc.rng[term]; ok {
		return r[0], r[1]
	}
	if t != nil {
		if lo, hi, ok := intRange(t); ok {
			return lo, hi
		}
	}
	return nil, nil
}

func within(lo, hi *big.Int, t types.Type) bool {
	tlo, thi, ok := intRange(t)
	if !ok || lo == nil || hi == nil {
		return false
	}
	return lo.Cmp(tlo) >= 0 && hi.Cmp(thi) <= 0
}

func (vc *VC) assert(t string) {
	if t == "true" {
		return
	}
	vc.emit("(assert " + t + ")")
}

// freshVal makes a fresh symbolic value of Go type t with type-range and well-formedness facts asserted globally.
func (vc *VC) freshVal(prefix string, t types.Type) Val {
	var ts []string
	for _, l := range leaves(t) {
		n := vc.fresh(prefix+strings.ReplaceAll(strings.ReplaceAll(l.Path, "#", "_"), ".", "_"), l.Sort)
		ts = append(ts, n)
	}
	v := build(t, &ts)
	vc.assert(vc.wfVal(t, v))
	return v
}

// wfVal: type-range / well-formedness facts for a value of type t.
func (vc *VC) wfVal(t types.Type, v Val) string {
	switch u := under(t).(type) {
	case *types.Struct:
		var fs []string
		sv := v.(*StructV)
		for i := 0; i < u.NumFields(); i++ {
			fs = append(fs, vc.wfVal(u.Field(i).Type(), sv.F[i]))
		}
		return and(fs...)
	case *types.Tuple:
		var fs []string
		sv := v.(*StructV)
		for i := 0; i < u.Len(); i++ {
			fs = append(fs, vc.wfVal(u.At(i).Type(), sv.F[i]))
		}
		return and(fs...)
	case *types.Slice:
		s := v.(*SliceV)
		// A-MEM: no backing array has more than 2^48 elements, hence off+cap <= 2^48 (cap <= 2^48 was already stated).
		// The intervals of the three integer leaves are recorded exactly like those of integer values of basic type
		// (case *types.Basic below), so that index arithmetic over them needs no wrap-around function.
		for _, x := range []string{s.Off, s.Len, s.Cap} {
			if _, isC := constVal(x); !isC {
				vc.setRange(x, big.NewInt(0), pow2(48))
			}
		}
		return and(le("0", s.Arr), le("0", s.Off), le("0", s.Len), le(s.Len, s.Cap), le(s.Cap, "281474976710656"),
			le(plus(s.Off, s.Cap), "281474976710656"),
			implies(eq(s.Arr, "0"), and(eq(s.Cap, "0"), eq(s.Off, "0"))))
	case *types.Array:
		return le("1", v.(*SliceV).Arr)
	case *types.Pointer, *types.Map, *types.Chan, *types.Signature, *types.Interface:
		return le("0", flat(v)[0])
	case *types.Basic:
		if lo, hi, ok := intRange(t); ok {
			vc.setRange(v.(Scalar).T, lo, hi)
		}
		return rangeFact(t, v.(Scalar).T)
	}
	return "true"
}

func (vc *VC) strLit(s string) string {
	if n, ok := vc.strLits[s]; ok {
		return n
	}
	if s == "" {
		return "str_empty"
	}
	n := vc.fresh("strlit", "Str")
	vc.strLits[s] = n
	fs := []string{eq(app("slen", n), num(int64(len(s))))}
	if len(s) <= 64 {
		for i := 0; i < len(s); i++ {
			fs = append(fs, eq(app("sbyte", n, num(int64(i))), num(int64(s[i]))))
		}
	}
	vc.assert(and(fs...))
	// distinct literals are distinct strings
	for o, on := range vc.strLits {
		if o != s {
			vc.assert(not(eq(n, on)))
		}
	}
	return n
}

func (vc *VC) typeTag(t types.Type) string {
	k := canonTag(t)
	if n, ok := vc.typeTags[k]; ok {
		return num(int64(n))
	}
	n := len(vc.typeTags) + 1
	vc.typeTags[k] = n
	if vc.tagTypes == nil {
		vc.tagTypes = map[string]types.Type{}
	}
	vc.tagTypes[k] = t
	for _, ia := range vc.ifaceAsserts {
		vc.ifaceAssertFact(ia, n, t)
	}
	return num(int64(n))
}

// ifaceAssert records an interface-to-interface type assertion x.(I) whose success flag is ok.
type ifaceAssert struct {
	x, ok string
	iface *types.Interface
}

// ifaceAssertFact: if the dynamic type of x is the concrete type t (tag n), x.(I) succeeds iff x != nil and t implements I.
func (vc *VC) ifaceAssertFact(ia ifaceAssert, n int, t types.Type) {
	if _, isIface := under(t).(*types.Interface); isIface {
		return
	}
	tagIs := eq(app("itag", ia.x), num(int64(n)))
	if types.Implements(t, ia.iface) {
		vc.assert(implies(and(tagIs, not(eq(ia.x, "0"))), ia.ok))
	} else {
		vc.assert(implies(tagIs, not(ia.ok)))
	}
}

// canonTag distinguishes named types (unlike canon, which erases names of non-struct types).
func canonTag(t types.Type) string {
	return types.TypeString(types.Unalias(t), nil)
}

// ---- heaps ----

func (vc *VC) heapSortFor(name string, leafSort string) string {
	switch {
	case strings.HasPrefix(name, "E|"):
		return arraySort("Int", arraySort("Int", leafSort))
	}
	return arraySort("Int", leafSort)
}

// heap returns the current term of heap `name` in state st (declaring the entry version lazily).
func (vc *VC) heap(st *State, name, sort string) string {
	if vc.trackReads {
		vc.heapReads[name] = true
	}
	if old, ok := vc.heapSorts[name]; ok && old != sort {
		panic(unsupported(fmt.Sprintf("heap %s used at two sorts %s / %s", name, old, sort)))
	}
	vc.heapSorts[name] = sort
	if t, ok := st.heaps[name]; ok {
		return t
	}
	n := sym(name + "@0")
	if !vc.declared[n] {
		vc.declared[n] = true
		vc.emit(fmt.Sprintf("(declare-const %s %s)", n, sort))
		if name == "$alloc" {
			vc.assert(le("1", n))
		}
		if name == "$region" { // H4 patch: no typed region at entry
			vc.assert(eq(n, "((as const (Array Int Int)) 0)"))
		}
		// the nil map is empty; a map of length 0 has no key
		if strings.HasPrefix(name, "Md|") && strings.HasPrefix(sort, "(Array Int (Array ") && strings.HasSuffix(sort, " Bool))") {
			ks := strings.TrimSuffix(strings.TrimPrefix(sort, "(Array Int (Array "), " Bool))")
			vc.emit(fmt.Sprintf("(assert (forall ((qk %s)) (! (not (select (select %s 0) qk)) :pattern ((select (select %s 0) qk)))))", ks, n, n))
			l0 := vc.heap(&State{heaps: map[string]string{}}, "Ml|"+strings.TrimPrefix(name, "Md|"), arraySort("Int", "Int"))
			vc.emit(fmt.Sprintf("(assert (forall ((qa Int) (qk %s)) (! (=> (= (select %s qa) 0) (not (select (select %s qa) qk))) :pattern ((select (select %s qa) qk)))))", ks, l0, n, n))
		}
		if strings.HasPrefix(name, "Ml|") {
			vc.emit(fmt.Sprintf("(assert (= (select %s 0) 0))", n))
		}
		// (`option closed-map-slices`: the same entry closedness for the backing arrays of slice-valued map elements,
		// Mv|map[K][]T|#arr, which the E|/H|/C| cases below already state for slices stored in fields and slices)
		if strings.HasPrefix(name, "Mv|") && (refHeapNames[name] || (vc.closedMapSlices && strings.HasSuffix(name, "#arr"))) && strings.HasPrefix(sort, "(Array Int (Array ") && strings.HasSuffix(sort, " Int))") {
			ks := strings.TrimSuffix(strings.TrimPrefix(sort, "(Array Int (Array "), " Int))")
			a0 := vc.heap(&State{heaps: map[string]string{}}, "$alloc", "Int")
			vc.emit(fmt.Sprintf("(assert (forall ((qa Int) (qk %s)) (! (=> (< qa %s) (< (select (select %s qa) qk) %s)) :pattern ((select (select %s qa) qk)))))", ks, a0, n, a0, n))
		}
		// H4 patch (see newRef): a heap first mentioned after some allocations of this function is still untouched there
		if z := zeroOfSimpleHeap(name, sort); z != "" {
			for i, r := range vc.ownRefs {
				vc.assert(implies(vc.ownRefReach[i], eq(sel(n, r), z)))
			}
		}
		// a reference heap first mentioned after some own allocations was untouched until now: the closedness facts of
		// those allocation points (option heap-closedness, see newRef) hold for its entry version
		if isRefHeap(name) && vc.closedness {
			for _, cs := range vc.closedAllocs {
				switch sort {
				case "(Array Int Int)":
					vc.allocAxiom(cs, n, false, "Int")
				case "(Array Int (Array Int Int))":
					vc.allocAxiom(cs, n, true, "Int")
				}
			}
		}
		// heap closedness: every reference stored in the entry heap is below the entry allocation pointer
		if isRefHeap(name) {
			a0 := vc.heap(&State{heaps: map[string]string{}}, "$alloc", "Int")
			switch {
			case strings.HasPrefix(name, "E|") && sort == "(Array Int (Array Int Int))":
				vc.emit(fmt.Sprintf("(assert (forall ((qa Int) (qi Int)) (! (=> (< qa %s) (< (select (select %s qa) qi) %s)) :pattern ((select (select %s qa) qi)))))", a0, n, a0, n))
			case (strings.HasPrefix(name, "H|") || strings.HasPrefix(name, "C|")) && sort == "(Array Int Int)":
				vc.emit(fmt.Sprintf("(assert (forall ((qa Int)) (! (=> (< qa %s) (< (select %s qa) %s)) :pattern ((select %s qa)))))", a0, n, a0, n))
			}
		}
	}
	return n
}

func (vc *VC) setHeap(st *State, name, sort, term string) {
	vc.heapSorts[name] = sort
	st.heaps[name] = vc.define("h", sort, term)
}

func (vc *VC) allocOf(st *State) string { return vc.heap(st, "$alloc", "Int") }

// newRef allocates a fresh reference.
func (vc *VC) newRef(st *State) string {
	a := vc.allocOf(st)
	if vc.closedness {
		// `option heap-closedness`: nothing stored anywhere points at the object about to be allocated (every reference
		// in every heap is below the allocation pointer of the state before the allocation). This is what makes a new
		// object provably distinct from everything reachable through quantified reads (s[j] for a bound j).
		var names []string
		for name := range vc.heapSorts {
			names = append(names, name)
		}
		sort.Strings(names)
		vc.closedAllocs = append(vc.closedAllocs, st.clone())
		for _, name := range names {
			if !isRefHeap(name) {
				continue
			}
			switch vc.heapSorts[name] {
			case "(Array Int Int)":
				vc.allocAxiom(st, vc.heap(st, name, vc.heapSorts[name]), false, "Int")
			case "(Array Int (Array Int Int))":
				vc.allocAxiom(st, vc.heap(st, name, vc.heapSorts[name]), true, "Int")
			}
		}
	}
	r := vc.define("ref", "Int", a)
	st.heaps["$alloc"] = vc.define("alloc", "Int", plus(a, "1"))
	vc.freshRefs[r] = true
	// H4 patch: Go hands out zeroed memory. The reference r is new, so in every struct-field heap (of whatever type) the
	// slot r has never been written: state that it holds the zero value. Without this a map/slice/other-type object
	// allocated by the function under verification looks like an arbitrary T to `forall(func(x *T) ...)`.
	var hn []string
	for name := range vc.heapSorts {
		hn = append(hn, name)
	}
	sort.Strings(hn)
	// (conditional on the path: on another path the same reference number may be handed out by a callee)
	reachHere := st.reach
	if reachHere == "" {
		reachHere = "true"
	}
	for _, name := range hn {
		if z := zeroOfSimpleHeap(name, vc.heapSorts[name]); z != "" {
			vc.assert(implies(reachHere, eq(sel(vc.heap(st, name, vc.heapSorts[name]), r), z)))
		}
	}
	vc.ownRefs = append(vc.ownRefs, r)
	vc.ownRefReach = append(vc.ownRefReach, reachHere)
	return r
}

// zeroOfSimpleHeap: the zero term of a struct-field heap with scalar leaves ("" for other heaps).
func zeroOfSimpleHeap(name, sort string) string {
	if !(strings.HasPrefix(name, "H|") || strings.HasPrefix(name, "C|")) {
		return ""
	}
	switch sort {
	case "(Array Int Int)":
		return "0"
	case "(Array Int Bool)":
		return "false"
	}
	return ""
}

func leafHeapName(p Ptr, leafPath string) string {
	return p.Root + "|" + joinPath(p.Path, leafPath)
}

// leafLoc resolves the heap name and base pointer holding leaf `leafPath` of the value at p.
func leafLoc(p Ptr, leafPath string) (string, Ptr) {
	q, lp := resolveLeaf(p, leafPath)
	return leafHeapName(q, lp), q
}

func (vc *VC) loadLeaf(st *State, p Ptr, l Leaf) string {
	name, p := leafLoc(p, l.Path)
	if l.Typ != nil && isRefType(l.Typ) && l.Sort == "Int" {
		refHeapNames[name] = true
	}
	h := vc.heap(st, name, vc.heapSortFor(name, l.Sort))
	if vc.inBinder > 0 && l.Sort == "Int" && (l.Typ == nil || isRefType(l.Typ)) {
		vc.allocAxiom(st, h, p.isElem(), "Int")
	}
	if p.isElem() {
		return sel2(h, p.Base, p.Idx)
	}
	if strings.HasPrefix(p.Root, "C|") && p.Path == "" && !vc.freshRefs[p.Base] {
		// a pointer to a non-struct value may point into a slice (eptr) or to a cell
		en := "E|" + strings.TrimPrefix(p.Root, "C|") + "|" + l.Path
		eh := vc.heap(st, en, vc.heapSortFor(en, l.Sort))
		return ite(lt(p.Base, "0"), sel2(eh, app("eptr_arr", p.Base), app("eptr_idx", p.Base)), sel(h, p.Base))
	}
	return sel(h, p.Base)
}

// load reads a value of type t at pointer p. Facts about loaded values (type ranges, refs below alloc) are asserted.
func (vc *VC) load(st *State, p Ptr, t types.Type) Val {
	if strings.HasPrefix(p.Root, "A|") {
		// pointer to array: the "value" is the array storage itself
		return &SliceV{Arr: p.Base, Off: "0", Len: num(under(t).(*types.Array).Len()), Cap: num(under(t).(*types.Array).Len())}
	}
	var ts []string
	var facts []string
	for _, l := range leaves(t) {
		term := vc.loadLeaf(st, p, l)
		term = vc.define("ld", l.Sort, term)
		ts = append(ts, term)
	}
	v := build(t, &ts)
	facts = append(facts, vc.wfVal(t, v))
	// references stored in the heap are below the allocation pointer
	i := 0
	for _, l := range leaves(t) {
		if l.Sort == "Int" && (l.Typ == nil || isRefType(l.Typ)) {
			facts = append(facts, lt(flatT(t, v)[i], vc.allocOf(st)))
		}
		i++
	}
	if vc.inBinder == 0 {
		facts = append(facts, vc.typedRefFact(st, t, v))
	}
	f := and(facts...)
	if f != "true" && vc.inBinder == 0 {
		vc.assert(f)
	} else if f != "true" {
		// under a binder only the integer type ranges are kept (state-independent, so hypothesis and goal keep the same shape)
		if bt, ok := under(t).(*types.Basic); ok && bt.Info()&types.IsInteger != 0 {
			vc.binderFact(vc.wfVal(t, v))
		}
	}
	if sv, ok := v.(*SliceV); ok && vc.inBinder == 0 {
		vc.lenTerms = append(vc.lenTerms, sv.Cap)
	}
	return v
}

// allocAxiom: every reference stored in heap term h (as of state st) is below st's allocation pointer. Reads at
// ground terms get this fact asserted directly (load, mapLookup); reads under a binder cannot, so the fact is
// stated once per (heap version, allocation pointer) as a quantified axiom with the read as its pattern.
func (vc *VC) allocAxiom(st *State, h string, twoLevel bool, keySort string) {
	if !vc.closedness {
		return // enabled per function with `option heap-closedness`
	}
	a := vc.allocOf(st)
	if strings.HasSuffix(h, "@0|") && strings.HasSuffix(a, "@0|") {
		return // the entry version already carries the closedness axiom w.r.t. the entry allocation pointer
	}
	key := "allocax|" + h + "|" + a
	if vc.declared[key] {
		return
	}
	vc.declared[key] = true
	if twoLevel {
		r := sel2(h, "ax_o", "ax_i")
		vc.assert(forall([][2]string{{"ax_o", "Int"}, {"ax_i", keySort}}, "(! "+implies(lt("ax_o", a), lt(r, a))+" :pattern ("+r+"))"))
		return
	}
	r := sel(h, "ax_o")
	vc.assert(forall([][2]string{{"ax_o", "Int"}}, "(! "+implies(lt("ax_o", a), lt(r, a))+" :pattern ("+r+"))"))
}

// isRefHeap: heaps whose leaves hold references (slice backing arrays, pointers, maps).
func isRefHeap(name string) bool {
	if strings.HasSuffix(name, "#arr") {
		return true
	}
	return refHeapNames[name]
}

var refHeapNames = map[string]bool{}

func isRefType(t types.Type) bool {
	switch under(t).(type) {
	case *types.Pointer, *types.Map, *types.Chan, *types.Array:
		return true
	}
	return false
}

func (vc *VC) store(st *State, p Ptr, t types.Type, v Val) {
	if strings.HasPrefix(p.Root, "A|") {
		panic(unsupported("store of whole array value"))
	}
	ts := flatT(t, v)
	p0 := p
	for i, l := range leaves(t) {
		name, p := leafLoc(p0, l.Path)
		sort := vc.heapSortFor(name, l.Sort)
		h := vc.heap(st, name, sort)
		var nh string
		if p.isElem() {
			nh = sto(h, p.Base, sto(sel(h, p.Base), p.Idx, ts[i]))
		} else if strings.HasPrefix(p.Root, "C|") && p.Path == "" && !vc.freshRefs[p.Base] {
			en := "E|" + strings.TrimPrefix(p.Root, "C|") + "|" + l.Path
			es := vc.heapSortFor(en, l.Sort)
			eh := vc.heap(st, en, es)
			isE := lt(p.Base, "0")
			ea, ei := app("eptr_arr", p.Base), app("eptr_idx", p.Base)
			vc.setHeap(st, en, es, ite(isE, sto(eh, ea, sto(sel(eh, ea), ei, ts[i])), eh))
			if vc.logStores {
				vc.storeLog = append(vc.storeLog, storeRec{heap: en, base: ea})
			}
			nh = ite(isE, h, sto(h, p.Base, ts[i]))
		} else {
			nh = sto(h, p.Base, ts[i])
		}
		vc.setHeap(st, name, sort, nh)
		if vc.logStores {
			vc.storeLog = append(vc.storeLog, storeRec{heap: name, base: p.Base})
		}
	}
}

// fieldPtr returns the pointer to field path `path` of the struct pointed to by p (of type st).
func (vc *VC) fieldPtr(p Ptr, structType types.Type, path []int) Ptr {
	t := structType
	out := p
	for _, i := range path {
		s := under(t).(*types.Struct)
		f := s.Field(i)
		if _, isStruct := under(f.Type()).(*types.Struct); isStruct && strings.HasPrefix(out.Root, "H|") && out.Path == "" {
			out = Ptr{Root: ptrRoot(f.Type()), Base: app("sub", out.Base, subID(out.Root, f.Name()))}
		} else {
			out.Path = joinPath(out.Path, f.Name())
		}
		t = f.Type()
	}
	return out
}

// arrayRef returns the backing-array reference of a pointer-to-array.
func (vc *VC) arrayRef(st *State, p Ptr) string {
	if strings.HasPrefix(p.Root, "A|") {
		return p.Base
	}
	// array stored inside a struct/cell: leaf "#arr"
	name := leafHeapName(p, "#arr")
	h := vc.heap(st, name, vc.heapSortFor(name, "Int"))
	if p.isElem() {
		return sel2(h, p.Base, p.Idx)
	}
	return sel(h, p.Base)
}

// ---- globals ----

func (vc *VC) globalFor(o *types.Var) *ssa.Global {
	if o.Pkg() == nil {
		return nil
	}
	sp := vc.eng.SPkgs[o.Pkg().Path()]
	if sp == nil {
		return nil
	}
	if g, ok := sp.Members[o.Name()].(*ssa.Global); ok {
		return g
	}
	return nil
}

func (vc *VC) globalPtr(g *ssa.Global) Ptr {
	return Ptr{Root: "G|" + g.Pkg.Pkg.Path() + "." + g.Name(), Base: "0"}
}

func (vc *VC) loadGlobal(st *State, g *ssa.Global) Val {
	t := g.Type().(*types.Pointer).Elem()
	// inside a package initialiser the globals it initialises are ordinary mutable memory (that is where they get their value)
	inInit := vc.fn != nil && (vc.fn.Name() == "init" || strings.HasPrefix(vc.fn.Name(), "init#"))
	if vc.eng.immutableGlobal(g) && !inInit {
		// immutable: one uninterpreted constant per leaf
		var ts []string
		for _, l := range leaves(t) {
			n := sym("g|" + g.Pkg.Pkg.Path() + "." + g.Name() + "|" + l.Path)
			if !vc.declared[n] {
				vc.declared[n] = true
				vc.emit(fmt.Sprintf("(declare-const %s %s)", n, l.Sort))
				if _, isIface := under(t).(*types.Interface); isIface && types.Identical(t, types.Universe.Lookup("error").Type()) {
					// error globals (errors.New) are distinct non-nil values
					vc.assert(lt("0", n))
					for _, o := range vc.errGlobals {
						vc.assert(not(eq(n, o)))
					}
					vc.errGlobals = append(vc.errGlobals, n)
					// a package-level `var ErrX = errors.New(...)` that is never reassigned holds a *errors.errorString: its dynamic
					// type is known (needed to tell it apart from the struct-typed errors of the same package in type tests)
					if et := vc.eng.errorsNewType(g); et != nil {
						vc.declIface()
						vc.assert(eq(app("itag", n), vc.typeTag(et)))
					}
				}
			}
			ts = append(ts, n)
		}
		v := build(t, &ts)
		if _, isIface := under(t).(*types.Interface); !isIface {
			vc.assert(vc.wfVal(t, v))
		}
		// references held in globals were allocated before the function under verification started
		a0 := vc.heap(&State{heaps: map[string]string{}}, "$alloc", "Int")
		for i, l := range leaves(t) {
			if l.Sort == "Int" && (l.Typ == nil || isRefType(l.Typ)) {
				vc.assert(lt(flatT(t, v)[i], a0))
			}
		}
		return v
	}
	return vc.load(st, vc.globalPtr(g), t)
}

// ---- arithmetic ----

func (vc *VC) wrapArith(term string, t types.Type, one bool) string {
	w := wrapName(t, one)
	if w == "" {
		return term
	}
	return app(w, term)
}

func constVal(term string) (*big.Int, bool) {
	t := term
	neg := false
	if strings.HasPrefix(t, "(- ") && strings.HasSuffix(t, ")") {
		neg = true
		t = t[3 : len(t)-1]
	}
	bi, ok := new(big.Int).SetString(t, 10)
	if !ok {
		return nil, false
	}
	if neg {
		bi.Neg(bi)
	}
	return bi, true
}

// arith implements Go binary integer arithmetic with wrap-around. yT is the static type of the right operand for shifts.
func (vc *VC) arith(op token.Token, a, b string, t types.Type, hint *orHint) string {
	if t == nil {
		t = types.Typ[types.Int]
	}
	if bt, ok := under(t).(*types.Basic); ok && bt.Info()&types.IsFloat != 0 {
		switch op {
		case token.ADD:
			return app("+", a, b)
		case token.SUB:
			return app("-", a, b)
		case token.MUL:
			return app("*", a, b)
		case token.QUO:
			return app("/", a, b)
		}
	}
	ca, aok := constVal(a)
	cb, bok := constVal(b)
	alo, ahi := vc.rangeOf(a, t)
	blo, bhi := vc.rangeOf(b, t)
	haveR := alo != nil && blo != nil
	finish := func(raw string, lo, hi *big.Int, one bool) string {
		if within(lo, hi, t) {
			vc.setRange(raw, lo, hi)
			return raw
		}
		r := vc.wrapArith(raw, t, one)
		if r != raw && vc.inBinder == 0 && vc.nameWraps {
			// a wrapped result gets a name of its own (a constant with a defining equation) instead of a macro: the
			// if-then-else inside the wrap function would otherwise be lifted out of index sums, and quantifier
			// patterns over s[off+i] would no longer match the term
			n := vc.fresh("w", "Int")
			vc.assert(eq(n, r))
			return n
		}
		return r
	}
	switch op {
	case token.ADD:
		if haveR {
			return finish(plus(a, b), new(big.Int).Add(alo, blo), new(big.Int).Add(ahi, bhi), true)
		}
		return vc.wrapArith(app("+", a, b), t, true)
	case token.SUB:
		if haveR {
			return finish(minus(a, b), new(big.Int).Sub(alo, bhi), new(big.Int).Sub(ahi, blo), true)
		}
		return vc.wrapArith(app("-", a, b), t, true)
	case token.MUL:
		if haveR {
			ps := []*big.Int{new(big.Int).Mul(alo, blo), new(big.Int).Mul(alo, bhi), new(big.Int).Mul(ahi, blo), new(big.Int).Mul(ahi, bhi)}
			lo, hi := ps[0], ps[0]
			for _, p := range ps {
				if p.Cmp(lo) < 0 {
					lo = p
				}
				if p.Cmp(hi) > 0 {
					hi = p
				}
			}
			return finish(app("*", a, b), lo, hi, false)
		}
		return vc.wrapArith(app("*", a, b), t, false)
	case token.QUO:
		_, _, _ = ca, aok, cb
		lo, _, _ := intRange(t)
		if lo != nil && lo.Sign() == 0 {
			return app("div", a, b)
		}
		return vc.wrapArith(app("godiv", a, b), t, true)
	case token.REM:
		lo, _, _ := intRange(t)
		if lo != nil && lo.Sign() == 0 {
			return app("mod", a, b)
		}
		return app("gomod", a, b)
	case token.SHL:
		if bok && cb.IsInt64() && cb.Int64() >= 0 && cb.Int64() < 64 {
			m := pow2(uint(cb.Int64()))
			if alo != nil && alo.Sign() >= 0 {
				return finish(app("*", a, m.String()), new(big.Int).Mul(alo, m), new(big.Int).Mul(ahi, m), false)
			}
			return vc.wrapArith(app("*", a, m.String()), t, false)
		}
		return vc.wrapArith(app("bshl", a, b), t, false)
	case token.SHR:
		if bok && cb.IsInt64() && cb.Int64() >= 0 && cb.Int64() < 64 {
			m := pow2(uint(cb.Int64()))
			r := app("div", a, m.String())
			if alo != nil && alo.Sign() >= 0 {
				vc.setRange(r, new(big.Int).Div(alo, m), new(big.Int).Div(ahi, m))
			}
			return r
		}
		return app("bshr", a, b)
	case token.AND:
		// x & (2^k-1)  ==> mod
		for _, pr := range [][2]string{{a, b}, {b, a}} {
			if c, ok := constVal(pr[1]); ok && c.Sign() >= 0 {
				c1 := new(big.Int).Add(c, big.NewInt(1))
				if c1.BitLen() > 0 && new(big.Int).And(c1, c).Sign() == 0 {
					lo, _, _ := intRange(t)
					if lo != nil && lo.Sign() == 0 {
						r := app("mod", pr[0], c1.String())
						vc.setRange(r, big.NewInt(0), c)
						return r
					}
				}
			}
		}
		return app("band", a, b)
	case token.OR:
		if hint != nil && hint.disjoint {
			if haveR {
				return finish(plus(a, b), new(big.Int).Add(alo, blo), new(big.Int).Add(ahi, bhi), true)
			}
			return app("+", a, b)
		}
		if aok && ca.Sign() == 0 {
			return b
		}
		if bok && cb.Sign() == 0 {
			return a
		}
		return app("bor", a, b)
	case token.XOR:
		return app("bxor", a, b)
	case token.AND_NOT:
		return app("band", a, app("bxor", b, "(- 1)"))
	}
	panic(unsupported("arithmetic operator " + op.String()))
}

type orHint struct{ disjoint bool }

// convert converts a value to type t (integer conversions wrap; string/[]byte conversions are fresh with content axioms).
func (vc *VC) convert(a TV, t types.Type) TV {
	if isUntyped(a.T) {
		if s, ok := a.V.(Scalar); ok && s.S == "Nil" {
			return TV{zeroVal(t), t}
		}
		if s, ok := a.V.(Scalar); ok && s.S == "Int" {
			return TV{Scalar{vc.wrapArith(s.T, t, false), "Int"}, t}
		}
		return TV{a.V, t}
	}
	from := under(a.T)
	to := under(t)
	fb, fok := from.(*types.Basic)
	tb, tok := to.(*types.Basic)
	if fok && tok {
		switch {
		case fb.Info()&types.IsInteger != 0 && tb.Info()&types.IsInteger != 0:
			flo, fhi, _ := intRange(from)
			tlo, thi, _ := intRange(to)
			x := a.term()
			if flo.Cmp(tlo) >= 0 && fhi.Cmp(thi) <= 0 {
				return TV{Scalar{x, "Int"}, t}
			}
			if rl, rh := vc.rangeOf(x, a.T); rl != nil && rl.Cmp(tlo) >= 0 && rh.Cmp(thi) <= 0 {
				return TV{Scalar{x, "Int"}, t}
			}
			if c, ok := constVal(x); ok {
				// constant fold
				bits, signed := intBits(tb)
				m := new(big.Int).Mod(c, pow2(uint(bits)))
				if signed && m.Cmp(pow2(uint(bits-1))) >= 0 {
					m.Sub(m, pow2(uint(bits)))
				}
				return TV{Scalar{bignum(m), "Int"}, t}
			}
			// one-step wrap suffices between 64-bit types of different signedness
			fbits, _ := intBits(fb)
			tbits, _ := intBits(tb)
			if fbits == tbits {
				return TV{Scalar{vc.wrapArith(x, t, true), "Int"}, t}
			}
			return TV{Scalar{vc.byteChainMod(x, a.T, t), "Int"}, t}
		case fb.Info()&types.IsString != 0 && tb.Info()&types.IsString != 0:
			return TV{a.V, t}
		case fb.Info()&types.IsInteger != 0 && tb.Info()&types.IsString != 0:
			// string(rune)
			n := vc.fresh("runestr", "Str")
			x := a.term()
			vc.assert(implies(and(le("0", x), lt(x, "128")), and(eq(app("slen", n), "1"), eq(app("sbyte", n, "0"), x))))
			vc.assert(and(le("1", app("slen", n)), le(app("slen", n), "4")))
			return TV{Scalar{n, "Str"}, t}
		case fb.Info()&types.IsFloat != 0 || tb.Info()&types.IsFloat != 0:
			if fb.Info()&types.IsInteger != 0 {
				return TV{Scalar{app("to_real", a.term()), "Real"}, t}
			}
			if tb.Info()&types.IsInteger != 0 {
				n := vc.fresh("f2i", "Int")
				vc.assert(rangeFact(t, n))
				return TV{Scalar{n, "Int"}, t}
			}
			return TV{a.V, t}
		case fb.Info()&types.IsBoolean != 0 && tb.Info()&types.IsBoolean != 0:
			return TV{a.V, t}
		}
	}
	// string <-> []byte
	if fok && fb.Info()&types.IsString != 0 {
		if sl, ok := to.(*types.Slice); ok {
			if eb, ok := under(sl.Elem()).(*types.Basic); ok && eb.Kind() == types.Uint8 {
				return TV{vc.strToBytes(a.term()), t}
			}
		}
	}
	if sl, ok := from.(*types.Slice); ok && tok && tb.Info()&types.IsString != 0 {
		if eb, ok := under(sl.Elem()).(*types.Basic); ok && eb.Kind() == types.Uint8 {
			panic(unsupported("string([]byte) conversion needs a state; use the SSA path"))
		}
	}
	// identical underlying structure: value unchanged
	if canon(a.T) == canon(t) || types.ConvertibleTo(a.T, t) {
		if _, isPtr := to.(*types.Pointer); isPtr {
			if p, ok := a.V.(Ptr); ok {
				np := p
				if p.Path == "" && !p.isElem() {
					np.Root = ptrRoot(to.(*types.Pointer).Elem())
				}
				return TV{np, t}
			}
		}
		return TV{a.V, t}
	}
	panic(unsupported(fmt.Sprintf("conversion %s -> %s", a.T, t)))
}

// byteChainMod computes x mod 2^bits(to) (re-centred for signed targets) with a fresh quotient instead of nested mod.
func (vc *VC) byteChainMod(x string, from, to types.Type) string {
	tb := under(to).(*types.Basic)
	bits, signed := intBits(tb)
	if vc.inBinder > 0 {
		// under a quantifier x mentions bound variables: a global quotient/remainder pair cannot name it; state the
		// truncation directly (same value)
		m := pow2(uint(bits)).String()
		r := app("mod", x, m)
		if signed {
			h := pow2(uint(bits - 1)).String()
			return ite(lt(r, h), r, minus(r, m))
		}
		return r
	}
	q := vc.fresh("cq", "Int")
	r := vc.fresh("cr", "Int")
	m := pow2(uint(bits)).String()
	vc.assert(and(eq(x, plus(app("*", m, q), r)), le("0", r), lt(r, m)))
	if signed {
		h := pow2(uint(bits - 1)).String()
		return ite(lt(r, h), r, minus(r, m))
	}
	return r
}

func (vc *VC) strToBytes(s string) Val {
	// fresh array whose content equals the string bytes; allocation freshness is handled by caller when a state is at hand
	arr := vc.fresh("s2b_arr", "Int")
	vc.assert(lt("0", arr))
	l := app("slen", s)
	return &SliceV{Arr: arr, Off: "0", Len: l, Cap: l}
}

// valEq: Go == on two values.
func (vc *VC) valEq(a, b TV) string {
	if s, ok := a.V.(Scalar); ok && s.S == "Nil" {
		a, b = b, a
	}
	if s, ok := b.V.(Scalar); ok && s.S == "Nil" {
		if as, ok := a.V.(Scalar); ok && as.S == "Nil" {
			return "true"
		}
		switch v := a.V.(type) {
		case *SliceV:
			return eq(v.Arr, "0")
		case Ptr:
			if v.Path != "" || v.isElem() {
				return "false"
			}
			return eq(v.Base, "0")
		case Scalar:
			return eq(v.T, "0")
		}
		panic(contractError("comparison with nil of unsupported value"))
	}
	if as, ok := a.V.(*SliceV); ok {
		if bs, ok := b.V.(*SliceV); ok {
			if bs.Arr == "0" {
				return eq(as.Arr, "0")
			}
			if as.Arr == "0" {
				return eq(bs.Arr, "0")
			}
		}
	}
	switch av := a.V.(type) {
	case Scalar:
		return eq(av.T, b.term())
	case Ptr:
		bv := b.V.(Ptr)
		if av.Root == bv.Root && av.Path == bv.Path {
			if av.isElem() {
				return and(eq(av.Base, bv.Base), eq(av.Idx, bv.Idx))
			}
			return eq(av.Base, bv.Base)
		}
		if av.Path == "" && bv.Path == "" && !av.isElem() && !bv.isElem() {
			return eq(av.Base, bv.Base)
		}
		return "false"
	case *StructV:
		bv := b.V.(*StructV)
		st := under(a.T).(*types.Struct)
		var cs []string
		for i := range av.F {
			cs = append(cs, vc.valEq(TV{av.F[i], st.Field(i).Type()}, TV{bv.F[i], st.Field(i).Type()}))
		}
		return and(cs...)
	}
	panic(contractError(fmt.Sprintf("== on unsupported values %T", a.V)))
}

func (vc *VC) iteVal(c string, a, b Val) Val {
	if c == "true" {
		return a
	}
	if c == "false" {
		return b
	}
	switch av := a.(type) {
	case Scalar:
		bv := b.(Scalar)
		if av.S == "Nil" {
			return b
		}
		t := ite(c, av.T, bv.T)
		if av.S == "Int" && bv.S == "Int" {
			// interval of a merge = hull of the intervals of its branches (keeps the wrap-around function out of sums of
			// small constants that go through an if/switch, e.g. the length passes of generated encoders)
			alo, ahi := vc.rangeOf(av.T, nil)
			blo, bhi := vc.rangeOf(bv.T, nil)
			if alo != nil && ahi != nil && blo != nil && bhi != nil {
				lo, hi := alo, ahi
				if blo.Cmp(lo) < 0 {
					lo = blo
				}
				if bhi.Cmp(hi) > 0 {
					hi = bhi
				}
				vc.setRange(t, lo, hi)
			}
		}
		return Scalar{t, av.S}
	case *SliceV:
		bv := b.(*SliceV)
		return &SliceV{ite(c, av.Arr, bv.Arr), ite(c, av.Off, bv.Off), ite(c, av.Len, bv.Len), ite(c, av.Cap, bv.Cap)}
	case *StructV:
		bv := b.(*StructV)
		out := &StructV{}
		for i := range av.F {
			out.F = append(out.F, vc.iteVal(c, av.F[i], bv.F[i]))
		}
		return out
	case Ptr:
		bv := b.(Ptr)
		if av.Root == bv.Root && av.Path == bv.Path {
			return Ptr{Root: av.Root, Path: av.Path, Base: ite(c, av.Base, bv.Base), Idx: ite(c, av.Idx, bv.Idx)}
		}
		if av.Path == "" && bv.Path == "" && !av.isElem() && !bv.isElem() {
			// e.g. typed nil vs pointer
			return Ptr{Root: av.Root, Base: ite(c, av.Base, bv.Base)}
		}
		panic(unsupported("merge of pointers into different memory regions"))
	case nil:
		return nil
	}
	panic(fmt.Sprintf("iteVal %T", a))
}

// ---- maps ----

func mapKeySort(m *types.Map) string {
	ls := leaves(m.Key())
	if len(ls) != 1 {
		panic(unsupported("map with composite key type " + m.Key().String()))
	}
	return ls[0].Sort
}

func (vc *VC) mapHeaps(m *types.Map) (dom string, domSort string) {
	ks := mapKeySort(m)
	return "Md|" + canon(m), arraySort("Int", arraySort(ks, "Bool"))
}

func (vc *VC) mapDom(st *State, ref string, m *types.Map) string {
	dn, ds := vc.mapHeaps(m)
	return sel(vc.heap(st, dn, ds), ref)
}

func (vc *VC) mapLookup(st *State, ref string, m *types.Map, key Val) (Val, string) {
	ks := mapKeySort(m)
	k := flat(key)[0]
	dom := sel(vc.mapDom(st, ref, m), k)
	if isRefType(m.Key()) && ks == "Int" {
		vc.keyAllocAxiom(st, m)
	}
	var ts []string
	for _, l := range leaves(m.Elem()) {
		hn := "Mv|" + canon(m) + "|" + l.Path
		if l.Typ != nil && isRefType(l.Typ) && l.Sort == "Int" {
			refHeapNames[hn] = true
		}
		h := vc.heap(st, hn, arraySort("Int", arraySort(ks, l.Sort)))
		if vc.inBinder > 0 && l.Sort == "Int" && (l.Typ == nil || isRefType(l.Typ)) {
			vc.allocAxiom(st, h, true, ks)
		}
		ts = append(ts, vc.define("mv", l.Sort, ite(dom, sel2(h, ref, k), zeroTerm(l))))
	}
	v := build(m.Elem(), &ts)
	if vc.inBinder == 0 {
		vc.assert(vc.wfVal(m.Elem(), v))
		i := 0
		for _, l := range leaves(m.Elem()) {
			if l.Sort == "Int" && (l.Typ == nil || isRefType(l.Typ)) {
				vc.assert(lt(flatT(m.Elem(), v)[i], vc.allocOf(st)))
			}
			i++
		}
	}
	return v, dom
}

func (vc *VC) mapLen(st *State, ref string, m *types.Map) string {
	h := vc.heap(st, "Ml|"+canon(m), arraySort("Int", "Int"))
	t := sel(h, ref)
	if vc.inBinder == 0 {
		vc.assert(le("0", t))
	}
	return t
}

func (vc *VC) mapUpdate(st *State, ref string, m *types.Map, key, val Val) {
	ks := mapKeySort(m)
	k := flat(key)[0]
	dn, ds := vc.mapHeaps(m)
	dh := vc.heap(st, dn, ds)
	was := sel2(dh, ref, k)
	lh := vc.heap(st, "Ml|"+canon(m), arraySort("Int", "Int"))
	vc.setHeap(st, "Ml|"+canon(m), arraySort("Int", "Int"), sto(lh, ref, ite(was, sel(lh, ref), plus(sel(lh, ref), "1"))))
	vc.setHeap(st, dn, ds, sto(dh, ref, sto(sel(dh, ref), k, "true")))
	ts := flatT(m.Elem(), val)
	for i, l := range leaves(m.Elem()) {
		hn := "Mv|" + canon(m) + "|" + l.Path
		hs := arraySort("Int", arraySort(ks, l.Sort))
		h := vc.heap(st, hn, hs)
		vc.setHeap(st, hn, hs, sto(h, ref, sto(sel(h, ref), k, ts[i])))
	}
	if vc.logStores {
		vc.storeLog = append(vc.storeLog, storeRec{heap: dn, base: ref}, storeRec{heap: "Ml|" + canon(m), base: ref})
		for _, l := range leaves(m.Elem()) {
			vc.storeLog = append(vc.storeLog, storeRec{heap: "Mv|" + canon(m) + "|" + l.Path, base: ref})
		}
	}
}

func (vc *VC) mapDelete(st *State, ref string, m *types.Map, key Val) {
	k := flat(key)[0]
	dn, ds := vc.mapHeaps(m)
	dh := vc.heap(st, dn, ds)
	was := sel2(dh, ref, k)
	lh := vc.heap(st, "Ml|"+canon(m), arraySort("Int", "Int"))
	vc.setHeap(st, "Ml|"+canon(m), arraySort("Int", "Int"), sto(lh, ref, ite(was, minus(sel(lh, ref), "1"), sel(lh, ref))))
	vc.setHeap(st, dn, ds, sto(dh, ref, sto(sel(dh, ref), k, "false")))
	if vc.logStores {
		vc.storeLog = append(vc.storeLog, storeRec{heap: dn, base: ref}, storeRec{heap: "Ml|" + canon(m), base: ref})
	}
	// len(m) is the cardinality of the domain: if the map is empty after the deletion it has no key left
	if vc.inBinder == 0 {
		// The length and the domain are named by fresh constants (definitional extension): the heap terms are
		// define-fun chains of store/ite, and z3 expands them as a TREE under a binder (select is pushed through
		// every store and ite), which is exponential in the number of map writes and branch merges before the
		// delete (FaceModule.update: the first push did not finish).
		qk := vc.freshName("q_k")
		nl := vc.fresh("mdl", "Int")
		vc.assert(eq(nl, sel(vc.heap(st, "Ml|"+canon(m), arraySort("Int", "Int")), ref)))
		nd := vc.fresh("mdd", arraySort(mapKeySort(m), "Bool"))
		vc.assert(eq(nd, sel(vc.heap(st, dn, ds), ref)))
		vc.assert(implies(eq(nl, "0"), forall([][2]string{{qk, mapKeySort(m)}}, not(sel(nd, qk)))))
	}
}

// mapClear: the domain of the map becomes empty and its length 0 (values of absent keys are irrelevant).
func (vc *VC) mapClear(st *State, ref string, m *types.Map) {
	dn, ds := vc.mapHeaps(m)
	dh := vc.heap(st, dn, ds)
	lh := vc.heap(st, "Ml|"+canon(m), arraySort("Int", "Int"))
	vc.setHeap(st, "Ml|"+canon(m), arraySort("Int", "Int"), sto(lh, ref, "0"))
	vc.setHeap(st, dn, ds, sto(dh, ref, "((as const "+arraySort(mapKeySort(m), "Bool")+") false)"))
	if vc.logStores {
		vc.storeLog = append(vc.storeLog, storeRec{heap: dn, base: ref}, storeRec{heap: "Ml|" + canon(m), base: ref})
	}
}

// ---- byte-slice helpers ----

func (vc *VC) byteHeap(st *State) string {
	return vc.heap(st, "E|uint8|", arraySort("Int", arraySort("Int", "Int")))
}

func (vc *VC) bytesEqual(st *State, a, b *SliceV) string {
	h := vc.byteHeap(st)
	g := "q_beq_g"
	// quantified over the absolute index into a's backing array (pattern-friendly, cf. bytesAt)
	body := implies(and(le(a.Off, g), lt(g, plus(a.Off, a.Len))), eq(sel2(h, a.Arr, g), sel2(h, b.Arr, plus(b.Off, minus(g, a.Off)))))
	return and(eq(a.Len, b.Len), forall([][2]string{{g, "Int"}}, "(! "+body+" :pattern ("+sel2(h, a.Arr, g)+"))"))
}

// ---- spec function applications (recursive / bodiless) ----

func (vc *VC) isRecursiveSpec(sf *SpecFunc) bool {
	key := sf.PkgPath + "." + sf.Name
	if r, ok := vc.recSpec[key]; ok {
		return r
	}
	rec := false
	// A spec function whose doc comment carries the marker "gcv:uf" is treated like a recursive one: an uninterpreted
	// function of its arguments and of the heaps it reads, with its body as definition, unfolded at ground applications
	// only. (Inside a quantifier it stays an atom, so instantiating "forall k: P(k)" yields exactly the atom P(i) that a
	// later obligation asks for, instead of a second copy of P's body.)
	if sf.Decl.Doc != nil && strings.Contains(sf.Decl.Doc.Text(), "gcv:uf") {
		rec = true
	}
	if sf.Decl.Body != nil {
		ast.Inspect(sf.Decl.Body, func(n ast.Node) bool {
			if c, ok := n.(*ast.CallExpr); ok {
				if id, ok := c.Fun.(*ast.Ident); ok && id.Name == sf.Name {
					rec = true
				}
			}
			return true
		})
	}
	vc.recSpec[key] = rec
	return rec
}

// specApp emits an uninterpreted application f(heaps..., args...) and, if unfold, its one-step unfolding.
func (vc *VC) specApp(e *Env, sf *SpecFunc, sig *types.Signature, args []TV, rt types.Type, unfold bool) TV {
	key := sf.PkgPath + "." + sf.Name
	// footprint: heaps read by the body (computed once by a dry evaluation)
	if vc.footBusy == nil {
		vc.footBusy = map[string]bool{}
	}
	if vc.footBusy[key] {
		return TV{vc.freshVal("specrec", rt), rt}
	}
	foot, ok := vc.specFoot[key]
	if !ok {
		vc.footBusy[key] = true
		if sf.Decl.Body != nil && !isGhostStub(sf) {
			foot = vc.computeFootprint(e, sf, sig, args)
		}
		vc.footBusy[key] = false
		vc.specFoot[key] = foot
	}
	var argTerms, argSorts []string
	for _, h := range foot {
		argTerms = append(argTerms, vc.heap(e.st, h, vc.heapSorts[h]))
		argSorts = append(argSorts, vc.heapSorts[h])
	}
	for i, a := range args {
		pt := sig.Params().At(i).Type()
		var ts []string
		if p, ok := a.V.(Ptr); ok && (p.Path != "" || p.isElem()) && !(p.isElem() && p.Path == "") {
			// A pointer INTO a slice element (&s[i].f, the sub-encoder of element i) as argument of an uninterpreted spec
			// function: only the identity of the pointer matters here (the body, when unfolded, works with the structured
			// pointer itself). sub/eptr are injective (prelude), the path gets a number of its own: equal pointers give
			// equal terms, different pointers different terms.
			if p.isElem() {
				ts = []string{app("sub", app("eptr", p.Base, p.Idx), subID(p.Root, "path:"+p.Path))}
			} else {
				ts = []string{app("sub", p.Base, subID(p.Root, "path:"+p.Path))}
			}
		} else {
			ts = flatT(pt, a.V)
		}
		for j, l := range leaves(pt) {
			argTerms = append(argTerms, ts[j])
			argSorts = append(argSorts, l.Sort)
		}
	}
	rls := leaves(rt)
	var outs []string
	for _, l := range rls {
		fname := sym("spec|" + key + "|" + l.Path)
		if !vc.ufDecl[fname] {
			vc.ufDecl[fname] = true
			vc.emit(fmt.Sprintf("(declare-fun %s (%s) %s)", fname, strings.Join(argSorts, " "), l.Sort))
			// `option spec-range`: the result of an uninterpreted spec function of integer type lies in the range of that
			// type for ALL arguments (a typing fact: the symbol stands for a Go function with that result type; its
			// one-step unfoldings equate it with a body coerced to the same type). Ground applications get the fact
			// where they are unfolded; applications under a quantifier (bound arguments) need the quantified form.
			if vc.specRange && len(rls) == 1 && len(argSorts) > 0 {
				if _, _, ok := intRange(rt); ok {
					var bs [][2]string
					var as []string
					for i, srt := range argSorts {
						a := fmt.Sprintf("sr_a%d", i)
						bs = append(bs, [2]string{a, srt})
						as = append(as, a)
					}
					ap := app(fname, as...)
					vc.emit("(assert " + forall(bs, "(! "+rangeFact(rt, ap)+" :pattern ("+ap+"))") + ")")
				}
			}
		}
		outs = append(outs, app(fname, argTerms...))
	}
	cp := append([]string{}, outs...)
	res := build(rt, &cp)
	if unfold && e.inQuant == 0 && sf.Decl.Body != nil {
		k := strings.Join(outs, ";")
		if !vc.unfolded[k] {
			vc.unfolded[k] = true
			n := &Env{vc: vc, pkg: sf.Pkg, names: map[string]TV{}, st: e.st, old: e.old}
			n.stack = append(append([]string{}, e.stack...), key)
			i := 0
			for _, f := range sf.Decl.Type.Params.List {
				for _, nm := range f.Names {
					n.names[nm.Name] = args[i]
					i++
				}
			}
			body := n.evalBlock(sf.Decl.Body.List)
			body = n.coerce(body, rt)
			bts := flatT(rt, body.V)
			for j := range outs {
				vc.assert(eq(outs[j], bts[j]))
			}
			if lo, _, ok := intRange(rt); ok && len(outs) == 1 {
				_ = lo
				vc.assert(rangeFact(rt, outs[0]))
			}
		}
	}
	return TV{res, rt}
}

func (vc *VC) computeFootprint(e *Env, sf *SpecFunc, sig *types.Signature, args []TV) []string {
	saveLines, saveTrack, saveReads := len(vc.lines), vc.trackReads, vc.heapReads
	vc.trackReads = true
	vc.heapReads = map[string]bool{}
	vc.dry++
	func() {
		defer func() {
			if r := recover(); r != nil {
				if _, ok := r.(contractError); ok {
					vc.dry--
					vc.trackReads, vc.heapReads = saveTrack, saveReads
					panic(r)
				}
				panic(r)
			}
		}()
		n := &Env{vc: vc, pkg: sf.Pkg, names: map[string]TV{}, st: e.st, old: e.old, inQuant: 1}
		n.stack = append(append([]string{}, e.stack...), sf.PkgPath+"."+sf.Name)
		i := 0
		for _, f := range sf.Decl.Type.Params.List {
			for _, nm := range f.Names {
				n.names[nm.Name] = args[i]
				i++
			}
		}
		n.evalBlock(sf.Decl.Body.List)
	}()
	vc.dry--
	var foot []string
	// $region is read (i) by the guard of a quantifier over pointers: then the value depends on it; (ii) by typedRefFact,
	// which only ADDS a fact that holds by Go type safety about a loaded reference: then the value does not depend on it,
	// and keeping it in the footprint would make f(region', ...) and f(region, ...) unrelated after every callee allocation.
	quantRegion := vc.heapReads["$region!quant"]
	for h := range vc.heapReads {
		if h == "$alloc" || h == "$region!quant" || (h == "$region" && !quantRegion) {
			continue
		}
		foot = append(foot, h)
	}
	sort.Strings(foot)
	// keep declarations made during the dry evaluation (harmless), but restore tracking
	_ = saveLines
	vc.trackReads, vc.heapReads = saveTrack, saveReads
	if saveTrack {
		for _, h := range foot {
			saveReads[h] = true
		}
		if quantRegion {
			saveReads["$region!quant"] = true
		}
	}
	return foot
}

func parseExprString(s string) (ast.Expr, error) { return parser.ParseExpr(s) }

func (e *Engine) srcTextExpr(x ast.Expr) string {
	return types.ExprString(x)
}

// keyAllocAxiom: heap closedness for the KEYS of maps keyed by references: every key of an allocated map is below the
// allocation pointer (entry version: always, like the other entry closedness axioms; later versions: with
// `option heap-closedness`). Needed so that `forall(func(c *T) ...)`, which ranges over allocated objects, covers map keys.
func (vc *VC) keyAllocAxiom(st *State, m *types.Map) {
	name := "Md|" + canon(m)
	h := vc.heap(st, name, arraySort("Int", arraySort("Int", "Bool")))
	a := vc.allocOf(st)
	if !strings.HasSuffix(h, "@0|") && !vc.closedness {
		return
	}
	if strings.HasSuffix(h, "@0|") {
		a = vc.heap(&State{heaps: map[string]string{}}, "$alloc", "Int")
	}
	key := "keyallocax|" + h + "|" + a
	if vc.declared[key] {
		return
	}
	vc.declared[key] = true
	r := sel2(h, "ax_o", "ax_k")
	vc.assert(forall([][2]string{{"ax_o", "Int"}, {"ax_k", "Int"}}, "(! "+implies(and(lt("ax_o", a), r), lt("ax_k", a))+" :pattern ("+r+"))"))
}
