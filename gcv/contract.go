package main

import (
	"fmt"
	"go/ast"
	"go/parser"
	"go/token"
	"os"
	"strconv"
	"strings"

	"golang.org/x/tools/go/packages"
)

// Clause is one contract expression with its source text.
type Clause struct {
	Text string
	Expr ast.Expr
	Name string // optional label ("ensures[name] ...")
	File string
	Line int
}

type LoopSpec struct {
	Inv []Clause
	Dec []Clause
}

type CallsiteRule struct {
	Callee string // canonical callee name (suffix match allowed)
	Req    Clause
}

type Contract struct {
	Key       string // canonical function name (ssa Function.String())
	PkgPath   string
	Requires  []Clause
	Ensures   []Clause
	Modifies  []Clause // location expressions; special idents: nothing
	HasMod    bool
	Loops     map[int]*LoopSpec
	Pure      bool
	Trusted   bool
	MayPanic  bool
	Nullable  map[string]bool // pointer params allowed to be nil
	Dyn       map[string][]string
	Callsites []CallsiteRule
	Assumes   []Clause // extra assumptions at entry (listed in evidence)
	Uses      []string // ghost lemma functions whose contracts are available as quantified facts
	Decreases []Clause // termination measure for recursive functions
	Options   map[string]bool // `option <name>`: engine switches for this function (e.g. heap-closedness)
	Hints     []Hint   // `assert before <callee>@k e`: proved, then assumed, just before the k-th call of <callee>
	Opaque    []string // spec functions never unfolded while verifying this function (their facts come from lemmas)
	Calls     map[string]*Contract // `call <param>[.<method>] requires|ensures|modifies …`: contract of a function-typed parameter or of a method of an interface-typed parameter, as seen by this function
	ParamInv  []Clause // `invariant e`: required at entry, ensured at exit, maintained by every loop
	Schema    bool     // instantiated from a schema: clauses that do not resolve for this function are dropped
	AtLine    []LineCut // `assert at <line> e`: proved, then assumed, when control reaches the statement that starts on that source line
	AtReturn  []Clause // `assert return e`: e (may mention local variables: their value when the function returns) is proved at every return
	View      string   // `view <name>`: an additional specification of the function, kept apart from its primary contract: it is used (and proved) only in the verification context "view:<name>" (props: ctx), see load.go
	File      string
	Line      int
}

// LineCut is a proof cut anchored at a source line of the function (generated contracts of generated code: the line of a
// top-level statement). Local variables denote their current values (track.go).
type LineCut struct {
	Line int
	C    Clause
}

type Hint struct {
	Callee string
	K      int
	C      Clause
	Uses   []string // lemmas made available (instantiated over the heap of that program point) for this assertion
}

type Lemma struct {
	Name    string
	PkgPath string
	Vars    []*ast.Field
	Body    Clause
}

type SpecFunc struct {
	Name    string
	PkgPath string
	Decl    *ast.FuncDecl
	Pkg     *packages.Package
	Rec     bool
}

var clauseKeywords = map[string]bool{"func": true, "requires": true, "ensures": true, "modifies": true,
	"loop": true, "pure": true, "trusted": true, "may_panic": true, "nullable": true, "dyn": true,
	"callsite": true, "lemma": true, "assume": true, "pkgrule": true, "uses": true, "decreases": true, "invariant": true, "call": true, "opaque": true, "assert": true, "option": true, "view": true}

// rewriteImplies turns `a ==> b` into `implies(a, b)` (lowest precedence, right associative).
func rewriteImplies(s string) string {
	depth := 0
	inStr := byte(0)
	for i := 0; i < len(s); i++ {
		c := s[i]
		if inStr != 0 {
			if c == '\\' {
				i++
			} else if c == inStr {
				inStr = 0
			}
			continue
		}
		switch c {
		case '"', '\'', '`':
			inStr = c
		case '(', '[', '{':
			depth++
		case ')', ']', '}':
			depth--
		case '=':
			if depth == 0 && strings.HasPrefix(s[i:], "==>") {
				left := s[:i]
				right := s[i+3:]
				pre := ""
				lt := strings.TrimLeft(left, " \t")
				if strings.HasPrefix(lt, "return ") {
					pre = "return "
					left = lt[len("return "):]
				}
				return pre + "implies(" + rewriteImplies(left) + ", " + rewriteImplies(right) + ")"
			}
		}
	}
	// no top-level ==>; recurse into bracket groups
	var out strings.Builder
	depth = 0
	start := -1
	inStr = 0
	for i := 0; i < len(s); i++ {
		c := s[i]
		if inStr != 0 {
			if depth == 0 {
				out.WriteByte(c)
			}
			if c == '\\' && i+1 < len(s) {
				i++
				if depth == 0 {
					out.WriteByte(s[i])
				}
			} else if c == inStr {
				inStr = 0
			}
			continue
		}
		switch c {
		case '"', '\'', '`':
			inStr = c
			if depth == 0 {
				out.WriteByte(c)
			}
		case '(', '[', '{':
			if depth == 0 {
				out.WriteByte(c)
				start = i + 1
			}
			depth++
		case ')', ']', '}':
			depth--
			if depth == 0 {
				out.WriteString(rewriteImplies(s[start:i]))
				out.WriteByte(c)
			}
		default:
			if depth == 0 {
				out.WriteByte(c)
			}
		}
	}
	return out.String()
}

func parseClause(text, file string, line int) (Clause, error) {
	name := ""
	t := strings.TrimSpace(text)
	if strings.HasPrefix(t, "[") {
		if j := strings.Index(t, "]"); j > 0 {
			name = t[1:j]
			t = strings.TrimSpace(t[j+1:])
		}
	}
	rw := rewriteImplies(t)
	e, err := parser.ParseExpr(rw)
	if err != nil {
		return Clause{}, fmt.Errorf("%s:%d: cannot parse contract expression %q: %v", file, line, t, err)
	}
	return Clause{Text: t, Expr: e, Name: name, File: file, Line: line}, nil
}

// canonKey converts a contract key as written ("(TLNum).EncodeInto", "(*BufferReader).Read", "ReadTLNum",
// or a fully qualified one) to the ssa canonical name.
func canonKey(pkgPath, key string) string {
	key = strings.TrimSpace(key)
	if strings.Contains(key, "/") || (strings.Contains(key, ".") && !strings.HasPrefix(key, "(")) {
		// already qualified: "pkg/path.Func" or "(*pkg/path.T).M" etc.
		if !strings.HasPrefix(key, "(") {
			return key
		}
	}
	if strings.HasPrefix(key, "(") {
		j := strings.Index(key, ")")
		recv := key[1:j]
		rest := key[j+1:]
		if strings.Contains(recv, "/") || strings.Contains(strings.TrimPrefix(recv, "*"), ".") {
			return key
		}
		if strings.HasPrefix(recv, "*") {
			return "(*" + pkgPath + "." + recv[1:] + ")" + rest
		}
		return "(" + pkgPath + "." + recv + ")" + rest
	}
	return pkgPath + "." + key
}

type ContractFile struct {
	Contracts []*Contract
	Lemmas    []*Lemma
}

// parseContractText parses //@ lines. pkgPath is used to qualify keys.
func parseContractText(lines []string, lineNos []int, file, pkgPath string) (*ContractFile, error) {
	cf := &ContractFile{}
	var cur *Contract
	type pending struct {
		kw   string
		text string
		line int
	}
	var pend *pending
	flush := func() error {
		if pend == nil {
			return nil
		}
		p := pend
		pend = nil
		kw, text := p.kw, strings.TrimSpace(p.text)
		if kw == "func" {
			ctxPkg := pkgPath
			if j := strings.Index(text, " @"); j >= 0 {
				ctxPkg = strings.TrimSpace(text[j+2:])
				text = strings.TrimSpace(text[:j])
			}
			cur = &Contract{Key: canonKey(pkgPath, text), PkgPath: ctxPkg, Loops: map[int]*LoopSpec{},
				Nullable: map[string]bool{}, Dyn: map[string][]string{}, File: file, Line: p.line}
			cf.Contracts = append(cf.Contracts, cur)
			return nil
		}
		if kw == "lemma" {
			// lemma name(vars): body
			j := strings.Index(text, ":")
			if j < 0 {
				return fmt.Errorf("%s:%d: lemma needs ':'", file, p.line)
			}
			head := strings.TrimSpace(text[:j])
			body := text[j+1:]
			lm := &Lemma{PkgPath: pkgPath}
			if k := strings.Index(head, "("); k >= 0 {
				lm.Name = strings.TrimSpace(head[:k])
				sig := "func" + head[k:]
				e, err := parser.ParseExpr(sig + "{}")
				if err != nil {
					return fmt.Errorf("%s:%d: lemma params: %v", file, p.line, err)
				}
				lm.Vars = e.(*ast.FuncLit).Type.Params.List
			} else {
				lm.Name = head
			}
			c, err := parseClause(body, file, p.line)
			if err != nil {
				return err
			}
			lm.Body = c
			cf.Lemmas = append(cf.Lemmas, lm)
			return nil
		}
		if cur == nil {
			return fmt.Errorf("%s:%d: clause %q outside a func block", file, p.line, kw)
		}
		switch kw {
		case "requires", "ensures", "assume":
			c, err := parseClause(text, file, p.line)
			if err != nil {
				return err
			}
			switch kw {
			case "requires":
				cur.Requires = append(cur.Requires, c)
			case "ensures":
				cur.Ensures = append(cur.Ensures, c)
			case "assume":
				cur.Assumes = append(cur.Assumes, c)
			}
		case "modifies":
			cur.HasMod = true
			for _, part := range splitTop(text, ',') {
				part = strings.TrimSpace(part)
				if part == "" || part == "nothing" {
					continue
				}
				part = strings.ReplaceAll(part, "[*]", "[:]")
				c, err := parseClause(part, file, p.line)
				if err != nil {
					return err
				}
				cur.Modifies = append(cur.Modifies, c)
			}
		case "loop":
			f := strings.Fields(text)
			if len(f) < 3 {
				return fmt.Errorf("%s:%d: bad loop clause", file, p.line)
			}
			n, err := strconv.Atoi(f[0])
			if err != nil {
				return fmt.Errorf("%s:%d: bad loop ordinal", file, p.line)
			}
			rest := strings.TrimSpace(text[strings.Index(text, f[1])+len(f[1]):])
			c, err := parseClause(rest, file, p.line)
			if err != nil {
				return err
			}
			ls := cur.Loops[n]
			if ls == nil {
				ls = &LoopSpec{}
				cur.Loops[n] = ls
			}
			switch f[1] {
			case "invariant":
				ls.Inv = append(ls.Inv, c)
			case "decreases":
				ls.Dec = append(ls.Dec, c)
			default:
				return fmt.Errorf("%s:%d: unknown loop clause %q", file, p.line, f[1])
			}
		case "call":
			f := strings.Fields(text)
			if len(f) < 3 {
				return fmt.Errorf("%s:%d: bad call clause", file, p.line)
			}
			if cur.Calls == nil {
				cur.Calls = map[string]*Contract{}
			}
			sub := cur.Calls[f[0]]
			if sub == nil {
				sub = &Contract{Key: cur.Key + "$" + f[0], PkgPath: cur.PkgPath, Loops: map[int]*LoopSpec{}, Nullable: map[string]bool{}, Dyn: map[string][]string{}, File: file, Line: p.line}
				cur.Calls[f[0]] = sub
			}
			rest := strings.TrimSpace(text[strings.Index(text, f[1])+len(f[1]):])
			switch f[1] {
			case "requires", "ensures":
				c, err := parseClause(rest, file, p.line)
				if err != nil {
					return err
				}
				if f[1] == "requires" {
					sub.Requires = append(sub.Requires, c)
				} else {
					sub.Ensures = append(sub.Ensures, c)
				}
			case "modifies":
				sub.HasMod = true
				for _, part := range splitTop(rest, ',') {
					part = strings.TrimSpace(part)
					if part == "" || part == "nothing" {
						continue
					}
					part = strings.ReplaceAll(part, "[*]", "[:]")
					c, err := parseClause(part, file, p.line)
					if err != nil {
						return err
					}
					sub.Modifies = append(sub.Modifies, c)
				}
			default:
				return fmt.Errorf("%s:%d: call clause must be requires/ensures/modifies", file, p.line)
			}
		case "invariant":
			c, err := parseClause(text, file, p.line)
			if err != nil {
				return err
			}
			cur.ParamInv = append(cur.ParamInv, c)
			cur.Requires = append(cur.Requires, c)
			cur.Ensures = append(cur.Ensures, c)
		case "uses":
			for _, n := range strings.Fields(strings.ReplaceAll(text, ",", " ")) {
				cur.Uses = append(cur.Uses, n)
			}
		case "assert":
			// assert before <callee>@<k> <expr>
			f := strings.Fields(text)
			if len(f) >= 3 && f[0] == "at" {
				// assert at <line> <expr>
				ln, err := strconv.Atoi(f[1])
				if err != nil {
					return fmt.Errorf("%s:%d: expected `assert at <line> <expr>`", file, p.line)
				}
				rest := strings.TrimSpace(text[strings.Index(text, f[1])+len(f[1]):])
				c, err := parseClause(rest, file, p.line)
				if err != nil {
					return err
				}
				cur.AtLine = append(cur.AtLine, LineCut{Line: ln, C: c})
				break
			}
			if len(f) >= 2 && f[0] == "return" {
				// assert return <expr>: proved at every return statement; local variables denote their final values
				c, err := parseClause(strings.TrimSpace(text[strings.Index(text, "return")+len("return"):]), file, p.line)
				if err != nil {
					return err
				}
				cur.AtReturn = append(cur.AtReturn, c)
				break
			}
			if len(f) < 3 || f[0] != "before" {
				return fmt.Errorf("%s:%d: expected `assert before <callee>@<k> <expr>`", file, p.line)
			}
			ck := strings.SplitN(f[1], "@", 2)
			k := 1
			if len(ck) == 2 {
				if ck[1] == "*" {
					k = -1 // every call of <callee> (schematic contracts: the number of call sites differs per function)
				} else {
					k, _ = strconv.Atoi(ck[1])
				}
			}
			rest := strings.TrimSpace(text[strings.Index(text, f[1])+len(f[1]):])
			var uses []string
			for strings.HasPrefix(rest, "uses ") {
				rest = strings.TrimSpace(rest[5:])
				// lemma application: name(args...) with balanced parentheses, or a bare name
				end := strings.IndexAny(rest, " (")
				if end < 0 {
					end = len(rest)
				}
				if end < len(rest) && rest[end] == '(' {
					d := 0
					for j := end; j < len(rest); j++ {
						if rest[j] == '(' {
							d++
						} else if rest[j] == ')' {
							d--
							if d == 0 {
								end = j + 1
								break
							}
						}
					}
				}
				uses = append(uses, rest[:end])
				rest = strings.TrimSpace(rest[end:])
			}
			c, err := parseClause(rest, file, p.line)
			if err != nil {
				return err
			}
			cur.Hints = append(cur.Hints, Hint{Callee: ck[0], K: k, C: c, Uses: uses})
		case "option":
			if cur.Options == nil {
				cur.Options = map[string]bool{}
			}
			for _, n := range strings.Fields(text) {
				cur.Options[n] = true
			}
		case "opaque":
			for _, n := range strings.Fields(strings.ReplaceAll(text, ",", " ")) {
				cur.Opaque = append(cur.Opaque, n)
			}
		case "decreases":
			c, err := parseClause(text, file, p.line)
			if err != nil {
				return err
			}
			cur.Decreases = append(cur.Decreases, c)
		case "pure":
			cur.Pure = true
		case "trusted":
			cur.Trusted = true
		case "view":
			cur.View = strings.TrimSpace(text)
			if cur.View == "" {
				return fmt.Errorf("%s:%d: view needs a name", file, p.line)
			}
		case "may_panic":
			cur.MayPanic = true
		case "nullable":
			for _, n := range strings.Fields(strings.ReplaceAll(text, ",", " ")) {
				cur.Nullable[n] = true
			}
		case "dyn":
			// dyn r in {T1, T2}
			f := strings.SplitN(text, " in ", 2)
			if len(f) != 2 {
				return fmt.Errorf("%s:%d: bad dyn clause", file, p.line)
			}
			ts := strings.Trim(strings.TrimSpace(f[1]), "{}")
			for _, t := range strings.Split(ts, ",") {
				cur.Dyn[strings.TrimSpace(f[0])] = append(cur.Dyn[strings.TrimSpace(f[0])], strings.TrimSpace(t))
			}
		case "callsite":
			// callsite <callee> requires <e>
			j := strings.Index(text, " requires ")
			if j < 0 {
				return fmt.Errorf("%s:%d: bad callsite clause", file, p.line)
			}
			c, err := parseClause(text[j+len(" requires "):], file, p.line)
			if err != nil {
				return err
			}
			cur.Callsites = append(cur.Callsites, CallsiteRule{Callee: strings.TrimSpace(text[:j]), Req: c})
		}
		return nil
	}
	for i, ln := range lines {
		t := strings.TrimSpace(ln)
		if t == "" {
			continue
		}
		if k := strings.Index(t, " //"); k >= 0 && !strings.Contains(t[k:], "\"") {
			t = strings.TrimSpace(t[:k])
		}
		first := t
		rest := ""
		if j := strings.IndexAny(t, " \t["); j >= 0 {
			first = t[:j]
			rest = t[j:]
		}
		if clauseKeywords[first] {
			if err := flush(); err != nil {
				return nil, err
			}
			pend = &pending{kw: first, text: rest, line: lineNos[i]}
		} else if pend != nil {
			pend.text += " " + t
		} else {
			return nil, fmt.Errorf("%s:%d: unexpected contract line %q", file, lineNos[i], t)
		}
	}
	if err := flush(); err != nil {
		return nil, err
	}
	return cf, nil
}

func splitTop(s string, sep byte) []string {
	var out []string
	depth := 0
	last := 0
	for i := 0; i < len(s); i++ {
		switch s[i] {
		case '(', '[', '{':
			depth++
		case ')', ']', '}':
			depth--
		default:
			if s[i] == sep && depth == 0 {
				out = append(out, s[last:i])
				last = i + 1
			}
		}
	}
	out = append(out, s[last:])
	return out
}

// extractContractLines pulls the //@ lines out of a Go source file.
func extractContractLines(path string) (lines []string, nos []int, err error) {
	b, err := os.ReadFile(path)
	if err != nil {
		return nil, nil, err
	}
	for i, ln := range strings.Split(string(b), "\n") {
		t := strings.TrimSpace(ln)
		if strings.HasPrefix(t, "//@") {
			lines = append(lines, t[3:])
			nos = append(nos, i+1)
		} else if strings.HasPrefix(t, "// @") {
			// gofmt rewrites "//@" to "// @" inside doc comments; both spellings are contract lines
			lines = append(lines, t[4:])
			nos = append(nos, i+1)
		}
	}
	return
}

var _ = token.NoPos
