package main

// c13gen: derives, for every generated TLV encoder (type XEncoder with Init/EncodeInto/Encode in a zz_generated.go), the
// PROOF ARTEFACTS of property C13's encoder clause and writes them as an ordinary contract file zz_verif_c13gen.go into the
// package:
//
//   - c13Len_X(encoder, value): the announced length, read off the body of Init itself (second phase: `l := 0 ... encoder.length = l`)
//     as a side-effect free function: `l += e` contributes e, if/switch become conditional helper functions, a loop over a
//     sequence becomes a recursive prefix sum. Nobody writes a length formula: Init's body IS the definition.
//   - c13Wf_X(encoder, value): what Init leaves in the encoder (name/wire sub-lengths, sub-encoders well-formed, length).
//   - contracts for Init / EncodeInto / Encode / X.Encode with the loop invariants (prefix-sum shape).
//
// Nothing generated here is trusted except the `c13mono*` lemmas (A-MEM: partial sums of element sizes are monotone and
// small, i.e. length arithmetic does not wrap around 2^64). Every other line is checked by gcv like a hand-written
// contract: a wrong derivation makes an obligation fail, it cannot make a claim true. The claim itself (writes in bounds,
// final write position == announced length, Encode returns exactly the announced number of bytes) is stated by the
// clauses `assert return pos == encoder.length`, the #idx/#slice obligations and the Encode postcondition.

import (
	"flag"
	"fmt"
	"go/ast"
	"go/token"
	"go/types"
	"math/big"
	"os"
	"path/filepath"
	"sort"
	"strings"

	"golang.org/x/tools/go/packages"
)

type c13Unsupported string

func c13fail(format string, args ...interface{}) { panic(c13Unsupported(fmt.Sprintf(format, args...))) }

type c13Binding struct {
	expr     ast.Expr            // replacement expression
	lit      map[string]ast.Expr // struct literal (pseudoValue): field -> expression
	ptrToLit bool
}

type c13Scope struct {
	parent *c13Scope
	b      map[string]*c13Binding
}

func (s *c13Scope) lookup(n string) *c13Binding {
	for x := s; x != nil; x = x.parent {
		if b, ok := x.b[n]; ok {
			return b
		}
	}
	return nil
}

func (s *c13Scope) child() *c13Scope { return &c13Scope{parent: s, b: map[string]*c13Binding{}} }

type c13Loop struct {
	ord       int
	acc       string   // the accumulator as written in an invariant: pos, l, encoder.N_length
	prefix    []string // terms accumulated before the loop (function-level names; enclosing indices as placeholders)
	sumApp    string   // partial sum with IDX standing for the number of elements processed
	uses      []string
	enclosing []c13Encl
	extra     []string // further invariants
	forVar    string   // index variable of a three-clause loop ("" for range loops)
	seq       string   // the sequence a range loop of the summing passes runs over
}

type c13Encl struct {
	ord    int
	holder string // placeholder used in expressions for the current index of that loop
	forVar string
	seq    string // the sequence ranged over
}

type c13Model struct {
	name          string
	encT, valT    string
	init, into    *ast.FuncDecl
	encode        *ast.FuncDecl
	pubEncode     *ast.FuncDecl
	bytes         *ast.FuncDecl
	skip          string
	lenExpr       string
	bound         *big.Int
	wf            []string
	initLoops     []*c13Loop
	intoLoops     []*c13Loop
	uses          map[string]bool
	needsCompCtx  bool
	subModels     []string
	pos           token.Pos
	initCuts      []string // `assert at` cuts of Init / EncodeInto (one per top-level statement of the summing pass)
	intoCuts      []string
	fits          []string // A-MEM facts about the strings of the value (and of its sub-values)
	intoMods      []string // encoder fields EncodeInto writes (markers)
}

type c13Pkg struct {
	p        *packages.Package
	helpers  map[string]string // dedupe: signature+body -> name
	hText    []string
	nH       int
	needTime bool
	models   []*c13Model
	byName   map[string]*c13Model
	lemmas   []string
	// per-function translation state
	m       *c13Model
	acc     string
	nLoop   int
	loops   []*c13Loop
	encl    []c13Encl
	params  []string // extra index parameters in scope (placeholders)
	guards  []string // conditions of the enclosing if statements (for the A-MEM facts)
	depth   int
	cuts    *[]string
	collectFits bool // first (Init) pass: collect A-MEM facts about strings
}

var c13Two48 = new(big.Int).Lsh(big.NewInt(1), 48)
var c13Two52 = new(big.Int).Lsh(big.NewInt(1), 52)
var c13Two56 = new(big.Int).Lsh(big.NewInt(1), 56)

func cmdC13Gen(args []string) {
	fs := flag.NewFlagSet("c13gen", flag.ExitOnError)
	repo := fs.String("repo", "/repo", "repository")
	pkgs := fs.String("pkgs", "", "package patterns (comma separated); default: the packages of props/C13.json")
	write := fs.Bool("w", false, "write zz_verif_c13gen.go into the packages (default: report only)")
	verbose := fs.Bool("v", false, "verbose")
	fs.Parse(args)
	pats := strings.Split(*pkgs, ",")
	if *pkgs == "" {
		var cfg PropConfig
		if err := readJSON(filepath.Join(verifDir, "props", "C13.json"), &cfg); err != nil {
			fmt.Println("TOOL-ERROR no -pkgs and no props/C13.json:", err)
			os.Exit(2)
		}
		pats = cfg.Packages
	}
	// production files only (no build tag): the generated contract files must not be needed to derive themselves
	cfg := &packages.Config{Mode: packages.LoadAllSyntax, Dir: *repo,
		Env: append(os.Environ(), "GOFLAGS=-mod=mod", "GOPROXY=off", "GOSUMDB=off", "GOTOOLCHAIN=local")}
	loaded, err := packages.Load(cfg, pats...)
	if err != nil {
		fmt.Println("TOOL-ERROR load:", err)
		os.Exit(2)
	}
	sort.Slice(loaded, func(i, j int) bool { return loaded[i].PkgPath < loaded[j].PkgPath })
	total, done := 0, 0
	for _, p := range loaded {
		if len(p.Errors) > 0 {
			fmt.Println("TOOL-ERROR package errors in", p.PkgPath, p.Errors[0])
			os.Exit(2)
		}
		g := &c13Pkg{p: p, helpers: map[string]string{}, byName: map[string]*c13Model{}}
		g.collect()
		if len(g.models) == 0 {
			continue
		}
		g.translateAll()
		text := g.render()
		dir := ""
		for _, f := range p.GoFiles {
			if filepath.Base(f) == "zz_generated.go" {
				dir = filepath.Dir(f)
			}
		}
		for _, m := range g.models {
			total++
			if m.skip == "" {
				done++
			}
			if *verbose || m.skip != "" {
				st := "ok"
				if m.skip != "" {
					st = "SKIPPED: " + m.skip
				}
				fmt.Printf("%-60s %s\n", p.PkgPath+"."+m.name, st)
			}
		}
		if *write && dir != "" {
			if err := os.WriteFile(filepath.Join(dir, "zz_verif_c13gen.go"), []byte(text), 0o644); err != nil {
				fmt.Println("TOOL-ERROR", err)
				os.Exit(2)
			}
		}
	}
	fmt.Printf("c13gen: %d of %d generated encoders have derived contracts\n", done, total)
}

// ---- discovery ----

func (g *c13Pkg) collect() {
	for i, f := range g.p.Syntax {
		if filepath.Base(g.p.CompiledGoFiles[i]) != "zz_generated.go" {
			continue
		}
		for _, d := range f.Decls {
			fd, ok := d.(*ast.FuncDecl)
			if !ok || fd.Recv == nil || len(fd.Recv.List) != 1 || fd.Body == nil {
				continue
			}
			rt := types.ExprString(fd.Recv.List[0].Type)
			rt = strings.TrimPrefix(rt, "*")
			if strings.HasSuffix(rt, "Encoder") {
				name := strings.TrimSuffix(rt, "Encoder")
				m := g.byName[name]
				if m == nil {
					m = &c13Model{name: name, encT: rt, valT: name, uses: map[string]bool{}, pos: fd.Pos()}
					g.byName[name] = m
					g.models = append(g.models, m)
				}
				switch fd.Name.Name {
				case "Init":
					m.init = fd
				case "EncodeInto":
					m.into = fd
				case "Encode":
					m.encode = fd
				}
			}
		}
		for _, d := range f.Decls {
			fd, ok := d.(*ast.FuncDecl)
			if !ok || fd.Recv == nil || len(fd.Recv.List) != 1 || fd.Body == nil {
				continue
			}
			rt := strings.TrimPrefix(types.ExprString(fd.Recv.List[0].Type), "*")
			if m := g.byName[rt]; m != nil {
				switch fd.Name.Name {
				case "Encode":
					m.pubEncode = fd
				case "Bytes":
					m.bytes = fd
				}
			}
		}
	}
	sort.Slice(g.models, func(i, j int) bool { return g.models[i].pos < g.models[j].pos })
}

// ---- expression substitution ----

func (g *c13Pkg) subst(x ast.Expr, sc *c13Scope) ast.Expr {
	switch x := x.(type) {
	case nil:
		return nil
	case *ast.Ident:
		if b := sc.lookup(x.Name); b != nil {
			if b.lit != nil {
				c13fail("struct literal %s used as a value", x.Name)
			}
			return b.expr
		}
		if x.Name == g.acc || x.Name == "buf" || x.Name == "wire" || x.Name == "pos" || x.Name == "l" {
			c13fail("expression depends on %s", x.Name)
		}
		return x
	case *ast.BasicLit:
		return x
	case *ast.ParenExpr:
		return &ast.ParenExpr{X: g.subst(x.X, sc)}
	case *ast.SelectorExpr:
		// (pointer to) struct literal . field
		if id, ok := x.X.(*ast.Ident); ok {
			if b := sc.lookup(id.Name); b != nil && b.lit != nil {
				f, ok := b.lit[x.Sel.Name]
				if !ok {
					c13fail("struct literal %s has no field %s", id.Name, x.Sel.Name)
				}
				return f
			}
			if sc.lookup(id.Name) == nil && g.isPkgName(id) {
				if id.Name == "time" {
					g.needTime = true
				}
				return x
			}
		}
		base := g.subst(x.X, sc)
		// (&E).f == E.f
		if u, ok := stripParen(base).(*ast.UnaryExpr); ok && u.Op == token.AND {
			base = u.X
		}
		return &ast.SelectorExpr{X: base, Sel: x.Sel}
	case *ast.StarExpr:
		base := g.subst(x.X, sc)
		if u, ok := stripParen(base).(*ast.UnaryExpr); ok && u.Op == token.AND {
			return u.X
		}
		return &ast.StarExpr{X: base}
	case *ast.UnaryExpr:
		return &ast.UnaryExpr{Op: x.Op, X: g.subst(x.X, sc)}
	case *ast.BinaryExpr:
		return &ast.BinaryExpr{X: g.subst(x.X, sc), Op: x.Op, Y: g.subst(x.Y, sc)}
	case *ast.IndexExpr:
		return &ast.IndexExpr{X: g.subst(x.X, sc), Index: g.subst(x.Index, sc)}
	case *ast.CallExpr:
		// conversions and len(): the function part is a type or builtin name
		var args []ast.Expr
		for _, a := range x.Args {
			args = append(args, g.subst(a, sc))
		}
		switch f := x.Fun.(type) {
		case *ast.Ident:
			if sc.lookup(f.Name) == nil {
				switch f.Name {
				case "len", "uint", "uint64", "int", "uint32", "uint16", "byte", "uint8", "int64":
					return &ast.CallExpr{Fun: f, Args: args}
				}
			}
		case *ast.SelectorExpr:
			if id, ok := f.X.(*ast.Ident); ok && sc.lookup(id.Name) == nil && g.isPkgName(id) {
				if tv, ok := g.p.TypesInfo.Types[x.Fun]; ok && tv.IsType() {
					return &ast.CallExpr{Fun: f, Args: args}
				}
			}
		}
		c13fail("call %s in a length expression", types.ExprString(x))
	}
	c13fail("expression form %T", x)
	return nil
}

func stripParen(x ast.Expr) ast.Expr {
	for {
		p, ok := x.(*ast.ParenExpr)
		if !ok {
			return x
		}
		x = p.X
	}
}

func (g *c13Pkg) isPkgName(id *ast.Ident) bool {
	if o, ok := g.p.TypesInfo.Uses[id]; ok {
		_, isPkg := o.(*types.PkgName)
		return isPkg
	}
	return false
}

func (g *c13Pkg) str(x ast.Expr) string { return types.ExprString(x) }

// ---- helper functions (deduplicated by text) ----

func (g *c13Pkg) ctxParams() string {
	s := "encoder *" + g.m.encT + ", value *" + g.m.valT
	for _, p := range g.params {
		s += ", " + p + " int"
	}
	return s
}

func (g *c13Pkg) ctxArgs() string {
	s := "encoder, value"
	for _, p := range g.params {
		s += ", " + p
	}
	return s
}

func (g *c13Pkg) helper(kind, params, result, body string) string {
	key := params + "|" + result + "|" + body
	if n, ok := g.helpers[key]; ok {
		return n
	}
	g.nH++
	n := fmt.Sprintf("c13%s%d", kind, g.nH)
	g.helpers[key] = n
	g.hText = append(g.hText, fmt.Sprintf("func %s(%s) %s {\n%s}\n", n, params, result, body))
	return n
}

type c13Sum struct {
	terms []string
	bound *big.Int
}

func (s *c13Sum) add(t string, b *big.Int) {
	s.terms = append(s.terms, t)
	s.bound = new(big.Int).Add(s.bound, b)
}

func (s *c13Sum) expr() string {
	if len(s.terms) == 0 {
		return "0"
	}
	return strings.Join(s.terms, " + ")
}

func c13Max(a, b *big.Int) *big.Int {
	if a.Cmp(b) >= 0 {
		return a
	}
	return b
}

// ---- statement translation: the total increment of the accumulator by a statement list ----

func (g *c13Pkg) delta(stmts []ast.Stmt, sc *c13Scope, prefix []string) *c13Sum {
	sum := &c13Sum{bound: big.NewInt(0)}
	cur := func() []string { return append(append([]string{}, prefix...), sum.terms...) }
	g.depth++
	defer func() { g.depth-- }()
	for _, s := range stmts {
		if g.depth == 1 && g.cuts != nil && len(sum.terms) > 0 {
			// proof cut before every top-level statement: the accumulator equals the sum of the contributions so far (and
			// is small), so that each field is verified against its own contribution only
			line := g.p.Fset.Position(s.Pos()).Line
			*g.cuts = append(*g.cuts, fmt.Sprintf("assert at %d %s == %s && %s <= %s", line, g.acc, sum.expr(), g.acc, sum.bound.String()))
		}
		switch s := s.(type) {
		case *ast.EmptyStmt:
		case *ast.DeclStmt:
		case *ast.ExprStmt:
			// calls (copy, PutUintNN, sub-encoder EncodeInto): no effect on the accumulator, which is a local variable
		case *ast.IncDecStmt:
			if id, ok := s.X.(*ast.Ident); ok && id.Name == g.acc && sc.lookup(id.Name) == nil {
				c13fail("%s++", g.acc)
			}
		case *ast.AssignStmt:
			g.assign(s, sc, sum)
		case *ast.BlockStmt:
			in := g.delta(s.List, sc.child(), cur())
			for i, t := range in.terms {
				_ = i
				sum.terms = append(sum.terms, t)
			}
			sum.bound = new(big.Int).Add(sum.bound, in.bound)
		case *ast.IfStmt:
			if s.Init != nil {
				c13fail("if with init statement")
			}
			cond := g.str(g.subst(s.Cond, sc))
			g.guards = append(g.guards, cond)
			th := g.delta(s.Body.List, sc.child(), cur())
			g.guards = g.guards[:len(g.guards)-1]
			el := &c13Sum{bound: big.NewInt(0)}
			switch e := s.Else.(type) {
			case nil:
			case *ast.BlockStmt:
				el = g.delta(e.List, sc.child(), cur())
			default:
				c13fail("else-if chain")
			}
			if len(th.terms) == 0 && len(el.terms) == 0 {
				continue
			}
			body := fmt.Sprintf("\tif %s {\n\t\treturn %s\n\t}\n\treturn %s\n", cond, th.expr(), el.expr())
			h := g.helper("if", g.ctxParams(), "uint", body)
			sum.add(h+"("+g.ctxArgs()+")", c13Max(th.bound, el.bound))
		case *ast.SwitchStmt:
			g.switchStmt(s, sc, sum, cur())
		case *ast.RangeStmt:
			g.rangeStmt(s, sc, sum, cur())
		case *ast.ForStmt:
			c13fail("three-clause loop in a length/encoding pass")
		default:
			c13fail("statement %T", s)
		}
	}
	return sum
}

func (g *c13Pkg) assign(s *ast.AssignStmt, sc *c13Scope, sum *c13Sum) {
	if id, ok := s.Lhs[0].(*ast.Ident); ok && len(s.Lhs) == 1 && id.Name == g.acc && sc.lookup(id.Name) == nil {
		if s.Tok != token.ADD_ASSIGN {
			c13fail("assignment `%s %s ...` to the accumulator", g.acc, s.Tok)
		}
		rhs := s.Rhs[0]
		if tv, ok := g.p.TypesInfo.Types[rhs]; ok && tv.Value != nil {
			v, _ := new(big.Int).SetString(tv.Value.ExactString(), 10)
			sum.add(v.String(), v)
			return
		}
		e := g.subst(rhs, sc)
		g.stringFact(rhs, sc)
		// min(e, bound): e is known to be below its bound (A-MEM for strings and slices, c13Wf for sub-lengths); capping it
		// tells the verifier's interval analysis so, and sums of capped terms need no wrap-around function
		bd := g.boundOf(e)
		sum.add("min("+g.str(e)+", "+bd.String()+")", bd)
		return
	}
	if s.Tok == token.DEFINE {
		for i, l := range s.Lhs {
			id, ok := l.(*ast.Ident)
			if !ok || id.Name == "_" || i >= len(s.Rhs) {
				continue
			}
			g.bind(sc, id.Name, s.Rhs[i])
		}
		return
	}
	// other assignments (buf[pos] = ..., encoder.marker = int(l), _ = x): no effect on the accumulator
	if g.acc == "pos" {
		for _, l := range s.Lhs {
			if sel, ok := l.(*ast.SelectorExpr); ok {
				if id, ok := sel.X.(*ast.Ident); ok && id.Name == "encoder" {
					if sc.lookup("encoder") != nil || len(g.params) > 0 {
						c13fail("EncodeInto writes an encoder field inside a sequence")
					}
					g.m.intoMods = append(g.m.intoMods, "encoder."+sel.Sel.Name)
				}
			}
		}
	}
	for _, l := range s.Lhs {
		if id, ok := l.(*ast.Ident); ok && id.Name == g.acc && sc.lookup(id.Name) == nil {
			c13fail("multi-assignment to the accumulator")
		}
	}
}

// bind records `name := rhs` (rhs may mention the accumulator or buffers: then the name is poisoned and any later use fails).
func (g *c13Pkg) bind(sc *c13Scope, name string, rhs ast.Expr) {
	defer func() {
		if r := recover(); r != nil {
			if _, ok := r.(c13Unsupported); ok {
				sc.b[name] = &c13Binding{expr: &ast.Ident{Name: "buf"}} // poisoned: subst fails on use
				return
			}
			panic(r)
		}
	}()
	switch r := stripParen(rhs).(type) {
	case *ast.CompositeLit:
		lit := map[string]ast.Expr{}
		for _, el := range r.Elts {
			kv, ok := el.(*ast.KeyValueExpr)
			if !ok {
				c13fail("positional composite literal")
			}
			lit[kv.Key.(*ast.Ident).Name] = g.subst(kv.Value, sc)
		}
		sc.b[name] = &c13Binding{lit: lit}
		return
	case *ast.UnaryExpr:
		if id, ok := r.X.(*ast.Ident); ok && r.Op == token.AND {
			if b := sc.lookup(id.Name); b != nil && b.lit != nil {
				sc.b[name] = &c13Binding{lit: b.lit, ptrToLit: true}
				return
			}
		}
	}
	sc.b[name] = &c13Binding{expr: g.subst(rhs, sc)}
}

func (g *c13Pkg) switchStmt(s *ast.SwitchStmt, sc *c13Scope, sum *c13Sum, prefix []string) {
	if s.Tag != nil {
		c13fail("switch with tag")
	}
	as, ok := s.Init.(*ast.AssignStmt)
	if !ok || as.Tok != token.DEFINE || len(as.Lhs) != 1 || len(as.Rhs) != 1 {
		c13fail("switch without `x := e` init")
	}
	xn := as.Lhs[0].(*ast.Ident).Name
	xt := g.p.TypesInfo.TypeOf(as.Rhs[0])
	if xt == nil {
		c13fail("switch variable without type")
	}
	xts := types.TypeString(xt, func(p *types.Package) string { return p.Name() })
	arg := g.subst(as.Rhs[0], sc)
	in := sc.child()
	in.b[xn] = &c13Binding{expr: &ast.Ident{Name: "x"}}
	var body strings.Builder
	body.WriteString("\tswitch {\n")
	bound := big.NewInt(0)
	def := "0"
	usesCtx := false
	for _, cc := range s.Body.List {
		c := cc.(*ast.CaseClause)
		d := g.delta(c.Body, in.child(), prefix)
		bound = c13Max(bound, d.bound)
		e := d.expr()
		if strings.Contains(e, "encoder") || strings.Contains(e, "value") {
			usesCtx = true
		}
		if c.List == nil {
			def = e
			continue
		}
		var cs []string
		for _, ce := range c.List {
			cs = append(cs, g.str(g.subst(ce, in)))
		}
		fmt.Fprintf(&body, "\tcase %s:\n\t\treturn %s\n", strings.Join(cs, ", "), e)
	}
	body.WriteString("\t}\n\treturn " + def + "\n")
	if usesCtx {
		h := g.helper("sw", g.ctxParams()+", x "+xts, "uint", body.String())
		sum.add(h+"("+g.ctxArgs()+", "+g.str(arg)+")", bound)
		return
	}
	h := g.helper("sw", "x "+xts, "uint", body.String())
	sum.add(h+"("+g.str(arg)+")", bound)
}

// rangeStmt: a loop of the length / encoding pass.
func (g *c13Pkg) rangeStmt(s *ast.RangeStmt, sc *c13Scope, sum *c13Sum, prefix []string) {
	g.nLoop++
	ord := g.nLoop
	seq := g.subst(s.X, sc)
	seqS := g.str(seq)
	st := g.p.TypesInfo.TypeOf(s.X)
	if st == nil {
		c13fail("range over untyped expression")
	}
	if _, isMap := st.Underlying().(*types.Map); isMap {
		c13fail("map field (iteration order of the length pass and of the encoding pass differ: the sums are related by a multiset argument, not by a prefix-sum invariant)")
	}
	vn := ""
	if id, ok := s.Value.(*ast.Ident); ok {
		vn = id.Name
	}
	lp := &c13Loop{ord: ord, acc: g.acc, prefix: prefix, enclosing: append([]c13Encl{}, g.encl...), seq: seqS}
	// name components: for _, c := range N { pos += uint(c.EncodeInto(buf[pos:])) }   /   l += uint(c.EncodingLength())
	if g.isCompLoop(s, vn) {
		lp.sumApp = "uint(enc.SpecNameLen(" + seqS + ", IDX))"
		lp.uses = []string{"enc.lemmaNameLenMono"}
		g.m.uses["enc.lemmaNameLenMono"] = true
		g.m.needsCompCtx = true
		g.loops = append(g.loops, lp)
		sum.add("min(uint(enc.SpecNameLen("+seqS+", len("+seqS+"))), "+c13Two48.String()+")", c13Two48)
		return
	}
	// wire segments (copying model): for _, w := range W { copy(buf[pos:], w); pos += uint(len(w)) }
	if g.isWireLoop(s, vn) {
		lp.sumApp = "uint(enc.SpecWireSegLen(" + seqS + ", IDX))"
		lp.uses = []string{"enc.lemmaWireLenMono"}
		g.m.uses["enc.lemmaWireLenMono"] = true
		g.loops = append(g.loops, lp)
		sum.add("min(uint(enc.SpecWireSegLen("+seqS+", len("+seqS+"))), "+c13Two48.String()+")", c13Two48)
		return
	}
	// sequence of elements: recursive prefix sum over the per-element increment
	depth := len(g.params) + 1
	holder := fmt.Sprintf("c13i%d", depth)
	in := sc.child()
	if id, ok := s.Key.(*ast.Ident); ok && id.Name != "_" {
		in.b[id.Name] = &c13Binding{expr: &ast.Ident{Name: holder}}
	}
	if vn != "" && vn != "_" {
		in.b[vn] = &c13Binding{expr: &ast.IndexExpr{X: seq, Index: &ast.Ident{Name: holder}}}
	}
	outerParams := g.ctxParams()
	outerArgs := g.ctxArgs()
	g.params = append(g.params, holder)
	g.encl = append(g.encl, c13Encl{ord: ord, holder: holder, seq: seqS})
	// the partial sum up to the current element is part of the prefix of everything inside the body
	sumName := fmt.Sprintf("c13sum_%s_%d", g.m.name, g.sumID(seqS))
	bodyPrefix := append(append([]string{}, prefix...), sumName+"("+outerArgs+", "+holder+")")
	saveLoops := len(g.loops)
	g.loops = append(g.loops, lp)
	d := g.delta(s.Body.List, in, bodyPrefix)
	_ = saveLoops
	bodyFn := g.helper("elem", g.ctxParams(), "uint", "\treturn "+d.expr()+"\n")
	g.params = g.params[:len(g.params)-1]
	g.encl = g.encl[:len(g.encl)-1]
	// recursive sum and its (trusted, A-MEM) monotonicity lemma: once per (model, sequence)
	key := "sum|" + sumName
	if _, have := g.helpers[key]; !have {
		g.helpers[key] = sumName
		g.hText = append(g.hText, fmt.Sprintf("func %s(%s, n int) uint {\n\tif n <= 0 {\n\t\treturn 0\n\t}\n\treturn %s(%s, n-1) + %s(%s, n-1)\n}\n",
			sumName, outerParams, sumName, outerArgs, bodyFn, outerArgs))
		lemma := strings.Replace(sumName, "c13sum_", "c13mono_", 1)
		g.lemmas = append(g.lemmas, fmt.Sprintf("// A-MEM: the partial sums of the element sizes of %s are monotone and stay below 2^52 (no wrap-around). Assumed.\n//\n//@ func %s\n//@   trusted\n//@   requires 0 <= j && j <= i && i <= len(%s)\n//@   ensures %s(%s, j) <= %s(%s, i) && %s(%s, i) <= 4503599627370496\nfunc %s(%s, j, i int) {}\n",
			seqS, lemma, seqS, sumName, outerArgs, sumName, outerArgs, sumName, outerArgs, lemma, outerParams))
	} else if !strings.Contains(strings.Join(g.hText, "\n"), fmt.Sprintf("%s(%s, n-1) + %s(", sumName, outerArgs, bodyFn)) {
		// the same sequence is summed with a different element function in the other pass: keep the first (Init's) and let
		// the solver show that the increments agree (no induction needed: the invariant unfolds the sum once)
	}
	lemma := strings.Replace(sumName, "c13sum_", "c13mono_", 1)
	lp.sumApp = sumName + "(" + outerArgs + ", IDX)"
	lp.uses = []string{lemma}
	g.m.uses[lemma] = true
	sum.add("min("+sumName+"("+outerArgs+", len("+seqS+")), "+c13Two52.String()+")", c13Two52)
}

// sumID numbers the sequences of a model by their range expression (Init and EncodeInto range over the same expression).
func (g *c13Pkg) sumID(seq string) int {
	key := "seq|" + g.m.name + "|" + seq
	if n, ok := g.helpers[key]; ok {
		var k int
		fmt.Sscanf(n, "%d", &k)
		return k
	}
	k := 1
	for kk := range g.helpers {
		if strings.HasPrefix(kk, "seq|"+g.m.name+"|") {
			k++
		}
	}
	g.helpers[key] = fmt.Sprint(k)
	return k
}

func (g *c13Pkg) isCompLoop(s *ast.RangeStmt, vn string) bool {
	if len(s.Body.List) != 1 || vn == "" {
		return false
	}
	as, ok := s.Body.List[0].(*ast.AssignStmt)
	if !ok || as.Tok != token.ADD_ASSIGN || len(as.Rhs) != 1 {
		return false
	}
	t := types.ExprString(as.Rhs[0])
	return t == "uint("+vn+".EncodeInto(buf[pos:]))" || t == "uint("+vn+".EncodingLength())"
}

func (g *c13Pkg) isWireLoop(s *ast.RangeStmt, vn string) bool {
	if vn == "" {
		return false
	}
	switch len(s.Body.List) {
	case 1:
		as, ok := s.Body.List[0].(*ast.AssignStmt)
		return ok && as.Tok == token.ADD_ASSIGN && types.ExprString(as.Rhs[0]) == "uint(len("+vn+"))"
	case 2:
		es, ok := s.Body.List[0].(*ast.ExprStmt)
		if !ok || types.ExprString(es.X) != "copy(buf[pos:], "+vn+")" {
			return false
		}
		as, ok := s.Body.List[1].(*ast.AssignStmt)
		return ok && as.Tok == token.ADD_ASSIGN && types.ExprString(as.Rhs[0]) == "uint(len("+vn+"))"
	}
	return false
}

// stringFact: `acc += uint(len(s))` for a string s: strings have no length bound in the memory model (slices have: 2^48), so
// A-MEM is recorded for s as a fact of c13Fits (guarded by the enclosing conditions, quantified over the enclosing sequences).
func (g *c13Pkg) stringFact(rhs ast.Expr, sc *c13Scope) {
	if !g.collectFits {
		return
	}
	c, ok := stripParen(rhs).(*ast.CallExpr)
	if !ok || len(c.Args) != 1 || types.ExprString(c.Fun) != "uint" {
		return
	}
	in, ok := stripParen(c.Args[0]).(*ast.CallExpr)
	if !ok || len(in.Args) != 1 || types.ExprString(in.Fun) != "len" {
		return
	}
	t := g.p.TypesInfo.TypeOf(in.Args[0])
	if t == nil {
		return
	}
	if b, ok := t.Underlying().(*types.Basic); !ok || b.Info()&types.IsString == 0 {
		return
	}
	fact := "len(" + g.str(g.subst(in.Args[0], sc)) + ") <= 281474976710656"
	for i := len(g.guards) - 1; i >= 0; i-- {
		fact = "(!(" + g.guards[i] + ") || " + fact + ")"
	}
	for i := len(g.encl) - 1; i >= 0; i-- {
		fact = fmt.Sprintf("forallIn(0, len(%s), func(%s int) bool { return %s })", g.encl[i].seq, g.encl[i].holder, fact)
	}
	g.m.fits = append(g.m.fits, fact)
}

// boundOf: a static upper bound of a non-constant increment (A-MEM: slices and strings have fewer than 2^48 elements).
func (g *c13Pkg) boundOf(e ast.Expr) *big.Int {
	s := g.str(e)
	switch {
	case strings.HasPrefix(s, "uint(len(") || strings.HasPrefix(s, "len("):
		return c13Two48
	case strings.HasSuffix(s, "_length"): // name / wire sub-length: bounded through c13Wf (SpecNameLen / SpecWireLen <= 2^48)
		return c13Two48
	case strings.HasSuffix(s, "_encoder.length"):
		sub := g.subModelOf(s)
		if sub != nil && sub.bound != nil && sub.skip == "" {
			return sub.bound
		}
		c13fail("sub-encoder %s has no derived contract", s)
	}
	c13fail("no static bound for increment %s", s)
	return nil
}

// subModelOf: encoder....F_encoder.length -> the model of F_encoder's type.
func (g *c13Pkg) subModelOf(s string) *c13Model {
	s = strings.TrimSuffix(s, ".length")
	k := strings.LastIndex(s, ".")
	if k < 0 {
		return nil
	}
	return g.fieldModel(s[k+1:])
}

// fieldModel finds the model of the sub-encoder field `field` of the CURRENT model's encoder struct (also inside the
// anonymous element structs of its sequence sub-encoders).
func (g *c13Pkg) fieldModel(field string) *c13Model { return g.fieldModelOf(g.m, field) }

func (g *c13Pkg) fieldModelOf(m *c13Model, field string) *c13Model {
	o := g.p.Types.Scope().Lookup(m.encT)
	if o == nil {
		return nil
	}
	var found *c13Model
	var walk func(t types.Type, depth int)
	walk = func(t types.Type, depth int) {
		if depth > 4 || found != nil {
			return
		}
		switch u := t.Underlying().(type) {
		case *types.Struct:
			for i := 0; i < u.NumFields(); i++ {
				f := u.Field(i)
				if f.Name() == field {
					if n, ok := f.Type().(*types.Named); ok && strings.HasSuffix(n.Obj().Name(), "Encoder") {
						found = g.byName[strings.TrimSuffix(n.Obj().Name(), "Encoder")]
						return
					}
				}
				switch ft := f.Type().(type) {
				case *types.Slice:
					if _, anon := ft.Elem().(*types.Struct); anon {
						walk(ft.Elem(), depth+1)
					}
				case *types.Map:
					if p, ok := ft.Elem().(*types.Pointer); ok {
						if _, anon := p.Elem().(*types.Struct); anon {
							walk(p.Elem(), depth+1)
						}
					}
				}
			}
		}
	}
	walk(o.Type(), 0)
	return found
}

// ---- per-model translation ----

func (g *c13Pkg) translateAll() {
	// sub-models first (a struct field needs the bound and the well-formedness predicate of its model)
	done := map[string]bool{}
	var visit func(m *c13Model, depth int)
	visit = func(m *c13Model, depth int) {
		if done[m.name] || depth > 20 {
			return
		}
		done[m.name] = true
		if m.init != nil {
			ast.Inspect(m.init, func(n ast.Node) bool {
				if sel, ok := n.(*ast.SelectorExpr); ok && sel.Sel.Name == "Init" {
					if in, ok := sel.X.(*ast.SelectorExpr); ok && strings.HasSuffix(in.Sel.Name, "_encoder") {
						if sm := g.fieldModelOf(m, in.Sel.Name); sm != nil && sm != m {
							visit(sm, depth+1)
							m.subModels = append(m.subModels, sm.name)
						}
					}
				}
				return true
			})
		}
		g.translate(m)
	}
	for _, m := range g.models {
		visit(m, 0)
	}
}

func (g *c13Pkg) translate(m *c13Model) {
	defer func() {
		if r := recover(); r != nil {
			if u, ok := r.(c13Unsupported); ok {
				m.skip = string(u)
				return
			}
			panic(r)
		}
	}()
	g.m = m
	if m.init == nil || m.into == nil || m.encode == nil {
		c13fail("Init/EncodeInto/Encode not all present")
	}
	if types.ExprString(m.into.Type.Params.List[1].Type) != "[]byte" {
		c13fail("nocopy model (EncodeInto fills a wire plan of several buffers; positions are per buffer)")
	}
	for _, sm := range m.subModels {
		if g.byName[sm].skip != "" {
			c13fail("sub-encoder %s not covered (%s)", sm, g.byName[sm].skip)
		}
	}
	// ---- Init ----
	body := m.init.Body.List
	split, end := -1, -1
	for i, s := range body {
		if as, ok := s.(*ast.AssignStmt); ok && as.Tok == token.DEFINE && types.ExprString(as.Lhs[0]) == "l" && split < 0 {
			split = i
		}
		if as, ok := s.(*ast.AssignStmt); ok && as.Tok == token.ASSIGN && types.ExprString(as.Lhs[0]) == "encoder.length" {
			end = i
		}
	}
	if split < 0 || end < split || end != len(body)-1 {
		c13fail("Init does not have the shape <init sub-lengths>; l := 0; <sum>; encoder.length = l")
	}
	g.nLoop, g.loops, g.encl, g.params = 0, nil, nil, nil
	root := &c13Scope{b: map[string]*c13Binding{}}
	for _, s := range body[:split] {
		g.phase1(s, root)
	}
	g.acc = "l"
	g.collectFits, g.guards = true, nil
	g.depth, g.cuts = 0, &m.initCuts
	total := g.delta(body[split+1:end], root.child(), nil)
	g.collectFits, g.cuts = false, nil
	m.lenExpr = total.expr()
	m.bound = total.bound
	if m.bound.Cmp(c13Two56) > 0 {
		c13fail("static bound of the announced length exceeds 2^56")
	}
	m.initLoops = g.loops
	// ---- EncodeInto ----
	g.nLoop, g.loops, g.encl, g.params = 0, nil, nil, nil
	g.acc = "pos"
	ib := m.into.Body.List
	if len(ib) == 0 {
		c13fail("empty EncodeInto")
	}
	if as, ok := ib[0].(*ast.AssignStmt); !ok || as.Tok != token.DEFINE || types.ExprString(as.Lhs[0]) != "pos" || types.ExprString(as.Rhs[0]) != "uint(0)" {
		c13fail("EncodeInto does not start with pos := uint(0)")
	}
	g.depth, g.cuts = 0, &m.intoCuts
	g.delta(ib[1:], root.child(), nil)
	g.cuts = nil
	m.intoLoops = g.loops
}

// phase1: the statements of Init before `l := uint(0)` (sub-lengths and sub-encoders).
func (g *c13Pkg) phase1(s ast.Stmt, sc *c13Scope) {
	m := g.m
	switch s := s.(type) {
	case *ast.EmptyStmt:
		return
	case *ast.IfStmt:
		cond := types.ExprString(s.Cond)
		if s.Init == nil && s.Else == nil && strings.HasPrefix(cond, "value.") && strings.HasSuffix(cond, " != nil") {
			f := strings.TrimSuffix(strings.TrimPrefix(cond, "value."), " != nil")
			// struct: encoder.F_encoder.Init(value.F)
			if len(s.Body.List) == 1 {
				if es, ok := s.Body.List[0].(*ast.ExprStmt); ok && types.ExprString(es.X) == "encoder."+f+"_encoder.Init(value."+f+")" {
					sm := g.fieldModel(f + "_encoder")
					if sm == nil || sm.skip != "" {
						c13fail("sub-encoder of field %s not covered", f)
					}
					m.wf = append(m.wf, fmt.Sprintf("(value.%s == nil || c13Wf_%s(&encoder.%s_encoder, value.%s))", f, sm.name, f, f))
					m.fits = append(m.fits, fmt.Sprintf("(value.%s == nil || c13Fits_%s(value.%s))", f, sm.name, f))
					if len(sm.intoMods) > 0 {
						c13fail("sub-encoder %s writes encoder fields in EncodeInto", sm.name)
					}
					return
				}
			}
			// name / wire: encoder.F_length = 0; for _, c := range value.F { encoder.F_length += ... }
			if len(s.Body.List) == 2 {
				as, ok1 := s.Body.List[0].(*ast.AssignStmt)
				rs, ok2 := s.Body.List[1].(*ast.RangeStmt)
				if ok1 && ok2 && types.ExprString(as.Lhs[0]) == "encoder."+f+"_length" && types.ExprString(as.Rhs[0]) == "0" && types.ExprString(rs.X) == "value."+f {
					vn := ""
					if id, ok := rs.Value.(*ast.Ident); ok {
						vn = id.Name
					}
					g.nLoop++
					lp := &c13Loop{ord: g.nLoop, acc: "encoder." + f + "_length"}
					saveAcc := g.acc
					g.acc = "encoder." + f + "_length"
					isComp := len(rs.Body.List) == 1 && types.ExprString(rs.Body.List[0].(*ast.AssignStmt).Rhs[0]) == "uint("+vn+".EncodingLength())"
					isWire := len(rs.Body.List) == 1 && types.ExprString(rs.Body.List[0].(*ast.AssignStmt).Rhs[0]) == "uint(len("+vn+"))"
					g.acc = saveAcc
					switch {
					case isComp:
						lp.sumApp = "uint(enc.SpecNameLen(value." + f + ", IDX))"
						lp.uses = []string{"enc.lemmaNameLenMono"}
						m.uses["enc.lemmaNameLenMono"] = true
						m.wf = append(m.wf, fmt.Sprintf("(value.%s == nil || encoder.%s_length == uint(enc.SpecNameLen(value.%s, len(value.%s))))", f, f, f, f))
					case isWire:
						lp.sumApp = "uint(enc.SpecWireSegLen(value." + f + ", IDX))"
						lp.uses = []string{"enc.lemmaWireLenMono"}
						m.uses["enc.lemmaWireLenMono"] = true
						m.wf = append(m.wf, fmt.Sprintf("(value.%s == nil || encoder.%s_length == uint(enc.SpecWireSegLen(value.%s, len(value.%s))))", f, f, f, f))
					default:
						c13fail("unrecognised sub-length loop for field %s", f)
					}
					g.loops = append(g.loops, lp)
					return
				}
			}
		}
	case *ast.BlockStmt:
		g.phase1Seq(s, sc)
		return
	}
	c13fail("unrecognised statement in the first phase of Init: %s", strings.SplitN(nodeText(g, s), "\n", 2)[0])
}

// phase1Seq: { F_l := len(value.F); encoder.F_subencoder = make(...); for i := 0; i < F_l; i++ { ...per element... } }
func (g *c13Pkg) phase1Seq(s *ast.BlockStmt, sc *c13Scope) {
	m := g.m
	if len(s.List) != 3 {
		c13fail("unrecognised block in the first phase of Init")
	}
	a0, ok0 := s.List[0].(*ast.AssignStmt)
	a1, ok1 := s.List[1].(*ast.AssignStmt)
	fs, ok2 := s.List[2].(*ast.ForStmt)
	if !ok0 || !ok1 || !ok2 || !strings.HasPrefix(types.ExprString(a0.Rhs[0]), "len(value.") {
		c13fail("unrecognised block in the first phase of Init")
	}
	f := strings.TrimSuffix(strings.TrimPrefix(types.ExprString(a0.Rhs[0]), "len(value."), ")")
	if types.ExprString(a1.Lhs[0]) != "encoder."+f+"_subencoder" {
		if strings.HasSuffix(types.ExprString(a1.Lhs[0]), "_valencoder") {
			c13fail("map field (iteration order of the length pass and of the encoding pass differ: the sums are related by a multiset argument, not by a prefix-sum invariant)")
		}
		c13fail("unrecognised block in the first phase of Init")
	}
	g.nLoop++
	lp := &c13Loop{ord: g.nLoop, forVar: "i"}
	lp.extra = append(lp.extra, fmt.Sprintf("0 <= i && i <= len(value.%s) && %s_l == len(value.%s) && len(encoder.%s_subencoder) == len(value.%s)", f, f, f, f, f))
	m.wf = append(m.wf, fmt.Sprintf("len(encoder.%s_subencoder) == len(value.%s)", f, f))
	// the per-element block: pseudoEncoder := &encoder.F_subencoder[i]; pseudoValue := struct{F T}{F: value.F[i]}; { encoder := ...; value := ...; <stmt>; _ = ...}
	var inner []ast.Stmt
	for _, st := range fs.Body.List {
		if b, ok := st.(*ast.BlockStmt); ok {
			inner = b.List
		}
	}
	var elemStmts []ast.Stmt
	for _, st := range inner {
		if as, ok := st.(*ast.AssignStmt); ok {
			if as.Tok == token.DEFINE {
				continue
			}
			if id, ok := as.Lhs[0].(*ast.Ident); ok && id.Name == "_" {
				continue
			}
		}
		if _, ok := st.(*ast.EmptyStmt); ok {
			continue
		}
		elemStmts = append(elemStmts, st)
	}
	g.loops = append(g.loops, lp)
	if len(elemStmts) == 0 {
		return // elements without encoder state (numbers, strings, byte strings)
	}
	if len(elemStmts) != 1 {
		c13fail("sequence %s: unrecognised per-element initialisation", f)
	}
	ifs, ok := elemStmts[0].(*ast.IfStmt)
	if !ok || types.ExprString(ifs.Cond) != "value."+f+" != nil" {
		c13fail("sequence %s: unrecognised per-element initialisation", f)
	}
	// element is a struct: encoder.F_encoder.Init(value.F)
	if len(ifs.Body.List) == 1 {
		if es, ok := ifs.Body.List[0].(*ast.ExprStmt); ok && types.ExprString(es.X) == "encoder."+f+"_encoder.Init(value."+f+")" {
			sm := g.fieldModel(f + "_encoder")
			if sm == nil || sm.skip != "" {
				c13fail("sub-encoder of sequence %s not covered", f)
			}
			fact := func(idx string) string {
				return fmt.Sprintf("(value.%s[%s] == nil || c13Wf_%s(&encoder.%s_subencoder[%s].%s_encoder, value.%s[%s]))", f, idx, sm.name, f, idx, f, f, idx)
			}
			m.wf = append(m.wf, fmt.Sprintf("forallIn(0, len(value.%s), func(k int) bool { return %s })", f, fact("k")))
			m.fits = append(m.fits, fmt.Sprintf("forallIn(0, len(value.%s), func(k int) bool { return value.%s[k] == nil || c13Fits_%s(value.%s[k]) })", f, f, sm.name, f))
			if len(sm.intoMods) > 0 {
				c13fail("sub-encoder %s writes encoder fields in EncodeInto", sm.name)
			}
			lp.extra = append(lp.extra, fmt.Sprintf("forallIn(0, i, func(k int) bool { return %s })", fact("k")))
			return
		}
	}
	c13fail("sequence %s: element kind with encoder state other than a struct is not covered", f)
}

func nodeText(g *c13Pkg, n ast.Node) string {
	p0 := g.p.Fset.Position(n.Pos())
	p1 := g.p.Fset.Position(n.End())
	b, err := os.ReadFile(p0.Filename)
	if err != nil || p1.Offset > len(b) {
		return "?"
	}
	return string(b[p0.Offset:p1.Offset])
}

// ---- rendering ----

// inFunc rewrites an expression written over helper parameters into function-level names: the placeholders of enclosing
// loops become rangeindex<k>+1 (current element of range loop k).
func inFunc(e string, encl []c13Encl) string {
	for _, en := range encl {
		e = strings.ReplaceAll(e, en.holder, fmt.Sprintf("(rangeindex%d+1)", en.ord))
	}
	return e
}

func (g *c13Pkg) renderLoops(b *strings.Builder, loops []*c13Loop) {
	for _, lp := range loops {
		if lp.sumApp != "" {
			idx := "rangeindex+1"
			terms := append(append([]string{}, lp.prefix...), strings.ReplaceAll(lp.sumApp, "IDX", idx))
			fmt.Fprintf(b, "//@   loop %d invariant %s == %s\n", lp.ord, lp.acc, inFunc(strings.Join(terms, " + "), lp.enclosing))
			if lp.seq != "" {
				// the partial sum including the element about to be processed: mentioned at the loop head so that its
				// one-step unfolding (sum(i+1) == sum(i) + size of element i) is at hand inside the body; true by the c13mono lemma
				fmt.Fprintf(b, "//@   loop %d invariant rangeindex+2 > len(%s) || %s <= %s\n", lp.ord, inFunc(lp.seq, lp.enclosing),
					inFunc(strings.ReplaceAll(lp.sumApp, "IDX", "rangeindex+1"), lp.enclosing), inFunc(strings.ReplaceAll(lp.sumApp, "IDX", "rangeindex+2"), lp.enclosing))
			}
		}
		for _, x := range lp.extra {
			fmt.Fprintf(b, "//@   loop %d invariant %s\n", lp.ord, inFunc(x, lp.enclosing))
		}
	}
}

func (g *c13Pkg) render() string {
	var b strings.Builder
	b.WriteString("//go:build verif\n\n")
	b.WriteString("// Code generated by `gcv c13gen` from the bodies of the generated encoders in zz_generated.go. DO NOT EDIT.\n")
	b.WriteString("// Property C13, encoder clause: proof artefacts (derived length functions, well-formedness of an initialised encoder,\n")
	b.WriteString("// loop invariants). Regenerate with: gcv c13gen -repo <repo> -w. Nothing here is trusted except the c13mono lemmas (A-MEM).\n\n")
	b.WriteString("package " + g.p.Name + "\n\n")
	imports := []string{}
	needEnc := false
	all := strings.Join(g.hText, "\n")
	if strings.Contains(all, "enc.") {
		needEnc = true
	}
	for _, m := range g.models {
		if m.skip == "" && strings.Contains(strings.Join(m.wf, " "), "enc.") {
			needEnc = true
		}
	}
	if g.needTime && strings.Contains(all, "time.") {
		imports = append(imports, "\t\"time\"\n")
	}
	if needEnc && g.p.PkgPath != repoModule+"/std/encoding" {
		imports = append(imports, "\n\tenc \""+repoModule+"/std/encoding\"\n")
	}
	if len(imports) > 0 {
		b.WriteString("import (\n" + strings.Join(imports, "") + ")\n\n")
	}
	// ghost helpers of the contract language, if the package does not have them yet
	need := func(name string) bool {
		for _, f := range g.p.GoFiles {
			dir := filepath.Dir(f)
			ms, _ := filepath.Glob(filepath.Join(dir, "zz_verif_*.go"))
			for _, mf := range ms {
				if filepath.Base(mf) == "zz_verif_c13gen.go" {
					continue
				}
				if bs, err := os.ReadFile(mf); err == nil && strings.Contains(string(bs), "func "+name+"(") {
					return false
				}
			}
			break
		}
		return true
	}
	usesForall := false
	for _, m := range g.models {
		if m.skip == "" && strings.Contains(strings.Join(m.wf, " ")+strings.Join(m.fits, " "), "forallIn(") {
			usesForall = true
		}
	}
	if usesForall && need("forallIn") {
		b.WriteString("func forallIn(lo, hi int, f func(int) bool) bool {\n\tfor i := lo; i < hi; i++ {\n\t\tif !f(i) {\n\t\t\treturn false\n\t\t}\n\t}\n\treturn true\n}\n\n")
	}
	// helper functions
	for _, h := range g.hText {
		b.WriteString(h + "\n")
	}
	for _, l := range g.lemmas {
		b.WriteString(l + "\n")
	}
	compCtx := false
	for _, m := range g.models {
		if m.skip != "" {
			fmt.Fprintf(&b, "// %sEncoder: no derived contract: %s\n\n", m.name, m.skip)
			continue
		}
		if m.needsCompCtx {
			compCtx = true
		}
		wf := append(append([]string{}, m.wf...), fmt.Sprintf("encoder.length == c13Len_%s(encoder, value)", m.name), fmt.Sprintf("encoder.length <= %s", m.bound.String()))
		fmt.Fprintf(&b, "// ---- %s ----\n\n", m.name)
		fmt.Fprintf(&b, "// c13Len_%s: the length announced by (*%s).Init, as a function (derived from Init's second phase).\nfunc c13Len_%s(encoder *%s, value *%s) uint {\n\treturn %s\n}\n\n", m.name, m.encT, m.name, m.encT, m.valT, m.lenExpr)
		fmt.Fprintf(&b, "// c13Wf_%s: the encoder state Init(value) leaves behind.\nfunc c13Wf_%s(encoder *%s, value *%s) bool {\n\treturn %s\n}\n\n", m.name, m.name, m.encT, m.valT, strings.Join(wf, " &&\n\t\t"))
		fits := "true"
		if len(m.fits) > 0 {
			fits = strings.Join(m.fits, " &&\n\t\t")
		}
		fmt.Fprintf(&b, "// c13Fits_%s: A-MEM for the strings reachable from value (every string is shorter than 2^48 bytes, as every slice is in the\n// memory model). Required by the encoder's functions, ASSUMED at the public entry point (*%s).Encode.\nfunc c13Fits_%s(value *%s) bool {\n\treturn %s\n}\n\n", m.name, m.valT, m.name, m.valT, fits)
		var uses []string
		for u := range m.uses {
			uses = append(uses, u)
		}
		sort.Strings(uses)
		usesLine := ""
		if len(uses) > 0 {
			usesLine = "//@   uses " + strings.Join(uses, ", ") + "\n"
		}
		// Init
		fmt.Fprintf(&b, "//@ func (*%s).Init\n%s//@   requires value != nil && c13Fits_%s(value)\n//@   modifies deep(encoder)\n", m.encT, usesLine, m.name)
		if len(uses) > 0 {
			b.WriteString("//@   option uses-at-exit\n")
		}
		b.WriteString("//@   option spec-ranges tactic-solve lemma-patterns\n")
		for _, c := range m.initCuts {
			b.WriteString("//@   " + c + "\n")
		}
		for i, c := range wf {
			// one postcondition per conjunct of c13Wf (callers see their conjunction, which is c13Wf unfolded)
			fmt.Fprintf(&b, "//@   ensures [wf%d] %s\n", i+1, c)
		}
		g.renderLoops(&b, m.initLoops)
		b.WriteString("\n")
		// EncodeInto
		// one requires clause per conjunct of c13Wf (callers prove them one by one; together they are c13Wf unfolded)
		reqs := func() string {
			var rb strings.Builder
			fmt.Fprintf(&rb, "//@   requires value != nil\n//@   requires c13Fits_%s(value)\n", m.name)
			for _, c := range wf {
				fmt.Fprintf(&rb, "//@   requires %s\n", c)
			}
			return rb.String()
		}
		fmt.Fprintf(&b, "//@ func (*%s).EncodeInto\n%s%s//@   requires uint(len(buf)) >= encoder.length\n//@   modifies %s\n//@   assert return pos == encoder.length\n", m.encT, usesLine, reqs(), strings.Join(append([]string{"buf[*]"}, m.intoMods...), ", "))
		b.WriteString("//@   option spec-ranges cut-forget tactic-solve lemma-patterns\n")
		for _, c := range m.intoCuts {
			b.WriteString("//@   " + c + "\n")
		}
		g.renderLoops(&b, m.intoLoops)
		b.WriteString("\n")
		// Encode (of the encoder): exactly the announced number of bytes
		fmt.Fprintf(&b, "//@ func (*%s).Encode\n%s%s//@   modifies %s\n//@   ensures len(result) == 1 && uint(len(result[0])) == encoder.length && fresh(result) && fresh(result[0])\n\n", m.encT, usesLine, reqs(), strings.Join(append([]string{"nothing"}, m.intoMods...), ", "))
		if m.pubEncode != nil {
			fmt.Fprintf(&b, "//@ func (*%s).Encode\n//@   assume c13Fits_%s(value)\n//@   ensures len(result) == 1 && uint(len(result[0])) <= %s && fresh(result) && fresh(result[0])\n\n", m.valT, m.name, m.bound.String())
		}
	}
	if compCtx && g.p.PkgPath != repoModule+"/std/encoding" {
		b.WriteString("// This package's view of Component.EncodeInto: the length part of its contract only (no aliasing requirement, no layout).\n")
		b.WriteString("// Verified against the body of Component.EncodeInto by the C13 check (selection with ctx = this package).\n//\n")
		b.WriteString("//@ func (" + repoModule + "/std/encoding.Component).EncodeInto\n//@   requires len(buf) >= enc.specCompLen(c)\n//@   modifies buf[*]\n//@   ensures result == enc.specCompLen(c)\n")
	}
	return b.String()
}
