package main

import (
	"go/token"
	"go/types"
	"strings"

	"golang.org/x/tools/go/ssa"
)

// nativeModel gives engine-level semantics to a few library functions (A-DEP in DESIGN.md).
func (fr *Frame) nativeModel(name string, callee *ssa.Function, c *ssa.CallCommon, args []Val, pos token.Pos, st *State) (Val, bool) {
	vc := fr.vc
	switch name {
	case "(encoding/binary.bigEndian).PutUint16", "(encoding/binary.bigEndian).PutUint32", "(encoding/binary.bigEndian).PutUint64":
		n := map[string]int{"16": 2, "32": 4, "64": 8}[name[len(name)-2:]]
		b := args[1].(*SliceV)
		v := args[2].(Scalar).T
		fr.safety("idx", st, le(num(int64(n)), b.Len), pos, "")
		fr.frameCheck(st, Ptr{Root: "E|uint8", Base: b.Arr, Idx: "0"}, pos)
		bytesT := vc.beBytes(v, n)
		hn := "E|uint8|"
		sort := vc.heapSortFor(hn, "Int")
		h := vc.heap(st, hn, sort)
		inner := sel(h, b.Arr)
		for k := 0; k < n; k++ {
			inner = sto(inner, plus(b.Off, num(int64(k))), bytesT[k])
		}
		vc.setHeap(st, hn, sort, sto(h, b.Arr, inner))
		if vc.logStores {
			vc.storeLog = append(vc.storeLog, storeRec{heap: hn, base: b.Arr})
		}
		vc.note("library model: encoding/binary.BigEndian.PutUint* writes the big-endian bytes (Horner chain)")
		return &StructV{}, true
	case "(encoding/binary.bigEndian).Uint16", "(encoding/binary.bigEndian).Uint32", "(encoding/binary.bigEndian).Uint64":
		n := map[string]int{"16": 2, "32": 4, "64": 8}[name[len(name)-2:]]
		b := args[1].(*SliceV)
		fr.safety("idx", st, le(num(int64(n)), b.Len), pos, "")
		h := vc.byteHeap(st)
		t := "0"
		for k := 0; k < n; k++ {
			by := sel2(h, b.Arr, plus(b.Off, num(int64(k))))
			vc.assert(and(le("0", by), le(by, "255")))
			if t == "0" {
				t = by
			} else {
				t = plus(app("*", "256", t), by)
			}
		}
		vc.note("library model: encoding/binary.BigEndian.Uint* reads big-endian bytes (Horner chain)")
		return Scalar{vc.define("be", "Int", t), "Int"}, true
	case "bytes.Equal":
		a := args[0].(*SliceV)
		b := args[1].(*SliceV)
		r := vc.fresh("beq", "Bool")
		vc.assert(eq(r, vc.bytesEqual(st, a, b)))
		vc.note("library model: bytes.Equal is length and element-wise equality")
		return Scalar{r, "Bool"}, true
	case "bytes.Compare":
		a := args[0].(*SliceV)
		b := args[1].(*SliceV)
		r := vc.fresh("bcmp", "Int")
		h := vc.byteHeap(st)
		// lexicographic comparison characterised by the first difference index d
		d := vc.fresh("bcmp_d", "Int")
		i := vc.freshName("q_i")
		ml := ite(le(a.Len, b.Len), a.Len, b.Len)
		ai := func(x string) string { return sel2(h, a.Arr, plus(a.Off, x)) }
		bi := func(x string) string { return sel2(h, b.Arr, plus(b.Off, x)) }
		vc.assert(and(le("0", d), le(d, ml),
			forall([][2]string{{i, "Int"}}, implies(and(le("0", i), lt(i, d)), eq(ai(i), bi(i)))),
			implies(lt(d, ml), not(eq(ai(d), bi(d)))),
			eq(r, ite(lt(d, ml), ite(lt(ai(d), bi(d)), "(- 1)", "1"), ite(lt(a.Len, b.Len), "(- 1)", ite(lt(b.Len, a.Len), "1", "0"))))))
		vc.note("library model: bytes.Compare is lexicographic byte order")
		return Scalar{r, "Int"}, true
	case "errors.New", "fmt.Errorf":
		e := vc.fresh("newerr", "Int")
		vc.assert(lt("0", e))
		for _, o := range vc.errGlobals {
			vc.assert(not(eq(e, o)))
		}
		return Scalar{e, "Int"}, true
	case "time.Now":
		vc.note("A-CLOCK: time.Now returns an arbitrary value")
		return vc.freshVal("now", callee.Signature.Results().At(0).Type()), true
	}
	// logging and formatting: pure, results arbitrary
	if isLogLike(name) {
		var vals []Val
		res := callee.Signature.Results()
		for i := 0; i < res.Len(); i++ {
			vals = append(vals, vc.freshVal("log", res.At(i).Type()))
		}
		if len(vals) == 0 {
			return &StructV{}, true
		}
		return tupleVal(vals), true
	}
	return nil, false
}

func isLogLike(name string) bool {
	for _, p := range []string{repoModule + "/fw/core.Log", "(*" + repoModule + "/std/log.", repoModule + "/std/log.", "fmt.Sprintf", "fmt.Sprint", "fmt.Print", "fmt.Fprint", "log.", "(*log.",
		"strconv.Itoa", "strconv.FormatUint", "strconv.FormatInt"} {
		if strings.HasPrefix(name, p) {
			return true
		}
	}
	return false
}

// beBytes decomposes v (an n-byte unsigned value) into its big-endian bytes with a linear Horner chain.
func (vc *VC) beBytes(v string, n int) []string {
	bs := make([]string, n)
	for k := 0; k < n; k++ {
		bs[k] = vc.fresh("byte", "Int")
		vc.assert(and(le("0", bs[k]), le(bs[k], "255")))
	}
	t := bs[0]
	for k := 1; k < n; k++ {
		t = plus(app("*", "256", t), bs[k])
	}
	vc.assert(eq(v, t))
	return bs
}

var _ = types.Typ
