package main

import (
	"go/ast"
	"go/token"
	"go/types"
	"strings"

	"golang.org/x/tools/go/ssa"
)

// nativeModel gives engine-level semantics to a few library functions (A-DEP in DESIGN.md).
func (fr *Frame) nativeModel(name string, callee *ssa.Function, c *ssa.CallCommon, args []Val, pos token.Pos, st *State) (Val, bool) {
	vc := fr.vc
	switch name {
	case "(encoding/binary.bigEndian).PutUint16", "(encoding/binary.bigEndian).PutUint32", "(encoding/binary.bigEndian).PutUint64":
		n := map[string]int{"16": 2, "32": 4, "64": 8}[name[len(name)-2:]]
		b := args[1].(*SliceV)
		v := args[2].(Scalar).T
		fr.safety("idx", st, le(num(int64(n)), b.Len), pos, "")
		fr.frameCheck(st, Ptr{Root: "E|uint8", Base: b.Arr, Idx: "0"}, pos)
		bytesT := vc.beBytes(v, n)
		hn := "E|uint8|"
		sort := vc.heapSortFor(hn, "Int")
		h := vc.heap(st, hn, sort)
		inner := sel(h, b.Arr)
		for k := 0; k < n; k++ {
			inner = sto(inner, plus(b.Off, num(int64(k))), bytesT[k])
		}
		vc.setHeap(st, hn, sort, sto(h, b.Arr, inner))
		if vc.logStores {
			vc.storeLog = append(vc.storeLog, storeRec{heap: hn, base: b.Arr})
		}
		vc.note("library model: encoding/binary.BigEndian.PutUint* writes the big-endian bytes (Horner chain)")
		return &StructV{}, true
	case "(encoding/binary.bigEndian).Uint16", "(encoding/binary.bigEndian).Uint32", "(encoding/binary.bigEndian).Uint64":
		n := map[string]int{"16": 2, "32": 4, "64": 8}[name[len(name)-2:]]
		b := args[1].(*SliceV)
		fr.safety("idx", st, le(num(int64(n)), b.Len), pos, "")
		h := vc.byteHeap(st)
		t := "0"
		for k := 0; k < n; k++ {
			by := sel2(h, b.Arr, plus(b.Off, num(int64(k))))
			vc.assert(and(le("0", by), le(by, "255")))
			if t == "0" {
				t = by
			} else {
				t = plus(app("*", "256", t), by)
			}
		}
		vc.note("library model: encoding/binary.BigEndian.Uint* reads big-endian bytes (Horner chain)")
		return Scalar{vc.define("be", "Int", t), "Int"}, true
	case "bytes.Equal":
		a := args[0].(*SliceV)
		b := args[1].(*SliceV)
		r := vc.fresh("beq", "Bool")
		vc.assert(eq(r, vc.bytesEqual(st, a, b)))
		vc.note("library model: bytes.Equal is length and element-wise equality")
		return Scalar{r, "Bool"}, true
	case "bytes.Compare":
		a := args[0].(*SliceV)
		b := args[1].(*SliceV)
		r := vc.fresh("bcmp", "Int")
		h := vc.byteHeap(st)
		// lexicographic comparison characterised by the first difference index d
		d := vc.fresh("bcmp_d", "Int")
		i := vc.freshName("q_i")
		ml := ite(le(a.Len, b.Len), a.Len, b.Len)
		ai := func(x string) string { return sel2(h, a.Arr, plus(a.Off, x)) }
		bi := func(x string) string { return sel2(h, b.Arr, plus(b.Off, x)) }
		vc.assert(and(le("0", d), le(d, ml),
			forall([][2]string{{i, "Int"}}, implies(and(le("0", i), lt(i, d)), eq(ai(i), bi(i)))),
			implies(lt(d, ml), not(eq(ai(d), bi(d)))),
			eq(r, ite(lt(d, ml), ite(lt(ai(d), bi(d)), "(- 1)", "1"), ite(lt(a.Len, b.Len), "(- 1)", ite(lt(b.Len, a.Len), "1", "0"))))))
		vc.note("library model: bytes.Compare is lexicographic byte order")
		return Scalar{r, "Int"}, true
	case "sort.Slice", "sort.SliceStable":
		mi, ok1 := c.Args[0].(*ssa.MakeInterface)
		mc, ok2 := c.Args[1].(*ssa.MakeClosure)
		if !ok1 || !ok2 {
			return nil, false
		}
		sl, ok := fr.val(mi.X).(*SliceV)
		slt, ok3 := under(mi.X.Type()).(*types.Slice)
		if !ok || !ok3 {
			return nil, false
		}
		et := slt.Elem()
		ls := leaves(et)
		if len(ls) != 1 {
			return nil, false
		}
		fl, ok := mc.Fn.(*ssa.Function).Syntax().(*ast.FuncLit)
		if !ok || len(fl.Type.Params.List) == 0 {
			return nil, false
		}
		var pn []string
		for _, f := range fl.Type.Params.List {
			for _, nm := range f.Names {
				pn = append(pn, nm.Name)
			}
		}
		if len(pn) != 2 {
			return nil, false
		}
		// the elements of the slice are permuted (frame: the backing array is written)
		fr.frameCheck(st, Ptr{Root: "E|" + canon(et), Base: sl.Arr, Idx: "0"}, pos)
		hn := "E|" + canon(et) + "|" + ls[0].Path
		sort := vc.heapSortFor(hn, ls[0].Sort)
		h := vc.heap(st, hn, sort)
		na := vc.fresh("sorted", arraySort("Int", ls[0].Sort))
		i := vc.freshName("q_i")
		j := vc.freshName("q_j")
		in := func(x string) string { return and(le(sl.Off, x), lt(x, plus(sl.Off, sl.Len))) }
		rel := func(x string) string { return and(le("0", x), lt(x, sl.Len)) }
		// outside the slice nothing changes; inside, new and old contents are permutations of each other
		// (stated over relative positions, the form in which contracts speak about s[i])
		vc.assert(forall([][2]string{{i, "Int"}}, "(! "+implies(not(in(i)), eq(sel(na, i), sel2(h, sl.Arr, i)))+" :pattern ("+sel(na, i)+"))"))
		newAt := func(x string) string { return sel(na, plus(sl.Off, x)) }
		oldAt := func(x string) string { return sel2(h, sl.Arr, plus(sl.Off, x)) }
		// a bijection perm (new position -> old position) with inverse pinv; stated with functions rather than
		// existentials so that instantiation terminates (perm and pinv cancel)
		perm := vc.freshName("perm")
		pinv := vc.freshName("pinv")
		vc.emit("(declare-fun " + perm + " (Int) Int)")
		vc.emit("(declare-fun " + pinv + " (Int) Int)")
		vc.assert(forall([][2]string{{i, "Int"}}, "(! "+implies(rel(i), and(rel(app(perm, i)), eq(app(pinv, app(perm, i)), i), eq(newAt(i), oldAt(app(perm, i)))))+" :pattern ("+newAt(i)+") :pattern ("+app(perm, i)+"))"))
		vc.assert(forall([][2]string{{j, "Int"}}, "(! "+implies(rel(j), and(rel(app(pinv, j)), eq(app(perm, app(pinv, j)), j), eq(newAt(app(pinv, j)), oldAt(j))))+" :pattern ("+oldAt(j)+") :pattern ("+app(pinv, j)+"))"))
		{
			// the first axiom again, reindexed by k = off+i (a logical consequence of it): contracts quantify over
			// ABSOLUTE positions of the backing array (rebaseIndex), and `(select new k)` does not match the relative
			// pattern `(select new (+ off i))`
			k := vc.freshName("q_i")
			pk := plus(sl.Off, app(perm, minus(k, sl.Off)))
			vc.assert(forall([][2]string{{k, "Int"}}, "(! "+implies(in(k), and(in(pk), eq(sel(na, k), sel2(h, sl.Arr, pk))))+" :pattern ("+sel(na, k)+"))"))
		}
		if _, isPtr := under(et).(*types.Pointer); isPtr {
			// a consequence of the permutation that the solver does not find by itself: no nil element before, none after
			// (same syntactic shape as a contract's forallIn over s[i])
			k := vc.freshName("q_i")
			vc.assert(implies(forall([][2]string{{k, "Int"}}, vc.rebase(k, implies(rel(k), not(eq(oldAt(k), "0"))))),
				forall([][2]string{{k, "Int"}}, vc.rebase(k, implies(rel(k), not(eq(newAt(k), "0")))))))
		}
		vc.setHeap(st, hn, sort, sto(h, sl.Arr, na))
		if vc.logStores {
			vc.storeLog = append(vc.storeLog, storeRec{heap: hn, base: sl.Arr})
		}
		// sortedness: for positions a < b of the result, less(b, a) is false; the comparison closure is evaluated
		// from its source text in the state after the permutation (captured variables read through their cells)
		env := fr.baseEnv(st)
		env.names = map[string]TV{}
		okEnv := true
		for k, fv := range mc.Fn.(*ssa.Function).FreeVars {
			pt, isPtr := fv.Type().(*types.Pointer)
			if !isPtr {
				okEnv = false
				break
			}
			pv, isP := fr.val(mc.Bindings[k]).(Ptr)
			if !isP {
				okEnv = false
				break
			}
			env.names[fv.Name()] = TV{vc.load(st, pv, pt.Elem()), pt.Elem()}
		}
		if okEnv {
			qa, qb := "q_"+pn[0]+"_s", "q_"+pn[1]+"_s"
			env.names[pn[0]] = intTV(qb) // less(b, a)
			env.names[pn[1]] = intTV(qa)
			env.inQuant++
			func() {
				defer func() {
					if r := recover(); r != nil {
						if _, isCE := r.(contractError); !isCE {
							panic(r)
						}
						vc.note("library model: sort.Slice comparison function not expressible; only the permutation property is assumed")
					}
				}()
				vc.enterBinder()
				open := true
				defer func() {
					if open {
						vc.exitBinder()
					}
				}()
				body := env.evalBlock(fl.Body.List).V.(Scalar).T
				tf := vc.exitBinder()
				open = false
				vc.assert(forall([][2]string{{qa, "Int"}, {qb, "Int"}}, vc.rebase(qb, vc.rebase(qa, implies(and(append([]string{le("0", qa), lt(qa, qb), lt(qb, sl.Len)}, tf...)...), not(body))))))
			}()
		}
		vc.note("library model: sort.Slice permutes the slice so that less(b, a) is false for all positions a < b")
		return &StructV{}, true
	case "errors.New", "fmt.Errorf":
		e := vc.fresh("newerr", "Int")
		vc.assert(lt("0", e))
		for _, o := range vc.errGlobals {
			vc.assert(not(eq(e, o)))
		}
		return Scalar{e, "Int"}, true
	case "time.Now":
		vc.note("A-CLOCK: time.Now returns an arbitrary value")
		return vc.freshVal("now", callee.Signature.Results().At(0).Type()), true
	}
	// logging and formatting: pure, results arbitrary
	if isLogLike(name) {
		var vals []Val
		res := callee.Signature.Results()
		for i := 0; i < res.Len(); i++ {
			vals = append(vals, vc.freshVal("log", res.At(i).Type()))
		}
		if len(vals) == 0 {
			return &StructV{}, true
		}
		return tupleVal(vals), true
	}
	return nil, false
}

func isLogLike(name string) bool {
	for _, p := range []string{repoModule + "/fw/core.Log", "(*" + repoModule + "/std/log.", repoModule + "/std/log.", "fmt.Sprintf", "fmt.Sprint", "fmt.Print", "fmt.Fprint", "log.", "(*log.",
		"strconv.Itoa", "strconv.FormatUint", "strconv.FormatInt"} {
		if strings.HasPrefix(name, p) {
			return true
		}
	}
	return false
}

// beBytes decomposes v (an n-byte unsigned value) into its big-endian bytes with a linear Horner chain.
func (vc *VC) beBytes(v string, n int) []string {
	bs := make([]string, n)
	for k := 0; k < n; k++ {
		bs[k] = vc.fresh("byte", "Int")
		vc.assert(and(le("0", bs[k]), le(bs[k], "255")))
	}
	t := bs[0]
	for k := 1; k < n; k++ {
		t = plus(app("*", "256", t), bs[k])
	}
	vc.assert(eq(v, t))
	return bs
}

var _ = types.Typ
