package main

import (
	"fmt"
	"regexp"
	"go/ast"
	"go/token"
	"go/types"
	"os"
	"path/filepath"
	"sort"
	"strings"

	"golang.org/x/tools/go/packages"
	"golang.org/x/tools/go/ssa"
	"golang.org/x/tools/go/ssa/ssautil"
)

const repoModule = "github.com/named-data/ndnd"

type Engine struct {
	RepoDir   string
	Fset      *token.FileSet
	Prog      *ssa.Program
	Pkgs      map[string]*packages.Package
	SPkgs     map[string]*ssa.Package
	Contracts map[string]*Contract
	Lemmas    []*Lemma
	Specs     map[string]*SpecFunc // pkgpath.Name
	FuncDecls map[*types.Func]*ast.FuncDecl
	AllFuncs  map[string]*ssa.Function // by String()
	storedGlobals map[*ssa.Global]bool
	RefineDrop     func(postName string) bool // refinement jobs: concrete postconditions that must not be assumed (unclaimed by the running check)
	CtxContracts   map[string]map[string]*Contract // key -> package of the contract file -> contract (only for keys with several)
	ctxPkg         string                           // package of the function under verification
	ghostScanned   bool
	ghosts         []*ssa.Global
	globalsScanned bool
	DepsDir   string
	IfaceImpls map[string][]string
	origins   map[string]*ssa.Function
	srcCache  map[string][]byte
}

func LoadEngine(repoDir string, patterns []string, depsDir string) (*Engine, error) {
	cfg := &packages.Config{Mode: packages.LoadAllSyntax, Dir: repoDir, BuildFlags: []string{"-tags=verif"},
		Env: append(os.Environ(), "GOFLAGS=-mod=mod", "GOPROXY=off", "GOSUMDB=off", "GOTOOLCHAIN=local")}
	pkgs, err := packages.Load(cfg, patterns...)
	if err != nil {
		return nil, err
	}
	e := &Engine{RepoDir: repoDir, Pkgs: map[string]*packages.Package{}, SPkgs: map[string]*ssa.Package{},
		Contracts: map[string]*Contract{}, Specs: map[string]*SpecFunc{}, FuncDecls: map[*types.Func]*ast.FuncDecl{},
		AllFuncs: map[string]*ssa.Function{}, storedGlobals: map[*ssa.Global]bool{}, DepsDir: depsDir, IfaceImpls: map[string][]string{}, srcCache: map[string][]byte{}}
	var errs []string
	packages.Visit(pkgs, nil, func(p *packages.Package) {
		e.Pkgs[p.PkgPath] = p
		if strings.HasPrefix(p.PkgPath, repoModule) {
			for _, er := range p.Errors {
				errs = append(errs, er.Error())
			}
		}
	})
	if len(errs) > 0 {
		return nil, fmt.Errorf("package errors:\n%s", strings.Join(errs, "\n"))
	}
	if len(pkgs) > 0 {
		e.Fset = pkgs[0].Fset
	}
	prog, _ := ssautil.AllPackages(pkgs, ssa.GlobalDebug|ssa.InstantiateGenerics)
	prog.Build()
	e.Prog = prog
	for _, sp := range prog.AllPackages() {
		e.SPkgs[sp.Pkg.Path()] = sp
	}
	for fn := range ssautil.AllFunctions(prog) {
		e.AllFuncs[fn.String()] = fn
	}
	e.defaultIfaceImpls()
	// contracts & spec functions from repo packages
	var paths []string
	for p := range e.Pkgs {
		paths = append(paths, p)
	}
	sort.Strings(paths)
	for _, pp := range paths {
		p := e.Pkgs[pp]
		if !strings.HasPrefix(pp, repoModule) {
			continue
		}
		for i, f := range p.Syntax {
			fname := p.CompiledGoFiles[i]
			for _, d := range f.Decls {
				if fd, ok := d.(*ast.FuncDecl); ok {
					if obj, ok := p.TypesInfo.Defs[fd.Name].(*types.Func); ok {
						e.FuncDecls[obj] = fd
						// every declared function of the repository is addressable by a contract, also an unexported method
						// that is only called from a package this run did not load (ssautil.AllFunctions lists reachable ones)
						if fn := prog.FuncValue(obj); fn != nil && fn.TypeParams().Len() == 0 {
							if _, have := e.AllFuncs[fn.String()]; !have {
								e.AllFuncs[fn.String()] = fn
							}
						}
					}
				}
			}
			if !strings.HasPrefix(filepath.Base(fname), "zz_verif_") {
				continue
			}
			lines, nos, err := extractContractLines(fname)
			if err != nil {
				return nil, err
			}
			cf, err := parseContractText(lines, nos, fname, pp)
			if err != nil {
				return nil, err
			}
			for _, c := range cf.Contracts {
				if c.View != "" {
					// a view is a further specification of the function, proved from its body in the context "view:<name>" and
					// used only by functions verified in that context; the primary contract (what every other caller sees) is untouched
					ck := "view:" + c.View
					if e.CtxContracts == nil {
						e.CtxContracts = map[string]map[string]*Contract{}
					}
					if e.CtxContracts[c.Key] == nil {
						e.CtxContracts[c.Key] = map[string]*Contract{}
					}
					if old := e.CtxContracts[c.Key][ck]; old != nil {
						return nil, fmt.Errorf("duplicate contract for %s in view %s (%s:%d and %s:%d)", c.Key, c.View, old.File, old.Line, c.File, c.Line)
					}
					e.CtxContracts[c.Key][ck] = c
					continue
				}
				if old, dup := e.Contracts[c.Key]; dup {
					// The same function or interface method may carry one contract per *verification context*: the contract
					// in its own package is the primary one (and the one implementations are checked against); a contract
					// for it in another package is the environment model used while verifying that package (e.g. fw/mgmt
					// sees the table mutators as "authorised and recorded", fw/table sees their effect on the tables).
					if old.PkgPath == c.PkgPath || (e.CtxContracts[c.Key] != nil && e.CtxContracts[c.Key][c.PkgPath] != nil) {
						return nil, fmt.Errorf("duplicate contract for %s (%s:%d and %s:%d)", c.Key, old.File, old.Line, c.File, c.Line)
					}
					if e.CtxContracts == nil {
						e.CtxContracts = map[string]map[string]*Contract{}
					}
					if e.CtxContracts[c.Key] == nil {
						e.CtxContracts[c.Key] = map[string]*Contract{}
					}
					e.CtxContracts[c.Key][c.PkgPath] = c
					e.CtxContracts[c.Key][old.PkgPath] = old
					if strings.Contains(c.Key, c.PkgPath+".") {
						e.Contracts[c.Key] = c // c lives in the package that declares the function: primary
					}
					continue
				}
				e.Contracts[c.Key] = c
			}
			e.Lemmas = append(e.Lemmas, cf.Lemmas...)
			for _, d := range f.Decls {
				if fd, ok := d.(*ast.FuncDecl); ok && fd.Recv == nil {
					e.Specs[pp+"."+fd.Name.Name] = &SpecFunc{Name: fd.Name.Name, PkgPath: pp, Decl: fd, Pkg: p}
				}
			}
		}
	}
	// dependency contracts
	if depsDir != "" {
		files, _ := filepath.Glob(filepath.Join(depsDir, "*.contract"))
		sort.Strings(files)
		for _, fn := range files {
			b, err := os.ReadFile(fn)
			if err != nil {
				return nil, err
			}
			var lines []string
			var nos []int
			for i, ln := range strings.Split(string(b), "\n") {
				t := strings.TrimSpace(ln)
				if t == "" || strings.HasPrefix(t, "#") {
					continue
				}
				lines = append(lines, ln)
				nos = append(nos, i+1)
			}
			cf, err := parseContractText(lines, nos, fn, "")
			if err != nil {
				return nil, err
			}
			for _, c := range cf.Contracts {
				c.Trusted = true
				if old := e.Contracts[c.Key]; old != nil && strings.HasPrefix(old.PkgPath, repoModule) && !strings.HasSuffix(old.File, ".contract") {
					// H11: a repository package's own (trusted) model of a library function stays the contract of that function
					// in that package's verification context; everywhere else the dependency contract applies
					if e.CtxContracts == nil {
						e.CtxContracts = map[string]map[string]*Contract{}
					}
					if e.CtxContracts[c.Key] == nil {
						e.CtxContracts[c.Key] = map[string]*Contract{}
					}
					e.CtxContracts[c.Key][old.PkgPath] = old
				}
				e.Contracts[c.Key] = c
			}
		}
	}
	// schematic contracts for generated code (one schema per generated method kind)
	if depsDir != "" {
		files, _ := filepath.Glob(filepath.Join(filepath.Dir(depsDir), "schemas", "*.schema"))
		sort.Strings(files)
		for _, fn := range files {
			if err := e.loadSchemas(fn); err != nil {
				return nil, err
			}
		}
	}
	return e, nil
}

// loadSchemas reads "schema <regexp> [exclude <regexp>]" blocks followed by contract clauses and instantiates them for
// every repository function whose canonical name matches and that has no contract of its own.
func (e *Engine) loadSchemas(path string) error {
	b, err := os.ReadFile(path)
	if err != nil {
		return err
	}
	type block struct {
		re, ex *regexp.Regexp
		lines  []string
		nos    []int
		also   bool // `schema-also`: the clauses are ADDED to the contract a matching function already has
	}
	var blocks []*block
	var cur *block
	for i, ln := range strings.Split(string(b), "\n") {
		t := strings.TrimSpace(ln)
		if t == "" || strings.HasPrefix(t, "#") {
			continue
		}
		if strings.HasPrefix(t, "schema ") || strings.HasPrefix(t, "schema-also ") {
			f := strings.Fields(t)
			cur = &block{re: regexp.MustCompile(f[1]), also: f[0] == "schema-also"}
			if len(f) >= 4 && f[2] == "exclude" {
				cur.ex = regexp.MustCompile(f[3])
			}
			blocks = append(blocks, cur)
			continue
		}
		if cur == nil {
			return fmt.Errorf("%s:%d: clause outside schema block", path, i+1)
		}
		cur.lines = append(cur.lines, ln)
		cur.nos = append(cur.nos, i+1)
	}
	var names []string
	for n := range e.AllFuncs {
		names = append(names, n)
	}
	sort.Strings(names)
	for _, bl := range blocks {
		for _, n := range names {
			fn := e.AllFuncs[n]
			if !e.inRepo(fn) || fn.Blocks == nil || !bl.re.MatchString(n) || (bl.ex != nil && bl.ex.MatchString(n)) {
				continue
			}
			old, has := e.Contracts[n]
			if has && (!bl.also || old.Trusted) {
				continue
			}
			lines := append([]string{"func " + n + " @" + fn.Pkg.Pkg.Path()}, bl.lines...)
			nos := append([]int{0}, bl.nos...)
			cf, err := parseContractText(lines, nos, path, "")
			if err != nil {
				return err
			}
			c := cf.Contracts[0]
			c.Key = n
			c.Schema = true
			if has {
				// schema-also: one more group of schematic clauses for a function that is already under contract (its own or
				// an earlier schema's). Clauses are only added; nothing of the existing contract is replaced.
				old.Requires = append(old.Requires, c.Requires...)
				old.Ensures = append(old.Ensures, c.Ensures...)
				old.Assumes = append(old.Assumes, c.Assumes...)
				old.Hints = append(old.Hints, c.Hints...)
				old.AtLine = append(old.AtLine, c.AtLine...)
				old.AtReturn = append(old.AtReturn, c.AtReturn...)
				old.ParamInv = append(old.ParamInv, c.ParamInv...)
				old.Uses = append(old.Uses, c.Uses...)
				if len(c.Modifies) > 0 {
					old.Modifies = append(old.Modifies, c.Modifies...)
					old.HasMod = true
				}
				for k, v := range c.Options {
					if old.Options == nil {
						old.Options = map[string]bool{}
					}
					old.Options[k] = v
				}
				continue
			}
			e.Contracts[n] = c
		}
	}
	return nil
}

// FindFunc looks a function up by canonical name.
func (e *Engine) FindFunc(key string) *ssa.Function {
	if f, ok := e.AllFuncs[key]; ok {
		return f
	}
	if strings.Contains(key, "[") {
		// contract on a generic function: any instance whose origin has that name
		if e.origins == nil {
			e.origins = map[string]*ssa.Function{}
			for _, f := range e.AllFuncs {
				if o := f.Origin(); o != nil {
					e.origins[o.String()] = o
				}
			}
			for _, sp := range e.Prog.AllPackages() {
				for _, m := range sp.Members {
					if t, ok := m.(*ssa.Type); ok {
						_ = t
					}
				}
			}
		}
		if f, ok := e.origins[key]; ok {
			return f
		}
		// generic type never instantiated in the loaded packages: look the method up syntactically
		for o, fd := range e.FuncDecls {
			if fd.Recv != nil && strings.HasSuffix(key, ")."+o.Name()) && o.Pkg() != nil && strings.Contains(key, o.Pkg().Path()+".") {
				return e.anyFunc()
			}
		}
	}
	return nil
}

func (e *Engine) anyFunc() *ssa.Function {
	for _, f := range e.AllFuncs {
		return f
	}
	return nil
}

func (e *Engine) contractFor(fn *ssa.Function) *Contract {
	if fn == nil {
		return nil
	}
	if c := e.lookupContract(fn.String()); c != nil {
		return c
	}
	if o := fn.Origin(); o != nil {
		if c := e.lookupContract(o.String()); c != nil {
			return c
		}
	}
	return nil
}

// lookupContract: the contract for key as seen from the package of the function under verification (ctxPkg).
func (e *Engine) lookupContract(key string) *Contract {
	if m := e.CtxContracts[key]; m != nil {
		if c := m[e.ctxPkg]; c != nil {
			return c
		}
	}
	return e.Contracts[key]
}

// contractForCtx: the contract of fn as seen from the verification context ctx ("" = the current one).
func (e *Engine) contractForCtx(fn *ssa.Function, ctx string) *Contract {
	if fn != nil && ctx != "" {
		if m := e.CtxContracts[fn.String()]; m != nil && m[ctx] != nil {
			return m[ctx]
		}
	}
	return e.contractFor(fn)
}

func (e *Engine) inRepo(fn *ssa.Function) bool {
	if fn != nil && fn.Pkg == nil && fn.Origin() != nil {
		fn = fn.Origin() // instantiated generic: go/ssa leaves Pkg nil on instances
	}
	return fn != nil && fn.Pkg != nil && strings.HasPrefix(fn.Pkg.Pkg.Path(), repoModule)
}

// scanGlobals records which globals are ever stored to (outside package initialisers).
// ghostGlobals: package-level variables named ghost* declared in contract files (zz_verif_*.go) of the loaded packages.
// They are exempt from the frame discipline: any call applied through a contract may change them (applyMods havocs
// them at every such call), and no modifies clause has to list them.
func (e *Engine) ghostGlobals() []*ssa.Global {
	if e.ghostScanned {
		return e.ghosts
	}
	e.ghostScanned = true
	var paths []string
	for p := range e.SPkgs {
		paths = append(paths, p)
	}
	sort.Strings(paths)
	for _, p := range paths {
		sp := e.SPkgs[p]
		if sp == nil {
			continue
		}
		var names []string
		for n := range sp.Members {
			names = append(names, n)
		}
		sort.Strings(names)
		for _, n := range names {
			g, ok := sp.Members[n].(*ssa.Global)
			if !ok || !(strings.HasPrefix(n, "ghost") || strings.HasPrefix(n, "Ghost")) || !g.Pos().IsValid() {
				continue
			}
			if strings.HasPrefix(filepath.Base(e.Fset.Position(g.Pos()).Filename), "zz_verif_") {
				e.ghosts = append(e.ghosts, g)
			}
		}
	}
	return e.ghosts
}

func (e *Engine) scanGlobals() {
	if e.globalsScanned {
		return
	}
	e.globalsScanned = true
	for _, fn := range e.AllFuncs {
		isInit := fn.Name() == "init" || strings.HasPrefix(fn.Name(), "init#")
		for _, b := range fn.Blocks {
			for _, ins := range b.Instrs {
				for _, op := range ins.Operands(nil) {
					g, ok := (*op).(*ssa.Global)
					if !ok {
						continue
					}
					switch in := ins.(type) {
					case *ssa.UnOp:
						continue // load
					case *ssa.Store:
						if in.Addr == g && isInit {
							continue
						}
					case *ssa.FieldAddr, *ssa.IndexAddr:
						if isInit {
							continue
						}
					}
					if isInit {
						continue
					}
					e.storedGlobals[g] = true
				}
			}
		}
	}
}

// errorsNewType: if the (immutable) global g is initialised by `errors.New(...)` in its package initialiser, the dynamic
// type of its value, *errors.errorString; nil otherwise.
func (e *Engine) errorsNewType(g *ssa.Global) types.Type {
	if g.Pkg == nil {
		return nil
	}
	init := g.Pkg.Func("init")
	if init == nil {
		return nil
	}
	isNew := false
	for _, b := range init.Blocks {
		for _, in := range b.Instrs {
			st, ok := in.(*ssa.Store)
			if !ok || st.Addr != ssa.Value(g) {
				continue
			}
			c, ok := st.Val.(*ssa.Call)
			if !ok {
				return nil
			}
			f := c.Call.StaticCallee()
			if f == nil || f.String() != "errors.New" {
				return nil
			}
			isNew = true
		}
	}
	if !isNew {
		return nil
	}
	ep := e.Pkgs["errors"]
	if ep == nil || ep.Types == nil {
		return nil
	}
	o := ep.Types.Scope().Lookup("errorString")
	if o == nil {
		return nil
	}
	return types.NewPointer(o.Type())
}

func (e *Engine) immutableGlobal(g *ssa.Global) bool {
	if g.Pos().IsValid() && strings.HasPrefix(filepath.Base(e.Fset.Position(g.Pos()).Filename), "zz_verif_") {
		return false // ghost state declared in a contract file
	}
	e.scanGlobals()
	return !e.storedGlobals[g]
}

func (e *Engine) posString(p token.Pos) string {
	if !p.IsValid() {
		return "?"
	}
	ps := e.Fset.Position(p)
	f := ps.Filename
	if rel, err := filepath.Rel(e.RepoDir, f); err == nil && !strings.HasPrefix(rel, "..") {
		f = rel
	}
	return fmt.Sprintf("%s:%d", f, ps.Line)
}

// srcText returns the source text between two positions (single line-ish, whitespace-normalised).
func (e *Engine) srcText(n ast.Node) string {
	if n == nil || !n.Pos().IsValid() {
		return ""
	}
	p0 := e.Fset.Position(n.Pos())
	p1 := e.Fset.Position(n.End())
	b, ok := e.srcCache[p0.Filename]
	var err error
	if !ok {
		b, err = os.ReadFile(p0.Filename)
		e.srcCache[p0.Filename] = b
	}
	if err != nil || p1.Offset > len(b) || p0.Offset > p1.Offset {
		return ""
	}
	return strings.Join(strings.Fields(string(b[p0.Offset:p1.Offset])), " ")
}

// resolveQualifiedType resolves "*pkg/path.Name" or "pkg/path.Name".
func (e *Engine) resolveQualifiedType(s string) types.Type {
	ptr := strings.HasPrefix(s, "*")
	n := strings.TrimPrefix(s, "*")
	k := strings.LastIndex(n, ".")
	if k < 0 || !strings.Contains(n, "/") {
		return nil
	}
	p, ok := e.Pkgs[n[:k]]
	if !ok || p.Types == nil {
		return nil
	}
	o := p.Types.Scope().Lookup(n[k+1:])
	if o == nil {
		return nil
	}
	if ptr {
		return types.NewPointer(o.Type())
	}
	return o.Type()
}

// default closed-world implementations of the reader interfaces (the two readers in std/encoding)
func (e *Engine) defaultIfaceImpls() {
	readers := []string{"*" + repoModule + "/std/encoding.BufferReader", "*" + repoModule + "/std/encoding.WireReader"}
	for _, k := range []string{repoModule + "/std/encoding.ParseReader", "io.ByteReader"} {
		e.IfaceImpls[k] = readers
	}
}
