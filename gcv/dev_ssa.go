package main

import (
	"flag"
	"fmt"
	"os"
	"regexp"
	"sort"
	"strings"

	"golang.org/x/tools/go/ssa"
)

// cmdSSA: development aid — print the SSA form (with positions and phi comments) of matching functions.
func cmdSSA(args []string) {
	fs := flag.NewFlagSet("ssa", flag.ExitOnError)
	repo := fs.String("repo", "/repo", "repository")
	pkgs := fs.String("pkgs", "./std/encoding", "package patterns (comma separated)")
	re := fs.String("re", ".", "regexp on canonical function names")
	fs.Parse(args)
	eng, err := LoadEngine(*repo, strings.Split(*pkgs, ","), "")
	if err != nil {
		fmt.Println("TOOL-ERROR load:", err)
		os.Exit(2)
	}
	rx := regexp.MustCompile(*re)
	var names []string
	for n, fn := range eng.AllFuncs {
		if eng.inRepo(fn) && rx.MatchString(n) {
			names = append(names, n)
		}
	}
	sort.Strings(names)
	for _, n := range names {
		fn := eng.AllFuncs[n]
		fmt.Println("==", n)
		for _, b := range fn.Blocks {
			fmt.Printf("block %d (idom %v) preds %v succs %v  %s\n", b.Index, b.Idom(), b.Preds, b.Succs, b.Comment)
			for _, in := range b.Instrs {
				s := in.String()
				if v, ok := in.(ssa.Value); ok {
					s = v.Name() + " = " + s
				}
				if p, ok := in.(*ssa.Phi); ok {
					s += "   #" + p.Comment
				}
				fmt.Printf("    %-70s @%s\n", s, eng.posString(in.Pos()))
			}
		}
	}
}
